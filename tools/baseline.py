#!/usr/bin/env python3
"""Run /repo's pinned test suite (guard off) and compare with BASELINE.json's stable_pass list."""
import json, subprocess, sys, os, tempfile, xml.etree.ElementTree as ET
repo = sys.argv[1] if len(sys.argv) > 1 else "/repo"
base = json.load(open("/root/.vp/BASELINE.json"))
fd, xml = tempfile.mkstemp(suffix=".xml"); os.close(fd)
env = dict(os.environ); env.pop("NOSTR_RELAY_VERIF", None)
subprocess.run(["/venv/bin/python", "-m", "pytest", "-ra", "-q", "-p", "no:cacheprovider", "--timeout=900",
                "--continue-on-collection-errors", "--junitxml=" + xml], cwd=repo, env=env,
               stdout=subprocess.DEVNULL, stderr=subprocess.DEVNULL)
passed = set()
for tc in ET.parse(xml).getroot().iter("testcase"):
    if not list(tc):
        passed.add("%s::%s" % (tc.get("classname"), tc.get("name")))
os.unlink(xml)
missing = [t for t in base["stable_pass"] if t not in passed]
print("baseline: %d/%d stable tests pass" % (len(base["stable_pass"]) - len(missing), len(base["stable_pass"])))
for m in missing: print("  MISSING", m)
sys.exit(1 if missing else 0)
