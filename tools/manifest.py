#!/usr/bin/env python3
"""Regenerates /verif/MANIFEST.json from the table below and validates it against the schema."""
import json
import os

VERIF = os.path.dirname(os.path.dirname(os.path.abspath(__file__)))

PY = "/venv/bin/python"

# property id -> (technique, level text, level note, design ref)
CLAIMED = {
    "C18": (
        "Lean 4 theorems (sliding-window invariant by induction over arrival/cleanup sequences) + differential correspondence with rate_limiter.RateLimiter under an injected clock",
        "Proof: NostrRelay/Props/C18.lean proves, for every rule list, every non-decreasing arrival sequence of any length "
        "(with cleanup() interleaved anywhere) and every window position, that the messages let through contain at most n "
        "timestamps per half-open window, that a refusal implies a full rule, and that n=-1 exempts. The model "
        "(NostrRelay/Model/RateLimiter.lean) is a literal transcription of evaluate_rules/is_limited/cleanup and is compared "
        "with the real class on every decision and every deque of generated configurations and arrival sequences; the "
        "property (window bound, over-blocking, override, exemption, state bound) is also evaluated directly on the "
        "implementation's decisions. C18_specific_precedence: a specific-address rule that admits the message ends the "
        "evaluation for every address, IPv4 or IPv6; C18_cleanup_threshold_covers: cleanup()'s threshold covers every "
        "per-address rule, so the window bound survives cleanup() for specific addresses too (both repaired by fix: "
        "commits). Two classes where the current code still "
        "breaks C18 are Lean witnesses + known findings.",
        "Trusted: Lean kernel + propext/Classical.choice/Quot.sound; the correspondence harness; integer injected clock held "
        "constant during one is_limited call; rules with n=0 / empty rule strings treated as configuration errors; "
        "ipaddress.ip_address().packed as scope key is modelled as the normalised address string.",
        "DESIGN.md §6 C18",
    ),
    "C20": (
        "Lean 4 theorems (for-all-chunkings framing law by induction on the chunk list) + differential correspondence with NotifyServer/NotifyClient on in-memory streams",
        "Proof: NostrRelay/Props/C20.lean proves that for every list of chunks whose concatenation is the concatenation of "
        "32-byte ids the readexactly(32) loop hands on exactly those ids (client and server), and end to end, for every "
        "interleaving of relayed units and every re-chunking, each worker looks up exactly the other workers' ids, each "
        "once, never its own. The model loop is compared with the real handle_notify/connect coroutines on StreamReaders "
        "fed chunk by chunk (all cut positions of 1-3 ids, random chunkings, several origins, disconnect mid-id). The "
        "read(32) defect of the pinned tree was repaired by a fix: commit; the old loop is kept as a Lean counter-witness. "
        "Storage glue (Model/Announce.lean, Props/C20Glue.lean): for every interleaving of accepted submissions, writer-thread "
        "takes and commits, an id of an event that is written at all is announced only once other workers can load it "
        "(C20_sql_announced_loadable, C20_kv_announced_loadable), the announced ids of written events are exactly the committed "
        "ids in commit order, none twice (C20_glue_announced_once), and nothing acknowledged as new is left unannounced when the "
        "writer is idle (C20_glue_accepted_announced). Tie: the real add_event on both backends with the notifier replaced by a "
        "probe that, at the instant of the announcement, asks an independent reader of the shared database whether the event "
        "can be loaded (second SQLite connection; LMDB read transaction with the real writer thread, also while another writer "
        "holds the write lock); every observed schedule is replayed through the model. One fix: commit (LMDB announced before "
        "the commit) and one open finding (LMDB ephemeral events cannot be loaded by peers) came out of it.",
        "Trusted: Lean kernel + standard axioms; asyncio.StreamReader/transport semantics (one write() per unit is "
        "contiguous on the peer stream); TCP and the notify server process beyond their byte streams; in the framing part "
        "storage.get_event/notify_all_connected are stubs (C05 covers fan-out).",
        "DESIGN.md §6 C20",
    ),
    "C10": (
        "Lean 4 invariant proof (coherence of the LMDB keyspace by induction over writer tasks) + differential correspondence of the full key list with the real WriterThread on real liblmdb",
        "Proof: NostrRelay/Props/C10.lean defines Coh (every record is filed under its 32-byte id with all its index "
        "entries; every key is the tombstone, a record, or an entry of a stored record under that record's own value) and "
        "proves Coh init, Coh preserved by writeEvent of a fresh event, by deleteEvent of a stored event, by the "
        "replaceable and kind-5 post-save loops, by del tasks and by aborted tasks, hence after every task list "
        "(C10_coherent_reachable, C10_found_iff_stored). The model (Model/KV.lean: key layout, put/delete, scanner, "
        "_post_save, GC walk) is compared with the real code after every task of generated histories: the whole LMDB key "
        "list must be identical; the coherence predicate is also evaluated on the real keyspace with an independent "
        "re-implementation of the documented layout.",
        "Trusted: Lean kernel + standard axioms; the ctypes binding to liblmdb 0.9.31 (or the pure-Python engine) standing "
        "in for py-lmdb; msgpack = pip's vendored msgpack; writer loop body run synchronously; Task.wf (32-byte ids) holds "
        "for admitted events after the is_signed fix; non-string tag items are outside the model (oracle only; one known "
        "finding); a cursor walk interleaved with deletions equals a walk over the snapshot (validated on the real engine).",
        "DESIGN.md §6 C10",
    ),
    "C01": (
        "Lean 4 theorems (soundness of the LMDB residual filter and of the SQL WHERE predicate w.r.t. a NIP-01 specification; table invariant by induction over add_event; quoting round trip) + differential correspondence on both backends + SQL text skeleton check",
        "Proof: NostrRelay/Props/C01.lean proves (KV) every id leaving executePlan is a stored record filed under that id "
        "that satisfies matchesSpec, for every coherent store and every plan, and that every stored record was handed to the "
        "writer by an add task; (SQL) the events/tags table invariant is preserved by every committed add_event (all "
        "pre_save outcomes) and by GC, and under it every row of matchingRows is stored and satisfies matchesSpec for one "
        "filter of the REQ; (text) the quote-doubling literal is read back verbatim by a SQL literal reader for every byte "
        "string, and (Props/C01Text.lean) the colon-escaped literal written since the fix: commit contains no colon that "
        "could start a sqlalchemy.text() bind parameter and reads back as the value once text() has removed the escapes "
        "(C01_sql_literal_roundtrip). Tie: real planner/execute_one_plan on liblmdb and real build_query/run_query on SQLite vs the models "
        "(plan, answer, table dumps); search with an adversarial pool (quotes, backslashes, bind-shaped values, comments, "
        "NUL) incl. the token skeleton and the literal set of the generated SQLite and PostgreSQL statements.",
        "Trusted: Lean kernel + standard axioms; SQLite/aiosqlite/SQLAlchemy; lmdb stand-in; PostgreSQL branch only at "
        "text level; validation (pydantic NostrQuery) is exercised, not modelled; search filters not modelled; the regular "
        "expressions of sqlalchemy.text() are modelled by their effect on colon-escaped text, not re-implemented.",
        "DESIGN.md §6 C01",
    ),
    "C02": (
        "Lean 4 theorems (scanner completeness: abstract over local key conditions, then discharged for the fixed-width indexes of every reachable store; matcher/limit completeness, no-duplicates; SQL WHERE completeness under the table invariant) + differential correspondence on both backends + reference-answer oracle",
        "Proof: Props/C02.lean proves for every sorted store, every match list and every target key that the LMDB scanner "
        "yields the key's event id when the keys between it and the seek position pass the in-match tests and the earlier "
        "matches end with 'next match' (C02_kv_scan_complete). Props/C02Scan.lean discharges those conditions: lexicographic "
        "lemmas on byte strings; scan_complete_fixed (match values of one length in descending order over a sorted store "
        "with the top sentinel whose keys under them have the shape match 00 ts 00 id: every key with its timestamp in the "
        "window is yielded); the kinds, authors and author+kind indexes of a coherent store have that shape; every store "
        "the writer can produce is sorted and keeps the sentinel (wk_reachable, by induction over writer tasks). Hence, "
        "with no hypothesis about neighbouring keys, for every history of writer tasks: C02_kv_kinds_complete_reachable, "
        "C02_kv_authors_complete_reachable, C02_kv_authorkinds_complete_reachable, and at the level of a REQ filter "
        "C02_kv_kinds_filter_complete, C02_kv_authors_filter_complete, C02_kv_authorkinds_filter_complete (authors x kinds in "
        "validated order give strictly descending match values) and C02_kv_ids_filter_complete (a filter naming ids is planned "
        "over the primary keys whatever else it says): every stored event matching the filter under the strict NIP-01 reading "
        "is delivered when the limit does not truncate. Also: execute_one_plan delivers every stored candidate passing the "
        "residual filter, never twice; strict matching implies the residual filter; on SQL every stored row strictly "
        "matching a well-formed filter satisfies its WHERE predicate (rows pairwise distinct). The classes where the "
        "current code is incomplete are Lean witnesses + known findings. Tie/search as C01, plus the oracle 'strict matches "
        "under the limit are all delivered once' with every planner index exercised (distribution in the evidence).",
        "Props/C02Tags.lean: the same for the variable-width tag index under the two hypotheses the open findings show to be "
        "necessary (no `since`; no NUL in stored indexed tags nor in the requested names / values): C02_kv_tags_complete_nosince, "
        "C02_kv_tags_filter_complete, incl. that the planner's own sort hands the match values over in strictly descending order. "
        "Props/C02Multi.lean: a scan restricted to the `events` container of a chained plan is the unrestricted scan filtered by "
        "membership, so the candidates of a MultiIndex plan contain every id both unrestricted scans yield (C02_kv_multi_candidates; "
        "C02_kv_kinds_tags_filter_complete as the worked REQ-level instance). "
        "Props/C02MultiMore.lean: the other two chained plans (authors + tags, authors + kinds + tags), in either order of the two "
        "indexes. Props/C02Created.lean: the created_at range scan serving a filter that names only since / until "
        "(C02_kv_created_complete, _reachable, C02_kv_created_filter_complete); its proof attempt forced the hypothesis 'timestamp "
        "below ff000000', which was run against the real code and is a repaired defect (fix: 5c4c0eb; old behaviour kept as "
        "C02_kv_range_old_start_witness). Props/C02General.lean: ONE statement over every plan the planner can make — "
        "C02_kv_filter_complete: for every filter satisfying ValidFilter (what NostrQuery validation delivers + the two tag-index "
        "hypotheses), every history of writer tasks and whichever of the nine plan shapes serves it, every stored strict match is "
        "delivered when the limit does not truncate. "
        "Partial: with `since` and with NUL characters the tag index is covered by the conditional theorem "
        "(C02_kv_scan_complete), the witnesses of the open findings kv-tag-prefix-since / kv-tag-nul-extension-window and "
        "the search only. Trusted: as C01. Domain: well-formed conjunctive filters (not {} / pure unbounded range scans, "
        "ids/authors of 64 hex digits, no `search`).",
        "DESIGN.md §6 C02",
    ),
    "C12": (
        "Lean 4 theorems (count bound, limited answer = prefix of the unlimited scan, SQL ORDER BY/LIMIT law over an insertion-sort model) + differential correspondence of ordered answers + oracle on counts/recency",
        "Proof: NostrRelay/Props/C12.lean proves for every store and plan that the LMDB answer has at most n events and is "
        "the first n of the unlimited scan (so a limit never reorders or skips, and n >= number of hits truncates nothing); "
        "for SQL that the answer has at most min(limit, default) rows, all of them matching rows, newest first, and that no "
        "omitted matching row is newer than a sent one, for every state and REQ; effectiveLimit <= default_limit; since "
        "the three fix: commits of this property also that an LMDB plan made for a client never carries a limit above "
        "max_limit, null included (C12_kv_cap, C12_kv_at_most_max), and that a single SQL filter with limit 0 is answered "
        "with nothing (C12_sql_limit_zero). Props/C12Order.lean: the answer of a single-kind LMDB plan is ordered by "
        "created_at, newest first, in every store the writer can produce, hence its limit keeps the newest "
        "(C12_kv_single_kind_newest_first, C12_kv_single_kind_limit_keeps_newest). The cases where the current code still violates C12 (per-value order and "
        "MultiIndex set order on LMDB; one LIMIT per REQ on SQL) are witnesses + known findings.",
        "Trusted: as C01/C02; SQLite's ORDER BY/LIMIT is modelled by an insertion sort (ties: any order is accepted by the "
        "tie); Config.max_limit is set to 20 by the harness so that the cap is reachable; newest-first is proved for "
        "single-kind plans (the other single-value fixed-width plans have the same shape; not instantiated), observed for the rest.",
        "DESIGN.md §6 C12",
    ),
    "C11": (
        "Lean 4 theorems (filter refinement => residual/WHERE monotone; SQL answer membership invariant under insertion of a row with a fresh id; union over filters; LMDB walk determined by the keys between target and seek) + paired differential runs",
        "Proof: NostrRelay/Props/C11.lean proves, for all filters/stores/events, that Refines f' f makes the LMDB residual "
        "predicate of f' imply that of f; that a stored non-matching event is never in an LMDB answer whatever else is "
        "stored; that whether the scanner yields a key depends only on the keys between it and the seek position (keys "
        "elsewhere in byte order cannot matter); that on SQL inserting a row with a fresh id and its tag rows changes the "
        "membership of no other row in any REQ's selection; and that the selection of a filter list is the union of the "
        "selections. Props/C11Filter.lean lifts this to a REQ filter on LMDB over every history of writer tasks and whichever plan "
        "the planner makes: C11_kv_filter_exact (the answer is exactly the stored matching events: C01 soundness + C02 "
        "completeness), C11_kv_filter_unrelated_data (two histories whose stores hold the same matching events are answered "
        "alike, whatever else was added, replaced or deleted), C11_kv_filter_narrowing (a narrower filter gets a subset), "
        "C11_kv_filter_union (split values give the union) — for validated filters, when no stored event sits on a since/until "
        "bound or matches through a delegator only, and the limit does not truncate. Search: paired runs with byte-order neighbours (ids/authors/kinds/tag values/timestamps), narrowed "
        "filters, split multi-value conditions, compared as id sets modulo events exactly on a since/until bound.",
        "Trusted: as C02. Events whose timestamp equals a since/until bound are not compared (the backends and indexes "
        "differ on bound inclusivity, which the properties leave open). Neighbour events use regular kinds only.",
        "DESIGN.md §6 C11",
    ),
    "C09": (
        "Lean 4 theorems (frame condition of the LMDB writer's add task via scanner soundness + key ownership under the coherence invariant; SQL pre_save/post_save characterisation) + differential correspondence of the stored set after every event on both backends",
        "Proof: NostrRelay/Props/C09.lean proves for every coherent LMDB store and every added event that whatever "
        "disappears is not the new event, has the new event's author and kind, is not newer and (kinds 30000-39999) has "
        "the same d value — first d tag, \"\" when missing or bare — and that regular events remove nothing "
        "(kv_add_removed_spec, via scanner soundness, big-endian order and key ownership in Props/KVScan.lean); "
        "Props/C09Complete.lean adds completeness: C09_kv_older_gone — in every coherent, sorted store with the sentinel "
        "(hence every store the writer can produce), when the transaction of a new replaceable event succeeds every other "
        "stored event of the same author, kind and (30000-39999) d value that is not newer is gone afterwards, via the "
        "unconditional completeness of the author+kind index scan (C02Scan) and replaceLoop_complete; for SQL "
        "that every row that disappears has the new event's address and is strictly older, that after an accepted "
        "replaceable event no older version of its address is left, and that nothing at least as new is removed. Both "
        "backends violated C09 on the pinned tree (d-tag substring test / missing d deletes all on LMDB; only one older "
        "row removed on SQL): repaired by two fix: commits, kept as regression replays.",
        "Trusted: as C10/C01; validators disabled for the synthetic histories; PkOk (32-byte pubkeys) holds for admitted "
        "events (BIP-340 verification); 'older' on LMDB is '<=' (equal timestamps are left open by the property).",
        "DESIGN.md §6 C09",
    ),
    "C08": (
        "Lean 4 theorems (LMDB frame condition of a kind-5 add task via scanner soundness + key ownership; exact characterisation of the SQL rows after a committed kind-5 event) + differential correspondence of the stored set after every event on both backends",
        "Proof: NostrRelay/Props/C08.lean proves for every coherent LMDB store that whatever a kind-5 event removes was "
        "published by the deletion's pubkey, is strictly older and is the hex decoding of one of its e tags "
        "(C08_kv_delete_frame, deletionRefs_mem); for SQL that after a committed new kind-5 event a row is present iff it "
        "was present and is not (same pubkey and referenced) — frame and completeness in one statement "
        "(C08_sql_delete_exact). LMDB completeness is Props/C08Complete.lean: C08_kv_delete_complete — in every coherent, "
        "sorted store with the sentinel (hence every store the writer can produce: ..._reachable), when the transaction of "
        "a new kind-5 event succeeds, every stored event of the same author that it references and that is strictly older "
        "is gone afterwards; it rests on the unconditional completeness of the authors-index scan (C02Scan) and on "
        "deleteLoop_complete. The oracle also checks get_event and a query by id after the deletion, and deletions with "
        "no usable reference. Two LMDB defects found by this check were repaired (seek sentinel at until; abort on a "
        "malformed e tag).",
        "Trusted: as C09/C10. Validators disabled for the synthetic histories. 'Referenced' = an e tag whose value "
        "bytes.fromhex / kv.bytes_from_hex decodes to the id (upper case and the odd-length fix-up included).",
        "DESIGN.md §6 C08",
    ),
    "C17": (
        "Lean 4 theorems (exact row set after a SQL GC pass; soundness of the LMDB collector's range walks; coherence after the queued deletions) + differential correspondence under an injected clock",
        "Proof: NostrRelay/Props/C17.lean proves for every SQL state and time that a row survives a pass iff it is not "
        "ephemeral and has no expiration tag row smaller than str(now) in the string order the code uses (hence every "
        "ephemeral row goes, nothing without an expiration goes, the table invariant survives); for LMDB that every "
        "queued id comes from a key inside one of the two walked ranges and that applying the queued deletions keeps the "
        "keyspace coherent (C10). That the comparison is a string comparison is the open finding on both backends "
        "(witness theorem). Tie/search: real collectors on both backends at T-1/T/T+1 with boundary and malformed "
        "expirations.",
        "Trusted: as C10/C01; clock replaced by a constant; on LMDB ephemeral kinds are never stored by add_event.",
        "DESIGN.md §6 C17",
    ),
    "C04": (
        "Lean 4 round-trip theorems for the hand-written frame serialiser (string escaping, tag arrays, EOSE and EVENT frames, for all code-point strings) and for the LMDB record codec (msgpack pack / unpack, for all values) + differential correspondence with util.event_as_json / the EOSE branch + storage/live/HTTP round-trip oracle with really signed events",
        "Proof: NostrRelay/Props/C04.lean proves that for every string (any code points) the JSON string reader returns "
        "exactly the encoded string and the untouched rest; that every tag structure of strings is read back verbatim; and "
        "that for every subscription id, content and tags the EOSE and EVENT frames parse back field for field "
        "(C04_parse_event, under FieldsOk: hex fields without quotes, numbers as digits). The model serialiser is compared "
        "code point by code point with the real one on random events drawn from every escape class; every emitted frame is "
        "also parsed with Python's json. Served = accepted is checked with really signed events through add_event, "
        "get_event, query, live push and HTTP /e/<id> on both backends, re-verifying id and signature. Two defects found "
        "here were repaired (frames with raw sub ids / str()-formatted tag items; non-canonical hex pubkey/sig). "
        "The LMDB record codec is inside the model (Model/MsgPack.lean: msgpack packb / unpackb as kv.encode_event / "
        "decode_event use them; Props/C04Record.lean): MP.C04_unpackb_packb — unpackb(packb(v)) = v for every value packb "
        "accepts (integers of every width, strings / byte strings / arrays / objects of every header size, floats, booleans, "
        "null, any nesting), MP.C04_kv_record_roundtrip — the record read back has exactly the fields of the event written, "
        "MP.C04_kv_record_refused_iff; tied byte for byte to the real packer and reader, and the record's field order is also "
        "regenerated from kv.py's source by the translator (tie_encodeRow).",
        "Trusted: rapidjson / json / SQLite JSON codecs (exercised, not modelled); msgpack nesting beyond 511 levels, ext types "
        "and strict UTF-8 decoding of str payloads are not modelled; non-string tag items are "
        "outside the Lean frame model (oracle only); OK/NOTICE/AUTH frames come from rapidjson's encoder and are "
        "shape-checked in C13/C19.",
        "DESIGN.md §6 C04",
    ),
    "C03": (
        "Lean 4 theorems on the decision logic of is_signed / the validator pipeline over independently computed cryptographic facts + differential correspondence with the real validate_event and add_event on both backends",
        "Proof: NostrRelay/Props/C03.lean proves that is_signed returns ok only if the id is the hash of the event's own "
        "serialisation, the signature over that id is valid under the (parsable) pubkey, pubkey/sig are canonical hex and "
        "every NIP-26 delegation tag is well-formed and validly signed; that the pipeline accepts iff every configured "
        "validator accepts; hence any pipeline containing is_signed admits only authentic events. Tie: the real "
        "validate_event verdict (ok / StorageError / other exception) equals the model's on 27 mutation classes of "
        "genuinely signed events, with the facts computed by hashlib + coincurve directly; search: accepted, stored or "
        "broadcast on either backend implies authentic, including resubmission of a seen id with a bad signature. All "
        "admission paths (websocket EVENT, cli load, add_service_event, foaf) end in storage.add_event -> validate_event.",
        "Trusted: SHA-256 and BIP-340 implementations; the relay's own serialisation (rapidjson) is taken as 'the "
        "NIP-01 serialisation'; a configuration without is_signed is outside the property's mechanism.",
        "DESIGN.md §6 C03",
    ),
    "C15": (
        "Lean 4 theorem on the decision logic of Authenticator.authenticate + differential correspondence under an injected clock + identity check through web.start_client",
        "Proof: NostrRelay/Props/C15.lean proves that authenticate yields a token only for a dict that verifies as a "
        "kind-22242 event, timestamped strictly within 600 s of now, with a relay tag whose url is one the relay answers to, "
        "a challenge tag equal to this connection's challenge and no relay/challenge tag with another value; and that any "
        "other outcome leaves the stored identity unchanged. Tie: the real authenticate (ok / AuthenticationError / other "
        "exception) equals the model on the full neighbourhood of a valid answer for relay_urls unset / string / list. "
        "Through the real start_client: a captured answer does not authenticate another connection; a failed AUTH after a "
        "good one keeps the identity; challenges are distinct 128-bit hex strings. Since round 10 check_auth_event is moreover "
        "translated from the current source on every run, its loop over the tags included (harness/lib/translate_validators.py), "
        "and Lean proves the translation equal to the model's authenticate / scanAuthTags for every clock value, event and "
        "configuration (tie_auth_loop by induction over the tags, tie_check_auth_event).",
        "Partial: unpredictability of secrets.token_hex is trusted, not modelled. Trusted: BIP-340/SHA-256; clock replaced "
        "by a constant integer.",
        "DESIGN.md §6 C15",
    ),
    "C16": (
        "Lean 4 iff-theorems for every validator at its documented bound (the validators' model proved equal to a per-run translation of validators.py), pipeline theorem, and an all-cut-points theorem for the dynamic list refresh as a sequence of atomic set operations + differential correspondence with the real validators, pipeline and ListBuilder.run_once",
        "Proof: NostrRelay/Props/C16.lean proves one iff per validator (size, age both ways, kinds, allow/deny lists, PoW "
        "bits, p-tag limit for kinds 1/7, service-event author, dynamic lists), that the pipeline admits iff every "
        "configured validator admits, that with the add-then-intersect refresh every state observable between the set "
        "operations is non-empty when old and new list are non-empty, and that the result is exactly the new set; the old "
        "clear-then-update refresh is shown to pass through the empty set (repaired defect). Tie: each real validator at "
        "bound-1/bound/bound+1 under an injected clock; the real pipeline through add_event on both backends (refused with "
        "a reason, nothing stored or broadcast); run_once with an instrumented set probing before/after every set method "
        "and at every await of the query loop, its operation sequence replayed through the Lean `observable`. "
        "Props/C16Nip05.lean covers the NIP-05 policy verification.is_nip05_verified (chained before is_pubkey_allowed): refuses "
        "exactly kind-0 events that do not mention nip05 under `enabled` (C16_nip05_rejects_iff), never switches an unenforced "
        "allow list on, never shrinks an enforced one, adds only the author of the metadata event at hand, who is then admitted "
        "unless denied (the documented temporary admission of a candidate); tied to the real function (the optional nostr_bot "
        "dependency is replaced by a name-only stand-in). The eight policy validators of validators.py are moreover translated "
        "from the current source on every run (harness/lib/translate_validators.py, statement by statement) and Lean proves each "
        "translated function equal to the model's for every configuration, clock value and event (tie_is_* theorems) — for them "
        "the tie between model and code is a theorem, not a sample. Concurrent submissions claiming one id and configurations whose "
        "validators cannot be resolved are part of the search.",
        "Partial: atomicity of a single set method under the GIL is trusted. The empty-query-result case (static whitelist "
        "dropped) was repaired by a fix: commit.",
        "DESIGN.md §6 C16",
    ),
    "C14": (
        "Lean 4 theorems on the can_do decision and role read-back + differential correspondence of can_do + authorization matrix through the real web.start_client on both backends",
        "Proof: NostrRelay/Props/C14.lean proves that with authentication enabled an action is allowed iff the token's "
        "roles intersect the roles configured for it (always when disabled or unconfigured) and that stored role strings "
        "read back as the set of their lower-cased characters. Tie: real Authenticator.can_do on the full matrix. Search: "
        "through start_client with real NIP-42 identities on SQLite and LMDB — EVENT stored/broadcast iff roles intersect "
        "'save' (else one OK false 'restricted', not stored, not seen by an all-powerful observer), REQ served iff roles "
        "intersect 'query' (else NOTICE 'restricted', no subscription, nothing pushed later), the homeserver output "
        "validator on stored answers and live pushes, role assignments set repeatedly and read back. Two defects found "
        "here were repaired (no save check on LMDB; live pushes bypassing the output validator), and a third in round 10: the HTTP "
        "read path GET /e/<id> ignored the query roles and the output validator (fix: 3e99d65) — that path is in the matrix now, next "
        "to connections whose identity changes mid-life and clients publishing look-alike role records.",
        "Trusted: the wiring (which call sites consult can_do / check_output) is exercised, not proved; evaluate_target is "
        "the shipped no-op; BIP-340.",
        "DESIGN.md §6 C14",
    ),
    "C06": (
        "Lean 4 theorems on the storage models (SQL: changed=true implies stored and not previously stored, resubmission changes nothing, refusal leaves the tables as they were; LMDB: duplicate task is the identity, a committed fresh add leaves the record, an aborted transaction is the identity) + differential correspondence of whole sessions through web.start_client",
        "Proof: NostrRelay/Props/C06.lean. Tie: sessions of EVENT messages through the real start_client on both backends; "
        "after every message (loop settled, LMDB writer drained) the stored set / key list equals the model's and the OK "
        "flag equals the model outcome. Search: exactly one OK per EVENT; OK=true implies retrievable, or ephemeral and "
        "seen by an observer, or superseded; OK=false implies stored set, keyspace and observer untouched and a reason "
        "given; valid events are refused only as duplicates; resubmissions change nothing and are not re-broadcast. Two "
        "defects found here were repaired (LMDB acknowledged-but-lost / duplicates; SQL resubmission deleting older "
        "versions). Props/C06Inflight.lean over Model/Announce.lean (LMDB add_event + writer thread as submissions, writer "
        "takes and commits): a storable event whose id is stored, being written or queued changes nothing "
        "(C06_kv_resubmission_refused) and, under every interleaving, the events acknowledged as new have pairwise distinct "
        "ids (C06_kv_accepted_once, C06_sql_accepted_once); tied by the in-flight scenario with the real writer thread "
        "(another writer holds the write lock while the event is resubmitted). Props/C06Storable.lean: the refusal at the door, "
        "kv.check_storable, is modelled (record encodable per Model/MsgPack and every index key + 38-byte suffix within LMDB's 511 "
        "bytes): C06_kv_storable_write_succeeds (an event that passed the check cannot abort its write for size or range), "
        "C06_kv_unstorable_has_long_key; tied to the real function on keys of 440-480 bytes and out-of-range numbers.",
        "Trusted: the 'one OK frame per EVENT' part is observed on the real handler, its proof belongs to the protocol "
        "model (C13/C19); quiescence is established by settling the loop and draining the writer.",
        "DESIGN.md §6 C06",
    ),
    "C07": (
        "Lean 4 theorems on the transaction model (all-or-nothing, later tasks proceed, coherence after failure; fault at the k-th put fails the whole sequence) + fault enumeration against the real code: engine errors at every mutation point of both backends and process kills on file-backed stores",
        "Partial by nature: atomicity and durability of a transaction are properties of LMDB / SQLite (trusted). The model "
        "(Props/C07.lean) states what the relay's code must add: all mutations of one event in one transaction whose failure "
        "leaves the state unchanged, and no effect on later events. The tie is a fault enumeration: a hook in the lmdb "
        "stand-in (below kv.py) raises MapFullError / lmdb.Error / RuntimeError at the k-th put/delete/commit of the writer "
        "task, a SQLAlchemy listener raises at the k-th statement of add_event, for every event of generated histories "
        "(replaceable supersession, kind-0 clean-up, kind-5 deletions); the store must equal the state before the event and "
        "the remaining events must give the state of the history without it. Child processes are killed with os._exit at "
        "sampled mutation points on file-backed LMDB (real liblmdb) and SQLite and the parent reopens the files.",
        "Trusted: engine atomicity/durability, WAL recovery, fsync; the ctypes binding; quick tier samples up to 6 mutation "
        "points per event and 3 kills per backend, thorough enumerates all points.",
        "DESIGN.md §6 C07",
    ),
    "C13": (
        "Lean 4 invariant and refinement theorems over a labelled transition system of the websocket protocol (all schedules of handler, query, notify and sender tasks) + differential correspondence of per-connection transcripts and the subscription registry with the real web.start_client on both backends",
        "Proof: NostrRelay/Model/Proto.lean is the protocol machine (connect / REQ / CLOSE / EVENT / one notify task / one "
        "query-task step / one sender step / disconnect as labels; a schedule is any list of labels). Props/ProtoInv.lean "
        "proves an 19-clause invariant for every reachable state; Props/C13.lean proves for every schedule: at most one "
        "sentinel (EOSE) per Subscription object in flight or sent (C13_eose_at_most_once), the REQ outcome trichotomy "
        "NOTICE / immediate EOSE / registered with a fresh query task (C13_req_outcomes), a running query puts its stored "
        "answer in order and then exactly one sentinel (C13_query_runs_to_eose; end to end with the sender: "
        "C13_req_answered_settled) and is always enabled until then, the "
        "sender is enabled while the queue is non-empty, the per-connection limit (C13_limit) and that a refusal at the "
        "limit leaves registry and query tasks untouched (C13_limit_refusal_intact), CLOSE/replacement remove the entry and "
        "cancel the task, a cancelled task puts no further event, and after disconnect the connection holds nothing and "
        "is never sent anything again for any continuation (C13_nothing_after_disconnect). Tie: random and directed "
        "multi-connection sessions through the real start_client on SQLite and LMDB, the same history run through the "
        "machine with its settled schedule; frames per connection per message and the registry must agree; the machine's "
        "abstract inputs (usable, answer, match, accepted) come from an independent reference, not from the implementation.",
        "Partial: 'is eventually sent' is stated as enabledness + the settled schedule (no fairness in the model); beyond "
        "the settled sessions the check records unsettled bursts as label sequences that must be runs of the machine "
        "(proto.trace); interleavings the event loop never produces are covered by the theorems only. Trusted: asyncio task/cancel semantics as encoded in the labels; asyncio.Queue FIFO.",
        "DESIGN.md §6 C13",
    ),
    "C05": (
        "Lean 4 theorems over the protocol transition system (fan-out = registry at acceptance, at most once, own id / own connection, only subscriptions open at acceptance, round completeness; all schedules) and a sandwich theorem for live matching + differential correspondence of check_event and of session transcripts on both backends",
        "Proof: Props/C05.lean proves for every schedule of the protocol machine: the notify tasks created on acceptance "
        "are exactly the registered Subscription objects, one each (C05_fanout_exact); no (event, subscription) pair is "
        "pushed twice (C05_live_at_most_once); every queued or sent item was put by an object the receiving connection "
        "opened under that very name (C05_delivered_under_own_id); an object not registered at acceptance — closed, "
        "replaced, disconnected or opened later — is never pushed that event whatever happens next "
        "(C05_only_open_at_accept); when the round has run every target was evaluated exactly once; constructively, "
        "under the settled schedule every connection's queue gains exactly one live item per registered matching "
        "subscription (C05_settled_fanout). Model/Live.lean "
        "transcribes check_event; C05_live_complete / C05_live_sound prove strict NIP-01 reading => live match => generous "
        "reading for every filter that states a condition. Tie: real check_event vs liveMatch on generated pairs; fan-out "
        "sessions on both backends with colliding connection ids, pushes compared with 'once per open matching "
        "subscription' from a reference registry and matcher, and with the machine; live-vs-stored agreement per filter "
        "on both backends incl. a validly NIP-26-delegated event and empty tag values. Two defects of check_event were "
        "repaired (until/since 0, empty tag value); two SQL stored-side disagreements are known findings. Since round 11 "
        "check_event is translated from the current source on every run, clause by clause, and Lean proves the translation equal "
        "to the model's liveMatch for every filter list and event (tie_check_event).",
        "Partial: the checks observe the interleavings the event loop produces (settled sessions, query tasks held at "
        "their start, and recorded bursts whose label sequence must be a run of the machine with equal transcripts — "
        "harness/lib/ptrace.py, driver op proto.trace); the others are covered by the theorems, not enumerated against the "
        "implementation. Trusted: asyncio semantics as encoded in the labels.",
        "DESIGN.md §6 C05",
    ),
    "C19": (
        "Lean 4 theorems on the handler's gate and exception ladder and on the protocol transition system (an open connection is never wedged, other connections undisturbed, disconnect drops everything) + differential correspondence by fault injection and a typed-mutation grammar against the real web.start_client on both backends",
        "Proof: Model/Handler.lean transcribes validate_message and the except-ladder of start_client; Props/C19.lean proves "
        "the gate's exact domain, that every Exception class raised in the loop body is mapped to 'go on' (own errors: "
        "with a NOTICE) or 'end this connection cleanly' and none escapes, that whatever add_event raises the client gets "
        "its OK frame, that a REQ has no silent outcome; and on the protocol machine, for every state: the handler of an "
        "open connection can always process REQ / CLOSE / EVENT / disconnect (C19_open_conn_never_wedged, with "
        "C05_task_enabled for the notification round), one connection's REQ / CLOSE / sender / disconnect steps leave every "
        "other connection's queue, transcript and subscriptions unchanged (C19_others_undisturbed), and disconnect drops "
        "all subscriptions (with C13_nothing_after_disconnect). Tie: the real gate on generated JSON; 15 exception classes "
        "injected at subscribe / unsubscribe / ws_recv / add_event on both backends, observed outcome = ladder's; the answer "
        "kind of every grammar frame must be in the model's `allowed` table. Search: the typed-mutation grammar named in "
        "the property (23 JSON values at every position), hostile validly-signed events, raw texts, depth and size, "
        "with and without NIP-42, probes on the same and a second connection and a live-push watcher after every frame; "
        "no escape, clean close, empty registry and no pending task at the end.",
        "Partial: which exception the real code raises for which bytes is observed, not proved; the websocket server "
        "(falcon/uvicorn), its frame size limits and OS resource exhaustion are outside the model. Trusted: asyncio "
        "exception propagation as encoded in the ladder.",
        "DESIGN.md §6 C19",
    ),
}

NOT_YET = "not reached yet in this round (model/tie not built); see DESIGN.md §10 staging — no weaker technique is substituted"


def main():
    props = [json.loads(l) for l in open(os.path.join(VERIF, "properties.jsonl"))]
    ids = [p["id"] for p in props]
    checks = []
    for pid in ids:
        if pid in CLAIMED:
            tech, text, note, ref = CLAIMED[pid]
            checks.append({
                "property_id": pid,
                "quick_cmd": "%s harness/check.py %s --tier quick" % (PY, pid),
                "thorough_cmd": "%s harness/check.py %s --tier thorough" % (PY, pid),
                "evidence_file": "/verif/evidence/%s.json" % pid,
                "replay_cmd_template": "%s harness/check.py %s --replay {path}" % (PY, pid),
                "engine": "lean-model",
                "level_claimed": {"category": "proof", "text": text, "design_ref": ref},
                "level_note": note,
                "technique": tech,
            })
    claimed = [c["property_id"] for c in checks]
    m = {
        "version": 1,
        "setup_cmd": "cd lean && lake build NostrRelay driver && lake env lean Audit.lean > .lake/audit.out",
        "hooks": {
            "guard": "NOSTR_RELAY_VERIF",
            "enable": "no source hooks are needed: the harness imports /repo's working tree in-process, replaces clocks, "
                      "sockets and executors from outside and puts lmdb/msgpack stand-ins (harness/shims) on sys.path; "
                      "NOSTR_RELAY_VERIF=1 is set by the harness and reserved for a future trace hook",
            "baseline_off_cmd": "cd /repo && /venv/bin/python -m pytest -ra -q -p no:cacheprovider --timeout=900 --continue-on-collection-errors",
            "source_commits": json.load(open(os.path.join(VERIF, "tools", "source_commits.json"))) if os.path.exists(os.path.join(VERIF, "tools", "source_commits.json")) else [],
            "add_only": True,
        },
        "engines": [
            {"name": "lean-model", "path": "lean/", "serves_properties": claimed,
             "kind_free_text": "Lean 4 library NostrRelay: import-free executable models (NostrRelay/Model), property theorems "
                               "(NostrRelay/Props), axiom audit (Audit.lean), compiled line-protocol driver (Driver.lean)"},
            {"name": "harness", "path": "harness/", "serves_properties": claimed,
             "kind_free_text": "Python correspondence runner (real code in-process vs Lean driver), failing-input search on the "
                               "real code, known-findings classification, evidence writer"},
        ],
        "checks": checks,
        "not_applicable": [{"property_id": pid, "reason": NOT_YET} for pid in ids if pid not in CLAIMED],
        "notes": "Every claimed property: theorem on a hand-written Lean model + correspondence check run on every invocation. "
                 "Second tie, by translation (DESIGN.md 3.5): on every run harness/lib/translate.py regenerates the LMDB key / record layout from "
                 "kv.py's source (C01 C02 C04 C06-C12 C17; twelve tie theorems) and harness/lib/translate_validators.py the decision logic of "
                 "validators.py + dynamic_lists.is_pubkey_allowed (C16), Authenticator.check_auth_event (C15), BaseSubscription.check_event "
                 "(C05) and the interval table of RateLimiter.parse_option (C18); Lean proves each translation equal to the model. "
                 "known_findings.json lists genuine defects of the pinned tree (printed as KNOWN-FINDING).",
    }
    json.dump(m, open(os.path.join(VERIF, "MANIFEST.json"), "w"), indent=1)
    try:
        import jsonschema
        jsonschema.validate(m, json.load(open("/root/.vp/MANIFEST.schema.json")))
        print("MANIFEST.json valid;", len(checks), "checks")
    except ImportError:
        print("MANIFEST.json written (jsonschema not available here)")


if __name__ == "__main__":
    main()
