#!/usr/bin/env python3
"""
Self-test of the source-to-Lean translator (harness/lib/translate.py): textual mutations of a scratch copy of kv.py.
 - layout-changing mutations must break the tie theorem that rests on the mutated expression;
 - behaviour-preserving rewrites of the same expressions must leave every tie theorem checked.
Usage: tools/tie_selftest.py      (prints one line per mutation; exit 1 if any expectation fails)
"""
import os, shutil, sys, tempfile
HERE = os.path.dirname(os.path.dirname(os.path.abspath(__file__)))
sys.path.insert(0, os.path.join(HERE, "harness"))
from lib import translate

BREAKING = [
    ("tag index prefix 09 -> 0a", 'prefix = b"\\x09"', 'prefix = b"\\x0a"', {"tie_tagKey", "tie_convKeys"}),
    ("timestamp slice -37:-33 -> -36:-32", "ts = key[-37:-33]", "ts = key[-36:-32]", {"tie_badKey"}),
    ("id slice -32 -> -33", "event_id = key[-32:]\n                    if event_id in events", "event_id = key[-33:]\n                    if event_id in events", {"tie_walk_id"}),
    ("separator of Index.write 00 -> 01", 'to_save = b"%s\\x00%s\\x00%s"', 'to_save = b"%s\\x01%s\\x00%s"', {"tie_fullKey"}),
    ("seek suffix ff -> fe", 'match + add_time + b"\\xff"', 'match + add_time + b"\\xfe"', {"tie_scanMatches"}),
    ("add_time terminator 01 -> 02", 'add_time = b"\\x00%s\\x01" % until', 'add_time = b"\\x00%s\\x02" % until', {"tie_scanIndex"}),
    ("range start without until back to 01 ff", 'start = self.prefix + b"\\xff\\xff\\xff\\xff\\x01"', 'start = self.prefix + b"\\xff"', {"tie_scanRange"}),
    ("authorkind key without separator", 'return b"%s%s\\x00%s" % (\n            self.prefix,\n            bytes_from_hex(value[0]),',
     'return b"%s%s%s" % (\n            self.prefix,\n            bytes_from_hex(value[0]),', {"tie_convKeys"}),
    ("record: kind before created_at", "        event.created_at,\n        event.kind,\n        bytes.fromhex(event.pubkey),",
     "        event.kind,\n        event.created_at,\n        bytes.fromhex(event.pubkey),", {"tie_encodeRow"}),
    ("key size bound 511 -> 512", "+ suffix > 511", "+ suffix > 512", {"tie_maxKey"}),
    ("kinds index written before created_at", '    "created_at": CreatedIndex(),\n    "kinds": KindIndex(),', '    "kinds": KindIndex(),\n    "created_at": CreatedIndex(),', {"tie_convKeys"}),
]
HARMLESS = [
    ("Index.write by concatenation", 'to_save = b"%s\\x00%s\\x00%s" % (key, ctime, event_id)', 'to_save = key + b"\\x00" + ctime + b"\\x00" + event_id'),
    ("add_time by concatenation", 'add_time = b"\\x00%s\\x01" % until', 'add_time = b"\\x00" + until + b"\\x01"'),
    ("tag key by concatenation", 'return b"%s%s\\x00%s" % (self.prefix, value[0].encode(), value[1].encode())',
     'return self.prefix + value[0].encode() + b"\\x00" + value[1].encode()'),
    ("seek key regrouped", 'match + add_time + b"\\xff"', 'match + (add_time + b"\\xff")'),
]


V_BREAKING = [
    ("size bound > -> >=", "len(event.content) > config.max_event_size", "len(event.content) >= config.max_event_size", {"tie_is_not_too_large"}),
    ("future tolerance 3600 -> 3000", "< -3600", "< -3000", {"tie_is_recent"}),
    ("age test dropped to else-only", "    elif (time() - event.created_at) < -3600:", "    elif (event.created_at - time()) < -3600:", {"tie_is_recent"}),
    ("kinds membership inverted", "if event.kind not in config.valid_kinds:", "if event.kind in config.valid_kinds:", {"tie_is_certain_kind"}),
    ("PoW bound < -> <=", "if found_bits < config.require_pow:", "if found_bits <= config.require_pow:", {"tie_is_pow"}),
    ("PoW counts from 255", "found_bits = 256 - int.from_bytes", "found_bits = 255 - int.from_bytes", {"tie_is_pow"}),
    ("hellthread applies to kind 1 only", "event.kind in (1, 7)", "event.kind in (1,)", {"tie_is_not_hellthread"}),
    ("hellthread bound > -> >=", "if num_tags > config.hellthread_limit:", "if num_tags >= config.hellthread_limit:", {"tie_is_not_hellthread"}),
    ("service event check on another kind", "event.kind == 31494 and", "event.kind == 31495 and", {"tie_is_service_event"}),
    ("blacklist test inverted", "if event.pubkey in config.pubkey_blacklist:", "if event.pubkey not in config.pubkey_blacklist:", {"tie_is_author_blacklisted"}),
]
V_HARMLESS = [
    ("size test negated form", "if len(event.content) > config.max_event_size:", "if not (len(event.content) <= config.max_event_size):"),
    ("age in a local variable", "    if (time() - event.created_at) > config.oldest_event:", "    age = time() - event.created_at\n    if age > config.oldest_event:"),
    ("elif split into a second if", "    elif (time() - event.created_at) < -3600:", "    if (time() - event.created_at) < -3600:"),
    ("kinds test written with ==", "event.kind in (1, 7)", "(event.kind == 1 or event.kind == 7)"),
    ("PoW inlined", "if found_bits < config.require_pow:", 'if 256 - int.from_bytes(event.id_bytes, "big").bit_length() < config.require_pow:'),
]


A_BREAKING = [
    # (since the NaN guard `elif not (since < 600 and since > -600)` a change of one of the two earlier comparisons alone is an equivalent
    #  mutant: the guard still refuses; the window is widened only when the guard moves too)
    ("AUTH window 600 -> 6000 (old side, guard too)", "if since >= 600:\n            raise AuthenticationError(\"invalid: Too old\")\n        elif since <= -600:\n            raise AuthenticationError(\"invalid: Too new\")\n        elif not (since < 600 and since > -600):",
     "if since >= 6000:\n            raise AuthenticationError(\"invalid: Too old\")\n        elif since <= -600:\n            raise AuthenticationError(\"invalid: Too new\")\n        elif not (since < 6000 and since > -600):", {"tie_check_auth_event"}),
    ("AUTH kind 22242 -> 22243", "if auth_event.kind != 22242:", "if auth_event.kind != 22243:", {"tie_check_auth_event"}),
    ("required tags: and -> or", "if not (found_relay and found_challenge):", "if not (found_relay or found_challenge):", {"tie_check_auth_event"}),
    ("challenge test inverted", "if tag[1] != challenge:", "if tag[1] == challenge:", {"tie_auth_loop"}),
    ("relay test inverted", "if tag[1] not in self.valid_urls:", "if tag[1] in self.valid_urls:", {"tie_auth_loop"}),
    ("relay tag also counts as the challenge", "                found_relay = True", "                found_relay = found_challenge = True", {"tie_auth_loop"}),
    ("signature check dropped to a no-op", "if not auth_event.verify():", "if not auth_event.verify() and False:", {"tie_check_auth_event", "checkAuthEvent"}),
]
A_HARMLESS = [
    ("age inlined", "        if since >= 600:", "        if (time() - auth_event.created_at) >= 600:"),
    ("elif split into a second if", "        elif since <= -600:", "        if since <= -600:"),
    ("final test by De Morgan", "if not (found_relay and found_challenge):", "if not found_relay or not found_challenge:"),
    ("challenge tag tested first", '            if tag[0] == "relay":\n                if tag[1] not in self.valid_urls:\n                    raise AuthenticationError(f"invalid: Wrong domain: {tag[1]}")\n                found_relay = True\n            elif tag[0] == "challenge":\n                if tag[1] != challenge:\n                    raise AuthenticationError("invalid: Wrong challenge")\n                found_challenge = True',
     '            if tag[0] == "challenge":\n                if tag[1] != challenge:\n                    raise AuthenticationError("invalid: Wrong challenge")\n                found_challenge = True\n            elif tag[0] == "relay":\n                if tag[1] not in self.valid_urls:\n                    raise AuthenticationError(f"invalid: Wrong domain: {tag[1]}")\n                found_relay = True'),
]


L_BREAKING = [
    ("live since >= -> >", "matched.add(event.created_at >= query.since)", "matched.add(event.created_at > query.since)"),
    ("live until < -> <=", "matched.add(event.created_at < query.until)", "matched.add(event.created_at <= query.until)"),
    ("empty filter matches everything", "if matched and all(matched):", "if all(matched):"),
    ("all -> any", "if matched and all(matched):", "if matched and any(matched):"),
    ("kinds membership inverted", "matched.add(event.kind in query.kinds)", "matched.add(event.kind not in query.kinds)"),
    ("tag condition inverted", "matched.add(event.has_tag(tagname, values)[1] is not None)", "matched.add(event.has_tag(tagname, values)[1] is None)"),
    ("kinds clause dropped", "            if query.kinds is not None:\n                matched.add(event.kind in query.kinds)\n", ""),
]
L_HARMLESS = [
    ("kinds clause moved before the ids clause", None, None),
]


def live_part(lean):
    from lib import translate_validators
    src = open("/repo/nostr_relay/storage/base.py").read()
    bad = 0
    muts = [("breaking", m) for m in L_BREAKING]
    k = "            if query.kinds is not None:\n                matched.add(event.kind in query.kinds)\n"
    i = "            if query.ids is not None:\n                matched.add(event.id in query.ids)\n"
    if src.count(k) == 1 and src.count(i) == 1:
        muts.append(("harmless", ("kinds clause moved before the ids clause", "__REORDER__", None)))
    for kind, m in muts:
        name, old, new = m
        if old == "__REORDER__":
            mutated = src.replace(k, "").replace(i, k + i)
        else:
            if src.count(old) != 1:
                print("SKIP   %-45s (pattern occurs %d times in the current source)" % (name, src.count(old)))
                continue
            mutated = src.replace(old, new)
        d = tempfile.mkdtemp(prefix="tiemut-")
        try:
            os.makedirs(os.path.join(d, "nostr_relay", "storage"))
            open(os.path.join(d, "nostr_relay", "storage", "base.py"), "w").write(mutated)
            r = translate_validators.run_live(d, lean)
        finally:
            shutil.rmtree(d, ignore_errors=True)
        failed = set(r["failed_names"])
        if kind == "breaking":
            ok = bool(failed)
            print("%s %-45s broke %s%s" % ("ok    " if ok else "MISSED", name, sorted(failed),
                                           "" if not r["unavailable"] else " unavailable=%r" % r["unavailable"]))
        else:
            ok = r["status"] == "checked"
            print("%s %-45s status %s %s" % ("ok    " if ok else "ALARM ", name, r["status"], sorted(failed) or r["unavailable"] or ""))
        bad += not ok
    return bad


C_BREAKING = [
    ("can_do: enabled test inverted", "        if self.is_enabled:\n            if action in self.actions:", "        if not self.is_enabled:\n            if action in self.actions:"),
    ("can_do: unconfigured action refused", "        can_do = True\n        if self.is_enabled:", "        can_do = False\n        if self.is_enabled:"),
    ("can_do: disjoint instead of intersecting", "                    self.actions[action].intersection(", "                    self.actions[action].isdisjoint("),
]


def can_do_part(lean):
    from lib import translate_validators
    src = open("/repo/nostr_relay/auth.py").read()
    bad = 0
    for name, old, new in C_BREAKING:
        if src.count(old) != 1:
            print("SKIP   %-45s (pattern occurs %d times in the current source)" % (name, src.count(old)))
            continue
        d = tempfile.mkdtemp(prefix="tiemut-")
        try:
            os.makedirs(os.path.join(d, "nostr_relay"))
            open(os.path.join(d, "nostr_relay", "auth.py"), "w").write(src.replace(old, new))
            r = translate_validators.run_can_do(d, lean)
        finally:
            shutil.rmtree(d, ignore_errors=True)
        ok = bool(r["failed_names"])
        print("%s %-45s broke %s%s" % ("ok    " if ok else "MISSED", name, r["failed_names"], "" if not r["unavailable"] else " unavailable=%r" % r["unavailable"]))
        bad += not ok
    return bad


def auth_part(lean):
    from lib import translate_validators
    src = open("/repo/nostr_relay/auth.py").read()
    bad = 0
    for kind, muts in (("breaking", A_BREAKING), ("harmless", A_HARMLESS)):
        for m in muts:
            name, old, new = m[0], m[1], m[2]
            if src.count(old) != 1:
                print("SKIP   %-45s (pattern occurs %d times in the current source)" % (name, src.count(old)))
                continue
            d = tempfile.mkdtemp(prefix="tiemut-")
            try:
                os.makedirs(os.path.join(d, "nostr_relay"))
                open(os.path.join(d, "nostr_relay", "auth.py"), "w").write(src.replace(old, new))
                r = translate_validators.run_auth(d, lean)
            finally:
                shutil.rmtree(d, ignore_errors=True)
            failed = set(r["failed_names"])
            if kind == "breaking":
                ok = bool(failed & m[3]) or (bool(r["unavailable"]) and "no-op" in name)
                print("%s %-45s broke %s (expected %s)%s" % ("ok    " if ok else "MISSED", name, sorted(failed), sorted(m[3]),
                                                              "" if not r["unavailable"] else " unavailable=%r" % r["unavailable"]))
            else:
                ok = r["status"] == "checked"
                print("%s %-45s status %s %s" % ("ok    " if ok else "ALARM ", name, r["status"], sorted(failed) or r["unavailable"] or ""))
            bad += not ok
    return bad


def validators_part(lean):
    from lib import translate_validators
    src = open("/repo/nostr_relay/validators.py").read()
    bad = 0
    for kind, muts in (("breaking", V_BREAKING), ("harmless", V_HARMLESS)):
        for m in muts:
            name, old, new = m[0], m[1], m[2]
            if src.count(old) != 1:
                print("SKIP   %-45s (pattern occurs %d times in the current source)" % (name, src.count(old)))
                continue
            d = tempfile.mkdtemp(prefix="tiemut-")
            try:
                os.makedirs(os.path.join(d, "nostr_relay"))
                for other in ("dynamic_lists.py", "config.py"):
                    shutil.copy(os.path.join("/repo/nostr_relay", other), os.path.join(d, "nostr_relay", other))
                open(os.path.join(d, "nostr_relay", "validators.py"), "w").write(src.replace(old, new))
                r = translate_validators.run(d, lean)
            finally:
                shutil.rmtree(d, ignore_errors=True)
            failed = set(r["failed_names"])
            if kind == "breaking":
                ok = bool(failed & m[3])
                print("%s %-45s broke %s (expected %s)%s" % ("ok    " if ok else "MISSED", name, sorted(failed), sorted(m[3]),
                                                              "" if not r["unavailable"] else " unavailable=%r" % r["unavailable"]))
            else:
                ok = r["status"] == "checked"
                print("%s %-45s status %s %s" % ("ok    " if ok else "ALARM ", name, r["status"], sorted(failed) or r["unavailable"] or ""))
            bad += not ok
    return bad


def main():
    lean = os.environ.get("VERIF_LEAN") or os.path.join(HERE, "lean")
    src = open("/repo/nostr_relay/storage/kv.py").read()
    bad = validators_part(lean) + auth_part(lean) + live_part(lean) + can_do_part(lean)
    for kind, muts in (("breaking", BREAKING), ("harmless", HARMLESS)):
        for m in muts:
            name, old, new = m[0], m[1], m[2]
            if src.count(old) != 1:
                print("SKIP   %-45s (pattern occurs %d times in the current source)" % (name, src.count(old)))
                continue
            d = tempfile.mkdtemp(prefix="tiemut-")
            try:
                os.makedirs(os.path.join(d, "nostr_relay", "storage"))
                open(os.path.join(d, "nostr_relay", "storage", "kv.py"), "w").write(src.replace(old, new))
                r = translate.run(d, lean)
            finally:
                shutil.rmtree(d, ignore_errors=True)
            failed = set(r["failed_names"])
            if kind == "breaking":
                ok = bool(failed & m[3])
                print("%s %-45s broke %s (expected one of %s)%s" % ("ok    " if ok else "MISSED", name, sorted(failed), sorted(m[3]),
                                                                     "" if not r["unavailable"] else " unavailable=%r" % r["unavailable"]))
            else:
                ok = r["status"] == "checked"
                print("%s %-45s status %s %s" % ("ok    " if ok else "ALARM ", name, r["status"], sorted(failed) or r["unavailable"] or ""))
            bad += not ok
    sys.exit(1 if bad else 0)


if __name__ == "__main__":
    main()
