#!/usr/bin/env python3
"""Regenerates the tables of DESIGN.md (§8 fixed / open findings, §11 seeded changes) from
known_findings.json and seeded/*/meta.json, between the BEGIN/END markers."""
import glob
import json
import os
import re

VERIF = os.path.dirname(os.path.dirname(os.path.abspath(__file__)))


def esc(s):
    return str(s).replace("|", "\\|").replace("\n", " ")


def findings_tables():
    F = json.load(open(os.path.join(VERIF, "known_findings.json")))["findings"]
    out = ["### 8.1 Repaired (one `fix:` commit each; several entries may share a commit)", "",
           "| property | commit | what failed |", "|---|---|---|"]
    for e in F:
        if e.get("status") == "fixed":
            rec = e.get("record", "")
            what = rec.split(e.get("commit", ""), 1)[-1].strip() if e.get("commit") else rec
            out.append("| %s | `%s` | %s |" % (e["property"], e.get("commit"), esc(what)))
    out += ["", "### 8.2 Open (recorded; printed as KNOWN-FINDING, never suppressing a different violation)", "",
            "| property | class id | where | what fails | Lean witness |", "|---|---|---|---|---|"]
    for e in F:
        if e.get("status") == "open":
            what = e.get("what_fails", "")
            if e.get("why_not_repaired"):
                what += " — *not repaired:* " + e["why_not_repaired"]
            out.append("| %s | `%s` | %s | %s | %s |" % (
                e["property"], e["id"], esc(e.get("where", "")), esc(what),
                ("`%s`" % e["lean_witness"].split(".")[-1]) if e.get("lean_witness") else "–"))
    return "\n".join(out)


def seeded_table():
    out = ["| seeded change | property | what it does | outcome of the property's quick check |", "|---|---|---|---|"]
    for d in sorted(glob.glob(os.path.join(VERIF, "seeded", "*", "meta.json"))):
        m = json.load(open(d))
        name = os.path.basename(os.path.dirname(d))
        ch = m.get("checks", {})
        res = []
        for p, v in ch.items():
            lines = v.get("lines") or []
            first = next((l for l in lines if l.startswith("VIOLATION")), "")
            kind = "exit %s" % v.get("exit")
            if v.get("exit") == 1:
                kind = "VIOLATION" + (" (no-failing-input-found)" if "no-failing-input-found" in first else " with failing input")
            detail = next((l.strip() for l in lines if l.strip().startswith("first:")), "")
            res.append("%s: %s%s" % (p, kind, (" — " + esc(detail[7:160])) if detail else ""))
        out.append("| `%s` | %s | %s | %s |" % (name, m["property"], esc(m["summary"][:300]), "; ".join(res) or "not run"))
    return "\n".join(out)


def main():
    p = os.path.join(VERIF, "DESIGN.md")
    s = open(p).read()
    s = re.sub(r"<!-- BEGIN GENERATED TABLES -->.*?<!-- END GENERATED TABLES -->",
               lambda m: "<!-- BEGIN GENERATED TABLES -->\n" + findings_tables() + "\n<!-- END GENERATED TABLES -->", s, flags=re.S)
    s = re.sub(r"<!-- BEGIN SEEDED TABLE -->.*?<!-- END SEEDED TABLE -->",
               lambda m: "<!-- BEGIN SEEDED TABLE -->\n" + seeded_table() + "\n<!-- END SEEDED TABLE -->", s, flags=re.S)
    open(p, "w").write(s)
    print("DESIGN.md tables regenerated")


if __name__ == "__main__":
    main()
