#!/usr/bin/env python3
"""
tools/seeded.py confirm <src_dir> <name>     confirm a sub-agent's change in a fresh scratch worktree and store it
                                              under seeded/<name>/ (patch.diff, demo.py, meta.json)
tools/seeded.py run <name> [<prop> ...]      apply seeded/<name>/patch.diff to /repo, run the property checks
                                              (default: the property named in meta.json), undo, record the outcome
tools/seeded.py runall                       the same for every seeded change
tools/seeded.py prun [-j N] [<name> ...]     the same, N at a time: each change is applied to its own scratch worktree of
                                              /repo's HEAD (VERIF_REPO), evidence goes to a scratch directory
                                              (VERIF_EVIDENCE); /repo and /verif/evidence are not touched
"""
import json
import os
import shutil
import subprocess
import sys
import tempfile
import time

VERIF = os.path.dirname(os.path.dirname(os.path.abspath(__file__)))
REPO = "/repo"
PY = "/venv/bin/python"


def sh(cmd, cwd=None, timeout=1800, env=None):
    p = subprocess.run(cmd, cwd=cwd, shell=isinstance(cmd, str), stdout=subprocess.PIPE, stderr=subprocess.STDOUT,
                       text=True, timeout=timeout, env=env)
    return p.returncode, p.stdout


def confirm(src, name):
    dst = os.path.join(VERIF, "seeded", name)
    patch = os.path.join(src, "patch.diff")
    demo = os.path.join(src, "demo.py")
    meta = json.load(open(os.path.join(src, "meta.json")))
    wt = tempfile.mkdtemp(prefix="seedwt-")
    os.rmdir(wt)
    rc, out = sh(["git", "-C", REPO, "worktree", "add", "-q", "--detach", wt, "HEAD"])
    assert rc == 0, out
    result = {}
    try:
        env = dict(os.environ)
        env.pop("NOSTR_RELAY_VERIF", None)
        rc0, out0 = sh([PY, demo], cwd=wt, timeout=300, env=env)
        result["demo_unmodified_exit"] = rc0
        rc, out = sh(["git", "apply", "--3way", patch], cwd=wt)
        if rc != 0:
            rc, out = sh(["git", "apply", patch], cwd=wt)
        result["patch_applies"] = rc == 0
        if rc != 0:
            print("patch does not apply:", out)
            return False
        sh(["git", "reset", "-q"], cwd=wt)
        rc1, out1 = sh([PY, demo], cwd=wt, timeout=300, env=env)
        result["demo_modified_exit"] = rc1
        result["demo_modified_output"] = out1[-600:]
        rcb, outb = sh(["python3", os.path.join(VERIF, "tools", "baseline.py"), wt], timeout=1800)
        result["baseline_with_change"] = outb.strip().splitlines()[0] if outb.strip() else ""
        result["baseline_ok"] = rcb == 0
        rcd, outd = sh(["git", "diff"], cwd=wt)
        ok = rc0 == 0 and rc1 != 0 and rcb == 0
        print(json.dumps(result, indent=1))
        if ok:
            os.makedirs(dst, exist_ok=True)
            open(os.path.join(dst, "patch.diff"), "w").write(outd)
            shutil.copy(demo, os.path.join(dst, "demo.py"))
            meta_out = {
                "property": meta.get("property"),
                "summary": meta.get("summary"),
                "needs": meta.get("needs"),
                "files": meta.get("files"),
                "author": "independent sub-agent given only the property text and a scratch worktree",
                "confirmed": {
                    "how": "fresh scratch worktree of /repo HEAD: demo.py exit 0 unmodified, exit !=0 with patch; "
                           "pinned suite (tools/baseline.py) still 36/36 with patch",
                    **{k: v for k, v in result.items() if k != "demo_modified_output"},
                    "repo_head": sh(["git", "-C", REPO, "rev-parse", "--short", "HEAD"])[1].strip(),
                    "at": time.strftime("%Y-%m-%dT%H:%M:%SZ", time.gmtime()),
                },
                "checks": {},
            }
            json.dump(meta_out, open(os.path.join(dst, "meta.json"), "w"), indent=1)
        return ok
    finally:
        sh(["git", "-C", REPO, "worktree", "remove", "--force", wt])


def run(name, props=None):
    dst = os.path.join(VERIF, "seeded", name)
    meta = json.load(open(os.path.join(dst, "meta.json")))
    props = props or [meta["property"]]
    rc, out = sh(["git", "-C", REPO, "status", "--porcelain", "--untracked-files=no"])
    assert out.strip() == "", "/repo has uncommitted changes: " + out
    rc, out = sh(["git", "-C", REPO, "apply", os.path.join(dst, "patch.diff")])
    if rc != 0:
        # a later fix: commit touched neighbouring lines: fall back to a three-way merge of the same change
        rc, out = sh(["git", "-C", REPO, "apply", "--3way", os.path.join(dst, "patch.diff")])
        sh(["git", "-C", REPO, "reset", "-q"])
        if rc != 0:
            sh(["git", "-C", REPO, "checkout", "--", "."])
    assert rc == 0, out
    try:
        for prop in props:
            t0 = time.time()
            rc, out = sh([PY, "harness/check.py", prop, "--tier", "quick"], cwd=VERIF, timeout=3600)
            lines = [l for l in out.splitlines() if l.startswith("VIOLATION") or l.startswith("PASS") or l.startswith("FAIL") or l.startswith("BROKEN")]
            detail = [l for l in out.splitlines() if l.startswith("  ")][:2]
            meta["checks"][prop] = {"exit": rc, "caught": rc == 1, "lines": lines + detail, "wall_s": round(time.time() - t0, 1)}
            print(name, prop, "exit", rc, "|", " | ".join(lines + detail)[:400])
    finally:
        sh(["git", "-C", REPO, "checkout", "--", "."])
    json.dump(meta, open(os.path.join(dst, "meta.json"), "w"), indent=1)


def prun_one(name):
    dst = os.path.join(VERIF, "seeded", name)
    meta = json.load(open(os.path.join(dst, "meta.json")))
    prop = meta["property"]
    wt = tempfile.mkdtemp(prefix="seedrun-")
    os.rmdir(wt)
    ev = tempfile.mkdtemp(prefix="seedev-")
    rc, out = sh(["git", "-C", REPO, "worktree", "add", "-q", "--detach", wt, "HEAD"])
    assert rc == 0, out
    try:
        rc, out = sh(["git", "apply", os.path.join(dst, "patch.diff")], cwd=wt)
        if rc != 0:
            rc, out = sh(["git", "apply", "--3way", os.path.join(dst, "patch.diff")], cwd=wt)
            sh(["git", "reset", "-q"], cwd=wt)
        if rc != 0:
            return name, prop, None, "PATCH-DOES-NOT-APPLY " + out.splitlines()[0][:160]
        env = dict(os.environ, VERIF_REPO=wt, VERIF_EVIDENCE=ev)
        t0 = time.time()
        rc, out = sh([PY, "harness/check.py", prop, "--tier", "quick"], cwd=VERIF, timeout=3600, env=env)
        lines = [l for l in out.splitlines() if l.startswith(("VIOLATION", "PASS", "FAIL", "BROKEN"))]
        lines = [l.replace(ev, "evidence") for l in lines]
        detail = [l for l in out.splitlines() if l.startswith("  ")][:2]
        meta["checks"][prop] = {"exit": rc, "caught": rc == 1, "lines": lines + detail, "wall_s": round(time.time() - t0, 1)}
        json.dump(meta, open(os.path.join(dst, "meta.json"), "w"), indent=1)
        return name, prop, rc, " | ".join(lines + detail)[:300]
    finally:
        sh(["git", "-C", REPO, "worktree", "remove", "--force", wt])
        shutil.rmtree(ev, ignore_errors=True)


def prun(names, jobs):
    from concurrent.futures import ThreadPoolExecutor

    names = names or [n for n in sorted(os.listdir(os.path.join(VERIF, "seeded")))
                      if os.path.exists(os.path.join(VERIF, "seeded", n, "patch.diff"))]
    missed = []
    with ThreadPoolExecutor(jobs) as ex:
        for name, prop, rc, text in ex.map(prun_one, names):
            print(name, prop, "exit", rc, "|", text, flush=True)
            if rc != 1:
                missed.append(name)
    print("seeded changes run: %d, caught: %d, not caught: %s" % (len(names), len(names) - len(missed), missed))


if __name__ == "__main__":
    if sys.argv[1] == "prun":
        args = sys.argv[2:]
        jobs = 6
        if args[:1] == ["-j"]:
            jobs, args = int(args[1]), args[2:]
        prun(args, jobs)
    elif sys.argv[1] == "confirm":
        sys.exit(0 if confirm(sys.argv[2], sys.argv[3]) else 1)
    elif sys.argv[1] == "run":
        run(sys.argv[2], sys.argv[3:] or None)
    elif sys.argv[1] == "runall":
        for n in sorted(os.listdir(os.path.join(VERIF, "seeded"))):
            if os.path.exists(os.path.join(VERIF, "seeded", n, "patch.diff")):
                try:
                    run(n)
                except AssertionError as e:
                    # the patch no longer applies (a fix: commit touched the same lines): to be re-based by hand
                    print(n, "PATCH-DOES-NOT-APPLY", str(e).splitlines()[0][:160])
                    sh(["git", "-C", REPO, "checkout", "--", "."])
