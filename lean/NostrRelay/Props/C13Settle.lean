/-
C13 — "a REQ the relay accepts is answered by its stored events followed by an EOSE", end to end
under the settled schedule: the query task runs to its sentinel, the sender drains the queue, and
the client's transcript has grown by exactly the stored answer (in order) followed by one EOSE, after
whatever was still queued for it.
-/
import NostrRelay.Props.C13

namespace NostrRelay.Proto

/-- the sender of an open connection drains its queue: every queued item becomes a frame, in order -/
theorem settleSend_drains (s : State) (c : Nat) (ho : s.isOpen c = true) (n : Nat) (hn : (s.queue c).length ≤ n) :
    (settleSend s c n).queue c = [] ∧
    (settleSend s c n).transcript c = s.transcript c ++ (s.queue c).map frameOf ∧
    (settleSend s c n).isOpen c = true := by
  induction n generalizing s with
  | zero =>
    have : s.queue c = [] := List.eq_nil_of_length_eq_zero (Nat.le_zero.mp hn)
    simp [settleSend, this, ho]
  | succ n ih =>
    unfold settleSend
    cases hq : s.queue c with
    | nil =>
      simp [step, ho, hq]
    | cons it rest =>
      have hstep : step s (.send c) = some (say { s with queue := upd s.queue c rest, sent := upd s.sent c (s.sent c ++ [it]) } c (frameOf it)) := by
        simp [step, ho, hq]
      rw [hstep]
      simp only
      have hlen : ((say { s with queue := upd s.queue c rest, sent := upd s.sent c (s.sent c ++ [it]) } c (frameOf it)).queue c).length ≤ n := by
        simp [say, hq] at hn ⊢
        omega
      obtain ⟨h1, h2, h3⟩ := ih _ (by simp [say, ho]) hlen
      refine ⟨h1, ?_, h3⟩
      rw [h2]
      simp [say]

/-- the query task's steps touch neither the transcript nor the open flag, and only its own connection's queue -/
theorem settleQuery_frame (s : State) (i n : Nat) :
    (settleQuery s i n).transcript = s.transcript ∧ (settleQuery s i n).isOpen = s.isOpen := by
  induction n generalizing s with
  | zero => simp [settleQuery]
  | succ n ih =>
    unfold settleQuery
    cases hst : step s (.queryStep i) with
    | none => simp
    | some s' =>
      simp only
      have hfr : s'.transcript = s.transcript ∧ s'.isOpen = s.isOpen := by
        simp only [step] at hst
        split at hst
        · cases hst
        · split at hst
          · split at hst <;> cases hst <;> simp [enqueue]
          · split at hst <;> cases hst <;> simp [enqueue]
      obtain ⟨a, b⟩ := ih s'
      exact ⟨a.trans hfr.1, b.trans hfr.2⟩

/-- **C13 (a REQ is answered: stored events, then EOSE)** — for a registered, running query task of an
    open connection: once the task has run and the sender has drained the queue, the client has been
    sent — after whatever was already queued for it — exactly the stored answer in order, each under
    the subscription's own name, followed by one EOSE for that name. -/
theorem C13_req_answered_settled (s : State) (i c sub : Nat) (hi : i < s.nextInst) (hd : s.eoseDone i = false)
    (hc : s.cancelled i = false) (hown : s.owner i = (c, sub)) (ho : s.isOpen c = true) (fuel : Nat)
    (hfuel : (s.queue c).length + (s.pending i).length + 1 ≤ fuel) :
    (settleSend (settleQuery s i ((s.pending i).length + 1)) c fuel).transcript c =
      s.transcript c ++ (s.queue c).map frameOf ++ (s.pending i).map (fun e => Frame.event sub e) ++ [Frame.eose sub] := by
  have hq := C13_query_runs_to_eose s i hi hd hc
  rw [hown] at hq
  obtain ⟨hqueue, _⟩ := hq
  simp only at hqueue
  obtain ⟨htr, hop⟩ := settleQuery_frame s i ((s.pending i).length + 1)
  have ho' : (settleQuery s i ((s.pending i).length + 1)).isOpen c = true := by rw [hop]; exact ho
  have hlen : ((settleQuery s i ((s.pending i).length + 1)).queue c).length ≤ fuel := by
    rw [hqueue]; simp; omega
  obtain ⟨_, h2, _⟩ := settleSend_drains _ c ho' fuel hlen
  rw [h2, htr, hqueue]
  simp [frameOf, List.map_append, Function.comp_def]

end NostrRelay.Proto
