/-
C16, fail-closed under configuration errors: whatever the `validators` list of the configuration holds, an event is admitted only
if *every* entry names a validator and that validator admits the event; an entry that cannot be resolved means there is no chain
at all (the relay does not start).  No entry can silently drop out.
-/
import NostrRelay.Model.Admission
namespace NostrRelay.Admission

theorem pipeline_ok_all : ∀ (vs : List Verdict), pipeline vs = .ok → ∀ v ∈ vs, v = .ok
  | [], _, v, hv => by simp at hv
  | .ok :: rest, h, v, hv => by
    simp only [pipeline] at h
    simp only [List.mem_cons] at hv
    cases hv with
    | inl h1 => exact h1
    | inr h1 => exact pipeline_ok_all rest h v h1
  | .reject :: _, h, _, _ => by simp [pipeline] at h
  | .raises :: _, h, _, _ => by simp [pipeline] at h

/-- an unresolvable entry anywhere in the list: no chain -/
theorem C16_config_unresolved_no_chain {α : Type} (es : List (Entry α)) (h : Entry.unresolved ∈ es) :
    getValidator es = none := by
  unfold getValidator
  have : es.any Entry.isUnresolved = true := List.any_eq_true.2 ⟨_, h, rfl⟩
  simp [this]

/-- **fail-closed**: if a chain exists and admits an event, every configured entry names a function and that function admits it -/
theorem C16_config_fail_closed {α : Type} (es : List (Entry α)) (v : α → Verdict) (hv : getValidator es = some v)
    (e : α) (hok : v e = .ok) : ∀ en ∈ es, ∃ f, en = .fn f ∧ f e = .ok := by
  unfold getValidator at hv
  split at hv
  · cases hv
  · cases hv
    intro en hen
    have := pipeline_ok_all _ hok (Entry.run e en) (List.mem_map.2 ⟨en, hen, rfl⟩)
    cases en with
    | unresolved => simp [Entry.run] at this
    | notCallable => simp [Entry.run] at this
    | fn f => exact ⟨f, rfl, this⟩

theorem pipeline_all_ok : ∀ (vs : List Verdict), (∀ v ∈ vs, v = .ok) → pipeline vs = .ok
  | [], _ => rfl
  | v :: rest, h => by
    have hv : v = .ok := h v (List.mem_cons_self ..)
    subst hv
    simp only [pipeline]
    exact pipeline_all_ok rest fun w hw => h w (List.mem_cons_of_mem _ hw)

/-- and conversely a chain of functions that all admit the event exists and admits it -/
theorem C16_config_all_ok {α : Type} (fs : List (α → Verdict)) (e : α) (h : ∀ f ∈ fs, f e = .ok) :
    ∃ v, getValidator (fs.map Entry.fn) = some v ∧ v e = .ok := by
  have hun : (fs.map Entry.fn).any Entry.isUnresolved = false := by
    simp [List.any_eq_false, Entry.isUnresolved]
  refine ⟨fun e => pipeline ((fs.map Entry.fn).map (Entry.run e)), ?_, ?_⟩
  · unfold getValidator; rw [hun]; rfl
  · apply pipeline_all_ok
    intro v hv
    simp only [List.map_map, List.mem_map, Function.comp] at hv
    obtain ⟨f, hf, rfl⟩ := hv
    exact h f hf

/-- non-vacuity: an entry that names something not callable lets the chain exist, and the chain refuses everything -/
example : (getValidator ([.fn (fun _ => .ok), .notCallable] : List (Entry Nat))).map (fun v => v 0) = some .raises := by
  simp [getValidator, Entry.isUnresolved, Entry.run, pipeline]

end NostrRelay.Admission
