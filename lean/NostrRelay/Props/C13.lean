/-
C13 — Subscription protocol: one EOSE per REQ, CLOSE and replacement end delivery.

Stated over the protocol machine M8, for every schedule.  "Answered" is stated as enabledness plus
the settled schedule: the machine has no fairness built in, so "is eventually sent" reads "the task
that sends it is enabled and stays enabled until it runs".
-/
import NostrRelay.Props.ProtoInv

namespace NostrRelay.Proto

/-- sentinel items of Subscription object `i` that connection `c` has been sent or has queued -/
def sentinelsOf (s : State) (c i : Nat) : List Item :=
  (s.sent c ++ s.queue c).filter fun it => it.ev.isNone && it.inst == i

/-- second invariant: every sentinel in flight is accounted for in `eosePut` -/
def SentinelInv (s : State) : Prop := ∀ c i, (sentinelsOf s c i).length ≤ s.eosePut.count i

theorem sentinelsOf_enqueue_event (s : State) (c c' i e j : Nat) (sub : Nat) (lv : Bool) :
    sentinelsOf (enqueue s c ⟨sub, some e, j, lv⟩) c' i = sentinelsOf s c' i := by
  unfold sentinelsOf enqueue
  by_cases hc : c' = c
  · subst hc; simp [List.filter_append]
  · simp [upd_other _ _ _ _ hc]

theorem sentinelsOf_enqueue_sentinel_le (s : State) (c c' i j : Nat) (sub : Nat) :
    (sentinelsOf (enqueue s c ⟨sub, none, j, false⟩) c' i).length ≤ (sentinelsOf s c' i).length + (if j = i then 1 else 0) := by
  unfold sentinelsOf enqueue
  by_cases hc : c' = c
  · subst hc
    simp only [upd_same, List.filter_append, List.length_append, List.filter_cons, List.filter_nil]
    by_cases hj : j = i
    · subst hj; simp; omega
    · have : (j == i) = false := by simp [hj]
      simp [this, hj]
  · simp only [upd_other _ _ _ _ hc]; omega

theorem sentinel_inv_step (s s' : State) (l : Label) (h : SentinelInv s) (hs : step s l = some s') : SentinelInv s' := by
  cases l with
  | connect c => simp only [step] at hs; split at hs <;> cases hs; exact h
  | req c sub usable allowed answer =>
    simp only [step] at hs
    have h1 : SentinelInv (unsubscribeOne s c sub) := h
    split at hs
    · cases hs
    · split at hs
      · cases hs; exact h1
      · split at hs
        · cases hs
          intro c' i
          refine Nat.le_trans (sentinelsOf_enqueue_sentinel_le _ c c' i _ sub) ?_
          have := h1 c' i
          show (sentinelsOf (unsubscribeOne s c sub) c' i).length + _ ≤ ((unsubscribeOne s c sub).eosePut ++ [(unsubscribeOne s c sub).nextInst]).count i
          rw [List.count_append]
          by_cases hj : (unsubscribeOne s c sub).nextInst = i
          · subst hj; simp; omega
          · simp [hj]; omega
        · split at hs <;> cases hs <;> exact h1
  | close c sub => simp only [step] at hs; split at hs <;> cases hs; exact h
  | event c e accepted =>
    simp only [step] at hs
    split at hs
    · cases hs
    · split at hs
      · cases hs; exact h
      · split at hs
        · cases hs
        · cases hs; exact h
  | notify e j m =>
    simp only [step] at hs
    split at hs
    · cases hs
    · split at hs
      · cases hs
        intro c' i
        rw [sentinelsOf_enqueue_event]
        exact h c' i
      · cases hs; exact h
  | queryStep j =>
    simp only [step] at hs
    split at hs
    · cases hs
    · split at hs
      · split at hs
        · cases hs
          intro c' i
          refine Nat.le_trans (sentinelsOf_enqueue_sentinel_le _ _ c' i j _) ?_
          have := h c' i
          show (sentinelsOf s c' i).length + _ ≤ (s.eosePut ++ [j]).count i
          rw [List.count_append]
          by_cases hj : j = i
          · subst hj; simp; omega
          · simp [hj]; omega
        · cases hs; exact h
      · split at hs
        · cases hs
          intro c' i
          refine Nat.le_trans (sentinelsOf_enqueue_sentinel_le _ _ c' i j _) ?_
          have := h c' i
          show (sentinelsOf s c' i).length + _ ≤ (s.eosePut ++ [j]).count i
          rw [List.count_append]
          by_cases hj : j = i
          · subst hj; simp; omega
          · simp [hj]; omega
        · cases hs
          intro c' i
          rw [sentinelsOf_enqueue_event]
          exact h c' i
  | send c =>
    simp only [step] at hs
    split at hs
    · cases hs
    · split at hs
      · cases hs
      · rename_i it rest hq
        cases hs
        intro c' i
        have := h c' i
        refine Nat.le_trans (Nat.le_of_eq ?_) this
        unfold sentinelsOf say
        by_cases hc : c' = c
        · subst hc; simp [hq, List.filter_append]
        · simp [upd_other _ _ _ _ hc]
  | disconnect c => simp only [step] at hs; split at hs <;> cases hs; exact h

theorem sentinel_inv_reachable (s : State) (h : Reachable s) : SentinelInv s := by
  obtain ⟨lim, eoc, sched, hr⟩ := h
  have h0 : SentinelInv { subLimit := lim, eoseOnCancel := eoc } := by intro c i; simp [sentinelsOf]
  generalize ({ subLimit := lim, eoseOnCancel := eoc } : State) = s0 at hr h0
  induction sched generalizing s0 with
  | nil => simp [run] at hr; subst hr; exact h0
  | cons l ls ih =>
    simp only [run] at hr
    cases hst : step s0 l with
    | none => simp [hst] at hr
    | some s1 =>
      simp only [hst, Option.bind_some] at hr
      exact ih s1 hr (sentinel_inv_step s0 s1 l h0 hst)

/-- **C13 (at most one EOSE per REQ)** — in every reachable state, for every Subscription object
    (one per accepted REQ, plus one per REQ answered with an immediate EOSE) at most one sentinel
    has been queued for or sent to its connection, whatever the interleaving, including CLOSE or
    replacement while the query task runs -/
theorem C13_eose_at_most_once (s : State) (h : Reachable s) (c i : Nat) : (sentinelsOf s c i).length ≤ 1 := by
  have h1 := sentinel_inv_reachable s h c i
  have h2 : s.eosePut.count i ≤ 1 := List.nodup_iff_count.mp (inv_reachable s h).eose_nodup i
  omega

/-- what a REQ does, branch by branch: it is refused with a NOTICE (nothing else changes beyond the
    replacement of the same name), or answered with an immediate sentinel, or registered with a
    fresh query task holding its stored answer -/
theorem C13_req_outcomes (s s' : State) (c sub : Nat) (usable allowed : Bool) (answer : List Nat)
    (hs : step s (.req c sub usable allowed answer) = some s') :
    let s1 := unsubscribeOne s c sub
    (s'.transcript c = s.transcript c ++ [.notice] ∧ s'.registry = s1.registry ∧ s'.queue = s.queue)
    ∨ (usable = false ∧ s'.queue c = s.queue c ++ [⟨sub, none, s.nextInst, false⟩] ∧ s'.registry = s1.registry)
    ∨ (usable = true ∧ allowed = true ∧ s'.registry = s1.registry ++ [⟨c, sub, s.nextInst⟩]
        ∧ s'.pending s.nextInst = answer ∧ s'.eoseDone s.nextInst = false ∧ s'.cancelled s.nextInst = false
        ∧ s'.nextInst = s.nextInst + 1) := by
  simp only [step] at hs
  split at hs
  · cases hs
  · split at hs
    · cases hs; left; exact ⟨by simp [say, unsubscribeOne], rfl, rfl⟩
    · split at hs
      · rename_i hu
        cases hs; right; left
        refine ⟨by simpa using hu, by simp [enqueue, unsubscribeOne], rfl⟩
      · rename_i hu
        split at hs
        · cases hs; left; exact ⟨by simp [say, unsubscribeOne], rfl, rfl⟩
        · rename_i ha
          cases hs; right; right
          refine ⟨by simpa using hu, by simpa using ha, rfl, by simp [unsubscribeOne], by simp [unsubscribeOne], by simp [unsubscribeOne], rfl⟩

/-- an unfinished query task can always take its next step -/
theorem C13_query_enabled (s : State) (i : Nat) (hi : i < s.nextInst) (hd : s.eoseDone i = false) :
    (step s (.queryStep i)).isSome := by
  simp only [step]
  have : ¬ (i ≥ s.nextInst) := by omega
  simp only [this, hd, decide_false, Bool.or_self, Bool.false_eq_true, if_false]
  split
  · split <;> rfl
  · split <;> rfl

/-- the sender of an open connection with a non-empty queue can always take its next step -/
theorem C13_send_enabled (s : State) (c : Nat) (ho : s.isOpen c = true) (hq : s.queue c ≠ []) :
    (step s (.send c)).isSome := by
  simp only [step, ho, Bool.not_true, Bool.false_eq_true, if_false]
  cases h : s.queue c with
  | nil => exact absurd h hq
  | cons it rest => rfl

theorem settleQuery_succ (s : State) (i n : Nat) :
    settleQuery s i (n + 1) = match step s (.queryStep i) with | some s' => settleQuery s' i n | none => s := rfl

theorem queryStep_running (s : State) (i : Nat) (hi : i < s.nextInst) (hd : s.eoseDone i = false) (hc : s.cancelled i = false) :
    step s (.queryStep i) = match s.pending i with
      | [] => some (enqueue { s with eoseDone := upd s.eoseDone i true, eosePut := s.eosePut ++ [i] } (s.owner i).1 ⟨(s.owner i).2, none, i, false⟩)
      | e :: rest => some (enqueue { s with pending := upd s.pending i rest } (s.owner i).1 ⟨(s.owner i).2, some e, i, false⟩) := by
  have hge : ¬ (i ≥ s.nextInst) := by omega
  simp only [step, hge, hd, hc, decide_false, Bool.or_self, Bool.false_eq_true, if_false]
  cases s.pending i <;> rfl

/-- **C13 (stored events, then EOSE)** — a query task that is not cancelled puts its stored answer
    in order and then exactly one sentinel, under its own name, on its connection's queue -/
theorem C13_query_runs_to_eose (s : State) (i : Nat) (hi : i < s.nextInst) (hd : s.eoseDone i = false)
    (hc : s.cancelled i = false) :
    (settleQuery s i ((s.pending i).length + 1)).queue (s.owner i).1 = s.queue (s.owner i).1
        ++ (s.pending i).map (fun e => ⟨(s.owner i).2, some e, i, false⟩) ++ [⟨(s.owner i).2, none, i, false⟩]
    ∧ (settleQuery s i ((s.pending i).length + 1)).eoseDone i = true := by
  generalize hp : s.pending i = p
  induction p generalizing s with
  | nil =>
    rw [List.length_nil, settleQuery_succ, queryStep_running s i hi hd hc, hp]
    simp [settleQuery, enqueue]
  | cons e rest ih =>
    rw [List.length_cons, settleQuery_succ, queryStep_running s i hi hd hc, hp]
    have := ih (enqueue { s with pending := upd s.pending i rest } (s.owner i).1 ⟨(s.owner i).2, some e, i, false⟩)
      hi hd hc (by simp [enqueue])
    simp only [enqueue] at this ⊢
    obtain ⟨h1, h2⟩ := this
    refine ⟨?_, h2⟩
    rw [h1]
    simp

/-- **C13 (the limit)** — a connection never holds more than `subscription_limit` subscriptions -/
theorem C13_limit (s : State) (h : Reachable s) (hl : s.subLimit ≠ 0) (c : Nat) : (subsOf s c).length ≤ s.subLimit :=
  (inv_reachable s h).limit hl c

theorem filter_length_lt_of_mem {α : Type} (l : List α) (p q : α → Bool) (h : ∀ x, p x = true → q x = true)
    (x : α) (hx : x ∈ l) (hq : q x = true) (hp : p x = false) : (l.filter p).length < (l.filter q).length := by
  induction l with
  | nil => cases hx
  | cons y ys ih =>
    simp only [List.filter_cons]
    rcases List.mem_cons.mp hx with rfl | hm
    · simp only [hp, hq, if_true, List.length_cons, Bool.false_eq_true, if_false]
      exact Nat.lt_succ_of_le (filter_length_le_of_imp ys p q h)
    · have := ih hm
      by_cases hpy : p y = true
      · simp [hpy, h y hpy]; exact this
      · simp only [hpy, Bool.false_eq_true, if_false]
        by_cases hqy : q y = true
        · simp [hqy]; omega
        · simp [hqy]; exact this

/-- **C13 (refusal at the limit leaves the existing subscriptions intact)** — if a REQ is refused
    because the connection is at its limit, the registry and every query task are exactly as before -/
theorem C13_limit_refusal_intact (s s' : State) (c sub : Nat) (usable allowed : Bool) (answer : List Nat)
    (h : Inv s) (hl : s.subLimit ≠ 0) (hs : step s (.req c sub usable allowed answer) = some s')
    (hfull : (subsOf (unsubscribeOne s c sub) c).length = s.subLimit) :
    s'.registry = s.registry ∧ (∀ i, s'.cancelled i = s.cancelled i) ∧ s'.transcript c = s.transcript c ++ [.notice] := by
  -- no entry of the same name existed, else the replacement would have made room
  have nohit : ∀ r ∈ s.registry, hit c sub r = false := by
    intro r hr
    cases hh : hit c sub r with
    | false => rfl
    | true =>
      exfalso
      have hlt : (subsOf (unsubscribeOne s c sub) c).length < (subsOf s c).length := by
        simp only [subsOf, unsubscribeOne, List.filter_filter]
        refine filter_length_lt_of_mem _ _ _ (by intro x hx; simp at hx; simp [hx.1]) r hr ?_ ?_
        · simp only [hit, Bool.and_eq_true] at hh; exact hh.1
        · simp [hh]
      have := h.limit hl c
      omega
  have hreg : (unsubscribeOne s c sub).registry = s.registry := by
    simp only [unsubscribeOne]
    exact List.filter_eq_self.mpr (by intro r hr; simp [nohit r hr])
  have hcan : ∀ i, (unsubscribeOne s c sub).cancelled i = s.cancelled i := by
    intro i
    simp only [unsubscribeOne]
    have : (s.registry.any fun r => hit c sub r && r.inst == i) = false := by
      simp only [List.any_eq_false]
      intro r hr; simp [nohit r hr]
    simp [this]
  simp only [step] at hs
  split at hs
  · cases hs
  · split at hs
    · cases hs
      exact ⟨hreg, hcan, by simp [say, unsubscribeOne]⟩
    · rename_i hne
      exfalso; apply hne
      simp [hfull, hl]

/-- after CLOSE (and after the replacement step inside a REQ) no entry of that name is registered for
    the connection, and every Subscription object that was registered under it is cancelled -/
theorem C13_unsubscribe_effect (s : State) (c sub : Nat) :
    (∀ r ∈ (unsubscribeOne s c sub).registry, ¬ (r.conn = c ∧ r.name = sub))
    ∧ (∀ r ∈ s.registry, r.conn = c → r.name = sub → (unsubscribeOne s c sub).cancelled r.inst = true) := by
  constructor
  · intro r hr
    simp only [unsubscribeOne, List.mem_filter, hit] at hr
    intro ⟨a, b⟩
    simp [a, b] at hr
  · intro r hr hc hn
    simp only [unsubscribeOne, Bool.or_eq_true, List.any_eq_true]
    right
    exact ⟨r, hr, by simp [hit, hc, hn]⟩

/-- a cancelled query task puts no further stored event: its next (and last) step puts at most the
    sentinel (LMDB's `finally`), never an event -/
theorem C13_cancelled_puts_no_event (s s' : State) (i : Nat) (hc : s.cancelled i = true)
    (hs : step s (.queryStep i) = some s') :
    s'.eoseDone i = true ∧ ∀ c, s'.queue c = s.queue c ∨ s'.queue c = s.queue c ++ [⟨(s.owner i).2, none, i, false⟩] := by
  simp only [step] at hs
  split at hs
  · cases hs
  · split at hs
    · cases hs
      refine ⟨by simp [enqueue], fun c => ?_⟩
      by_cases hcc : c = (s.owner i).1
      · right; subst hcc; simp [enqueue]
      · left; simp [enqueue, upd_other _ _ _ _ hcc]
    · cases hs
      exact ⟨by simp, fun c => Or.inl rfl⟩

/-- a Subscription object, once cancelled, stays cancelled -/
theorem cancelled_mono (s s' : State) (l : Label) (i : Nat) (hi : i < s.nextInst) (hc : s.cancelled i = true)
    (hs : step s l = some s') : s'.cancelled i = true ∧ i < s'.nextInst := by
  have hun : ∀ c sub, (unsubscribeOne s c sub).cancelled i = true := by
    intro c sub; simp [unsubscribeOne, hc]
  cases l with
  | connect c => simp only [step] at hs; split at hs <;> cases hs; exact ⟨hc, hi⟩
  | req c sub usable allowed answer =>
    simp only [step] at hs
    split at hs
    · cases hs
    · split at hs
      · cases hs; exact ⟨hun c sub, hi⟩
      · split at hs
        · cases hs
          refine ⟨?_, Nat.lt_succ_of_lt hi⟩
          show upd (unsubscribeOne s c sub).cancelled (unsubscribeOne s c sub).nextInst false i = true
          rw [upd_other _ _ _ _ (show i ≠ (unsubscribeOne s c sub).nextInst from Nat.ne_of_lt hi)]; exact hun c sub
        · split at hs
          · cases hs; exact ⟨hun c sub, hi⟩
          · cases hs
            refine ⟨?_, Nat.lt_succ_of_lt hi⟩
            show upd (unsubscribeOne s c sub).cancelled (unsubscribeOne s c sub).nextInst false i = true
            rw [upd_other _ _ _ _ (show i ≠ (unsubscribeOne s c sub).nextInst from Nat.ne_of_lt hi)]; exact hun c sub
  | close c sub => simp only [step] at hs; split at hs <;> cases hs; exact ⟨hun c sub, hi⟩
  | event c e accepted =>
    simp only [step] at hs
    split at hs
    · cases hs
    · split at hs
      · cases hs; exact ⟨hc, hi⟩
      · split at hs
        · cases hs
        · cases hs; exact ⟨hc, hi⟩
  | notify e j m =>
    simp only [step] at hs
    split at hs
    · cases hs
    · split at hs <;> cases hs <;> exact ⟨hc, hi⟩
  | queryStep j =>
    simp only [step] at hs
    split at hs
    · cases hs
    · split at hs
      · split at hs <;> cases hs <;> exact ⟨hc, hi⟩
      · split at hs <;> cases hs <;> exact ⟨hc, hi⟩
  | send c =>
    simp only [step] at hs
    split at hs
    · cases hs
    · split at hs <;> cases hs; exact ⟨hc, hi⟩
  | disconnect c => simp only [step] at hs; split at hs <;> cases hs; exact ⟨hc, hi⟩

/-- a closed connection is never sent anything again, whatever happens afterwards -/
theorem closed_conn_step (s s' : State) (l : Label) (c : Nat) (hk : c ∈ s.connIds) (ho : s.isOpen c = false)
    (hs : step s l = some s') : c ∈ s'.connIds ∧ s'.isOpen c = false ∧ s'.transcript c = s.transcript c := by
  cases l with
  | connect c' =>
    simp only [step] at hs
    split at hs
    · cases hs
    · rename_i hn
      cases hs
      have hne : c ≠ c' := by intro he; subst he; simp [hk] at hn
      exact ⟨by simp [hk], by show upd s.isOpen c' true c = false; rw [upd_other _ _ _ _ hne]; exact ho, rfl⟩
  | req c' sub usable allowed answer =>
    simp only [step] at hs
    split at hs
    · cases hs
    · rename_i hop
      have hne : c ≠ c' := by intro he; subst he; simp [ho] at hop
      split at hs
      · cases hs; exact ⟨hk, ho, by simp [say, upd_other _ _ _ _ hne, unsubscribeOne]⟩
      · split at hs
        · cases hs; exact ⟨hk, ho, rfl⟩
        · split at hs
          · cases hs; exact ⟨hk, ho, by simp [say, upd_other _ _ _ _ hne, unsubscribeOne]⟩
          · cases hs; exact ⟨hk, ho, rfl⟩
  | close c' sub => simp only [step] at hs; split at hs <;> cases hs; exact ⟨hk, ho, rfl⟩
  | event c' e accepted =>
    simp only [step] at hs
    split at hs
    · cases hs
    · rename_i hop
      have hne : c ≠ c' := by intro he; subst he; simp [ho] at hop
      split at hs
      · cases hs; exact ⟨hk, ho, by simp [say, upd_other _ _ _ _ hne]⟩
      · split at hs
        · cases hs
        · cases hs
          exact ⟨hk, ho, by simp [say, upd_other _ _ _ _ hne]⟩
  | notify e j m =>
    simp only [step] at hs
    split at hs
    · cases hs
    · split at hs <;> cases hs <;> exact ⟨hk, ho, rfl⟩
  | queryStep j =>
    simp only [step] at hs
    split at hs
    · cases hs
    · split at hs
      · split at hs <;> cases hs <;> exact ⟨hk, ho, rfl⟩
      · split at hs <;> cases hs <;> exact ⟨hk, ho, rfl⟩
  | send c' =>
    simp only [step] at hs
    split at hs
    · cases hs
    · rename_i hop
      have hne : c ≠ c' := by intro he; subst he; simp [ho] at hop
      split at hs <;> cases hs
      exact ⟨hk, ho, by simp [say, upd_other _ _ _ _ hne]⟩
  | disconnect c' =>
    simp only [step] at hs
    split at hs
    · cases hs
    · rename_i hop
      have hne : c ≠ c' := by intro he; subst he; simp [ho] at hop
      cases hs
      exact ⟨hk, by show upd s.isOpen c' false c = false; rw [upd_other _ _ _ _ hne]; exact ho, rfl⟩

/-- **C13 (nothing after disconnect)** — once a connection has ended, no frame is ever sent on it
    again and it holds no subscription, for every continuation -/
theorem C13_nothing_after_disconnect (s s1 s2 : State) (c : Nat) (sched : List Label) (h : Inv s)
    (hs : step s (.disconnect c) = some s1) (hr : run s1 sched = some s2) :
    s2.transcript c = s.transcript c ∧ subsOf s2 c = [] := by
  have hinv1 := inv_step s s1 _ h hs
  simp only [step] at hs
  split at hs
  · cases hs
  · rename_i hop
    have hop' : s.isOpen c = true := by simpa using hop
    cases hs
    have key : ∀ (sa sb : State) (sch : List Label), c ∈ sa.connIds → sa.isOpen c = false → Inv sa → run sa sch = some sb →
        sb.transcript c = sa.transcript c ∧ sb.isOpen c = false ∧ Inv sb := by
      intro sa sb sch
      induction sch generalizing sa with
      | nil => intro hk ho hi hrun; simp [run] at hrun; subst hrun; exact ⟨rfl, ho, hi⟩
      | cons l ls ih =>
        intro hk ho hi hrun
        simp only [run] at hrun
        cases hst : step sa l with
        | none => simp [hst] at hrun
        | some sm =>
          simp only [hst, Option.bind_some] at hrun
          have hm := closed_conn_step sa sm l c hk ho hst
          have := ih sm hm.1 hm.2.1 (inv_step sa sm l hi hst) hrun
          exact ⟨this.1.trans hm.2.2, this.2⟩
    have hk1 := fun a b => key _ s2 sched a b hinv1 hr
    have := hk1 (h.open_known c hop') (by show upd s.isOpen c false c = false; simp)
    refine ⟨this.1, ?_⟩
    -- an entry for c would need c to be open
    simp only [subsOf]
    apply List.filter_eq_nil_iff.mpr
    intro r hr' hc
    have hco : r.conn = c := by simpa using hc
    have := this.2.2.reg_open r hr'
    rw [hco] at this
    simp [this] at *

-- non-vacuity: REQ, replacement while the first query is still running, CLOSE; SQL flavour
example :
    (run {} [.connect 0, .req 0 7 true true [1, 2], .queryStep 0, .req 0 7 true true [3], .queryStep 0, .queryStep 1,
             .queryStep 1, .send 0, .send 0, .send 0]).map (fun s => (s.transcript 0, s.eosePut, subsOf s 0))
      = some ([.event 7 1, .event 7 3, .eose 7], [1], [⟨0, 7, 1⟩]) := by decide

-- the limit: the third REQ on a limit-2 relay is refused and the two subscriptions stay
example :
    (run { subLimit := 2 } [.connect 0, .req 0 1 true true [], .req 0 2 true true [], .req 0 3 true true []]).map
        (fun s => (s.transcript 0, (subsOf s 0).length))
      = some ([.notice], 2) := by decide

end NostrRelay.Proto
