/-
C16 — Configured admission policies are applied to every event, fail-closed.
Each validator decides exactly at its documented bound; the pipeline refuses iff some validator
refuses; the refreshed dynamic list never passes through "empty = not enforced".
-/
import NostrRelay.Props.C03

namespace NostrRelay.Admission

theorem C16_size_iff (c : Cfg) (e : Ev) : isNotTooLarge c e = .ok ↔ e.contentLen ≤ c.maxEventSize := by
  unfold isNotTooLarge; split <;> simp <;> omega

theorem C16_recent_iff (c : Cfg) (now : Int) (e : Ev) :
    isRecent c now e = .ok ↔ now - e.createdAt ≤ c.oldestEvent ∧ -3600 ≤ now - e.createdAt := by
  unfold isRecent
  split
  · simp; omega
  · split
    · simp; omega
    · simp; omega

theorem C16_kind_iff (c : Cfg) (e : Ev) : isCertainKind c e = .ok ↔ e.kind ∈ c.validKinds := by
  unfold isCertainKind; split <;> simp_all

/-- fail-closed: an unset or empty whitelist admits nobody -/
theorem C16_whitelist_iff (c : Cfg) (e : Ev) : isAuthorWhitelisted c e = .ok ↔ ∃ l, c.whitelist = some l ∧ e.pubkey ∈ l := by
  unfold isAuthorWhitelisted
  cases h : c.whitelist with
  | none => simp
  | some l => by_cases hm : e.pubkey ∈ l <;> simp [hm]

theorem C16_blacklist_iff (c : Cfg) (e : Ev) : isAuthorBlacklisted c e = .ok ↔ ∃ l, c.blacklist = some l ∧ e.pubkey ∉ l := by
  unfold isAuthorBlacklisted
  cases h : c.blacklist with
  | none => simp
  | some l => by_cases hm : e.pubkey ∈ l <;> simp [hm]

theorem C16_pow_iff (c : Cfg) (e : Ev) : isPow c e = .ok ↔ c.requirePow ≤ 256 - e.idBitLength := by
  unfold isPow; split <;> simp <;> omega

theorem C16_hellthread_iff (c : Cfg) (e : Ev) :
    isNotHellthread c e = .ok ↔ (c.hellthreadLimit = 0 ∨ (e.kind ≠ 1 ∧ e.kind ≠ 7) ∨ e.pTags ≤ c.hellthreadLimit) := by
  unfold isNotHellthread
  by_cases h0 : c.hellthreadLimit = 0
  · simp [h0]
  · by_cases hk : e.kind = 1 ∨ e.kind = 7
    · have : (c.hellthreadLimit != 0 && (e.kind == 1 || e.kind == 7)) = true := by
        rcases hk with h | h <;> simp [h0, h]
      simp only [this, if_true]
      split
      · simp; refine ⟨h0, ?_, by omega⟩; intro h1; rcases hk with h | h
        · exact absurd h h1
        · exact h
      · simp; right; right; omega
    · have : (c.hellthreadLimit != 0 && (e.kind == 1 || e.kind == 7)) = false := by
        simp only [not_or] at hk
        simp [hk.1, hk.2]
      simp only [this, Bool.false_eq_true, if_false, true_iff]
      right; left; simp only [not_or] at hk; exact hk

theorem C16_service_iff (c : Cfg) (e : Ev) :
    isServiceEvent c e = .ok ↔ (e.kind = 31494 → e.pubkey = c.servicePubkey) := by
  unfold isServiceEvent
  by_cases hk : e.kind = 31494 <;> by_cases hp : e.pubkey = c.servicePubkey <;> simp [hk, hp]

theorem C16_dynamic_iff (allowed denied : List (List Nat)) (e : Ev) :
    isPubkeyAllowed allowed denied e = .ok ↔
      (allowed = [] ∨ e.pubkey ∈ allowed) ∧ (denied = [] ∨ e.pubkey ∉ denied) := by
  unfold isPubkeyAllowed
  cases allowed with
  | nil =>
    cases denied with
    | nil => simp
    | cons d ds => by_cases h : e.pubkey ∈ d :: ds <;> simp [h]
  | cons a as =>
    cases denied with
    | nil => by_cases h : e.pubkey ∈ a :: as <;> simp [h]
    | cons d ds =>
      by_cases h : e.pubkey ∈ a :: as <;> by_cases h2 : e.pubkey ∈ d :: ds <;> simp [h, h2]

/-- **C16 (fail-closed pipeline)** — an event is admitted iff every configured validator admits
    it; otherwise the first failing one decides and nothing after it is consulted -/
theorem C16_pipeline (vs : List Verdict) : pipeline vs = .ok ↔ ∀ v ∈ vs, v = .ok := C03_pipeline_ok_iff vs

/-- **C16 (no empty window)** — with the add-then-intersect refresh, every state a concurrent
    validator can observe while a non-empty enforced list is replaced by a non-empty new list is
    non-empty: the list is never read as "not enforced" -/
theorem C16_refresh_never_empty (cur new : List (List Nat)) (hc : cur ≠ []) (hn : new ≠ []) :
    ∀ st ∈ observable cur (refreshNew new), st ≠ [] := by
  intro st hst
  simp only [refreshNew, observable, applyOp, List.mem_cons, List.mem_singleton, List.not_mem_nil, or_false] at hst
  obtain ⟨n0, nrest, rfl⟩ := List.exists_cons_of_ne_nil hn
  obtain ⟨c0, crest, rfl⟩ := List.exists_cons_of_ne_nil hc
  have hmem : ∀ x, x ∈ ((c0 :: crest) ++ (n0 :: nrest)).eraseDups ↔ x ∈ (c0 :: crest) ++ (n0 :: nrest) := by
    intro x; exact List.mem_eraseDups
  rcases hst with rfl | rfl | rfl
  · simp
  · intro h
    have : c0 ∈ ((c0 :: crest) ++ (n0 :: nrest)).eraseDups := (hmem c0).mpr (by simp)
    rw [h] at this; simp at this
  · intro h
    have h1 : n0 ∈ ((c0 :: crest) ++ (n0 :: nrest)).eraseDups := (hmem n0).mpr (by simp)
    have h2 : n0 ∈ (((c0 :: crest) ++ (n0 :: nrest)).eraseDups).filter (n0 :: nrest).contains := by
      rw [List.mem_filter]; exact ⟨h1, by simp⟩
    rw [h] at h2; simp at h2

/-- and the final state is exactly the new list (as a set) -/
theorem C16_refresh_result (cur new : List (List Nat)) (x : List Nat) :
    x ∈ (observable cur (refreshNew new)).getLast! ↔ x ∈ new := by
  simp only [refreshNew, observable, applyOp]
  simp only [List.getLast!, List.getLast_cons_cons, List.getLast_singleton, List.mem_filter, List.mem_eraseDups,
    List.mem_append, List.contains_iff_mem]
  constructor
  · rintro ⟨_, h⟩; exact h
  · intro h; exact ⟨Or.inr h, h⟩

/-- **Fixed defect (finding #17)** — the former `clear(); update(new)` shows the empty set to a
    reader in between: an enforced allow list is read as "not enforced" -/
theorem C16_old_refresh_has_empty_window (cur new : List (List Nat)) :
    [] ∈ observable cur (refreshOld new) := by
  simp [refreshOld, observable, applyOp]

end NostrRelay.Admission
