/-
C09 (LMDB) — completeness of replacement: when the transaction of an accepted replaceable event
succeeds, no other version of its address (author, kind and — for the parameterised kinds — d value)
that is not newer than it remains stored.  Uses the unconditional completeness of the author+kind
index scan (Props/C02Scan.lean): the replacement loop walks `authorkinds = [(pubkey, kind)],
until = created_at`.
-/
import NostrRelay.Props.C02Scan
import NostrRelay.Props.C09

namespace NostrRelay.KV
open NostrRelay

/-- the replacement loop removes every candidate of the address: a candidate id other than the new
    event's whose record has the same d value (or any, for the non-parameterised kinds) is not
    stored afterwards -/
theorem replaceLoop_complete (e : Event) (dTag : Option Bytes) (ids : List Bytes) (s s' : Store) (hc : Coh s)
    (h : replaceLoop e dTag s ids = some s') (id : Bytes) (c : Event) (hin : id ∈ ids) (hne : id ≠ e.id)
    (hst : getEvent s id = some c) (hd : ∀ d, dTag = some d → dValue c.tags = some d) :
    getEvent s' id = none := by
  induction ids generalizing s with
  | nil => cases hin
  | cons x rest ih =>
    have stays : ∀ s0, Coh s0 → replaceLoop e dTag s0 rest = some s' → getEvent s0 id = none → getEvent s' id = none := by
      intro s0 hc0 h0 hn
      have r := replaceLoop_removes e dTag rest s0 s' hc0 h0
      cases hg : getEvent s' id with
      | none => rfl
      | some c' => have := r.nothing_new id c' hg; rw [hn] at this; cases this
    unfold replaceLoop at h
    by_cases hxe : x = e.id
    · simp only [hxe, if_true] at h
      have hin' : id ∈ rest := by
        rcases List.mem_cons.mp hin with h1 | h1
        · exact absurd (h1.trans hxe) hne
        · exact h1
      exact ih s hc h hin' hst
    · simp only [hxe, if_false] at h
      cases hg : getEvent s x with
      | none => simp [hg] at h
      | some cand =>
        simp only [hg] at h
        have hcid := getEvent_id s hc x cand hg
        have hstc : getEvent s cand.id = some cand := by rw [hcid]; exact hg
        -- what happens to the store when this candidate is processed
        by_cases hx : x = id
        · -- it is our event: it is deleted
          subst hx
          have hcc : cand = c := by rw [hst] at hg; exact (Option.some.inj hg).symm
          subst hcc
          cases dTag with
          | none =>
            simp only at h
            cases hde : deleteEvent s cand with
            | none => simp [hde] at h
            | some s1 =>
              simp only [hde, Option.bind_some] at h
              have hc1 := (coh_deleteEvent s s1 cand hc ((getEvent_iff _ _ _).mp hstc) hde).1
              have : getEvent s1 x = none := by rw [getEvent_deleteEvent s s1 cand hc hstc hde x]; simp [hcid]
              exact stays s1 hc1 h this
          | some d =>
            simp only [hd d rfl, if_true] at h
            cases hde : deleteEvent s cand with
            | none => simp [hde] at h
            | some s1 =>
              simp only [hde, Option.bind_some] at h
              have hc1 := (coh_deleteEvent s s1 cand hc ((getEvent_iff _ _ _).mp hstc) hde).1
              have : getEvent s1 x = none := by rw [getEvent_deleteEvent s s1 cand hc hstc hde x]; simp [hcid]
              exact stays s1 hc1 h this
        · -- another candidate: ours survives this step
          have hin' : id ∈ rest := by
            rcases List.mem_cons.mp hin with h1 | h1
            · exact absurd h1.symm hx
            · exact h1
          have step : ∀ s1, deleteEvent s cand = some s1 → replaceLoop e dTag s1 rest = some s' → getEvent s' id = none := by
            intro s1 hde h1
            have hc1 := (coh_deleteEvent s s1 cand hc ((getEvent_iff _ _ _).mp hstc) hde).1
            have hst1 : getEvent s1 id = some c := by
              rw [getEvent_deleteEvent s s1 cand hc hstc hde id]
              have : id ≠ cand.id := by rw [hcid]; exact fun h' => hx h'.symm
              simp [this, hst]
            exact ih s1 hc1 h1 hin' hst1
          cases dTag with
          | none =>
            simp only at h
            cases hde : deleteEvent s cand with
            | none => simp [hde] at h
            | some s1 => simp only [hde, Option.bind_some] at h; exact step s1 hde h
          | some d =>
            simp only at h
            cases hdv : dValue cand.tags with
            | none => simp [hdv] at h
            | some cd =>
              simp only [hdv] at h
              split at h
              · cases hde : deleteEvent s cand with
                | none => simp [hde] at h
                | some s1 => simp only [hde, Option.bind_some] at h; exact step s1 hde h
              · exact ih s hc h hin' hst

/-- **C09 (LMDB, completeness)** — in every coherent, well-kept store: if the transaction of a new
    replaceable event `e` succeeds, then every other stored event `c` of the same author and kind that
    is not newer than `e` and — for the parameterised kinds — has the same d value is no longer stored
    afterwards.  (An equally old other version goes too: the property leaves ties free.) -/
theorem C09_kv_older_gone (s s' : Store) (e : Event) (hc : Coh s) (hwk : WellKept s) (hpk : PkOk s)
    (hid : e.id.length = 32) (hepk : e.pubkey.length = 32) (hr : isReplaceableKind e.kind = true)
    (hnew : getEvent s e.id = none) (h : taskBody s (.add e) = some s')
    (c : Event) (hst : getEvent s c.id = some c) (hown : c.pubkey = e.pubkey) (hkind : c.kind = e.kind)
    (holder : c.createdAt ≤ e.createdAt)
    (hd : isParamReplaceable e.kind = true → ∃ d, dValue e.tags = some d ∧ dValue c.tags = some d) :
    getEvent s' c.id = none := by
  simp only [taskBody, hnew] at h
  cases hw : writeEvent s e with
  | none => simp [hw] at h
  | some s1 =>
    simp only [hw, Option.bind_some] at h
    have hfresh := (getEvent_none_iff s hc e.id).mp hnew
    obtain ⟨hc1, _, _⟩ := coh_writeEvent s s1 e hc hid hfresh hw
    have hg1 := getEvent_writeEvent s s1 e hc hid hfresh hw
    have hwk1 := wk_writeEvent s s1 e hwk hw
    have hne : c.id ≠ e.id := by intro heq; rw [heq, hnew] at hst; cases hst
    have hst1 : getEvent s1 c.id = some c := by rw [hg1]; simp [hne, hst]
    have hpk1 : ∀ id x, getEvent s1 id = some x → x.pubkey.length = 32 := by
      intro i x hx
      rw [hg1] at hx
      by_cases hi : i = e.id
      · simp only [hi, if_true, Option.some.injEq] at hx; subst hx; exact hepk
      · simp only [hi, if_false] at hx; exact hpk i x hx
    unfold postSave at h
    simp only [hr, if_true] at h
    unfold postSaveReplaceable at h
    obtain ⟨dTag, hdT, h⟩ := Option.bind_eq_some_iff.mp h
    obtain ⟨kd, hkd, h⟩ := Option.bind_eq_some_iff.mp h
    obtain ⟨ids, hscan, hloop⟩ := Option.bind_eq_some_iff.mp h
    -- the scan of (author, kind) up to created_at finds c
    obtain ⟨ub, hub⟩ : ∃ ub, encOpt (some e.createdAt) = some ub := by
      cases hb : be32 e.createdAt with
      | none => simp [scanIndex, encOpt, hb] at hscan
      | some b => exact ⟨some b, by simp [encOpt, hb]⟩
    have hckd : be32 c.kind = some kd := by rw [hkind]; exact hkd
    obtain ⟨out, hout, hin⟩ := C02_kv_authorkinds_complete s1 hwk1 hc1 hpk1 [[4] ++ e.pubkey ++ [0] ++ kd]
      (by intro m hm; simp only [List.mem_singleton] at hm; exact ⟨e.pubkey, kd, hm, hepk, be32_length _ _ hkd⟩) (by simp)
      none (some e.createdAt) none ub rfl hub c hst1 kd hckd (by simp [hown])
      (by intro x hx; cases hx) (by intro x hx; cases hx; exact holder)
    rw [hscan] at hout
    cases hout
    refine replaceLoop_complete e dTag ids s1 s' hc1 hloop c.id c hin hne hst1 ?_
    intro d hdd
    by_cases hp : isParamReplaceable e.kind = true
    · obtain ⟨d', hde, hdc⟩ := hd hp
      simp only [hp, if_true, hde, Option.map_some, Option.some.injEq] at hdT
      rw [← hdT] at hdd
      cases hdd
      exact hdc
    · simp only [hp, Bool.false_eq_true, if_false, Option.some.injEq] at hdT
      rw [← hdT] at hdd
      cases hdd

/-- the same for every store the writer can produce -/
theorem C09_kv_older_gone_reachable (tasks : List Task) (hwf : ∀ t ∈ tasks, t.wfp) (e : Event) (s' : Store)
    (hid : e.id.length = 32) (hepk : e.pubkey.length = 32) (hr : isReplaceableKind e.kind = true)
    (hnew : getEvent (applyTasks init tasks) e.id = none) (h : taskBody (applyTasks init tasks) (.add e) = some s')
    (c : Event) (hst : getEvent (applyTasks init tasks) c.id = some c) (hown : c.pubkey = e.pubkey) (hkind : c.kind = e.kind)
    (holder : c.createdAt ≤ e.createdAt)
    (hd : isParamReplaceable e.kind = true → ∃ d, dValue e.tags = some d ∧ dValue c.tags = some d) :
    getEvent s' c.id = none :=
  C09_kv_older_gone _ s' e (C10_coherent_reachable tasks (fun t ht => wfp_wf t (hwf t ht))) (wk_reachable tasks)
    (pkok_reachable tasks hwf) hid hepk hr hnew h c hst hown hkind holder hd

end NostrRelay.KV
