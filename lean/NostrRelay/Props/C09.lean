/-
C09 — Replaceable events: newest kept, older superseded, everything else untouched.
(and the LMDB half of C08: what an accepted event can remove at all)

`kv_add_removed_spec` characterises every record that disappears when the LMDB writer applies an
`add` task, for every coherent store: it is never the new event; the new event's kind is
replaceable (0, 3, 10000-19999, 30000-39999) and the record has the same author, the same kind,
a timestamp not newer than the new event's and — for the parameterised kinds — the same d value;
or the new event is a kind-5 deletion by the record's own author that references the record's id
and is strictly newer.  SQL: the analogous statement for `addEvent`, plus "every older version of
the address is gone" and "nothing newer is ever removed".
-/
import NostrRelay.Props.KVScan

namespace NostrRelay.KV
open NostrRelay

/-- every stored record has a 32-byte public key (admitted events: BIP-340 x-only keys) -/
def PkOk (s : Store) : Prop := ∀ id c, getEvent s id = some c → c.pubkey.length = 32

/-- records of the store after `writeEvent` of a fresh event -/
theorem getEvent_writeEvent (s s1 : Store) (e : Event) (hc : Coh s) (hid : e.id.length = 32)
    (hfresh : get s (primaryKey e.id) = none) (hw : writeEvent s e = some s1) (id : Bytes) :
    getEvent s1 id = if id = e.id then some e else getEvent s id := by
  obtain ⟨_, _, hget⟩ := coh_writeEvent s s1 e hc hid hfresh hw
  have h := hget (primaryKey id)
  have hns : primaryKey id ∉ skOf e := fun hs => (sk_not_primary e hid _ hs).1 id rfl
  unfold getEvent
  unfold primaryKey at h hns
  rw [h]
  by_cases h1 : id = e.id
  · simp [h1]
  · have : ¬ (0 :: id = 0 :: e.id) := by simpa using h1
    simp [h1, this, hns]

inductive RemovedWhy (e c : Event) : Prop where
  | superseded (hk : isReplaceableKind e.kind = true) (hpk : c.pubkey = e.pubkey) (hkind : c.kind = e.kind)
      (hts : c.createdAt ≤ e.createdAt)
      (hd : isParamReplaceable e.kind = true → ∃ d, dValue e.tags = some d ∧ dValue c.tags = some d)
  | deleted (hk : e.kind = 5) (hpk : c.pubkey = e.pubkey) (hts : c.createdAt ≤ e.createdAt - 1)
      (href : ∃ refs, deletionRefs e.tags = some refs ∧ c.id ∈ refs)

/-- **what an LMDB `add` task can remove** (any coherent store, any event with 32-byte id/pubkey) -/
theorem kv_add_removed_spec (s s' : Store) (e : Event) (hc : Coh s) (hpk : PkOk s)
    (hid : e.id.length = 32) (hepk : e.pubkey.length = 32)
    (h : taskBody s (.add e) = some s') (id : Bytes) (c : Event)
    (hst : getEvent s id = some c) (hgone : getEvent s' id = none) :
    c.id ≠ e.id ∧ RemovedWhy e c := by
  simp only [taskBody] at h
  cases hg : getEvent s e.id with
  | some x => simp [hg] at h; subst h; rw [hst] at hgone; simp at hgone
  | none =>
    simp only [hg] at h
    cases hw : writeEvent s e with
    | none => simp [hw] at h
    | some s1 =>
      simp only [hw, Option.bind_some] at h
      have hfresh := (getEvent_none_iff s hc e.id).mp hg
      obtain ⟨hc1, _, _⟩ := coh_writeEvent s s1 e hc hid hfresh hw
      have hg1 := getEvent_writeEvent s s1 e hc hid hfresh hw
      have hcid := getEvent_id s hc id c hst
      have hne : id ≠ e.id := by
        intro heq; rw [heq, hg] at hst; simp at hst
      have hst1 : getEvent s1 id = some c := by rw [hg1]; simp [hne, hst]
      have hpk1 : PkOk s1 := by
        intro i x hx
        rw [hg1] at hx
        by_cases hi : i = e.id
        · simp only [hi, if_true, Option.some.injEq] at hx; subst hx; exact hepk
        · simp only [hi, if_false] at hx; exact hpk i x hx
      refine ⟨by rw [hcid]; exact hne, ?_⟩
      unfold postSave at h
      by_cases hr : isReplaceableKind e.kind = true
      · -- replaceable branch
        simp only [hr, if_true] at h
        unfold postSaveReplaceable at h
        obtain ⟨dTag, hdT, h⟩ := Option.bind_eq_some_iff.mp h
        obtain ⟨kd, hkd, h⟩ := Option.bind_eq_some_iff.mp h
        obtain ⟨ids, hscan, h⟩ := Option.bind_eq_some_iff.mp h
        have r := replaceLoop_removes e dTag ids s1 s' hc1 h
        obtain ⟨hin, _, hdt⟩ := r.only_P id c hst1 hgone
        obtain ⟨m, hm, k, hk, hidk, hpre, hunt, _⟩ := scanIndex_sound s1 _ none (some e.createdAt) none ids hscan id hin
        simp only [List.mem_singleton] at hm
        subst hm
        obtain ⟨c', ts, hc'st, hlast, hc'pk, hc'kind, hc'ts, hslice⟩ :=
          authorkind_key_owner s1 hc1 hpk1 e.pubkey kd k hepk (be32_length _ _ hkd) hk hpre
        have hc'eq : c' = c := by
          have : c'.id = id := by rw [← hlast, hidk]
          rw [this, hst1] at hc'st
          simpa using hc'st.symm
        subst hc'eq
        obtain ⟨ub, hub, hnlt⟩ := hunt e.createdAt rfl
        rw [hslice] at hnlt
        refine RemovedWhy.superseded hr hc'pk ?_ ?_ ?_
        · exact be32_inj _ _ kd hc'kind hkd
        · exact be32_not_lt _ _ ts ub hc'ts hub hnlt
        · intro hp
          simp only [hp, if_true] at hdT
          cases hde : dValue e.tags with
          | none => simp [hde] at hdT
          | some d =>
            simp only [hde, Option.map_some, Option.some.injEq] at hdT
            subst hdT
            rcases hdt with h0 | ⟨d', hd', hcd⟩
            · simp at h0
            · simp only [Option.some.injEq] at hd'
              subst hd'
              exact ⟨d, rfl, hcd⟩
      · simp only [hr, Bool.false_eq_true, if_false] at h
        by_cases h5 : (e.kind == 5) = true
        · simp only [h5, if_true] at h
          unfold postSaveDelete at h
          cases hd : deletionRefs e.tags with
          | none => simp [hd] at h
          | some refs =>
            simp only [hd, Option.bind_eq_bind, Option.bind_some] at h
            by_cases hemp : refs.isEmpty = true
            · simp only [hemp, if_true, Option.pure_def, Option.some.injEq] at h
              subst h; rw [hst1] at hgone; simp at hgone
            · simp only [hemp, Bool.false_eq_true, if_false] at h
              obtain ⟨cands, hscan, h⟩ := Option.bind_eq_some_iff.mp h
              have r := deleteLoop_removes refs cands s1 s' hc1 h
              obtain ⟨hin, hinref⟩ := r.only_P id c hst1 hgone
              obtain ⟨m, hm, k, hk, hidk, hpre, hunt, _⟩ :=
                scanIndex_sound s1 _ none (some (e.createdAt - 1)) none cands hscan id hin
              simp only [List.mem_singleton] at hm
              subst hm
              obtain ⟨c', ts, hc'st, hlast, hc'pk, hc'ts, hslice⟩ :=
                author_key_owner s1 hc1 hpk1 e.pubkey k hepk hk hpre
              have hc'eq : c' = c := by
                have : c'.id = id := by rw [← hlast, hidk]
                rw [this, hst1] at hc'st
                simpa using hc'st.symm
              subst hc'eq
              obtain ⟨ub, hub, hnlt⟩ := hunt (e.createdAt - 1) rfl
              rw [hslice] at hnlt
              exact RemovedWhy.deleted (by simpa using h5) hc'pk (be32_not_lt _ _ ts ub hc'ts hub hnlt)
                ⟨refs, hd, by rw [hcid]; exact hinref⟩
        · simp only [h5, Bool.false_eq_true, if_false, Option.some.injEq] at h
          subst h; rw [hst1] at hgone; simp at hgone

/-- **C09 (LMDB)** — accepting a regular event (not replaceable, not a deletion) removes nothing -/
theorem C09_kv_regular_untouched (s s' : Store) (e : Event) (hc : Coh s) (hpk : PkOk s)
    (hid : e.id.length = 32) (hepk : e.pubkey.length = 32)
    (hreg : isReplaceableKind e.kind = false) (h5 : e.kind ≠ 5)
    (h : taskBody s (.add e) = some s') (id : Bytes) (c : Event) (hst : getEvent s id = some c) :
    getEvent s' id = some c := by
  simp only [taskBody] at h
  cases hge : getEvent s e.id with
  | some y => simp [hge] at h; subst h; exact hst
  | none =>
    simp only [hge] at h
    cases hw : writeEvent s e with
    | none => simp [hw] at h
    | some s1 =>
      simp only [hw, Option.bind_some] at h
      unfold postSave at h
      have h5' : (e.kind == 5) = false := by simpa using h5
      simp only [hreg, Bool.false_eq_true, if_false, h5', Option.some.injEq] at h
      subst h
      have hfresh := (getEvent_none_iff s hc e.id).mp hge
      have hne : id ≠ e.id := by intro heq; rw [heq, hge] at hst; simp at hst
      rw [getEvent_writeEvent s s1 e hc hid hfresh hw id]
      simp [hne, hst]

/-- **C09 (LMDB)** — what accepting a replaceable event removes has the new event's author and
    kind, is not newer, is not the new event itself, and for parameterised kinds has the same
    d value (first d tag, "" when missing or bare) — whatever else is stored, whether one d value
    is a substring of another, and however many older versions there are. -/
theorem C09_kv_removed_spec (s s' : Store) (e : Event) (hc : Coh s) (hpk : PkOk s)
    (hid : e.id.length = 32) (hepk : e.pubkey.length = 32) (h5 : e.kind ≠ 5)
    (h : taskBody s (.add e) = some s') (id : Bytes) (c : Event)
    (hst : getEvent s id = some c) (hgone : getEvent s' id = none) :
    c.id ≠ e.id ∧ c.pubkey = e.pubkey ∧ c.kind = e.kind ∧ c.createdAt ≤ e.createdAt ∧
    isReplaceableKind e.kind = true ∧
    (isParamReplaceable e.kind = true → ∃ d, dValue e.tags = some d ∧ dValue c.tags = some d) := by
  obtain ⟨hne, why⟩ := kv_add_removed_spec s s' e hc hpk hid hepk h id c hst hgone
  cases why with
  | superseded hk hp hkind hts hd => exact ⟨hne, hp, hkind, hts, hk, hd⟩
  | deleted hk => exact absurd hk h5

/-- **C09 (LMDB)** — the new event itself is stored after its own task (it never supersedes
    itself), unless the transaction aborted -/
theorem C09_kv_never_removes_itself (s s' : Store) (e : Event) (hc : Coh s) (hid : e.id.length = 32)
    (hfresh : getEvent s e.id = none) (h : taskBody s (.add e) = some s') :
    getEvent s' e.id = some e ∨ (e.kind = 5 ∧ ∃ refs, deletionRefs e.tags = some refs ∧ e.id ∈ refs) := by
  simp only [taskBody, hfresh] at h
  cases hw : writeEvent s e with
  | none => simp [hw] at h
  | some s1 =>
    simp only [hw, Option.bind_some] at h
    have hfr := (getEvent_none_iff s hc e.id).mp hfresh
    obtain ⟨hc1, _, _⟩ := coh_writeEvent s s1 e hc hid hfr hw
    have hg1 := getEvent_writeEvent s s1 e hc hid hfr hw e.id
    simp only [if_true] at hg1
    cases hg : getEvent s' e.id with
    | some x =>
      left
      have r := postSave_removes s1 s' e hc1 h
      have := r.nothing_new e.id x hg
      rw [hg1] at this
      simp only [Option.some.injEq] at this
      rw [this]
    | none =>
      right
      have r := postSave_removes s1 s' e hc1 h
      have hp := r.only_P e.id e hg1 hg
      rcases hp with hp | hp
      · exact absurd rfl hp
      · -- not replaceable: only a kind-5 deletion referencing its own id could do this
        unfold postSave at h
        have hp' : isReplaceableKind e.kind = false := by simpa using hp
        simp only [hp', Bool.false_eq_true, if_false] at h
        by_cases h5 : (e.kind == 5) = true
        · simp only [h5, if_true] at h
          unfold postSaveDelete at h
          cases hd : deletionRefs e.tags with
          | none => simp [hd] at h
          | some refs =>
            simp only [hd, Option.bind_eq_bind, Option.bind_some] at h
            by_cases hemp : refs.isEmpty = true
            · simp only [hemp, if_true, Option.pure_def, Option.some.injEq] at h
              subst h; rw [hg1] at hg; simp at hg
            · simp only [hemp, Bool.false_eq_true, if_false] at h
              obtain ⟨cands, _, h⟩ := Option.bind_eq_some_iff.mp h
              have r2 := deleteLoop_removes refs cands s1 s' hc1 h
              exact ⟨by simpa using h5, refs, rfl, (r2.only_P e.id e hg1 hg).2⟩
        · simp only [h5, Bool.false_eq_true, if_false, Option.some.injEq] at h
          subst h; rw [hg1] at hg; simp at hg

end NostrRelay.KV

namespace NostrRelay.SQL
open NostrRelay NostrRelay.KV

/-! ## SQL -/

theorem mem_deleteWhere (s : State) (p : Event → Bool) (r : Event) :
    r ∈ (deleteWhere s p).events ↔ r ∈ s.events ∧ p r = false := by
  simp [deleteWhere, List.mem_filter]

/-- the address relation `pre_save` / `post_save` use for supersession -/
def Supersedes (e r : Event) : Prop :=
  r.pubkey = e.pubkey ∧ r.kind = e.kind ∧ r.createdAt < e.createdAt ∧
  (isParamReplaceable e.kind = true → ∃ d, newDTag e.tags = some d ∧ rowD r.tags = d)

def isAddressKind (k : Int) : Bool := k == 0 || k == 3 || isReplaceable k || isParamReplaceable k

/-- rows of the state after `pre_save` -/
theorem preSave_spec (s s1 : State) (e : Event) (h : preSave s e = some s1) (r : Event) :
    r ∈ s1.events ↔ r ∈ s.events ∧
      ¬ ((isReplaceable e.kind = true ∨ isParamReplaceable e.kind = true) ∧ Supersedes e r) := by
  unfold preSave at h
  by_cases h1 : isReplaceable e.kind = true
  · simp only [h1, if_true, Option.some.injEq] at h
    subst h
    rw [mem_deleteWhere]
    have hnp : isParamReplaceable e.kind = false := by
      simp only [isReplaceable, isParamReplaceable, Bool.and_eq_true, decide_eq_true_eq] at h1 ⊢
      simp only [Bool.and_eq_false_iff, decide_eq_false_iff_not]; omega
    simp only [isOlderVersion, Supersedes, hnp, h1, Bool.false_eq_true, false_implies, and_true,
      true_or, true_and, Bool.and_eq_false_iff, beq_eq_false_iff_ne, decide_eq_false_iff_not]
    constructor
    · rintro ⟨hm, hh⟩; refine ⟨hm, ?_⟩; rintro ⟨a, b, c⟩; rcases hh with (hh | hh) | hh
      · exact hh a
      · exact hh b
      · exact hh c
    · rintro ⟨hm, hh⟩; refine ⟨hm, ?_⟩
      by_cases ha : r.pubkey = e.pubkey
      · by_cases hb : r.kind = e.kind
        · right; intro hc; exact hh ⟨ha, hb, hc⟩
        · left; right; exact hb
      · left; left; exact ha
  · simp only [h1, Bool.false_eq_true, if_false] at h
    by_cases h2 : isParamReplaceable e.kind = true
    · simp only [h2, if_true] at h
      cases hd : newDTag e.tags with
      | none => simp [hd] at h
      | some d =>
        simp only [hd, Option.some.injEq] at h
        subst h
        rw [mem_deleteWhere]
        simp only [isOlderVersion, Bool.and_eq_false_iff, beq_eq_false_iff_ne, decide_eq_false_iff_not]
        constructor
        · rintro ⟨hm, hh⟩
          refine ⟨hm, ?_⟩
          rintro ⟨_, a, b, c, dd⟩
          obtain ⟨d', hd', hrd⟩ := dd h2
          rw [hd] at hd'
          simp only [Option.some.injEq] at hd'
          subst hd'
          rcases hh with ((hh | hh) | hh) | hh
          · exact hh a
          · exact hh b
          · exact hh c
          · exact hh hrd
        · rintro ⟨hm, hh⟩
          refine ⟨hm, ?_⟩
          by_cases ha : r.pubkey = e.pubkey
          · by_cases hb : r.kind = e.kind
            · by_cases hc : r.createdAt < e.createdAt
              · right; intro hdd; exact hh ⟨Or.inr h2, ha, hb, hc, fun _ => ⟨d, hd, hdd⟩⟩
              · left; right; exact hc
            · left; left; right; exact hb
          · left; left; left; exact ha
    · simp only [h2, Bool.false_eq_true, if_false, Option.some.injEq] at h
      subst h
      simp [h1, h2]

/-- **C09 (SQL)** — for an accepted event that is not a deletion: every row that disappears has
    the new event's address (author, kind, and — parameterised kinds — d value) and is strictly
    older; so nothing of another address, no regular event and nothing newer is ever removed. -/
theorem C09_sql_removed_spec (s s' : State) (e : Event) (ch : Bool) (h5 : e.kind ≠ 5)
    (h : addEvent s e = .ok s' ch) (r : Event) (hr : r ∈ s.events) (hgone : r ∉ s'.events) :
    isAddressKind e.kind = true ∧ Supersedes e r := by
  cases hres : isResubmission s e with
  | true =>
    rw [addEvent_resubmission s e hres] at h
    simp only [AddResult.ok.injEq] at h
    obtain ⟨rfl, _⟩ := h; exact absurd hr hgone
  | false =>
  rw [addEvent_fresh s e hres] at h
  cases hp : preSave s e with
  | none => simp [hp] at h
  | some s1 =>
    simp only [hp] at h
    have hs1 := preSave_spec s s1 e hp r
    by_cases hin1 : r ∈ s1.events
    · -- survived pre_save: removed by the kind 0/3 clean-up of post_save
      unfold addCore at h
      by_cases hdup : s1.events.any (fun x => x.id == e.id) = true
      · simp only [hdup, if_true, AddResult.ok.injEq] at h
        obtain ⟨rfl, _⟩ := h; exact absurd hin1 hgone
      · simp only [hdup, Bool.false_eq_true, if_false] at h
        have h5' : (e.kind == 5) = false := by simpa using h5
        by_cases h03 : (e.kind == 0 || e.kind == 3) = true
        · simp only [h03, if_true, h5', Bool.false_eq_true, if_false] at h
          have hs3 : s'.events = (deleteWhere { s1 with events := s1.events ++ [e] } fun x =>
              x.pubkey == e.pubkey && x.kind == e.kind && decide (x.createdAt < e.createdAt)).events := by
            split at h
            · simp only [AddResult.ok.injEq] at h; rw [← h.1]
            · split at h
              · simp at h
              · simp only [AddResult.ok.injEq] at h; rw [← h.1]
          rw [hs3, mem_deleteWhere] at hgone
          have hmem : r ∈ s1.events ++ [e] := List.mem_append_left _ hin1
          have hpred : (r.pubkey == e.pubkey && r.kind == e.kind && decide (r.createdAt < e.createdAt)) = true := by
            cases hv : (r.pubkey == e.pubkey && r.kind == e.kind && decide (r.createdAt < e.createdAt)) with
            | true => rfl
            | false => exact absurd ⟨hmem, hv⟩ hgone
          simp only [Bool.and_eq_true, beq_iff_eq, decide_eq_true_eq] at hpred
          refine ⟨by simp only [isAddressKind]; simp only [Bool.or_eq_true] at h03 ⊢; rcases h03 with h | h <;> simp [h], ?_⟩
          refine ⟨hpred.1.1, hpred.1.2, hpred.2, ?_⟩
          intro hpar
          exfalso
          simp only [Bool.or_eq_true, beq_iff_eq] at h03
          simp only [isParamReplaceable, Bool.and_eq_true, decide_eq_true_eq] at hpar
          omega
        · simp only [h03, Bool.false_eq_true, if_false, h5'] at h
          have hs3 : s'.events = s1.events ++ [e] := by
            split at h
            · simp only [AddResult.ok.injEq] at h; rw [← h.1]
            · split at h
              · simp at h
              · simp only [AddResult.ok.injEq] at h; rw [← h.1]
          rw [hs3] at hgone
          exact absurd (List.mem_append_left _ hin1) hgone
    · -- removed by pre_save
      have : ¬ (r ∈ s.events ∧ ¬ ((isReplaceable e.kind = true ∨ isParamReplaceable e.kind = true) ∧ Supersedes e r)) :=
        fun hh => hin1 (hs1.mpr hh)
      have hsup : (isReplaceable e.kind = true ∨ isParamReplaceable e.kind = true) ∧ Supersedes e r := by
        by_cases hx : (isReplaceable e.kind = true ∨ isParamReplaceable e.kind = true) ∧ Supersedes e r
        · exact hx
        · exact absurd ⟨hr, hx⟩ this
      refine ⟨?_, hsup.2⟩
      simp only [isAddressKind, Bool.or_eq_true]
      rcases hsup.1 with h | h
      · exact Or.inl (Or.inr h)
      · exact Or.inr h

/-- **C09 (SQL)** — after an accepted new replaceable (10000-19999) or parameterised
    (30000-39999) event, *no* older version of its address is left, however many there were -/
theorem C09_sql_older_gone (s s' : State) (e : Event) (h5 : e.kind ≠ 5)
    (hk : isReplaceable e.kind = true ∨ isParamReplaceable e.kind = true)
    (h : addEvent s e = .ok s' true) (r : Event) (hr : r ∈ s'.events) (hne : r ≠ e) :
    ¬ Supersedes e r := by
  intro hsup
  cases hres : isResubmission s e with
  | true =>
    rw [addEvent_resubmission s e hres] at h
    simp at h
  | false =>
  rw [addEvent_fresh s e hres] at h
  cases hp : preSave s e with
  | none => simp [hp] at h
  | some s1 =>
    simp only [hp] at h
    have hs1 := preSave_spec s s1 e hp r
    have hnot1 : r ∉ s1.events := fun hin => (hs1.mp hin).2 ⟨hk, hsup⟩
    unfold addCore at h
    by_cases hdup : s1.events.any (fun x => x.id == e.id) = true
    · simp [hdup] at h
    · simp only [hdup, Bool.false_eq_true, if_false] at h
      have h5' : (e.kind == 5) = false := by simpa using h5
      have h03 : (e.kind == 0 || e.kind == 3) = false := by
        simp only [isReplaceable, isParamReplaceable, Bool.and_eq_true, decide_eq_true_eq] at hk
        simp only [Bool.or_eq_false_iff, beq_eq_false_iff_ne]
        omega
      simp only [h03, Bool.false_eq_true, if_false, h5'] at h
      have hs3 : s'.events = s1.events ++ [e] := by
        split at h
        · simp only [AddResult.ok.injEq] at h; rw [← h.1]
        · split at h
          · simp at h
          · simp only [AddResult.ok.injEq] at h; rw [← h.1]
      rw [hs3, List.mem_append, List.mem_singleton] at hr
      rcases hr with hr | hr
      · exact hnot1 hr
      · exact hne hr

/-- **C09 (SQL)** — the newest version of an address is never removed: whatever disappears is
    strictly older than the accepted event, which is itself stored or was already -/
theorem C09_sql_newest_survives (s s' : State) (e : Event) (ch : Bool) (h5 : e.kind ≠ 5)
    (h : addEvent s e = .ok s' ch) (r : Event) (hr : r ∈ s.events) (hnew : e.createdAt ≤ r.createdAt) :
    r ∈ s'.events := by
  by_cases hin : r ∈ s'.events
  · exact hin
  · have := (C09_sql_removed_spec s s' e ch h5 h r hr hin).2.2.2.1
    omega

/-! ### non-vacuity: three versions 10, 5, 20 of one address (the input of the repaired defect) -/

def rEv (i : Nat) (ts : Int) : Event :=
  { id := List.replicate 31 0 ++ [i], pubkey := List.replicate 32 170, createdAt := ts, kind := 10002, tags := [] }

def addAll (s : State) : List Event → State
  | [] => s
  | e :: es => match addEvent s e with | .ok s' _ => addAll s' es | .raises => addAll s es

example : ((addAll {} [rEv 1 10, rEv 2 5, rEv 3 20]).events.map (·.createdAt)) = [20] := by decide +kernel

end NostrRelay.SQL
