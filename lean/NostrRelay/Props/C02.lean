/-
C02 — A REQ returns every matching stored event exactly once when under its limit.

KV: `C02_kv_scan_complete` reduces completeness of the index scanner to local conditions on the keys
between the target key and the seek position (all "good"), and on the earlier matches (their walks
end with "next match"); `C02_kv_executePlan_complete` lifts it through the matcher and the limit;
duplicates are impossible (`C02_kv_no_duplicates`).  The instantiation of the local conditions for
the fixed-width indexes is in `Props/C02Scan.lean`.
SQL: `C02_sql_complete_partial`: under the table invariant every stored row that strictly matches
a filter (tag names single characters, no empty tag value requested) satisfies its WHERE predicate,
hence is in `matchingRows`; rows are pairwise distinct.
-/
import NostrRelay.Props.C01

namespace NostrRelay.KV
open NostrRelay

/-! ## the walk as a `takeWhile` -/

/-- a key the walk steps over while staying in the current match -/
def good (cfg : ScanCfg) (m k : Bytes) : Bool := !(badKey cfg m k) && !(decide (k < cfg.stop))

/-- the walk yields the id of every key of the good prefix of the visited list -/
theorem walk_yields (cfg : ScanCfg) (m : Bytes) (pre post : List Bytes) (k : Bytes)
    (hpre : ∀ x ∈ pre, good cfg m x = true) (hk : good cfg m k = true)
    (hev : inEvents cfg (lastN 32 k) = true) :
    lastN 32 k ∈ (walk cfg m (pre ++ k :: post)).1 := by
  induction pre with
  | nil =>
    simp only [List.nil_append]
    unfold walk
    simp only [good, Bool.and_eq_true, Bool.not_eq_true', decide_eq_false_iff_not] at hk
    obtain ⟨hb, hs⟩ := hk
    simp only [hb, Bool.false_eq_true, if_false, hs, hev, if_true]
    cases post with
    | nil => simp
    | cons p ps => simp
  | cons x xs ih =>
    have hx := hpre x List.mem_cons_self
    simp only [List.cons_append]
    unfold walk
    simp only [good, Bool.and_eq_true, Bool.not_eq_true', decide_eq_false_iff_not] at hx
    obtain ⟨hb, hs⟩ := hx
    simp only [hb, Bool.false_eq_true, if_false, hs]
    cases hrest : xs ++ k :: post with
    | nil => simp at hrest
    | cons y ys =>
      simp only
      rw [← hrest]
      apply List.mem_append_right
      exact ih (fun z hz => hpre z (List.mem_cons_of_mem _ hz))

/-- the store's keys are strictly ascending (LMDB's order; preserved by `put`/`del`) -/
def Sorted (s : Store) : Prop := (skeys s).Pairwise (· < ·)

/-- the keys `below s seek` are visited largest first: split at a target key `k`, everything
    visited before `k` is a key of the store strictly between `k` and `seek` -/
theorem below_split (s : Store) (hs : Sorted s) (seek k : Bytes) (hk : k ∈ skeys s) (hlt : k < seek) :
    ∃ pre post, below s seek = pre ++ k :: post ∧ ∀ x ∈ pre, x ∈ skeys s ∧ x < seek ∧ k < x := by
  have hmem : k ∈ below s seek := by
    unfold below
    simp only [List.mem_reverse, List.mem_filter, decide_eq_true_eq]
    exact ⟨hk, hlt⟩
  obtain ⟨pre, post, h⟩ := List.append_of_mem hmem
  have hdesc : (below s seek).Pairwise (fun a b => b < a) := by
    unfold below
    rw [List.pairwise_reverse]
    exact List.Pairwise.sublist List.filter_sublist hs
  refine ⟨pre, post, h, ?_⟩
  intro x hx
  have hxb : x ∈ below s seek := by rw [h]; exact List.mem_append_left _ hx
  unfold below at hxb
  simp only [List.mem_reverse, List.mem_filter, decide_eq_true_eq] at hxb
  refine ⟨hxb.1, hxb.2, ?_⟩
  rw [h, List.pairwise_append] at hdesc
  exact hdesc.2.2 x hx k List.mem_cons_self

/-- **C02 (LMDB, scanner)** — completeness of `Index.scanner` reduced to local conditions.
    For a target key `k` of a sorted store that lies under the requested match `m`
    (`k < seek m`): if `k` is good, every key of the store strictly between `k` and the seek
    position is good, the seek of `m` finds a key, and the walk of every earlier match ends with
    "next match" (and its seek finds a key), then the scanner yields `k`'s event id. -/
theorem C02_kv_scan_complete (s : Store) (hs : Sorted s) (cfg : ScanCfg) (addTime : Bytes)
    (before : List Bytes) (m : Bytes) (after : List Bytes) (first : Bool) (k : Bytes)
    (hk : k ∈ skeys s) (hlt : k < m ++ addTime ++ [255])
    (hgood : good cfg m k = true)
    (habove : ∀ x ∈ skeys s, k < x → x < m ++ addTime ++ [255] → good cfg m x = true)
    (hev : inEvents cfg (lastN 32 k) = true)
    (hseek : seekFinds s (m ++ addTime ++ [255]) = true)
    (hearlier : ∀ m' ∈ before, seekFinds s (m' ++ addTime ++ [255]) = true ∧
      (walk cfg m' (below s (m' ++ addTime ++ [255]))).2 = .nextMatch) :
    lastN 32 k ∈ scanMatches s cfg addTime (before ++ m :: after) first := by
  induction before generalizing first with
  | nil =>
    simp only [List.nil_append]
    unfold scanMatches
    simp only [hseek, if_true]
    obtain ⟨pre, post, hsplit, hpre⟩ := below_split s hs _ k hk hlt
    have hy := walk_yields cfg m pre post k (fun x hx => habove x (hpre x hx).1 (hpre x hx).2.2 (hpre x hx).2.1) hgood hev
    rw [← hsplit] at hy
    cases hw : (walk cfg m (below s (m ++ addTime ++ [255]))).2 with
    | nextMatch => exact List.mem_append_left _ hy
    | endAll => exact hy
  | cons m' rest ih =>
    simp only [List.cons_append]
    unfold scanMatches
    obtain ⟨hs', hw'⟩ := hearlier m' List.mem_cons_self
    simp only [hs', if_true, hw']
    apply List.mem_append_right
    exact ih false (fun x hx => hearlier x (List.mem_cons_of_mem _ hx))

/-! ## matcher + limit -/

theorem nodup_eraseDups (l : List Bytes) : l.eraseDups.Nodup := by
  induction hn : l.length using Nat.strongRecOn generalizing l with
  | _ n ih =>
    cases l with
    | nil => simp
    | cons a as =>
      rw [List.eraseDups_cons, List.nodup_cons]
      refine ⟨?_, ih _ ?_ _ rfl⟩
      · intro hmem
        rw [List.mem_eraseDups, List.mem_filter] at hmem
        simp at hmem
      · subst hn
        simp only [List.length_cons]
        exact Nat.lt_succ_of_le (List.length_filter_le _ _)

/-- `execute_one_plan` delivers every candidate that is stored and passes the residual filter,
    as long as the limit does not truncate -/
theorem C02_kv_executePlan_complete (s : Store) (p : Plan) (cands : List Bytes)
    (hc : planCandidates s p = some cands) (id : Bytes) (e : Event)
    (hin : id ∈ cands) (hst : getEvent s id = some e) (hres : residual p.filter e = true)
    (hlim : ∀ n, p.limit = some n → (planHits s p.filter cands).length ≤ n) :
    id ∈ executePlan s p := by
  unfold executePlan
  simp only [hc]
  have hmem : id ∈ planHits s p.filter cands := by
    unfold planHits
    rw [List.mem_filter]
    exact ⟨List.mem_eraseDups.mpr hin, by simp [hst, hres]⟩
  split
  · rename_i n hl
    rw [List.take_of_length_le (hlim n hl)]
    exact hmem
  · exact hmem

/-- exactly once: an id is never delivered twice for one plan -/
theorem C02_kv_no_duplicates (s : Store) (p : Plan) : (executePlan s p).Nodup := by
  unfold executePlan
  cases hc : planCandidates s p with
  | none => simp
  | some cands =>
    simp only
    have h1 : (planHits s p.filter cands).Nodup := by
      unfold planHits
      exact List.Nodup.sublist List.filter_sublist (nodup_eraseDups _)
    split
    · exact List.Nodup.sublist (List.take_sublist _ _) h1
    · exact h1

/-- strictly matching implies passing the residual filter (so a complete scanner gives a
    complete answer) -/
theorem residual_complete (f : Filter) (e : Event) (h : matchesSpec true f e = true) :
    residual f e = true := by
  unfold matchesSpec at h
  unfold residual
  simp only [Bool.and_eq_true] at h ⊢
  obtain ⟨⟨⟨⟨⟨h1, h2⟩, h3⟩, h4⟩, h5⟩, h6⟩ := h
  refine ⟨⟨⟨⟨⟨h1, ?_⟩, h3⟩, ?_⟩, ?_⟩, h6⟩
  · cases hf : f.authors with
    | none => simp
    | some l => simp only [hf] at h2; simpa using h2
  · cases hf : f.since with
    | none => simp
    | some x => simp only [hf, if_true, decide_eq_true_eq] at h4; simp only [decide_eq_true_eq]; omega
  · cases hf : f.until_ with
    | none => simp
    | some x => simp only [hf, if_true, decide_eq_true_eq] at h5; simp only [decide_eq_true_eq]; omega

/-! ### witness for the open finding `kv-tag-prefix-since` -/

def pEv (i : Nat) (ts : Int) (v : Bytes) : Event :=
  { id := List.replicate 31 0 ++ [i], pubkey := List.replicate 32 170, createdAt := ts, kind := 1, tags := [[[116], v]] }

/-- **Finding `kv-tag-prefix-since`** — event 1 is tagged `t=a` at 1700000100, event 2 is tagged
    `t=ab` at 1700000000.  `{"#t":["a"],"since":1700000050}` strictly matches event 1, but the
    plan delivers nothing: the key of `ab` sorts above the block of `a`, carries the prefix, fails
    the `since` test and ends the scan of `a` (without `since` the same plan returns event 1). -/
theorem C02_kv_tag_prefix_since_witness :
    let s := applyTasks init [.add (pEv 1 1700000100 [97]), .add (pEv 2 1700000000 [97, 98])]
    let f : Filter := { tags := [([116], [[97]])], since := some 1700000050 }
    matchesSpec true f (pEv 1 1700000100 [97]) = true ∧
    (planFilter f none 20).map (executePlan s) = some [] ∧
    (planFilter { f with since := none } none 20).map (executePlan s) = some [(pEv 1 1700000100 [97]).id] := by
  decide +kernel

/-- **Finding `kv-tag-nul-extension-window`** — event 1 is tagged `t=a` at 1700000000 (0x6553F100); event 2
    is tagged `t="a\u0000eS\U00040000"` (bytes `61 00 65 53 F1 80 80 80`) at a later time.  The key of
    event 2 is `09 t 00 a 00 65 53 F1 80 80 80 00 ts 00 id`: it carries the match `09 t 00 a` as a prefix and
    sorts *inside* the block of `a`, between the key of event 1 (`… 00 65 53 F1 00 00 id`) and the seek
    position of `until = 0x6553F1FF`.  `{"#t":["a"],"until":1700000255}` strictly matches event 1, but the
    scan meets event 2 first, reads its timestamp (after `until`), and gives up the value: nothing is
    delivered.  Without `until`, or without event 2 in the store, event 1 is delivered. -/
theorem C02_kv_tag_nul_until_witness :
    let e1 := pEv 1 1700000000 [97]
    let e2 := pEv 2 1700001255 [97, 0, 101, 83, 241, 128, 128, 128]
    let f : Filter := { tags := [([116], [[97]])], until_ := some 1700000255 }
    matchesSpec true f e1 = true ∧
    (planFilter f none 20).map (executePlan (applyTasks init [.add e1, .add e2])) = some [] ∧
    (planFilter f none 20).map (executePlan (applyTasks init [.add e1])) = some [e1.id] ∧
    (planFilter { f with until_ := none } none 20).map (executePlan (applyTasks init [.add e1, .add e2])) = some [e1.id] := by
  decide +kernel

end NostrRelay.KV

namespace NostrRelay.SQL
open NostrRelay NostrRelay.KV

/-! ## SQL -/

/-- the other half of the table invariant: every row `process_tags` derives from a stored event
    is in the tags table -/
def TagsComplete (s : State) : Prop := ∀ e ∈ s.events, ∀ r ∈ rowsOf e, r ∈ s.tags

/-- well-formed filter for the SQL completeness statement: tag names are single characters (as the
    validator guarantees for `#x` keys) and the empty string is not requested as a value -/
def FilterOk (f : Filter) : Prop :=
  (∀ t ∈ f.tags, isSingleChar t.1 = true ∧ t.1 ≠ ascii "delegation" ∧ t.1 ≠ ascii "expiration" ∧ [] ∉ t.2)

/-- a tag of the event with a non-empty value under a single-character name has its tags row -/
theorem tagRows_complete (e : Event) (rows : List TagRow) (h : tagRows e = some rows)
    (tg : List Bytes) (htg : tg ∈ e.tags) (n v : Bytes) (hhead : tg.head? = some n)
    (hlen : tg.length > 1) (hv : tg.getD 1 [] = v) (hn : isSingleChar n = true)
    (hnd : n ≠ ascii "delegation") (hne : n ≠ ascii "expiration") :
    (⟨e.id, n, v⟩ : TagRow) ∈ rows := by
  unfold tagRows at h
  suffices ∀ (tags : List (List Bytes)) (acc rows : List TagRow), tg ∈ tags ∨ (⟨e.id, n, v⟩ : TagRow) ∈ acc →
      tags.foldlM (init := acc) (fun acc t =>
        match t with
        | [] => none
        | n :: vs =>
          if n == ascii "delegation" || n == ascii "expiration" then
            match vs with
            | [] => none
            | v :: _ => some (acc ++ [⟨e.id, n, v⟩])
          else if isSingleChar n then some (acc ++ [⟨e.id, n, vs.headD []⟩])
          else some acc) = some rows → (⟨e.id, n, v⟩ : TagRow) ∈ rows by
    exact this e.tags [] rows (Or.inl htg) h
  intro tags
  induction tags with
  | nil => intro acc rows hor h; simp at h; subst h; rcases hor with h | h; simp at h; exact h
  | cons t rest ih =>
    intro acc rows hor h
    simp only [List.foldlM_cons] at h
    cases t with
    | nil => simp at h
    | cons n' vs =>
      by_cases hde : (n' == ascii "delegation" || n' == ascii "expiration") = true
      · simp only [hde, if_true] at h
        cases vs with
        | nil => simp at h
        | cons v' vs' =>
          simp only [Option.bind_eq_bind, Option.bind_some] at h
          refine ih _ rows ?_ h
          rcases hor with hor | hor
          · rcases List.mem_cons.mp hor with heq | hin
            · -- tg = n' :: v' :: vs' has a delegation/expiration name: impossible
              exfalso
              subst heq
              simp only [List.head?_cons, Option.some.injEq] at hhead
              subst hhead
              simp only [Bool.or_eq_true, beq_iff_eq] at hde
              rcases hde with h1 | h1
              · exact hnd h1
              · exact hne h1
            · exact Or.inl hin
          · exact Or.inr (List.mem_append_left _ hor)
      · simp only [hde, Bool.false_eq_true, if_false] at h
        by_cases hs : isSingleChar n' = true
        · simp only [hs, if_true, Option.bind_eq_bind, Option.bind_some] at h
          refine ih _ rows ?_ h
          rcases hor with hor | hor
          · rcases List.mem_cons.mp hor with heq | hin
            · right
              subst heq
              simp only [List.head?_cons, Option.some.injEq] at hhead
              subst hhead
              apply List.mem_append_right
              cases vs with
              | nil => simp at hlen
              | cons v' vs' => simp at hv; simp [hv]
            · exact Or.inl hin
          · exact Or.inr (List.mem_append_left _ hor)
        · simp only [hs, Bool.false_eq_true, if_false, Option.bind_eq_bind, Option.bind_some] at h
          refine ih _ rows ?_ h
          rcases hor with hor | hor
          · rcases List.mem_cons.mp hor with heq | hin
            · exfalso
              subst heq
              simp only [List.head?_cons, Option.some.injEq] at hhead
              subst hhead
              exact hs hn
            · exact Or.inl hin
          · exact Or.inr hor

/-- **C02 (SQL)** — every stored row that strictly matches a well-formed filter satisfies the
    filter's WHERE predicate and is therefore among the rows the statement selects (before
    ORDER BY / LIMIT).  Excluded by `FilterOk`: the empty string as a requested tag value
    (finding `sql-empty-tag-value`); excluded by `whereOf = some`: filters that `evaluate_filter`
    turns into `false` (empty lists, no condition at all). -/
theorem C02_sql_complete_partial (s : State) (hcomp : TagsComplete s) (fs : List Filter) (f : Filter)
    (hf : f ∈ fs) (hok : FilterOk f) (p : Event → Bool) (hw : whereOf s f = some p)
    (e : Event) (he : e ∈ s.events) (hrows : (tagRows e).isSome)
    (hm : matchesSpec true f e = true) :
    e ∈ matchingRows s fs := by
  unfold matchingRows
  simp only [List.mem_filter, List.any_eq_true, List.mem_filterMap]
  refine ⟨he, p, ⟨f, hf, hw⟩, ?_⟩
  unfold whereOf at hw
  split at hw
  · simp at hw
  · split at hw
    · simp at hw
    · simp only [Option.some.injEq] at hw
      subst hw
      unfold matchesSpec at hm
      simp only [Bool.and_eq_true] at hm ⊢
      obtain ⟨⟨⟨⟨⟨h1, h2⟩, h3⟩, h4⟩, h5⟩, h6⟩ := hm
      refine ⟨⟨⟨⟨⟨h1, ?_⟩, h3⟩, ?_⟩, ?_⟩, ?_⟩
      · cases hfa : f.authors with
        | none => simp
        | some l => simp only [hfa] at h2; simp at h2; simp [h2]
      · cases hfs : f.since with
        | none => simp
        | some x => simp only [hfs, if_true, decide_eq_true_eq] at h4; simp only [decide_eq_true_eq]; omega
      · cases hfu : f.until_ with
        | none => simp
        | some x => simpa [hfu] using h5
      · rw [List.all_eq_true] at h6 ⊢
        intro tc htc
        have h := h6 tc htc
        rw [List.any_eq_true] at h ⊢
        obtain ⟨tg, htg, hcond⟩ := h
        simp only [Bool.and_eq_true, decide_eq_true_eq] at hcond
        obtain ⟨⟨hhead, hlen⟩, hval⟩ := hcond
        obtain ⟨hsc, hnd, hne, hnoempty⟩ := hok tc htc
        generalize hvd : tg.getD 1 [] = v at hval
        cases htr : tagRows e with
        | none => simp [htr] at hrows
        | some rows =>
          have hrow := tagRows_complete e rows htr tg htg tc.1 v (by simpa using hhead) hlen hvd hsc hnd hne
          have hin : (⟨e.id, tc.1, v⟩ : TagRow) ∈ s.tags :=
            hcomp e he _ (by simp [rowsOf, htr, hrow])
          refine ⟨_, hin, ?_⟩
          have hvne : v ≠ [] := by
            intro h0
            rw [h0] at hval
            exact hnoempty (by simpa using hval)
          have hval' : v ∈ tc.2 := by simpa using hval
          simp [hval', hvne]

/-- rows selected for a REQ are pairwise distinct (primary key), however many filters match -/
theorem C02_sql_no_duplicates (s : State) (hinv : Inv s) (fs : List Filter) :
    (matchingRows s fs).Pairwise (fun a b => a.id ≠ b.id) := by
  unfold matchingRows
  exact List.Pairwise.sublist List.filter_sublist hinv.uniq

/-! ### witnesses for the open findings -/

def wEv (i : Nat) (ts : Int) (kind : Int) (tags : List (List Bytes)) : Event :=
  { id := List.replicate 31 0 ++ [i], pubkey := List.replicate 32 170, createdAt := ts, kind := kind, tags := tags }

/-- **Finding `sql-empty-tag-value`** — an event tagged `["t",""]` strictly matches `{"#t":[""]}`
    but the statement the builder makes is `false`. -/
theorem C02_sql_empty_value_witness :
    let e := wEv 1 1700000100 1 [[[116], []]]
    let f : Filter := { tags := [([116], [[]])] }
    matchesSpec true f e = true ∧ (whereOf { events := [e], tags := [⟨e.id, [116], []⟩] } f).isNone = true := by
  decide +kernel

/-- **Finding `sql-one-limit-per-req`** — `[{"kinds":[1],"limit":2},{"kinds":[7],"limit":1}]`:
    three rows match, each filter is within its own limit, the statement carries `LIMIT 1`. -/
theorem C02_sql_one_limit_witness :
    let s : State := { events := [wEv 1 1700000100 1 [], wEv 2 1700000101 1 [], wEv 3 1700000000 7 []] }
    let fs : List Filter := [{ kinds := some [1], limit := some 2 }, { kinds := some [7], limit := some 1 }]
    (matchingRows s fs).length = 3 ∧ effectiveLimit fs 20 20 = 1 := by
  decide +kernel

end NostrRelay.SQL
