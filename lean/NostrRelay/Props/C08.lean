/-
C08 — Only an event's author can delete it (NIP-09).

LMDB: from `kv_add_removed_spec` — whatever an accepted kind-5 event removes was published by the
deletion's own pubkey, is referenced by one of its `e` tags and is strictly older.
SQL: exact characterisation of the rows after a committed kind-5 event: a row survives iff it is
not (same pubkey ∧ referenced); so nothing of another author and nothing unreferenced is removed,
and every referenced row of the author is removed.
-/
import NostrRelay.Props.C09

namespace NostrRelay.KV
open NostrRelay

/-- **C08 (LMDB, frame)** — a kind-5 event removes only events of its own author that it
    references and that are strictly older; events of any other author and unreferenced events
    are never removed by it, in every coherent store. -/
theorem C08_kv_delete_frame (s s' : Store) (e : Event) (hc : Coh s) (hpk : PkOk s)
    (hid : e.id.length = 32) (hepk : e.pubkey.length = 32) (h5 : e.kind = 5)
    (h : taskBody s (.add e) = some s') (id : Bytes) (c : Event)
    (hst : getEvent s id = some c) (hgone : getEvent s' id = none) :
    c.pubkey = e.pubkey ∧ c.createdAt < e.createdAt ∧
    ∃ refs, deletionRefs e.tags = some refs ∧ c.id ∈ refs := by
  obtain ⟨_, why⟩ := kv_add_removed_spec s s' e hc hpk hid hepk h id c hst hgone
  cases why with
  | superseded hk =>
    rw [h5] at hk
    simp [isReplaceableKind] at hk
  | deleted _ hp hts href => exact ⟨hp, by omega, href⟩

/-- every reference the deletion loop acts on is the hex decoding of an `e` tag's value -/
theorem deletionRefs_mem (tags : List (List Bytes)) (refs : List Bytes) (h : deletionRefs tags = some refs)
    (x : Bytes) (hx : x ∈ refs) :
    ∃ t ∈ tags, t.head? = some eName ∧ t.length > 1 ∧ refOf t = some x := by
  unfold deletionRefs at h
  split at h
  · simp at h
  · simp only [Option.some.injEq] at h
    subst h
    simp only [List.mem_filterMap, List.mem_filter, Bool.and_eq_true, beq_iff_eq, decide_eq_true_eq] at hx
    obtain ⟨t, ⟨ht, hh, hl⟩, hr⟩ := hx
    exact ⟨t, ht, hh, hl, hr⟩

end NostrRelay.KV

namespace NostrRelay.SQL
open NostrRelay NostrRelay.KV

/-- is row `r` named by an `e` tag of `e` (as `bytes.fromhex` reads it)? -/
def Referenced (e r : Event) : Prop :=
  ∃ t ∈ e.tags, t.head? = some KV.eName ∧ t.length > 1 ∧ pyFromHex (t.getD 1 []) = some r.id

theorem applyDeletions_spec (e : Event) (tags : List (List Bytes)) (s s' : State)
    (h : tags.foldlM (init := s) (fun st t =>
        match t with
        | [] => none
        | n :: vs =>
          if n == KV.eName then
            match vs with
            | [] => none
            | v :: _ =>
              match pyFromHex v with
              | none => none
              | some target => some (deleteWhere st fun r => r.pubkey == e.pubkey && r.id == target)
          else some st) = some s') (r : Event) :
    r ∈ s'.events ↔ r ∈ s.events ∧
      ¬ (r.pubkey = e.pubkey ∧ ∃ t ∈ tags, t.head? = some KV.eName ∧ t.length > 1 ∧ pyFromHex (t.getD 1 []) = some r.id) := by
  induction tags generalizing s with
  | nil => simp at h; subst h; simp
  | cons t rest ih =>
    simp only [List.foldlM_cons] at h
    cases t with
    | nil => simp at h
    | cons n vs =>
      by_cases hn : (n == KV.eName) = true
      · simp only [hn, if_true] at h
        cases vs with
        | nil => simp at h
        | cons v vs' =>
          cases hx : pyFromHex v with
          | none => simp [hx] at h
          | some target =>
            simp only [hx, Option.bind_eq_bind, Option.bind_some] at h
            rw [ih _ h, mem_deleteWhere]
            have hne : n = KV.eName := by simpa using hn
            constructor
            · rintro ⟨⟨hm, hp⟩, hrest⟩
              refine ⟨hm, ?_⟩
              rintro ⟨hpk, t, ht, hhead, hlen, hfx⟩
              rcases List.mem_cons.mp ht with rfl | ht'
              · simp only [List.getD_cons_succ, List.getD_cons_zero] at hfx
                rw [hx] at hfx
                simp only [Option.some.injEq] at hfx
                simp [hpk, hfx] at hp
              · exact hrest ⟨hpk, t, ht', hhead, hlen, hfx⟩
            · rintro ⟨hm, hnot⟩
              refine ⟨⟨hm, ?_⟩, ?_⟩
              · cases hv : (r.pubkey == e.pubkey && r.id == target) with
                | false => rfl
                | true =>
                  exfalso
                  simp only [Bool.and_eq_true, beq_iff_eq] at hv
                  exact hnot ⟨hv.1, n :: v :: vs', List.mem_cons_self, by simp [hne], by simp, by simp [hx, hv.2]⟩
              · rintro ⟨hpk, t, ht, rest'⟩
                exact hnot ⟨hpk, t, List.mem_cons_of_mem _ ht, rest'⟩
      · simp only [hn, Bool.false_eq_true, if_false, Option.bind_eq_bind, Option.bind_some] at h
        rw [ih _ h]
        have hne : n ≠ KV.eName := by simpa using hn
        constructor
        · rintro ⟨hm, hnot⟩
          refine ⟨hm, ?_⟩
          rintro ⟨hpk, t, ht, hhead, rest'⟩
          rcases List.mem_cons.mp ht with rfl | ht'
          · simp at hhead; exact hne hhead
          · exact hnot ⟨hpk, t, ht', hhead, rest'⟩
        · rintro ⟨hm, hnot⟩
          refine ⟨hm, ?_⟩
          rintro ⟨hpk, t, ht, rest'⟩
          exact hnot ⟨hpk, t, List.mem_cons_of_mem _ ht, rest'⟩

/-- **C08 (SQL)** — rows after a committed, new kind-5 event: exactly the old rows that are not
    (published by the deleter ∧ referenced by it), plus the deletion itself.  Hence: no event of
    another author and no unreferenced event is removed (frame), and every referenced event of
    the deleter is gone (completeness) — it is then matched by no query (C01) and by no
    `get_event`. -/
theorem C08_sql_delete_exact (s s' : State) (e : Event) (h5 : e.kind = 5)
    (h : addEvent s e = .ok s' true) (r : Event) (hne : r ≠ e) :
    r ∈ s'.events ↔ r ∈ s.events ∧ ¬ (r.pubkey = e.pubkey ∧ Referenced e r) := by
  have hres : isResubmission s e = false := by
    simp [isResubmission, isReplaceable, isParamReplaceable, h5]
  rw [addEvent_fresh s e hres] at h
  have hpre : preSave s e = some s := by
    unfold preSave
    simp [isReplaceable, isParamReplaceable, h5]
  simp only [hpre] at h
  unfold addCore at h
  by_cases hdup : s.events.any (fun x => x.id == e.id) = true
  · simp [hdup] at h
  · simp only [hdup, Bool.false_eq_true, if_false] at h
    have h03 : (e.kind == 0 || e.kind == 3) = false := by simp [h5]
    have h5' : (e.kind == 5) = true := by simp [h5]
    simp only [h03, Bool.false_eq_true, if_false, h5', if_true] at h
    by_cases hte : e.tags.isEmpty = true
    · simp only [hte, if_true, AddResult.ok.injEq, and_true] at h
      subst h
      have hnil : e.tags = [] := by simpa using hte
      simp only [List.mem_append, List.mem_singleton, hne, or_false, Referenced, hnil, List.not_mem_nil,
        false_and, exists_false, and_false, not_false_eq_true, and_true]
    · simp only [hte, Bool.false_eq_true, if_false] at h
      cases htr : tagRows e with
      | none => simp [htr] at h
      | some rows =>
        simp only [htr] at h
        cases hd : applyDeletions { events := s.events ++ [e], tags := insertTags s.tags rows } e with
        | none => simp [hd] at h
        | some s5 =>
          simp only [hd, AddResult.ok.injEq, and_true] at h
          subst h
          unfold applyDeletions at hd
          rw [applyDeletions_spec e e.tags _ _ hd r]
          simp only [List.mem_append, List.mem_singleton, hne, or_false, Referenced]

/-- frame, stated on its own -/
theorem C08_sql_delete_frame (s s' : State) (e : Event) (h5 : e.kind = 5)
    (h : addEvent s e = .ok s' true) (r : Event) (hr : r ∈ s.events) (hne : r ≠ e) (hgone : r ∉ s'.events) :
    r.pubkey = e.pubkey ∧ Referenced e r := by
  have := (not_congr (C08_sql_delete_exact s s' e h5 h r hne)).mp hgone
  by_cases hx : r.pubkey = e.pubkey ∧ Referenced e r
  · exact hx
  · exact absurd ⟨hr, hx⟩ this

/-- completeness, stated on its own -/
theorem C08_sql_delete_complete (s s' : State) (e : Event) (h5 : e.kind = 5)
    (h : addEvent s e = .ok s' true) (r : Event) (hne : r ≠ e)
    (hpk : r.pubkey = e.pubkey) (href : Referenced e r) : r ∉ s'.events := by
  intro hin
  exact ((C08_sql_delete_exact s s' e h5 h r hne).mp hin).2 ⟨hpk, href⟩

end NostrRelay.SQL
