/-
C08 (LMDB) — completeness of NIP-09 deletion: when the transaction of an accepted kind-5 event
succeeds, every stored event of the same author that it references by a well-formed `e` tag and
that is strictly older is gone afterwards.  Uses the unconditional completeness of the authors index
scan (Props/C02Scan.lean): the deletion loop walks `authors = [pubkey], until = created_at - 1`.
-/
import NostrRelay.Props.C02Scan
import NostrRelay.Props.C08

namespace NostrRelay.KV
open NostrRelay

/-- the deletion loop removes every candidate it is asked to: a referenced id among the candidates
    is not stored afterwards -/
theorem deleteLoop_complete (refs cands : List Bytes) (s s' : Store) (hc : Coh s)
    (h : deleteLoop refs s cands = some s') (id : Bytes) (hin : id ∈ cands) (href : refs.contains id = true) :
    getEvent s' id = none := by
  induction cands generalizing s with
  | nil => cases hin
  | cons x rest ih =>
    -- once gone, stays gone
    have stays : ∀ s0, Coh s0 → deleteLoop refs s0 rest = some s' → getEvent s0 id = none → getEvent s' id = none := by
      intro s0 hc0 h0 hn
      have r := deleteLoop_removes refs rest s0 s' hc0 h0
      cases hg : getEvent s' id with
      | none => rfl
      | some c => have := r.nothing_new id c hg; rw [hn] at this; cases this
    unfold deleteLoop at h
    by_cases hx : x = id
    · subst hx
      simp only [href, if_true] at h
      cases hg : getEvent s x with
      | none => simp only [hg] at h; exact stays s hc h hg
      | some cand =>
        simp only [hg] at h
        have hcid := getEvent_id s hc x cand hg
        cases hd : deleteEvent s cand with
        | none => simp [hd] at h
        | some s1 =>
          simp only [hd, Option.bind_some] at h
          have hst : getEvent s cand.id = some cand := by rw [hcid]; exact hg
          have hc1 := (coh_deleteEvent s s1 cand hc ((getEvent_iff _ _ _).mp hst) hd).1
          have hgone : getEvent s1 x = none := by
            rw [getEvent_deleteEvent s s1 cand hc hst hd x]; simp [hcid]
          exact stays s1 hc1 h hgone
    · have hin' : id ∈ rest := by
        rcases List.mem_cons.mp hin with h1 | h1
        · exact absurd h1.symm hx
        · exact h1
      by_cases h1 : refs.contains x = true
      · simp only [h1, if_true] at h
        cases hg : getEvent s x with
        | none => simp only [hg] at h; exact ih s hc h hin'
        | some cand =>
          simp only [hg] at h
          have hcid := getEvent_id s hc x cand hg
          cases hd : deleteEvent s cand with
          | none => simp [hd] at h
          | some s1 =>
            simp only [hd, Option.bind_some] at h
            have hst : getEvent s cand.id = some cand := by rw [hcid]; exact hg
            have hc1 := (coh_deleteEvent s s1 cand hc ((getEvent_iff _ _ _).mp hst) hd).1
            exact ih s1 hc1 h hin'
      · simp only [h1, Bool.false_eq_true, if_false] at h
        exact ih s hc h hin'

/-- **C08 (LMDB, completeness)** — in every coherent, well-kept store: if the transaction of a new
    kind-5 event `e` succeeds, then every stored event `c` of `e`'s author that `e` references (the hex
    value of one of its `e` tags decodes to `c.id`) and that is strictly older than `e` is no longer
    stored afterwards. -/
theorem C08_kv_delete_complete (s s' : Store) (e : Event) (hc : Coh s) (hwk : WellKept s) (hpk : PkOk s)
    (hid : e.id.length = 32) (hepk : e.pubkey.length = 32) (h5 : e.kind = 5)
    (hnew : getEvent s e.id = none) (h : taskBody s (.add e) = some s')
    (c : Event) (hst : getEvent s c.id = some c) (hown : c.pubkey = e.pubkey) (holder : c.createdAt < e.createdAt)
    (refs : List Bytes) (hrefs : deletionRefs e.tags = some refs) (href : c.id ∈ refs) :
    getEvent s' c.id = none := by
  simp only [taskBody, hnew] at h
  cases hw : writeEvent s e with
  | none => simp [hw] at h
  | some s1 =>
    simp only [hw, Option.bind_some] at h
    have hfresh := (getEvent_none_iff s hc e.id).mp hnew
    obtain ⟨hc1, _, _⟩ := coh_writeEvent s s1 e hc hid hfresh hw
    have hg1 := getEvent_writeEvent s s1 e hc hid hfresh hw
    have hwk1 := wk_writeEvent s s1 e hwk hw
    have hne : c.id ≠ e.id := by intro heq; rw [heq, hnew] at hst; cases hst
    have hst1 : getEvent s1 c.id = some c := by rw [hg1]; simp [hne, hst]
    have hpk1 : ∀ id x, getEvent s1 id = some x → x.pubkey.length = 32 := by
      intro i x hx
      rw [hg1] at hx
      by_cases hi : i = e.id
      · simp only [hi, if_true, Option.some.injEq] at hx; subst hx; exact hepk
      · simp only [hi, if_false] at hx; exact hpk i x hx
    -- the post-save step is the kind-5 branch
    unfold postSave at h
    have hnr : isReplaceableKind e.kind = false := by rw [h5]; decide
    have hk5 : (e.kind == 5) = true := by rw [h5]; rfl
    simp only [hnr, Bool.false_eq_true, if_false, hk5, if_true] at h
    unfold postSaveDelete at h
    simp only [hrefs, Option.bind_eq_bind, Option.bind_some] at h
    have hne' : refs.isEmpty = false := by
      cases refs with
      | nil => cases href
      | cons _ _ => rfl
    simp only [hne', Bool.false_eq_true, if_false] at h
    obtain ⟨cands, hscan, hloop⟩ := Option.bind_eq_some_iff.mp h
    -- the scan of the author's index up to created_at - 1 finds c
    obtain ⟨ub, hub⟩ : ∃ ub, encOpt (some (e.createdAt - 1)) = some ub := by
      cases hb : be32 (e.createdAt - 1) with
      | none => simp [scanIndex, encOpt, hb] at hscan
      | some b => exact ⟨some b, by simp [encOpt, hb]⟩
    obtain ⟨out, hout, hin⟩ := C02_kv_authors_complete s1 hwk1 hc1 hpk1 [e.pubkey] (by simp [hepk]) (by simp)
      none (some (e.createdAt - 1)) none ub rfl hub c hst1 (by simp [hown])
      (by intro x hx; cases hx) (by intro x hx; cases hx; omega)
    have : cands = out := by
      have h1 : scanIndex s1 [[3] ++ e.pubkey] none (some (e.createdAt - 1)) none = some out := by simpa using hout
      rw [h1] at hscan; cases hscan; rfl
    subst this
    exact deleteLoop_complete refs cands s1 s' hc1 hloop c.id hin (by simpa using href)

/-- the same for every store the writer can produce -/
theorem C08_kv_delete_complete_reachable (tasks : List Task) (hwf : ∀ t ∈ tasks, t.wfp) (e : Event) (s' : Store)
    (hid : e.id.length = 32) (hepk : e.pubkey.length = 32) (h5 : e.kind = 5)
    (hnew : getEvent (applyTasks init tasks) e.id = none) (h : taskBody (applyTasks init tasks) (.add e) = some s')
    (c : Event) (hst : getEvent (applyTasks init tasks) c.id = some c) (hown : c.pubkey = e.pubkey)
    (holder : c.createdAt < e.createdAt) (refs : List Bytes) (hrefs : deletionRefs e.tags = some refs) (href : c.id ∈ refs) :
    getEvent s' c.id = none :=
  C08_kv_delete_complete _ s' e (C10_coherent_reachable tasks (fun t ht => wfp_wf t (hwf t ht))) (wk_reachable tasks)
    (pkok_reachable tasks hwf) hid hepk h5 hnew h c hst hown holder refs hrefs href

end NostrRelay.KV
