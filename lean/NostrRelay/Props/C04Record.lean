/-
C04 (served events are verbatim), the LMDB record: what `encode_event` writes, `decode_event`
reads back — for every event row that `packb` accepts at all, whatever its tags hold (strings,
numbers of every msgpack width, booleans, null, nested arrays and objects), with any bytes after it.
-/
import NostrRelay.Model.MsgPack
namespace NostrRelay
namespace MP

/-! ### big-endian fields -/

theorem beVal_snoc (a : Bytes) (x : Nat) : beVal (a ++ [x]) = beVal a * 256 + x := by
  simp [beVal, List.foldl_append]

theorem beBytes_length (w n : Nat) : (beBytes w n).length = w := by
  induction w generalizing n with
  | zero => simp [beBytes]
  | succ w ih => simp [beBytes, ih]

theorem beVal_beBytes (w n : Nat) : beVal (beBytes w n) = n % 256 ^ w := by
  induction w generalizing n with
  | zero => simp [beBytes, beVal, Nat.mod_one]
  | succ w ih =>
    rw [beBytes, beVal_snoc, ih, Nat.pow_succ]
    have := Nat.mod_mul_right_div_self n 256 (256 ^ w)
    have h2 : n % (256 ^ w * 256) = n % 256 + 256 * (n / 256 % 256 ^ w) := by
      rw [Nat.mul_comm (256 ^ w) 256, Nat.mod_mul]
    omega

theorem takeN_append (xs rest : Bytes) : takeN xs.length (xs ++ rest) = some (xs, rest) := by
  induction xs with
  | nil => cases rest <;> simp [takeN]
  | cons x xs ih => simp [takeN, ih]

theorem takeN_append' (n : Nat) (xs rest : Bytes) (h : xs.length = n) :
    takeN n (xs ++ rest) = some (xs, rest) := by
  subst h; exact takeN_append xs rest

theorem readU_be (w n : Nat) (rest : Bytes) (h : n < 256 ^ w) :
    readU w (beBytes w n ++ rest) = some (n, rest) := by
  simp [readU, takeN_append' w _ rest (beBytes_length w n), beVal_beBytes, Nat.mod_eq_of_lt h]

theorem readS_be (w n : Nat) (rest : Bytes) (h : n < 256 ^ w) :
    readS w (beBytes w n ++ rest) =
      some ((if n < 256 ^ w / 2 then (n : Int) else (n : Int) - (256 ^ w : Nat)), rest) := by
  simp [readS, takeN_append' w _ rest (beBytes_length w n), beVal_beBytes, Nat.mod_eq_of_lt h]

theorem readU_one (n : Nat) (rest : Bytes) : readU 1 (n :: rest) = some (n, rest) := by
  simp [readU, takeN, beVal]

theorem readS_one (k : Nat) (rest : Bytes) :
    readS 1 (k :: rest) = some ((if k < 128 then (k : Int) else (k : Int) - 256), rest) := by
  simp [readS, takeN, beVal]

/-! ### scalars -/

theorem unpack_int (i : Int) (h : intOk i = true) (rest : Bytes) (f : Nat) :
    unpack (f + 1) (packInt i ++ rest) = some (.int i, rest) := by
  simp only [intOk, decide_eq_true_eq] at h
  unfold packInt
  split
  · next c =>
    obtain ⟨n, rfl⟩ := Int.eq_ofNat_of_zero_le c.1
    have : n < 128 := by omega
    simp [unpack, this]
  split
  · next _ c =>
    have h1 : (256 + i).toNat = (256 + i).toNat := rfl
    generalize hk : (256 + i).toNat = k at *
    have hk2 : (k : Int) = 256 + i := by omega
    have : ¬ k < 128 := by omega
    have : 224 ≤ k := by omega
    simp [unpack, *]; omega
  split
  · next _ _ c =>
    obtain ⟨n, rfl⟩ := Int.eq_ofNat_of_zero_le (by omega : 0 ≤ i)
    simp [unpack, readU_one]
  split
  · next _ _ _ c =>
    generalize hk : (256 + i).toNat = k at *
    have hk2 : (k : Int) = 256 + i := by omega
    have hk3 : k < 256 := by omega
    simp [unpack, readS_one]
    split <;> omega
  split
  · next _ _ _ _ c =>
    obtain ⟨n, rfl⟩ := Int.eq_ofNat_of_zero_le (by omega : 0 ≤ i)
    have : n < 65536 := by omega
    have := readU_be 2 n rest (by simpa using this)
    simp [unpack, this]
  split
  · next _ _ _ _ _ c =>
    generalize hk : (65536 + i).toNat = k at *
    have hk2 : (k : Int) = 65536 + i := by omega
    have hk3 : k < 65536 := by omega
    have := readS_be 2 k rest (by simpa using hk3)
    simp [unpack, this]
    split <;> omega
  split
  · next _ _ _ _ _ _ c =>
    obtain ⟨n, rfl⟩ := Int.eq_ofNat_of_zero_le (by omega : 0 ≤ i)
    have : n < 4294967296 := by omega
    have := readU_be 4 n rest (by simpa using this)
    simp [unpack, this]
  split
  · next _ _ _ _ _ _ _ c =>
    generalize hk : (4294967296 + i).toNat = k at *
    have hk2 : (k : Int) = 4294967296 + i := by omega
    have hk3 : k < 4294967296 := by omega
    have := readS_be 4 k rest (by simpa using hk3)
    simp [unpack, this]
    split <;> omega
  split
  · next _ _ _ _ _ _ _ _ c =>
    obtain ⟨n, rfl⟩ := Int.eq_ofNat_of_zero_le (by omega : 0 ≤ i)
    have : n < 18446744073709551616 := by omega
    have := readU_be 8 n rest (by simpa using this)
    simp [unpack, this]
  split
  · next _ _ _ _ _ _ _ _ _ c =>
    generalize hk : (18446744073709551616 + i).toNat = k at *
    have hk2 : (k : Int) = 18446744073709551616 + i := by omega
    have hk3 : k < 18446744073709551616 := by omega
    have := readS_be 8 k rest (by simpa using hk3)
    simp [unpack, this]
    split <;> omega
  · omega

theorem unpack_str (s : Bytes) (h : s.length < 4294967296) (rest : Bytes) (f : Nat) :
    unpack (f + 1) (hdrRaw s.length ++ s ++ rest) = some (.str s, rest) := by
  unfold hdrRaw
  split
  · next c =>
    have e : 160 + s.length - 160 = s.length := by omega
    simp [unpack, List.append_assoc]
    have h1 : ¬ (160 + s.length < 128) := by omega
    have h2 : ¬ (224 ≤ 160 + s.length) := by omega
    have h3 : 160 + s.length < 192 := by omega
    simp [h1, h2, h3, e, takeN_append]
  split
  · next _ c =>
    simp [unpack, readU_one, takeN_append]
  split
  · next _ _ c =>
    have := readU_be 2 s.length (s ++ rest) (by simpa using (by omega : s.length < 65536))
    simp [unpack, this, takeN_append, List.append_assoc]
  · have := readU_be 4 s.length (s ++ rest) (by simpa using h)
    simp [unpack, this, takeN_append, List.append_assoc]

theorem unpack_bin (s : Bytes) (h : s.length < 4294967296) (rest : Bytes) (f : Nat) :
    unpack (f + 1) (hdrBin s.length ++ s ++ rest) = some (.bin s, rest) := by
  unfold hdrBin
  split
  · next c =>
    simp [unpack, readU_one, takeN_append]
  split
  · next _ c =>
    have := readU_be 2 s.length (s ++ rest) (by simpa using (by omega : s.length < 65536))
    simp [unpack, this, takeN_append, List.append_assoc]
  · have := readU_be 4 s.length (s ++ rest) (by simpa using h)
    simp [unpack, this, takeN_append, List.append_assoc]

/-! ### containers: the header hands the element count to `unpackMany` -/

theorem unpack_arr_hdr (n : Nat) (h : n < 4294967296) (body : Bytes) (f : Nat) :
    unpack (f + 1) (hdrArr n ++ body) = (unpackMany f n body).map fun p => (.arr p.1, p.2) := by
  unfold hdrArr
  split
  · next c =>
    have h1 : ¬ (144 + n < 128) := by omega
    have h2 : ¬ (224 ≤ 144 + n) := by omega
    have h3 : ¬ (160 ≤ 144 + n) := by omega
    have e : 144 + n - 144 = n := by omega
    simp [unpack, h1, h2, h3, e]
  split
  · next _ c =>
    have := readU_be 2 n body (by simpa using (by omega : n < 65536))
    simp [unpack, this]
  · have := readU_be 4 n body (by simpa using h)
    simp [unpack, this]

theorem unpack_map_hdr (n : Nat) (h : n < 4294967296) (body : Bytes) (f : Nat) :
    unpack (f + 1) (hdrMap n ++ body) =
      (unpackMany f (2 * n) body).bind fun p => if keysOk p.1 then some (.map p.1, p.2) else none := by
  unfold hdrMap
  split
  · next c =>
    have h1 : ¬ (128 + n < 128) := by omega
    have h2 : ¬ (224 ≤ 128 + n) := by omega
    have h3 : ¬ (160 ≤ 128 + n) := by omega
    have h4 : ¬ (144 ≤ 128 + n) := by omega
    have e : 128 + n - 128 = n := by omega
    simp [unpack, h1, h2, h3, h4, e]
  split
  · next _ c =>
    have := readU_be 2 n body (by simpa using (by omega : n < 65536))
    simp [unpack, this]
  · have := readU_be 4 n body (by simpa using h)
    simp [unpack, this]

theorem keysOk_even : ∀ (kvs : List V), keysOk kvs = true → 2 * (kvs.length / 2) = kvs.length
  | [], _ => rfl
  | [_], h => by simp [keysOk] at h
  | _ :: _ :: rest, h => by
    simp [keysOk] at h
    have := keysOk_even rest h.2
    simp only [List.length_cons]
    omega

/-! ### the round trip -/

mutual
theorem unpack_pack : (v : V) → packable v = true → ∀ (rest : Bytes) (f : Nat), size v ≤ f →
    unpack f (pack v ++ rest) = some (v, rest)
  | .nil, _, rest, f, hf => by
    obtain ⟨g, rfl⟩ : ∃ g, f = g + 1 := ⟨f - 1, by simp [size] at hf; omega⟩
    simp [pack, unpack]
  | .bool false, _, rest, f, hf => by
    obtain ⟨g, rfl⟩ : ∃ g, f = g + 1 := ⟨f - 1, by simp [size] at hf; omega⟩
    simp [pack, unpack]
  | .bool true, _, rest, f, hf => by
    obtain ⟨g, rfl⟩ : ∃ g, f = g + 1 := ⟨f - 1, by simp [size] at hf; omega⟩
    simp [pack, unpack]
  | .int i, h, rest, f, hf => by
    obtain ⟨g, rfl⟩ : ∃ g, f = g + 1 := ⟨f - 1, by simp [size] at hf; omega⟩
    simp only [packable] at h
    simpa [pack] using unpack_int i h rest g
  | .float raw, h, rest, f, hf => by
    obtain ⟨g, rfl⟩ : ∃ g, f = g + 1 := ⟨f - 1, by simp [size] at hf; omega⟩
    simp only [packable, beq_iff_eq] at h
    simp [pack, unpack, takeN_append' 8 raw rest h]
  | .str s, h, rest, f, hf => by
    obtain ⟨g, rfl⟩ : ∃ g, f = g + 1 := ⟨f - 1, by simp [size] at hf; omega⟩
    simp only [packable, decide_eq_true_eq] at h
    simpa [pack] using unpack_str s h rest g
  | .bin s, h, rest, f, hf => by
    obtain ⟨g, rfl⟩ : ∃ g, f = g + 1 := ⟨f - 1, by simp [size] at hf; omega⟩
    simp only [packable, decide_eq_true_eq] at h
    simpa [pack] using unpack_bin s h rest g
  | .arr xs, h, rest, f, hf => by
    simp only [packable, Bool.and_eq_true, decide_eq_true_eq] at h
    simp only [size] at hf
    obtain ⟨g, rfl⟩ : ∃ g, f = g + 1 := ⟨f - 1, by omega⟩
    have ih := unpackMany_packs xs h.2 rest g (by omega)
    rw [pack, List.append_assoc, unpack_arr_hdr _ h.1, ih]; rfl
  | .map kvs, h, rest, f, hf => by
    simp only [packable, Bool.and_eq_true, decide_eq_true_eq] at h
    simp only [size] at hf
    obtain ⟨g, rfl⟩ : ∃ g, f = g + 1 := ⟨f - 1, by omega⟩
    have ih := unpackMany_packs kvs h.2 rest g (by omega)
    rw [pack, List.append_assoc, unpack_map_hdr _ h.1.1, keysOk_even kvs h.1.2, ih]
    simp [h.1.2]
theorem unpackMany_packs : (xs : List V) → packables xs = true → ∀ (rest : Bytes) (f : Nat), sizes xs ≤ f →
    unpackMany f xs.length (packs xs ++ rest) = some (xs, rest)
  | [], _, rest, f, _ => by cases f <;> simp [packs, unpackMany]
  | x :: xs, h, rest, f, hf => by
    simp only [packables, Bool.and_eq_true] at h
    simp only [sizes] at hf
    obtain ⟨g, rfl⟩ : ∃ g, f = g + 1 := ⟨f - 1, by omega⟩
    have i1 := unpack_pack x h.1 (packs xs ++ rest) g (by omega)
    have i2 := unpackMany_packs xs h.2 rest g (by omega)
    simp only [List.length_cons, packs, List.append_assoc, unpackMany, i1, Option.bind_some, i2,
      Option.map_some]
end

theorem hdrRaw_pos (n : Nat) : 1 ≤ (hdrRaw n).length := by unfold hdrRaw; grind
theorem hdrBin_pos (n : Nat) : 1 ≤ (hdrBin n).length := by unfold hdrBin; grind
theorem hdrArr_pos (n : Nat) : 1 ≤ (hdrArr n).length := by unfold hdrArr; grind
theorem hdrMap_pos (n : Nat) : 1 ≤ (hdrMap n).length := by unfold hdrMap; grind
theorem packInt_pos (i : Int) : 1 ≤ (packInt i).length := by
  unfold packInt
  split; · simp
  split; · simp
  split; · simp
  split; · simp
  split; · simp
  split; · simp
  split; · simp
  split; · simp
  split; · simp
  split; · simp
  simp

/-- the fuel `unpackb` gives itself is enough: `size v + 1 ≤ 2 * (number of bytes written)` -/
theorem size_le_pack_length (v : V) : size v + 1 ≤ 2 * (pack v).length :=
  V.rec (motive_1 := fun v => size v + 1 ≤ 2 * (pack v).length)
    (motive_2 := fun xs => sizes xs ≤ 2 * (packs xs).length)
    (by simp [size, pack]) (by intro b; cases b <;> simp [size, pack])
    (by intro i; have := packInt_pos i; simp only [size, pack]; omega)
    (by intro r; simp [size, pack]; omega)
    (by intro s; have := hdrRaw_pos s.length; simp only [size, pack, List.length_append]; omega)
    (by intro s; have := hdrBin_pos s.length; simp only [size, pack, List.length_append]; omega)
    (by intro xs ih; have := hdrArr_pos xs.length; simp only [size, pack, List.length_append]; omega)
    (by intro xs ih; have := hdrMap_pos (xs.length / 2); simp only [size, pack, List.length_append]; omega)
    (by simp [sizes, packs]) (by intro x xs h1 h2; simp only [sizes, packs, List.length_append]; omega) v

/-- **`unpackb(packb(v)) == v`** for every value `packb` accepts -/
theorem C04_unpackb_packb (v : V) (h : packable v = true) : unpackb (pack v) = some v := by
  have := unpack_pack v h [] (2 * (pack v).length) (by have := size_le_pack_length v; omega)
  simp only [List.append_nil] at this
  simp [unpackb, this]

/-- **the record read back is the record written**: for every event row that can be stored at all,
    `decode_event(unpackb(encode_event(e)))` has exactly e's fields -/
theorem C04_kv_record_roundtrip (r : Row) (data : Bytes) (h : encodeEvent r = some data) :
    decodeEvent data = some r := by
  unfold encodeEvent at h
  split at h
  · next hp =>
    cases h
    rw [decodeEvent, C04_unpackb_packb _ hp]
    simp [encodeRow, decodeRow, version]
  · cases h

/-- and `encode_event` refuses exactly the rows `packb` cannot write: an integer outside
    [-2^63, 2^64), a length of 2^32 or more, an object key that is not a string -/
theorem C04_kv_record_refused_iff (r : Row) :
    encodeEvent r = none ↔ packable (encodeRow r) = false := by
  unfold encodeEvent; split <;> simp_all

/-- non-vacuity: a row with every kind of tag item is storable (so the theorem above applies to it) -/
example : packable (encodeRow ⟨[1,2], 1700000000, 30023, [3], [104, 105],
    .arr [.arr [.str [100], .str [], .int (-129), .int 4294967296, .bool true, .nil, .float [64,9,33,251,84,68,45,24],
      .arr [.str [120]], .map [.str [107], .int 70000]]], [9]⟩) = true := by decide +kernel

/-- the bytes of a small row, as `packb` writes them -/
example : pack (encodeRow ⟨[171], 256, 1, [205], [104], .arr [.arr [.str [101], .int (-1)]], [239]⟩) =
    [152, 1, 196, 1, 171, 205, 1, 0, 1, 196, 1, 205, 161, 104, 145, 146, 161, 101, 255, 196, 1, 239] := by decide +kernel

/-- an integer that does not fit 64 bits makes the row unstorable -/
example : encodeEvent ⟨[171], 18446744073709551616, 1, [205], [], .arr [], [239]⟩ = none := by decide +kernel

end MP
end NostrRelay
