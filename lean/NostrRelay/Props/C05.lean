/-
C05 — A new event reaches exactly the matching open subscriptions, once each.

Two halves.  (1) The fan-out, for *every* schedule of the protocol machine (M8): the notify tasks
created when an event is accepted are exactly the subscriptions registered at that moment, one
each; a task pushes at most once, under the subscription's own id, to the connection that opened
it; a subscription that was closed, replaced or disconnected before the event was accepted is never
pushed that event; once the round has run, every target has been evaluated exactly once.
(2) Live matching (`check_event`, M8b) against the NIP-01 reading the stored queries are proved
against (C01/C02): strict reading ⊆ live ⊆ generous reading.
-/
import NostrRelay.Props.ProtoInv
import NostrRelay.Model.Live

namespace NostrRelay.Proto

/-- **C05 (fan-out is the registry)** — when an event is accepted, one notify task is created for
    each subscription open at that moment and for nothing else, with no repetition (tasks of an earlier
    round that are still pending stay pending) -/
theorem C05_fanout_exact (s s' : State) (c ev : Nat) (h : Inv s) (hs : step s (.event c ev true) = some s') :
    s'.notifyTasks = s.notifyTasks ++ s.registry.map (fun r => (ev, r.inst)) ∧ s'.notifyTasks.Nodup := by
  have hinv := inv_step s s' _ h hs
  refine ⟨?_, hinv.tasks_nodup⟩
  simp only [step] at hs
  split at hs
  · cases hs
  · split at hs
    · simp at *
    · split at hs
      · cases hs
      · cases hs; rfl

/-- **C05 (at most once)** — in every reachable state no (event, subscription) pair has been pushed
    live twice, whatever the interleaving -/
theorem C05_live_at_most_once (s : State) (h : Reachable s) : s.livePut.Nodup :=
  (inv_reachable s h).live_nodup

/-- one notify task: a match puts exactly one item, under the subscription's own name, on the queue
    of the connection that opened it; a non-match puts nothing anywhere -/
theorem C05_notify_effect (s s' : State) (ev i : Nat) (m : Bool) (hs : step s (.notify ev i m) = some s') :
    (m = true → s'.queue (s.owner i).1 = s.queue (s.owner i).1 ++ [⟨(s.owner i).2, some ev, i, true⟩]
              ∧ ∀ c, c ≠ (s.owner i).1 → s'.queue c = s.queue c)
    ∧ (m = false → s'.queue = s.queue) := by
  simp only [step] at hs
  split at hs
  · cases hs
  · cases m with
    | true =>
      simp only [if_true] at hs
      cases hs
      refine ⟨fun _ => ⟨by simp [enqueue], fun c hc => by simp [enqueue, upd_other _ _ _ _ hc]⟩, by simp⟩
    | false =>
      simp only [Bool.false_eq_true, if_false] at hs
      cases hs
      exact ⟨by simp, fun _ => rfl⟩

/-- **C05 (own id, own connection)** — every item ever queued for, or sent on, a connection was put
    by a Subscription object that this connection opened under exactly that subscription name -/
theorem C05_delivered_under_own_id (s : State) (h : Reachable s) (c : Nat) (it : Item)
    (hit : it ∈ s.queue c ++ s.sent c) : s.owner it.inst = (c, it.sub) :=
  ((inv_reachable s h).items c it hit).2

/-- once an event is stored, no later step creates a notify task for it -/
theorem targeted_frozen (s s' : State) (l : Label) (ev i : Nat) (hst : ev ∈ s.stored) (hs : step s l = some s') :
    ev ∈ s'.stored ∧ ((ev, i) ∈ s'.targeted ↔ (ev, i) ∈ s.targeted) := by
  cases l with
  | connect c => simp only [step] at hs; split at hs <;> cases hs; exact ⟨hst, Iff.rfl⟩
  | req c sub usable allowed answer =>
    simp only [step] at hs
    split at hs
    · cases hs
    · split at hs
      · cases hs; exact ⟨hst, Iff.rfl⟩
      · split at hs
        · cases hs; exact ⟨hst, Iff.rfl⟩
        · split at hs <;> cases hs <;> exact ⟨hst, Iff.rfl⟩
  | close c sub => simp only [step] at hs; split at hs <;> cases hs; exact ⟨hst, Iff.rfl⟩
  | event c e accepted =>
    simp only [step] at hs
    split at hs
    · cases hs
    · split at hs
      · cases hs; exact ⟨hst, Iff.rfl⟩
      · split at hs
        · cases hs
        · rename_i hfresh
          cases hs
          have hne : e ≠ ev := by
            intro he; subst he; simp [hst] at hfresh
          refine ⟨by show ev ∈ s.stored ++ [e]; simp [hst], ?_⟩
          show (ev, i) ∈ s.targeted ++ (s.registry.map fun r => (e, r.inst)) ↔ _
          simp only [List.mem_append, List.mem_map, Prod.mk.injEq]
          constructor
          · rintro (a | ⟨r, _, he, _⟩)
            · exact a
            · exact absurd he hne
          · intro a; left; exact a
  | notify e j m =>
    simp only [step] at hs
    split at hs
    · cases hs
    · split at hs <;> cases hs <;> exact ⟨hst, Iff.rfl⟩
  | queryStep j =>
    simp only [step] at hs
    split at hs
    · cases hs
    · split at hs
      · split at hs <;> cases hs <;> exact ⟨hst, Iff.rfl⟩
      · split at hs <;> cases hs <;> exact ⟨hst, Iff.rfl⟩
  | send c =>
    simp only [step] at hs
    split at hs
    · cases hs
    · split at hs <;> cases hs; exact ⟨hst, Iff.rfl⟩
  | disconnect c => simp only [step] at hs; split at hs <;> cases hs; exact ⟨hst, Iff.rfl⟩

theorem targeted_frozen_run (s s' : State) (sched : List Label) (ev i : Nat) (hst : ev ∈ s.stored)
    (hr : run s sched = some s') : (ev, i) ∈ s'.targeted ↔ (ev, i) ∈ s.targeted := by
  induction sched generalizing s with
  | nil => simp [run] at hr; subst hr; exact Iff.rfl
  | cons l ls ih =>
    simp only [run] at hr
    cases hstep : step s l with
    | none => simp [hstep] at hr
    | some s1 =>
      simp only [hstep, Option.bind_some] at hr
      have := targeted_frozen s s1 l ev i hst hstep
      exact (ih s1 this.1 hr).trans this.2

/-- **C05 (only subscriptions open at that moment)** — if the event `ev` is accepted in state `s`
    and, after any continuation whatsoever, subscription object `i` has been pushed `ev` live, then
    `i` was registered in `s`.  Hence a subscription closed, replaced (its object is not the new
    one) or disconnected before the acceptance never receives the event live, and neither does one
    opened afterwards. -/
theorem C05_only_open_at_accept (s s1 s2 : State) (c ev i : Nat) (sched : List Label) (h : Reachable s)
    (hs : step s (.event c ev true) = some s1) (hr : run s1 sched = some s2) (hp : (ev, i) ∈ s2.livePut) :
    ∃ r ∈ s.registry, r.inst = i := by
  have hinv := inv_reachable s h
  have hinv1 := inv_step s s1 _ hinv hs
  have hinv2 := inv_run s1 s2 sched hinv1 hr
  have ht2 : (ev, i) ∈ s2.targeted := (hinv2.targeted_iff _).mpr (Or.inr (hinv2.live_resolved _ hp))
  -- facts about s1
  simp only [step] at hs
  split at hs
  · cases hs
  · split at hs
    · simp at *
    · split at hs
      · cases hs
      · rename_i hfresh
        cases hs
        have hst1 : ev ∈ (s.stored ++ [ev]) := by simp
        have ht1 := (targeted_frozen_run _ s2 sched ev i hst1 hr).mp ht2
        replace ht1 : (ev, i) ∈ s.targeted ++ (s.registry.map fun r => (ev, r.inst)) := ht1
        simp only [List.mem_append, List.mem_map, Prod.mk.injEq, true_and] at ht1
        rcases ht1 with a | ⟨r, hr', he⟩
        · exfalso
          have hfresh' : ev ∉ s.stored := by simpa using hfresh
          rcases (hinv.targeted_iff _).mp a with b | b
          · exact hfresh' (hinv.tasks_stored _ b)
          · exact hfresh' (hinv.resolved_stored _ b)
        · exact ⟨r, hr', he⟩

/-- **C05 (every target is evaluated, once)** — when the notification round has run (no task
    pending) every subscription that was targeted has been evaluated exactly once -/
theorem C05_round_complete (s : State) (h : Reachable s) (hq : s.notifyTasks = []) :
    (∀ p ∈ s.targeted, p ∈ s.resolved) ∧ s.resolved.Nodup := by
  have hinv := inv_reachable s h
  refine ⟨fun p hp => ?_, hinv.resolved_nodup⟩
  rcases (hinv.targeted_iff p).mp hp with a | a
  · rw [hq] at a; cases a
  · exact a

/-- the pending round can always make progress: every pending task is enabled -/
theorem C05_task_enabled (s : State) (ev i : Nat) (m : Bool) (hp : (ev, i) ∈ s.notifyTasks) :
    (step s (.notify ev i m)).isSome := by
  simp only [step]
  have : s.notifyTasks.contains (ev, i) = true := by simpa using hp
  simp only [this, Bool.not_true, Bool.false_eq_true, if_false]
  split <;> rfl

-- non-vacuity: a reachable state in which an event was pushed to one of two subscriptions
example :
    (run {} [.connect 0, .connect 1, .req 0 7 true true [], .req 1 8 true true [], .event 1 42 true,
             .notify 42 0 true, .notify 42 1 false, .send 0]).map (fun s => (s.livePut, s.transcript 0, s.transcript 1))
      = some ([(42, 0)], [.event 7 42], [.ok 42 true]) := by decide

end NostrRelay.Proto

namespace NostrRelay.KV

theorem all_id_append (a b : List Bool) : (a ++ b).all id = (a.all id && b.all id) := by simp [List.all_append]

/-- live matching, spelled out as the conjunction it computes -/
theorem liveMatchOne_eq (f : Filter) (e : Event) :
    liveMatchOne f e =
      (hasCondition f
        && (match f.ids with | some l => l.contains e.id | none => true)
        && (match f.authors with | some l => l.contains e.pubkey | none => true)
        && (match f.kinds with | some l => l.contains e.kind | none => true)
        && (match f.since with | some x => decide (x ≤ e.createdAt) | none => true)
        && (match f.until_ with | some x => decide (e.createdAt < x) | none => true)
        && f.tags.all fun t => hasTagMatch e t.1 t.2) := by
  unfold liveMatchOne liveConds hasCondition
  cases f.ids <;> cases f.authors <;> cases f.kinds <;> cases f.since <;> cases f.until_ <;> cases htags : f.tags <;>
    simp [List.all_append, List.all_map] <;> (try split) <;> simp [Bool.and_assoc]

/-- **C05 (live ⊇ strict reading)** — an event that matches a filter under the strict NIP-01 reading
    is matched live, provided the filter states a condition at all -/
theorem C05_live_complete (f : Filter) (e : Event) (hc : hasCondition f = true) (hm : matchesSpec true f e = true) :
    liveMatchOne f e = true := by
  rw [liveMatchOne_eq]
  unfold matchesSpec at hm
  simp only [Bool.and_eq_true, hc, true_and] at hm ⊢
  obtain ⟨⟨⟨⟨⟨h1, h2⟩, h3⟩, h4⟩, h5⟩, h6⟩ := hm
  refine ⟨⟨⟨⟨⟨h1, ?_⟩, h3⟩, ?_⟩, ?_⟩, ?_⟩
  · cases ha : f.authors with
    | none => rfl
    | some l => simpa [ha] using h2
  · cases hs : f.since with
    | none => rfl
    | some x => simp [hs] at h4 ⊢; omega
  · cases hu : f.until_ with
    | none => rfl
    | some x => simpa [hu] using h5
  · exact h6

/-- **C05 (live ⊆ generous reading)** — an event matched live matches the filter under the generous
    NIP-01 reading (bounds inclusive), so it is also an admissible answer of the stored query -/
theorem C05_live_sound (f : Filter) (e : Event) (hm : liveMatchOne f e = true) : matchesSpec false f e = true := by
  rw [liveMatchOne_eq] at hm
  unfold matchesSpec
  simp only [Bool.and_eq_true] at hm ⊢
  obtain ⟨⟨⟨⟨⟨⟨_, h1⟩, h2⟩, h3⟩, h4⟩, h5⟩, h6⟩ := hm
  refine ⟨⟨⟨⟨⟨h1, ?_⟩, h3⟩, ?_⟩, ?_⟩, h6⟩
  · cases ha : f.authors with
    | none => rfl
    | some l => simp [ha] at h2 ⊢; left; exact h2
  · cases hs : f.since with
    | none => rfl
    | some x => simpa [hs] using h4
  · cases hu : f.until_ with
    | none => rfl
    | some x => simp [hu] at h5 ⊢; omega

/-- the delegation branch of `check_event` has no effect: it can only add `True` to a set that
    already holds the pubkey test -/
theorem C05_live_ignores_delegation (f : Filter) (e : Event) (l : List Bytes) (ha : f.authors = some l)
    (hp : l.contains e.pubkey = false) : liveMatchOne f e = false := by
  rw [liveMatchOne_eq]
  have hp' : e.pubkey ∉ l := by simpa using hp
  simp [ha, hp']

/-- an empty filter is never matched live -/
theorem C05_live_empty_filter (e : Event) : liveMatchOne {} e = false := by simp [liveMatchOne, liveConds]

end NostrRelay.KV
