/-
C12 — A limit returns the newest matching events, never more than allowed.
-/
import NostrRelay.Props.C02

namespace NostrRelay.KV
open NostrRelay

/-- **C12 (LMDB, count)** — a plan with limit `n` delivers at most `n` events -/
theorem C12_kv_count (s : Store) (p : Plan) (n : Nat) (h : p.limit = some n) :
    (executePlan s p).length ≤ n := by
  unfold executePlan
  cases planCandidates s p with
  | none => simp
  | some cands => simp only [h]; exact List.length_take_le n _

/-- **C12 (LMDB, what is kept)** — the limited answer is a prefix of the unlimited answer of the
    same plan: the limit cuts the scan, it never reorders or skips.  (So wherever the unlimited
    scan is newest-first — single-match plans, see `C02Scan` — the events kept are the newest.) -/
theorem C12_kv_prefix (s : Store) (p : Plan) (n : Nat) (h : p.limit = some n) :
    executePlan s p = (executePlan s { p with limit := none }).take n := by
  unfold executePlan
  have : planCandidates s { p with limit := none } = planCandidates s p := by
    unfold planCandidates; rfl
  rw [this]
  cases planCandidates s p with
  | none => simp
  | some cands => simp only [h]

/-- **C12 (LMDB, a large limit truncates nothing)** -/
theorem C12_kv_no_truncation (s : Store) (p : Plan) (n : Nat) (h : p.limit = some n)
    (hn : (executePlan s { p with limit := none }).length ≤ n) :
    executePlan s p = executePlan s { p with limit := none } := by
  rw [C12_kv_prefix s p n h, List.take_of_length_le hn]

/-! ### witnesses for the open LMDB findings -/

def lEv (i : Nat) (ts : Int) (kind : Int) : Event :=
  { id := List.replicate 31 0 ++ [i], pubkey := List.replicate 32 170, createdAt := ts, kind := kind, tags := [] }

/-- **Finding `kv-limit-per-value-order`** — `{"kinds":[1,7],"limit":1}` over a kind-7 event at
    t=100 and a kind-1 event at t=200: the scan is newest-first *per value* (7 before 1), so the
    limit keeps the older event and leaves out the newer one. -/
theorem C12_kv_per_value_order_witness :
    let s := applyTasks init [.add (lEv 1 1700000100 7), .add (lEv 2 1700000200 1)]
    (planFilter { kinds := some [7, 1], limit := some 1 } none 20).map (executePlan s) = some [(lEv 1 1700000100 7).id] := by
  decide +kernel

/-- **C12 (LMDB, the cap)** — a plan made for a client's REQ (no internal `default_limit`) always
    carries a limit, and it never exceeds `max_limit`: neither a huge number nor `null` lifts it.
    (Before the `fix:` commit the plan carried the client's number as is — findings
    `kv-no-max-limit-cap`, `kv-limit-null-unlimited`.) -/
theorem C12_kv_cap (f : Filter) (ml : Nat) (p : Plan) (h : planFilter f none ml = some p) :
    ∃ n, p.limit = some n ∧ n ≤ ml ∧ (∀ l, f.limit = some l → n ≤ l) := by
  unfold planFilter at h
  cases hs : planShape f with
  | none => simp [hs] at h
  | some sh =>
    simp only [hs, Option.map_some, Option.some.injEq] at h
    subst h
    cases hl : f.limit with
    | none => exact ⟨ml, by simp, Nat.le_refl _, by intro l h'; cases h'⟩
    | some l => exact ⟨min l ml, by simp, Nat.min_le_right _ _, by intro l' h'; cases h'; exact Nat.min_le_left _ _⟩

/-- hence at most `max_limit` events are delivered for one filter of a REQ -/
theorem C12_kv_at_most_max (s : Store) (f : Filter) (ml : Nat) (p : Plan) (h : planFilter f none ml = some p) :
    (executePlan s p).length ≤ ml := by
  obtain ⟨n, hn, hle, _⟩ := C12_kv_cap f ml p h
  exact Nat.le_trans (C12_kv_count s p n hn) hle

-- a client asking for 10^6, and one sending null, under max_limit = 20
example : (planFilter { kinds := some [1], limit := some 1000000 } none 20).map (·.limit) = some (some 20) := by decide +kernel
example : (planFilter { kinds := some [1], limit := none } none 20).map (·.limit) = some (some 20) := by decide +kernel
example : (planFilter { kinds := some [1], limit := some 0 } none 20).map (·.limit) = some (some 0) := by decide +kernel

end NostrRelay.KV

namespace NostrRelay.SQL
open NostrRelay NostrRelay.KV

theorem mem_insertTs (e x : Event) (l : List Event) : x ∈ insertTs e l ↔ x = e ∨ x ∈ l := by
  induction l with
  | nil => simp [insertTs]
  | cons y ys ih =>
    unfold insertTs
    split
    · simp
    · simp only [List.mem_cons, ih]
      constructor
      · rintro (h | h | h)
        · exact Or.inr (Or.inl h)
        · exact Or.inl h
        · exact Or.inr (Or.inr h)
      · rintro (h | h | h)
        · exact Or.inr (Or.inl h)
        · exact Or.inl h
        · exact Or.inr (Or.inr h)

theorem mem_sortTsDesc (x : Event) (l : List Event) : x ∈ sortTsDesc l ↔ x ∈ l := by
  unfold sortTsDesc
  induction l with
  | nil => simp
  | cons y ys ih => simp only [List.foldr_cons, mem_insertTs, ih, List.mem_cons]

theorem sorted_insertTs (e : Event) (l : List Event)
    (h : l.Pairwise (fun a b => b.createdAt ≤ a.createdAt)) :
    (insertTs e l).Pairwise (fun a b => b.createdAt ≤ a.createdAt) := by
  induction l with
  | nil => simp [insertTs]
  | cons y ys ih =>
    unfold insertTs
    rw [List.pairwise_cons] at h
    split
    · rename_i hlt
      rw [List.pairwise_cons]
      refine ⟨?_, List.pairwise_cons.mpr h⟩
      intro b hb
      rcases List.mem_cons.mp hb with rfl | hb
      · omega
      · have := h.1 b hb; omega
    · rename_i hge
      rw [List.pairwise_cons]
      refine ⟨?_, ih h.2⟩
      intro b hb
      rcases (mem_insertTs e b ys).mp hb with rfl | hb
      · omega
      · exact h.1 b hb

theorem sorted_sortTsDesc (l : List Event) :
    (sortTsDesc l).Pairwise (fun a b => b.createdAt ≤ a.createdAt) := by
  unfold sortTsDesc
  induction l with
  | nil => simp
  | cons y ys ih => simp only [List.foldr_cons]; exact sorted_insertTs y _ ih

theorem effectiveLimit_le (fs : List Filter) (d m : Nat) : effectiveLimit fs d m ≤ d := by
  unfold effectiveLimit
  suffices ∀ acc, acc ≤ d → fs.foldl (fun acc f =>
      let l := if filterRaises f then some m else f.limit
      match l with | some n => min n d | none => acc) acc ≤ d from this d (Nat.le_refl d)
  induction fs with
  | nil => intro acc h; simpa using h
  | cons f rest ih =>
    intro acc h
    simp only [List.foldl_cons]
    apply ih
    split
    · exact Nat.min_le_right _ _
    · exact h

/-- **C12 (SQL)** — the answer to a REQ has at most `min(limit, default_limit)` rows, every row
    is one of the matching rows, rows come newest first, and no matching row that was left out
    is newer than a row that was sent. -/
theorem C12_sql_limit (s : State) (fs : List Filter) (d m : Nat) :
    (answer s fs d m).length ≤ effectiveLimit fs d m ∧
    effectiveLimit fs d m ≤ d ∧
    (∀ a ∈ answer s fs d m, a ∈ matchingRows s fs) ∧
    (answer s fs d m).Pairwise (fun a b => b.createdAt ≤ a.createdAt) ∧
    (∀ a ∈ answer s fs d m, ∀ b ∈ (sortTsDesc (matchingRows s fs)).drop (effectiveLimit fs d m),
      b.createdAt ≤ a.createdAt) := by
  unfold answer
  refine ⟨List.length_take_le _ _, effectiveLimit_le fs d m, ?_, ?_, ?_⟩
  · intro a ha
    exact (mem_sortTsDesc a _).mp (List.mem_of_mem_take ha)
  · exact List.Pairwise.sublist (List.take_sublist _ _) (sorted_sortTsDesc _)
  · intro a ha b hb
    have hs := sorted_sortTsDesc (matchingRows s fs)
    rw [← List.take_append_drop (effectiveLimit fs d m) (sortTsDesc (matchingRows s fs)), List.pairwise_append] at hs
    exact hs.2.2 a ha b hb

/-- **C12 (SQL, a large limit truncates nothing)** — with at most `limit` matching rows every
    matching row is sent -/
theorem C12_sql_no_truncation (s : State) (fs : List Filter) (d m : Nat)
    (h : (matchingRows s fs).length ≤ effectiveLimit fs d m) (e : Event) (he : e ∈ matchingRows s fs) :
    e ∈ answer s fs d m := by
  unfold answer
  have hlen : (sortTsDesc (matchingRows s fs)).length ≤ effectiveLimit fs d m := by
    have : (sortTsDesc (matchingRows s fs)).length = (matchingRows s fs).length := by
      unfold sortTsDesc
      generalize matchingRows s fs = l
      induction l with
      | nil => simp
      | cons y ys ih =>
        simp only [List.foldr_cons, List.length_cons]
        rw [← ih]
        generalize List.foldr insertTs [] ys = l2
        induction l2 with
        | nil => simp [insertTs]
        | cons z zs ih2 => unfold insertTs; split <;> simp [ih2]
    omega
  rw [List.take_of_length_le hlen]
  exact (mem_sortTsDesc e _).mpr he

/-- **C12 (SQL, limit 0)** — a single filter with limit 0 gets `LIMIT 0`: nothing is sent.  (Before the
    `fix:` commit `if filter_obj.limit:` replaced 0 by the default maximum — finding `sql-limit-zero-is-max`.) -/
theorem C12_sql_limit_zero (s : State) (f : Filter) (d m : Nat) (h0 : f.limit = some 0) (hr : filterRaises f = false) :
    answer s [f] d m = [] := by
  have hl : effectiveLimit [f] d m = 0 := by simp [effectiveLimit, hr, h0]
  have := (C12_sql_limit s [f] d m).1
  rw [hl] at this
  exact List.eq_nil_of_length_eq_zero (Nat.le_zero.mp this)

example : effectiveLimit [{ kinds := some [1], limit := some 0 }] 20 20 = 0 := by decide +kernel

end NostrRelay.SQL
