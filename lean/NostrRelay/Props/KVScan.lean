/-
Helper lemmas shared by C08 / C09 / C02: soundness of the LMDB scanner (every yielded id is the
trailing 32 bytes of a key of the store that carries the requested match as prefix and passes the
window tests), big-endian facts, and "who owns a key" under the coherence invariant.
-/
import NostrRelay.Props.C11

namespace NostrRelay.KV
open NostrRelay

/-! ## scanner soundness -/

theorem walk_sound (cfg : ScanCfg) (m : Bytes) (L : List Bytes) (id : Bytes)
    (h : id ∈ (walk cfg m L).1) : ∃ k ∈ L, id = lastN 32 k ∧ badKey cfg m k = false := by
  induction L with
  | nil => simp [walk] at h
  | cons k rest ih =>
    unfold walk at h
    by_cases hb : badKey cfg m k = true
    · simp [hb] at h
    · have hb' : badKey cfg m k = false := by simpa using hb
      simp only [hb', Bool.false_eq_true, if_false] at h
      by_cases hs : k < cfg.stop
      · simp [hs] at h
      · simp only [hs, if_false] at h
        cases rest with
        | nil =>
          simp only at h
          by_cases hev : inEvents cfg (lastN 32 k) = true
          · simp only [hev, if_true, List.mem_singleton] at h
            exact ⟨k, List.mem_cons_self, h, hb'⟩
          · simp [hev] at h
        | cons r rs =>
          simp only [List.mem_append] at h
          rcases h with h | h
          · by_cases hev : inEvents cfg (lastN 32 k) = true
            · simp only [hev, if_true, List.mem_singleton] at h
              exact ⟨k, List.mem_cons_self, h, hb'⟩
            · simp [hev] at h
          · obtain ⟨k', hk', hid, hbk⟩ := ih h
            exact ⟨k', List.mem_cons_of_mem _ hk', hid, hbk⟩

theorem mem_below (s : Store) (seek k : Bytes) (h : k ∈ below s seek) : k ∈ skeys s ∧ k < seek := by
  unfold below at h
  simpa using h

theorem scanMatches_sound (s : Store) (cfg : ScanCfg) (addTime : Bytes) (mats : List Bytes) (first : Bool)
    (id : Bytes) (h : id ∈ scanMatches s cfg addTime mats first) :
    ∃ m ∈ mats, ∃ k ∈ skeys s, id = lastN 32 k ∧ badKey cfg m k = false ∧ k < m ++ addTime ++ [255] := by
  induction mats generalizing first with
  | nil => simp [scanMatches] at h
  | cons m ms ih =>
    unfold scanMatches at h
    by_cases hsk : seekFinds s (m ++ addTime ++ [255]) = true
    · simp only [hsk, if_true] at h
      have hwalk : ∀ id, id ∈ (walk cfg m (below s (m ++ addTime ++ [255]))).1 →
          ∃ m' ∈ m :: ms, ∃ k ∈ skeys s, id = lastN 32 k ∧ badKey cfg m' k = false ∧ k < m' ++ addTime ++ [255] := by
        intro id hid
        obtain ⟨k, hk, hidk, hb⟩ := walk_sound cfg m _ id hid
        obtain ⟨hks, hlt⟩ := mem_below s _ k hk
        exact ⟨m, List.mem_cons_self, k, hks, hidk, hb, hlt⟩
      cases hw : (walk cfg m (below s (m ++ addTime ++ [255]))).2 with
      | nextMatch =>
        simp only [hw, List.mem_append] at h
        rcases h with h | h
        · exact hwalk id h
        · obtain ⟨m', hm', rest⟩ := ih false h
          exact ⟨m', List.mem_cons_of_mem _ hm', rest⟩
      | endAll =>
        simp only [hw] at h
        exact hwalk id h
    · simp only [hsk, Bool.false_eq_true, if_false] at h
      by_cases hf : first = true
      · simp only [hf, if_true] at h
        obtain ⟨m', hm', rest⟩ := ih false h
        exact ⟨m', List.mem_cons_of_mem _ hm', rest⟩
      · simp [hf] at h

/-- soundness of `scanIndex`: window tests in terms of the encoded bounds -/
theorem scanIndex_sound (s : Store) (mats : List Bytes) (since until_ : Option Int) (events : Option (List Bytes))
    (ids : List Bytes) (h : scanIndex s mats since until_ events = some ids) (id : Bytes) (hid : id ∈ ids) :
    ∃ m ∈ mats, ∃ k ∈ skeys s, id = lastN 32 k ∧ k.take m.length = m ∧
      (∀ u, until_ = some u → ∃ ub, be32 u = some ub ∧ ¬ (ub < pySlice k (-37) (-33))) ∧
      (∀ sn, since = some sn → ∃ sb, be32 sn = some sb ∧ ¬ (pySlice k (-37) (-33) < sb)) := by
  unfold scanIndex at h
  obtain ⟨sB, hsB, h⟩ := Option.bind_eq_some_iff.mp h
  obtain ⟨uB, huB, h⟩ := Option.bind_eq_some_iff.mp h
  simp only [Option.some.injEq] at h
  subst h
  obtain ⟨m, hm, k, hk, hidk, hbad, _⟩ := scanMatches_sound s _ _ mats true id hid
  unfold badKey at hbad
  simp only [Bool.or_eq_false_iff] at hbad
  refine ⟨m, hm, k, hk, hidk, by simpa using hbad.1.1, ?_, ?_⟩
  · intro u hu
    subst hu
    simp only [encOpt] at huB
    cases hb : be32 u with
    | none => simp [hb] at huB
    | some ub =>
      simp only [hb, Option.map_some, Option.some.injEq] at huB
      subst huB
      exact ⟨ub, rfl, by simpa using hbad.2⟩
  · intro sn hsn
    subst hsn
    simp only [encOpt] at hsB
    cases hb : be32 sn with
    | none => simp [hb] at hsB
    | some sb =>
      simp only [hb, Option.map_some, Option.some.injEq] at hsB
      subst hsB
      exact ⟨sb, rfl, by simpa using hbad.1.2⟩

/-! ## big-endian encoding -/

theorem be32_length (n : Int) (b : Bytes) (h : be32 n = some b) : b.length = 4 := by
  unfold be32 at h
  split at h
  · simp only [Option.some.injEq] at h; subst h; rfl
  · simp at h

theorem be32_inj (a b : Int) (x : Bytes) (ha : be32 a = some x) (hb : be32 b = some x) : a = b := by
  unfold be32 at ha hb
  split at ha
  · split at hb
    · simp only [Option.some.injEq] at ha hb
      rw [← hb] at ha
      simp only [List.cons.injEq, and_true] at ha
      omega
    · simp at hb
  · simp at ha

theorem decomp4 (k : Nat) :
    k = (k / 16777216) * 16777216 + (k / 65536 % 256) * 65536 + (k / 256 % 256) * 256 + k % 256 := by
  omega

theorem lt4 (a0 a1 a2 a3 b0 b1 b2 b3 : Nat) :
    ([a0, a1, a2, a3] : List Nat) < [b0, b1, b2, b3] ↔
      a0 < b0 ∨ a0 = b0 ∧ (a1 < b1 ∨ a1 = b1 ∧ (a2 < b2 ∨ a2 = b2 ∧ a3 < b3)) := by
  simp [List.cons_lt_cons_iff]

theorem digits_le (j k : Nat) (hk : k < 4294967296) (hj : j < 4294967296)
    (h : ¬ ([k / 16777216 % 256, k / 65536 % 256, k / 256 % 256, k % 256]
            < [j / 16777216 % 256, j / 65536 % 256, j / 256 % 256, j % 256])) : j ≤ k := by
  rw [lt4] at h
  have hj' := decomp4 j
  have hk' := decomp4 k
  have : j / 16777216 % 256 = j / 16777216 := by omega
  have : k / 16777216 % 256 = k / 16777216 := by omega
  have : j / 65536 % 256 < 256 := Nat.mod_lt _ (by decide)
  have : j / 256 % 256 < 256 := Nat.mod_lt _ (by decide)
  have : j % 256 < 256 := Nat.mod_lt _ (by decide)
  have : k / 65536 % 256 < 256 := Nat.mod_lt _ (by decide)
  have : k / 256 % 256 < 256 := Nat.mod_lt _ (by decide)
  have : k % 256 < 256 := Nat.mod_lt _ (by decide)
  generalize j / 16777216 = a3 at *
  generalize j / 65536 % 256 = a2 at *
  generalize j / 256 % 256 = a1 at *
  generalize j % 256 = a0 at *
  generalize k / 16777216 = b3 at *
  generalize k / 65536 % 256 = b2 at *
  generalize k / 256 % 256 = b1 at *
  generalize k % 256 = b0 at *
  omega

/-- lexicographic order of the encodings is numeric order: `¬ (enc b < enc a) → a ≤ b` -/
theorem be32_not_lt (a b : Int) (x y : Bytes) (ha : be32 a = some x) (hb : be32 b = some y)
    (h : ¬ (y < x)) : a ≤ b := by
  unfold be32 at ha hb
  split at ha
  · split at hb
    · rename_i h1 h2
      simp only [Option.some.injEq] at ha hb
      subst ha; subst hb
      have := digits_le a.toNat b.toNat (by omega) (by omega) h
      omega
    · simp at hb
  · simp at ha

/-! ## who owns a key -/

theorem mem_skeys_get (s : Store) (k : Bytes) (h : k ∈ skeys s) : ∃ v, get s k = some v := by
  induction s with
  | nil => simp [skeys] at h
  | cons hd tl ih =>
    obtain ⟨k0, v0⟩ := hd
    simp only [skeys, List.map_cons, List.mem_cons] at h
    by_cases hk : k = k0
    · exact ⟨v0, by simp [get, hk]⟩
    · rcases h with h | h
      · exact absurd h hk
      · obtain ⟨v, hv⟩ := ih h
        exact ⟨v, by simp [get, hk, hv]⟩

/-- the timestamp slice the scanner reads from a well-formed index key -/
theorem pySlice_fullKey (conv ts id : Bytes) (hts : ts.length = 4) (hid : id.length = 32) :
    pySlice (fullKey conv ts id) (-37) (-33) = ts := by
  unfold pySlice pyIdx fullKey
  have hlen : (conv ++ [0] ++ ts ++ [0] ++ id).length = conv.length + 38 := by
    simp [hts, hid]
  rw [hlen]
  have h1 : ((conv.length + 38 : Nat) : Int) + (-37) = ((conv.length + 1 : Nat) : Int) := by omega
  have h2 : ((conv.length + 38 : Nat) : Int) + (-33) = ((conv.length + 5 : Nat) : Int) := by omega
  simp only [show ((-37 : Int) < 0) by decide, show ((-33 : Int) < 0) by decide, if_true, h1, h2]
  have h3 : ¬ (((conv.length + 1 : Nat) : Int) < 0) := by omega
  have h4 : ¬ (((conv.length + 5 : Nat) : Int) < 0) := by omega
  simp only [h3, h4, if_false, Int.toNat_natCast]
  have : conv ++ [0] ++ ts ++ [0] ++ id = (conv ++ [0]) ++ (ts ++ ([0] ++ id)) := by simp
  rw [this, List.drop_append_of_le_length (by simp)]
  have hd : (conv ++ [0]).drop (conv.length + 1) = [] := by
    apply List.drop_eq_nil_of_le; simp
  rw [hd, List.nil_append]
  have : conv.length + 5 - (conv.length + 1) = 4 := by omega
  rw [this, ← hts, List.take_left']
  rfl

/-- every secondary key of an encodable event is `fullKey conv ts id` for one of its `convKeys` -/
theorem skOf_form (c : Event) (k : Bytes) (h : k ∈ skOf c) :
    ∃ ts kd conv, be32 c.createdAt = some ts ∧ be32 c.kind = some kd ∧ k = fullKey conv ts c.id ∧
      (conv = [1] ++ ts ∨ conv = [2] ++ kd ∨ conv = [3] ++ c.pubkey ∨ conv = [4] ++ c.pubkey ++ [0] ++ kd ∨
       ∃ n v, conv = tagKey n v) := by
  unfold skOf secondaryKeys at h
  cases hts : be32 c.createdAt with
  | none => simp [hts] at h
  | some ts =>
    unfold convKeys at h
    cases hkd : be32 c.kind with
    | none => simp [hts, hkd] at h
    | some kd =>
      simp only [hts, hkd, Option.bind_eq_bind, Option.bind_some, Option.pure_def, Option.getD_some,
        List.mem_map] at h
      obtain ⟨conv, hconv, rfl⟩ := h
      refine ⟨ts, kd, conv, rfl, rfl, rfl, ?_⟩
      simp only [List.mem_append, List.mem_cons, List.mem_map, List.mem_filter] at hconv
      rcases hconv with (h1 | h1 | h1 | h1 | h1) | ⟨t, _, h1⟩
      · exact Or.inl h1
      · exact Or.inr (Or.inl h1)
      · exact Or.inr (Or.inr (Or.inl h1))
      · exact Or.inr (Or.inr (Or.inr (Or.inl h1)))
      · simp at h1
      · exact Or.inr (Or.inr (Or.inr (Or.inr ⟨_, _, h1.symm⟩)))

/-- under coherence a key that is neither the tombstone nor a primary key belongs to a stored
    record and is one of that record's keys -/
theorem key_owner (s : Store) (hc : Coh s) (k : Bytes) (hk : k ∈ skeys s)
    (hnt : k ≠ tombstone) (hnp : ∀ id, k ≠ primaryKey id) :
    ∃ c, getEvent s c.id = some c ∧ c.id.length = 32 ∧ k ∈ skOf c := by
  obtain ⟨v, hv⟩ := mem_skeys_get s k hk
  rcases hc.key_ok k v hv with ⟨h1, _⟩ | ⟨id, e, h2, _⟩ | ⟨_, c, hcst, hkc⟩
  · exact absurd h1 hnt
  · exact absurd h2 (hnp id)
  · obtain ⟨_, hid, _, _⟩ := hc.rec_ok c.id c hcst
    exact ⟨c, (getEvent_iff s c.id c).mpr hcst, hid, hkc⟩

theorem take_append_left (a b : Bytes) (n : Nat) (h : n = a.length) : (a ++ b).take n = a := by
  subst h; simp

/-- a key carrying an author+kind match as prefix belongs to a stored event of that author and
    kind, and its timestamp slice is that event's encoded `created_at` -/
theorem authorkind_key_owner (s : Store) (hc : Coh s)
    (hpk : ∀ id c, getEvent s id = some c → c.pubkey.length = 32)
    (pk kd k : Bytes) (hpkl : pk.length = 32) (hkdl : kd.length = 4) (hk : k ∈ skeys s)
    (hpre : k.take ([4] ++ pk ++ [0] ++ kd).length = [4] ++ pk ++ [0] ++ kd) :
    ∃ c ts, getEvent s c.id = some c ∧ lastN 32 k = c.id ∧ c.pubkey = pk ∧ be32 c.kind = some kd ∧
      be32 c.createdAt = some ts ∧ pySlice k (-37) (-33) = ts := by
  have hlen : ([4] ++ pk ++ [0] ++ kd).length = 38 := by simp [hpkl, hkdl]
  rw [hlen] at hpre
  have hk0 : k.head? = some 4 := by
    cases k with
    | nil => simp at hpre
    | cons b rest => simp at hpre; simp [hpre.1]
  have hnt : k ≠ tombstone := by intro h; rw [h] at hk0; simp [tombstone] at hk0
  have hnp : ∀ id, k ≠ primaryKey id := by intro id h; rw [h] at hk0; simp [primaryKey] at hk0
  obtain ⟨c, hcst, hid, hkc⟩ := key_owner s hc k hk hnt hnp
  have hcpk := hpk c.id c hcst
  obtain ⟨ts, kd', conv, hts, hkd', hkeq, hconv⟩ := skOf_form c k hkc
  have htsl := be32_length _ _ hts
  have hkdl' := be32_length _ _ hkd'
  have hhead : conv.head? = some 4 := by
    rw [hkeq] at hk0
    unfold fullKey at hk0
    rcases hconv with h | h | h | h | ⟨n, v, h⟩ <;> subst h <;> simp at hk0 ⊢ <;> try exact hk0
    simp [tagKey] at hk0
  have hconv4 : conv = [4] ++ c.pubkey ++ [0] ++ kd' := by
    rcases hconv with h | h | h | h | ⟨n, v, h⟩
    · subst h; simp at hhead
    · subst h; simp at hhead
    · subst h; simp at hhead
    · exact h
    · subst h; simp [tagKey] at hhead
  have hclen : conv.length = 38 := by rw [hconv4]; simp [hcpk, hkdl']
  have htake : k.take 38 = conv := by
    rw [hkeq]
    unfold fullKey
    rw [show conv ++ [0] ++ ts ++ [0] ++ c.id = conv ++ ([0] ++ ts ++ [0] ++ c.id) by simp]
    exact take_append_left _ _ _ hclen.symm
  rw [htake, hconv4] at hpre
  have hsplit : c.pubkey = pk ∧ kd' = kd := by
    have h1 : c.pubkey ++ ([0] ++ kd') = pk ++ ([0] ++ kd) := by
      simpa [List.append_assoc] using hpre
    have := List.append_inj h1 (by rw [hcpk, hpkl])
    exact ⟨this.1, by simpa using this.2⟩
  refine ⟨c, ts, hcst, ?_, hsplit.1, by rw [hkd', hsplit.2], hts, ?_⟩
  · rw [hkeq]; exact lastN_fullKey conv ts c.id hid
  · rw [hkeq]; exact pySlice_fullKey conv ts c.id htsl hid

/-- the same for the author index (`03 ++ pubkey`) -/
theorem author_key_owner (s : Store) (hc : Coh s)
    (hpk : ∀ id c, getEvent s id = some c → c.pubkey.length = 32)
    (pk k : Bytes) (hpkl : pk.length = 32) (hk : k ∈ skeys s)
    (hpre : k.take ([3] ++ pk).length = [3] ++ pk) :
    ∃ c ts, getEvent s c.id = some c ∧ lastN 32 k = c.id ∧ c.pubkey = pk ∧
      be32 c.createdAt = some ts ∧ pySlice k (-37) (-33) = ts := by
  have hlen : ([3] ++ pk).length = 33 := by simp [hpkl]
  rw [hlen] at hpre
  have hk0 : k.head? = some 3 := by
    cases k with
    | nil => simp at hpre
    | cons b rest => simp at hpre; simp [hpre.1]
  have hnt : k ≠ tombstone := by intro h; rw [h] at hk0; simp [tombstone] at hk0
  have hnp : ∀ id, k ≠ primaryKey id := by intro id h; rw [h] at hk0; simp [primaryKey] at hk0
  obtain ⟨c, hcst, hid, hkc⟩ := key_owner s hc k hk hnt hnp
  have hcpk := hpk c.id c hcst
  obtain ⟨ts, kd', conv, hts, hkd', hkeq, hconv⟩ := skOf_form c k hkc
  have htsl := be32_length _ _ hts
  have hhead : conv.head? = some 3 := by
    rw [hkeq] at hk0
    unfold fullKey at hk0
    rcases hconv with h | h | h | h | ⟨n, v, h⟩ <;> subst h <;> simp at hk0 ⊢ <;> try exact hk0
    simp [tagKey] at hk0
  have hconv3 : conv = [3] ++ c.pubkey := by
    rcases hconv with h | h | h | h | ⟨n, v, h⟩
    · subst h; simp at hhead
    · subst h; simp at hhead
    · exact h
    · subst h; simp at hhead
    · subst h; simp [tagKey] at hhead
  have hclen : conv.length = 33 := by rw [hconv3]; simp [hcpk]
  have htake : k.take 33 = conv := by
    rw [hkeq]
    unfold fullKey
    rw [show conv ++ [0] ++ ts ++ [0] ++ c.id = conv ++ ([0] ++ ts ++ [0] ++ c.id) by simp]
    exact take_append_left _ _ _ hclen.symm
  rw [htake, hconv3] at hpre
  have hpkeq : c.pubkey = pk := by simpa using hpre
  refine ⟨c, ts, hcst, ?_, hpkeq, hts, ?_⟩
  · rw [hkeq]; exact lastN_fullKey conv ts c.id hid
  · rw [hkeq]; exact pySlice_fullKey conv ts c.id htsl hid

end NostrRelay.KV
