/-
C07 — All effects of an event are applied atomically, even across crashes.

The atomicity of a committed / aborted transaction is a property of LMDB and SQLite (trusted).
What the relay's code contributes — and what the model states — is that *all* mutations of one
event sit in *one* transaction whose failure at any point leaves the store as it was, and that a
failed event does not disturb the processing of later ones.  The weight of this property is in the
fault enumeration against the real code (harness/props/c07.py); these theorems fix what that
enumeration compares against.
-/
import NostrRelay.Props.C06

namespace NostrRelay.KV
open NostrRelay

/-- a put sequence with an engine fault injected at its `k`-th operation -/
def putAllFault : Nat → Store → List (Bytes × Option Event) → Option Store
  | _, s, [] => some s
  | 0, _, _ :: _ => none                                     -- the fault fires here
  | k + 1, s, (key, v) :: rest => (putChecked s key v).bind fun s' => putAllFault k s' rest

/-- a fault inside the sequence makes the whole sequence fail: nothing of it is committed -/
theorem putAllFault_none (k : Nat) (s : Store) (kvs : List (Bytes × Option Event)) (hk : k < kvs.length) :
    putAllFault k s kvs = none := by
  induction kvs generalizing k s with
  | nil => simp at hk
  | cons kv rest ih =>
    obtain ⟨key, v⟩ := kv
    cases k with
    | zero => rfl
    | succ k' =>
      simp only [putAllFault]
      cases hp : putChecked s key v with
      | none => rfl
      | some s' => simp only [Option.bind_some]; exact ih k' s' (by simp at hk; omega)

/-- **C07 (LMDB, all or nothing)** — after one writer task the keyspace is either exactly the
    state before it or exactly the state its complete transaction produces -/
theorem C07_kv_all_or_nothing (s : Store) (t : Task) :
    applyTask s t = s ∨ ∃ s', taskBody s t = some s' ∧ applyTask s t = s' := by
  unfold applyTask
  cases h : taskBody s t with
  | none => left; rfl
  | some s' => right; exact ⟨s', rfl, rfl⟩

/-- **C07 (LMDB, later events proceed)** — a task whose transaction failed is as if it had never
    been queued: the tasks after it are applied to the same state -/
theorem C07_kv_later_tasks_proceed (s : Store) (pre post : List Task) (t : Task)
    (h : taskBody (applyTasks s pre) t = none) :
    applyTasks s (pre ++ t :: post) = applyTasks s (pre ++ post) := by
  unfold applyTasks at *
  simp only [List.foldl_append, List.foldl_cons]
  congr 1
  simp [applyTask, h]

/-- the invariant of C10 also survives failed tasks (no half-written index state) -/
theorem C07_kv_coherent_after_failure (s : Store) (hc : Coh s) (t : Task) (h : taskBody s t = none) :
    Coh (applyTask s t) := by
  simp only [applyTask, h, Option.getD_none]; exact hc

end NostrRelay.KV

namespace NostrRelay.SQL
open NostrRelay NostrRelay.KV

/-- **C07 (SQL, all or nothing)** -/
theorem C07_sql_all_or_nothing (s : State) (e : Event) :
    applyAdd s e = s ∨ ∃ s' ch, addEvent s e = .ok s' ch ∧ applyAdd s e = s' := by
  unfold applyAdd
  cases h : addEvent s e with
  | raises => left; rfl
  | ok s' ch => right; exact ⟨s', ch, rfl, rfl⟩

/-- **C07 (SQL, later events proceed)** -/
theorem C07_sql_later_events_proceed (s : State) (pre post : List Event) (e : Event)
    (h : addEvent (pre.foldl applyAdd s) e = .raises) :
    (pre ++ e :: post).foldl applyAdd s = (pre ++ post).foldl applyAdd s := by
  simp only [List.foldl_append, List.foldl_cons]
  congr 1
  simp [applyAdd, h]

end NostrRelay.SQL
