/-
C12 as the client sees it: both backends apply the configured output validator to the rows of the *already limited* query
(`Subscription.run_query`: SQL after `ORDER BY created_at DESC LIMIT n`, LMDB after the `count == limit` cut-off of `execute_one_plan`).
`served` is that pipeline.  The full statement — the client is sent the newest min(n, visible matches) visible events — holds when no
hidden event sits among the first n rows (`C12_served_partial`), and fails otherwise: `C12_output_check_after_limit_witness`
(known finding `output-check-after-limit`).
-/
namespace NostrRelay.Served

/-- what reaches the client: the first `n` rows of the ordered answer, then the output validator -/
def served {α : Type} (rows : List α) (n : Nat) (visible : α → Bool) : List α := (rows.take n).filter visible

/-- what the property owes: the newest `n` of the rows the client may see -/
def owed {α : Type} (rows : List α) (n : Nat) (visible : α → Bool) : List α := (rows.filter visible).take n

theorem filter_take_of_all {α : Type} (visible : α → Bool) : ∀ (rows : List α) (n : Nat),
    (∀ r ∈ rows.take n, visible r = true) → (rows.take n).filter visible = (rows.filter visible).take n
  | [], n, _ => by simp
  | _ :: _, 0, _ => by simp
  | r :: rest, n + 1, h => by
    have hr : visible r = true := h r (by simp)
    have ih := filter_take_of_all visible rest n (fun x hx => h x (by simp [hx]))
    simp [List.take, hr, ih]

/-- **partial**: when the validator hides none of the first n rows, the client is sent exactly what it is owed -/
theorem C12_served_partial {α : Type} (rows : List α) (n : Nat) (visible : α → Bool)
    (h : ∀ r ∈ rows.take n, visible r = true) : served rows n visible = owed rows n visible :=
  filter_take_of_all visible rows n h

/-- never more than the limit, and only visible rows, in the order of the answer -/
theorem C12_served_le (α : Type) (rows : List α) (n : Nat) (visible : α → Bool) :
    (served rows n visible).length ≤ n ∧ ∀ r ∈ served rows n visible, visible r = true := by
  constructor
  · unfold served
    exact Nat.le_trans (List.length_filter_le _ _) (by simp [List.length_take]; omega)
  · intro r hr
    unfold served at hr
    exact (List.mem_filter.1 hr).2

/-- **the open finding**: six notes, newest first, every second one hidden; limit 3 sends one event although three visible ones match -/
theorem C12_output_check_after_limit_witness :
    served [5, 4, 3, 2, 1, 0] 3 (fun i => i % 2 == 0) = [4] ∧ owed [5, 4, 3, 2, 1, 0] 3 (fun i => i % 2 == 0) = [4, 2, 0] := by decide

end NostrRelay.Served
