/-
C02 (LMDB) — the remaining chained plans at the level of a REQ filter: authors + tag conditions and
authors + kinds + tag conditions (kinds + tag conditions is in C02Multi.lean).

`multi_plan_complete`: the generic tail — whichever of its two indexes the planner puts first, a chained plan
delivers every stored strict match that both unrestricted scans yield.  `tags_side`: the tag-index half (under
the two hypotheses of C02Tags.lean: no `since`, no NUL).  Then one theorem per base index.
-/
import NostrRelay.Props.C02Multi
import NostrRelay.Props.C02AuthorKinds

namespace NostrRelay.KV
open NostrRelay

/-- the generic tail of the chained-plan proofs -/
theorem multi_plan_complete (s : Store) (f : Filter) (dl : Option Nat) (ml : Nat) (bi : PlanIndex) (baseM tagM : List Bytes)
    (hshape : planShape f = some (.multi bi .tags, baseM, tagM, false) ∨ planShape f = some (.multi .tags bi, tagM, baseM, false))
    (p : Plan) (hp : planFilter f dl ml = some p)
    (oB oT : List Bytes) (hoB : scanIndex s baseM f.since f.until_ none = some oB) (hoT : scanIndex s tagM f.since f.until_ none = some oT)
    (e : Event) (hst : getEvent s e.id = some e) (hm : matchesSpec true f e = true) (hinB : e.id ∈ oB) (hinT : e.id ∈ oT)
    (hlim : ∀ n cands, p.limit = some n → planCandidates s p = some cands → (planHits s p.filter cands).length ≤ n) :
    e.id ∈ executePlan s p := by
  have hcands : ∃ cands, planCandidates s p = some cands ∧ e.id ∈ cands ∧ p.filter = f := by
    rcases hshape with hsh | hsh
    · have hpl : p.filter = f ∧ p.index = .multi bi .tags ∧ p.mats = baseM ∧ p.mats2 = tagM ∧ p.raises = false := by
        unfold planFilter at hp
        rw [hsh] at hp
        simp only [Option.map_some, Option.some.injEq] at hp
        subst hp
        exact ⟨rfl, rfl, rfl, rfl, rfl⟩
      obtain ⟨hpf, hpi, hpm, hpm2, hpr⟩ := hpl
      obtain ⟨c, hc1, hc2⟩ := C02_kv_multi_candidates s p bi .tags hpi hpr oB oT
        (by rw [hpm, hpf]; exact hoB) (by rw [hpm2, hpf]; exact hoT) e.id hinB hinT
      exact ⟨c, hc1, hc2, hpf⟩
    · have hpl : p.filter = f ∧ p.index = .multi .tags bi ∧ p.mats = tagM ∧ p.mats2 = baseM ∧ p.raises = false := by
        unfold planFilter at hp
        rw [hsh] at hp
        simp only [Option.map_some, Option.some.injEq] at hp
        subst hp
        exact ⟨rfl, rfl, rfl, rfl, rfl⟩
      obtain ⟨hpf, hpi, hpm, hpm2, hpr⟩ := hpl
      obtain ⟨c, hc1, hc2⟩ := C02_kv_multi_candidates s p .tags bi hpi hpr oT oB
        (by rw [hpm, hpf]; exact hoT) (by rw [hpm2, hpf]; exact hoB) e.id hinT hinB
      exact ⟨c, hc1, hc2, hpf⟩
  obtain ⟨cands, hc1, hc2, hpf⟩ := hcands
  exact C02_kv_executePlan_complete _ p cands hc1 e.id e hc2 hst (by rw [hpf]; exact residual_complete f e hm)
    (fun n hn => hlim n cands hn hc1)

/-- the compiled match values of the tag conditions of a filter, as the planner sorts them -/
def tagMats (f : Filter) : List Bytes :=
  (planShape.sortDesc (f.tags.flatMap fun t => t.2.map fun v => (t.1, v))).map (fun q => tagKey q.1 q.2)

/-- the tag-index half: a stored event that satisfies the tag conditions of the filter (single-letter names, no NUL, no
    `since`) is yielded by the unrestricted scan of the tag index over the planner's match values -/
theorem tags_side (tasks : List Task) (hwf : ∀ t ∈ tasks, t.wfn) (f : Filter)
    (t0 : Bytes × List Bytes) (rest : List (Bytes × List Bytes)) (htags : f.tags = t0 :: rest)
    (hsingle : ∀ t ∈ f.tags, isSingleChar t.1 = true)
    (hnz : ∀ t ∈ f.tags, 0 ∉ t.1 ∧ ∀ v ∈ t.2, 0 ∉ v)
    (hsince : f.since = none) (uB : Option Bytes) (huB : encOpt f.until_ = some uB)
    (e : Event) (hst : getEvent (applyTasks init tasks) e.id = some e) (hm : matchesSpec true f e = true) :
    ∃ oT, scanIndex (applyTasks init tasks) (tagMats f) f.since f.until_ none = some oT ∧ e.id ∈ oT := by
  let pairs := planShape.sortDesc (f.tags.flatMap fun t => t.2.map fun v => (t.1, v))
  unfold matchesSpec at hm
  simp only [Bool.and_eq_true] at hm
  obtain ⟨⟨⟨⟨⟨_, _⟩, _⟩, _⟩, h5⟩, h6⟩ := hm
  have huntil : ∀ x, f.until_ = some x → e.createdAt ≤ x := by
    intro x hx; simp only [hx, if_true, decide_eq_true_eq] at h5; omega
  have ht0 : t0 ∈ f.tags := by rw [htags]; exact List.mem_cons_self
  have h6' := List.all_eq_true.mp h6 t0 ht0
  obtain ⟨tg, htg, hcond⟩ := List.any_eq_true.mp h6'
  simp only [Bool.and_eq_true, beq_iff_eq, decide_eq_true_eq] at hcond
  obtain ⟨⟨hhead, hlen⟩, hval⟩ := hcond
  have hidx : isIndexableTag tg = true := by
    cases tg with
    | nil => simp at hlen
    | cons a tl =>
      cases tl with
      | nil => simp at hlen
      | cons b tl' =>
        simp only [List.head?_cons, Option.some.injEq] at hhead
        simp [isIndexableTag, hhead, hsingle t0 ht0]
  have hname : tg.getD 0 [] = t0.1 := by
    cases tg with
    | nil => simp at hlen
    | cons a tl => simpa using hhead
  have hmem : (tg.getD 0 [], tg.getD 1 []) ∈ pairs := by
    rw [mem_sortDesc, hname]
    simp only [List.mem_flatMap, List.mem_map]
    exact ⟨t0, ht0, tg.getD 1 [], by simpa using hval, rfl⟩
  have hpn : ∀ q ∈ pairs, 0 ∉ q.1 ∧ 0 ∉ q.2 := by
    intro q hq
    rw [mem_sortDesc] at hq
    simp only [List.mem_flatMap, List.mem_map] at hq
    obtain ⟨t, ht, v, hv, rfl⟩ := hq
    exact ⟨(hnz t ht).1, (hnz t ht).2 v hv⟩
  have hdescT : (pairs.map (fun q => tagKey q.1 q.2)).Pairwise (fun a b => b < a) := by
    apply sortDesc_mats_desc
    intro q hq
    simp only [List.mem_flatMap, List.mem_map] at hq
    obtain ⟨t, ht, v, _, rfl⟩ := hq
    exact (hnz t ht).1
  rw [hsince]
  exact C02_kv_tags_complete_nosince_reachable tasks hwf pairs hpn hdescT f.until_ uB huB e hst tg htg hidx hmem huntil

theorem filterMap_some_cons3 (l : List Bytes) :
    List.filterMap ((fun a => some (3 :: a)) : Bytes → Option Bytes) l = List.map (fun a => 3 :: a) l := by
  induction l with
  | nil => rfl
  | cons a as ih => simp [ih]

/-- **C02 (LMDB, an authors + tags filter, every reachable store)** — the chained plan of the authors index and the tag
    index, whichever comes first: for a filter that names authors (32-byte keys, validated order) and tag conditions
    (single-letter names, no empty value lists, no NUL) and optionally `until`, and nothing else, over any history of writer
    tasks whose events carry 32-byte ids / pubkeys and no NUL in their indexed tags: every stored event that matches the filter
    under the strict NIP-01 reading is delivered, as long as the limit does not truncate. -/
theorem C02_kv_authors_tags_filter_complete (tasks : List Task) (hwf : ∀ t ∈ tasks, t.wfn) (hwfp : ∀ t ∈ tasks, t.wfp)
    (f : Filter) (dl : Option Nat) (ml : Nat)
    (as : List Bytes) (ha : f.authors = some as) (hneA : as ≠ []) (h32 : ∀ a ∈ as, a.length = 32)
    (hdescA : as.Pairwise (fun a b => b < a))
    (t0 : Bytes × List Bytes) (rest : List (Bytes × List Bytes)) (htags : f.tags = t0 :: rest)
    (hsingle : ∀ t ∈ f.tags, isSingleChar t.1 = true)
    (hnz : ∀ t ∈ f.tags, 0 ∉ t.1 ∧ ∀ v ∈ t.2, 0 ∉ v)
    (hvals : f.tags.any (fun t => t.2.isEmpty) = false)
    (hids : f.ids = none) (hkinds : f.kinds = none) (hsince : f.since = none)
    (uB : Option Bytes) (huB : encOpt f.until_ = some uB)
    (p : Plan) (hp : planFilter f dl ml = some p)
    (e : Event) (hst : getEvent (applyTasks init tasks) e.id = some e) (hm : matchesSpec true f e = true)
    (hlim : ∀ n cands, p.limit = some n → planCandidates (applyTasks init tasks) p = some cands →
      (planHits (applyTasks init tasks) p.filter cands).length ≤ n) :
    e.id ∈ executePlan (applyTasks init tasks) p := by
  obtain ⟨oT, hoT, hinT⟩ := tags_side tasks hwf f t0 rest htags hsingle hnz hsince uB huB e hst hm
  have hm0 := hm
  unfold matchesSpec at hm
  simp only [Bool.and_eq_true] at hm
  obtain ⟨⟨⟨⟨⟨_, h2⟩, _⟩, _⟩, h5⟩, _⟩ := hm
  have hain : e.pubkey ∈ as := by simpa [ha] using h2
  have huntil : ∀ x, f.until_ = some x → e.createdAt ≤ x := by
    intro x hx; simp only [hx, if_true, decide_eq_true_eq] at h5; omega
  obtain ⟨oB, hoB, hinB⟩ := C02_kv_authors_complete_reachable tasks hwfp as h32 (authors_mats_desc as hdescA)
    none f.until_ none uB rfl huB e hst hain (by intro x hx; cases hx) huntil
  have hshape : planShape f = some (.multi .authors .tags, as.map (fun a => [3] ++ a), tagMats f, false) ∨
                planShape f = some (.multi .tags .authors, tagMats f, as.map (fun a => [3] ++ a), false) := by
    unfold planShape tagMats
    simp only [Bool.false_eq_true, if_false, hvals, hids, hkinds, ha, Option.isSome_some, Option.isSome_none,
      Bool.false_and, Option.getD_some, Option.getD_none, List.map_map]
    rw [htags]
    have h0 : ((none : Option (List Bytes)) == some []) = false := rfl
    have h1 : ((none : Option (List Int)) == some []) = false := rfl
    have h2' : ((some as : Option (List Bytes)) == some []) = false := by
      cases as with
      | nil => exact absurd rfl hneA
      | cons _ _ => rfl
    simp only [h0, h1, h2', Bool.or_self, Bool.false_eq_true, if_false]
    have hfm := filterMap_some_cons3 as
    refine ite_or _ _ _ _ _ ?_ ?_
    · simp [hfm, Function.comp_def]
    · simp [hfm, Function.comp_def]
  exact multi_plan_complete _ f dl ml .authors _ _ hshape p hp oB oT (by rw [hsince]; exact hoB) hoT e hst hm0 hinB hinT hlim

/-- **C02 (LMDB, an authors + kinds + tags filter, every reachable store)** — the chained plan of the author+kind index and
    the tag index, whichever comes first. -/
theorem C02_kv_authorkinds_tags_filter_complete (tasks : List Task) (hwf : ∀ t ∈ tasks, t.wfn) (hwfp : ∀ t ∈ tasks, t.wfp)
    (f : Filter) (dl : Option Nat) (ml : Nat)
    (as : List Bytes) (ha : f.authors = some as) (hneA : as ≠ []) (h32 : ∀ a ∈ as, a.length = 32)
    (hdescA : as.Pairwise (fun a b => b < a))
    (ks : List Int) (hk : f.kinds = some ks) (hneK : ks ≠ [])
    (kds : List Bytes) (henc : ks.map be32 = kds.map some) (hdescK : ks.Pairwise (fun a b => b < a))
    (t0 : Bytes × List Bytes) (rest : List (Bytes × List Bytes)) (htags : f.tags = t0 :: rest)
    (hsingle : ∀ t ∈ f.tags, isSingleChar t.1 = true)
    (hnz : ∀ t ∈ f.tags, 0 ∉ t.1 ∧ ∀ v ∈ t.2, 0 ∉ v)
    (hvals : f.tags.any (fun t => t.2.isEmpty) = false)
    (hids : f.ids = none) (hsince : f.since = none)
    (uB : Option Bytes) (huB : encOpt f.until_ = some uB)
    (p : Plan) (hp : planFilter f dl ml = some p)
    (e : Event) (hst : getEvent (applyTasks init tasks) e.id = some e) (hm : matchesSpec true f e = true)
    (hlim : ∀ n cands, p.limit = some n → planCandidates (applyTasks init tasks) p = some cands →
      (planHits (applyTasks init tasks) p.filter cands).length ≤ n) :
    e.id ∈ executePlan (applyTasks init tasks) p := by
  obtain ⟨oT, hoT, hinT⟩ := tags_side tasks hwf f t0 rest htags hsingle hnz hsince uB huB e hst hm
  have hkds4 : ∀ kd ∈ kds, kd.length = 4 := by
    intro kd hkd
    have : some kd ∈ kds.map some := List.mem_map.mpr ⟨kd, hkd, rfl⟩
    rw [← henc] at this
    obtain ⟨k, _, hke⟩ := List.mem_map.mp this
    exact be32_length _ _ hke
  have hm0 := hm
  unfold matchesSpec at hm
  simp only [Bool.and_eq_true] at hm
  obtain ⟨⟨⟨⟨⟨_, h2⟩, h3⟩, _⟩, h5⟩, _⟩ := hm
  have hain : e.pubkey ∈ as := by simpa [ha] using h2
  have hkin : e.kind ∈ ks := by simpa [hk] using h3
  have hbe : be32 e.kind ∈ ks.map be32 := List.mem_map.mpr ⟨e.kind, hkin, rfl⟩
  rw [henc] at hbe
  obtain ⟨kd, hkdm, hkd⟩ := List.mem_map.mp hbe
  have huntil : ∀ x, f.until_ = some x → e.createdAt ≤ x := by
    intro x hx; simp only [hx, if_true, decide_eq_true_eq] at h5; omega
  obtain ⟨oB, hoB, hinB⟩ := C02_kv_authorkinds_complete_reachable tasks hwfp (akMats as kds)
    (by
      intro m hm
      obtain ⟨a, ha', kd', hkd', rfl⟩ := (akMats_mem as kds m).mp hm
      exact ⟨a, kd', rfl, h32 a ha', hkds4 kd' hkd'⟩)
    (akMats_desc as kds h32 hdescA (kds_desc ks kds henc hdescK))
    none f.until_ none uB rfl huB e hst kd hkd.symm
    ((akMats_mem as kds _).mpr ⟨e.pubkey, hain, kd, hkdm, rfl⟩) (by intro x hx; cases hx) huntil
  have hshape : planShape f = some (.multi .authorkinds .tags, akMats as kds, tagMats f, false) ∨
                planShape f = some (.multi .tags .authorkinds, tagMats f, akMats as kds, false) := by
    unfold planShape tagMats
    simp only [Bool.false_eq_true, if_false, hvals, hids, hk, ha, Option.isSome_some, Option.isSome_none,
      Bool.and_self, Option.getD_some, henc, List.map_map, if_true]
    rw [htags]
    have h0 : ((none : Option (List Bytes)) == some []) = false := rfl
    have h1 : ((some ks : Option (List Int)) == some []) = false := by
      cases ks with
      | nil => exact absurd rfl hneK
      | cons _ _ => rfl
    have h2' : ((some as : Option (List Bytes)) == some []) = false := by
      cases as with
      | nil => exact absurd rfl hneA
      | cons _ _ => rfl
    simp only [h0, h1, h2', Bool.or_self, Bool.false_eq_true, if_false]
    refine ite_or _ _ _ _ _ ?_ ?_
    · simp [Function.comp_def, akMats, List.filterMap_flatMap, List.filterMap_map, List.any_flatMap]
    · simp [Function.comp_def, akMats, List.filterMap_flatMap, List.filterMap_map, List.any_flatMap]
  exact multi_plan_complete _ f dl ml .authorkinds _ _ hshape p hp oB oT (by rw [hsince]; exact hoB) hoT e hst hm0 hinB hinT hlim

-- non-vacuity: authors {aa.., bb..} and #t {a}: the chained plan delivers exactly the events of those authors tagged a
example :
    let mk (i : Nat) (pk : Nat) (ts : Int) (k : Int) (v : Bytes) : Event :=
      { id := List.replicate 31 0 ++ [i], pubkey := List.replicate 32 pk, createdAt := ts, kind := k, tags := [[[116], v]] }
    let s := applyTasks init [.add (mk 1 170 1700000000 1 [97]), .add (mk 2 187 1700000100 7 [97]), .add (mk 3 170 1700000050 1 [98]),
                              .add (mk 4 204 1700000300 1 [97])]
    ((planFilter { authors := some [List.replicate 32 187, List.replicate 32 170], tags := [([116], [[97]])] } none 20).map
      (fun p => (executePlan s p).length)) = some 2
    ∧ ((planFilter { authors := some [List.replicate 32 187, List.replicate 32 170], kinds := some [7, 1], tags := [([116], [[97]])] } none 20).map
      (fun p => (executePlan s p).length)) = some 2 := by
  decide +kernel

end NostrRelay.KV
