/-
C20 — Cross-worker notification delivers each event id intact, once, to other workers,
however the byte stream is split or coalesced by the transport.
-/
import NostrRelay.Model.Notifier

namespace NostrRelay.Notifier

/-- split a buffer into consecutive `n`-byte units, dropping an incomplete tail -/
def units (n : Nat) (hn : 0 < n) (b : Bytes) : List Bytes :=
  if h : n ≤ b.length then b.take n :: units n hn (b.drop n) else []
termination_by b.length
decreasing_by simp only [List.length_drop]; omega

/-- the read loop only ever sees the concatenation of what arrived -/
theorem readLoop_eq_units (n : Nat) (hn : 0 < n) (buf : Bytes) (chunks : List Bytes) :
    readLoop n hn buf chunks = units n hn (buf ++ chunks.flatten) := by
  induction chunks generalizing buf with
  | nil =>
    simp only [List.flatten_nil, List.append_nil]
    -- strong induction on the buffer length
    induction hlen : buf.length using Nat.strongRecOn generalizing buf with
    | _ k ih =>
      unfold readLoop units
      by_cases h : n ≤ buf.length
      · simp only [h, dite_true]
        congr 1
        exact ih (buf.drop n).length (by simp only [List.length_drop]; omega) (buf.drop n) rfl
      · simp [h]
  | cons c cs ihc =>
    induction hlen : buf.length using Nat.strongRecOn generalizing buf with
    | _ k ih =>
      by_cases h : n ≤ buf.length
      · rw [readLoop, units]
        have h2 : n ≤ (buf ++ (c :: cs).flatten).length := by simp only [List.length_append]; omega
        simp only [h, h2, dite_true]
        have htake : (buf ++ (c :: cs).flatten).take n = buf.take n := by
          rw [List.take_append_of_le_length h]
        have hdrop : (buf ++ (c :: cs).flatten).drop n = buf.drop n ++ (c :: cs).flatten := by
          rw [List.drop_append_of_le_length h]
        rw [htake, hdrop]
        congr 1
        exact ih (buf.drop n).length (by simp only [List.length_drop]; omega) (buf.drop n) rfl
      · rw [readLoop]
        simp only [h, dite_false]
        rw [ihc (buf ++ c)]
        simp [List.append_assoc]

/-- units of a concatenation of well-sized ids are the ids -/
theorem units_flatten (n : Nat) (hn : 0 < n) (ids : List Bytes) (hlen : ∀ i ∈ ids, i.length = n) :
    units n hn ids.flatten = ids := by
  induction ids with
  | nil => unfold units; simp; omega
  | cons i rest ih =>
    have hi : i.length = n := hlen i (List.mem_cons_self)
    unfold units
    have h : n ≤ (i :: rest).flatten.length := by simp [hi]
    simp only [h, dite_true]
    have h1 : (i :: rest).flatten.take n = i := by
      simp only [List.flatten_cons]
      rw [List.take_append_of_le_length (by omega)]
      rw [← hi]; exact List.take_length
    have h2 : (i :: rest).flatten.drop n = rest.flatten := by
      simp only [List.flatten_cons]
      rw [← hi]; exact List.drop_left
    rw [h1, h2, ih (fun j hj => hlen j (List.mem_cons_of_mem _ hj))]

/-- **C20 framing** — for *every* way the transport splits or coalesces the stream (`chunks`
    is any list of byte strings whose concatenation is the concatenation of the ids), the client
    looks up exactly the ids that were sent, each once, in order, intact. -/
theorem C20_client_framing (ids : List Bytes) (hlen : ∀ i ∈ ids, i.length = 32)
    (chunks : List Bytes) (hsplit : chunks.flatten = ids.flatten) :
    clientLookups chunks = ids := by
  unfold clientLookups
  rw [readLoop_eq_units, List.nil_append, hsplit, units_flatten 32 (by decide) ids hlen]

/-- same for the server's per-origin handler: what it relays are exactly the ids the origin sent -/
theorem C20_server_framing (ids : List Bytes) (hlen : ∀ i ∈ ids, i.length = 32)
    (chunks : List Bytes) (hsplit : chunks.flatten = ids.flatten) :
    serverUnits chunks = ids := by
  unfold serverUnits
  rw [readLoop_eq_units, List.nil_append, hsplit, units_flatten 32 (by decide) ids hlen]

/-- **C20 end to end** — for every global order in which the server relays units (`sched`, any
    interleaving of the origins' id sequences at unit granularity), every peer `p` and every
    re-chunking of what the server wrote to `p`: the peer's client looks up exactly the ids of
    the *other* origins, in the relayed order — each exactly once per time it was sent, never
    its own (no echo). -/
theorem C20_end_to_end (sched : List Relayed) (hlen : ∀ r ∈ sched, r.unit.length = 32)
    (p : Nat) (chunks : List Bytes) (hsplit : chunks.flatten = (writtenTo p sched).flatten) :
    clientLookups chunks = (sched.filter (fun r => r.origin ≠ p)).map (·.unit) := by
  apply C20_client_framing _ _ chunks hsplit
  intro i hi
  simp only [writtenTo, List.mem_map, List.mem_filter] at hi
  obtain ⟨r, ⟨hr, _⟩, rfl⟩ := hi
  exact hlen r hr

theorem count_relayed (sched : List Relayed) (p : Nat) (x : Bytes) :
    ((sched.filter (fun r => r.origin ≠ p)).map (·.unit)).count x
      = (sched.filter (fun r => r.origin ≠ p ∧ r.unit = x)).length := by
  induction sched with
  | nil => simp
  | cons r rs ih =>
    by_cases h1 : r.origin = p <;> by_cases h2 : r.unit = x <;>
      simp_all [List.filter_cons, List.count_cons]

/-- exactly once: the number of lookups of an id at peer `p` equals the number of times other
    origins sent it -/
theorem C20_exactly_once (sched : List Relayed) (hlen : ∀ r ∈ sched, r.unit.length = 32)
    (p : Nat) (chunks : List Bytes) (hsplit : chunks.flatten = (writtenTo p sched).flatten)
    (x : Bytes) :
    (clientLookups chunks).count x = (sched.filter (fun r => r.origin ≠ p ∧ r.unit = x)).length := by
  rw [C20_end_to_end sched hlen p chunks hsplit]
  exact count_relayed sched p x

/-- no echo: a peer that is the only origin receives nothing -/
theorem C20_no_echo (sched : List Relayed) (p : Nat) (h : ∀ r ∈ sched, r.origin = p) :
    writtenTo p sched = [] := by
  simp only [writtenTo, List.map_eq_nil_iff, List.filter_eq_nil_iff]
  intro r hr
  simp [h r hr]

/-! ### non-vacuity, and the defect that the `fix:` commit repaired -/

def id1 : Bytes := List.replicate 32 1
def id2 : Bytes := List.replicate 32 2

/-- the hypotheses are satisfiable with a genuinely split stream: 16 + 32 + 16 bytes -/
example : clientLookups [id1.take 16, id1.drop 16 ++ id2.take 16, id2.drop 16] = [id1, id2] := by
  simp [clientLookups, readLoop, id1, id2, List.replicate]

/-- **Fixed defect (was finding #20)** — with the former `reader.read(32)` loop the same three
    chunks make the client look up a 16-byte id, a misaligned 32-byte id and another 16-byte id. -/
theorem C20_read32_is_not_a_framing :
    readLoopOld 32 (by decide) [] [id1.take 16, id1.drop 16 ++ id2.take 16, id2.drop 16]
      = [id1.take 16, id1.drop 16 ++ id2.take 16, id2.drop 16] := by
  simp [readLoopOld, id1, id2, List.replicate]

end NostrRelay.Notifier
