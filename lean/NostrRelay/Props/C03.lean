/-
C03 — Only authentic events are stored, acknowledged or forwarded.
Decision logic of `is_signed` over the cryptographic facts, and of the validator pipeline.
-/
import NostrRelay.Model.Admission

namespace NostrRelay.Admission

theorem checkDelegations_true (ds : List Deleg) (h : checkDelegations ds = some true) :
    ∀ d ∈ ds, d = .checked true := by
  induction ds with
  | nil => simp
  | cons d rest ih =>
    cases d with
    | malformed => simp [checkDelegations] at h
    | checked v =>
      cases v with
      | false => simp [checkDelegations] at h
      | true =>
        simp only [checkDelegations] at h
        intro x hx
        rcases List.mem_cons.mp hx with rfl | hx
        · rfl
        · exact ih h x hx

/-- **C03** — `is_signed` lets an event through only if its id is the hash of its own
    serialisation, its signature over that id is valid under its (parsable) pubkey, pubkey and
    sig are canonical hex, and every delegation tag it carries is well-formed and validly signed. -/
theorem C03_accept_implies_authentic (f : Facts) (h : isSigned f = .ok) :
    f.idIsHash = true ∧ f.sigValid = true ∧ f.pubkeyParses = true ∧ f.canonHex = true ∧
    ∀ d ∈ f.delegations, d = .checked true := by
  unfold isSigned at h
  cases hv : verify f with
  | none => simp [hv] at h
  | some b =>
    cases b with
    | false => simp [hv] at h
    | true =>
      simp only [hv] at h
      have hid : f.idIsHash = true := by
        cases hh : f.idIsHash with
        | true => rfl
        | false => simp [hh] at h
      have hcx : f.canonHex = true := by
        cases hh : f.canonHex with
        | true => rfl
        | false => simp [hid, hh] at h
      unfold verify at hv
      cases hp : f.pubkeyParses with
      | false => simp [hp] at hv
      | true =>
        simp only [hp, Bool.not_true, Bool.false_eq_true, if_false] at hv
        cases hs : f.sigDecodes with
        | false => simp [hs] at hv
        | true =>
          simp only [hs, Bool.not_true, Bool.false_eq_true, if_false] at hv
          cases hd : checkDelegations f.delegations with
          | none => simp [hd] at hv
          | some b2 =>
            cases b2 with
            | false => simp [hd] at hv
            | true =>
              simp only [hd, Option.some.injEq] at hv
              exact ⟨hid, hv, rfl, hcx, checkDelegations_true _ hd⟩

/-- the pipeline accepts iff every configured validator accepts -/
theorem C03_pipeline_ok_iff (vs : List Verdict) : pipeline vs = .ok ↔ ∀ v ∈ vs, v = .ok := by
  induction vs with
  | nil => simp [pipeline]
  | cons v rest ih =>
    cases v with
    | ok => simp [pipeline, ih]
    | reject => simp [pipeline]
    | raises => simp [pipeline]

/-- whenever `is_signed` is one of the configured validators (the default), an accepted event
    is authentic -/
theorem C03_pipeline_authentic (f : Facts) (before after : List Verdict)
    (h : pipeline (before ++ isSigned f :: after) = .ok) :
    f.idIsHash = true ∧ f.sigValid = true ∧ ∀ d ∈ f.delegations, d = .checked true := by
  have := (C03_pipeline_ok_iff _).mp h (isSigned f) (by simp)
  obtain ⟨a, b, _, _, e⟩ := C03_accept_implies_authentic f this
  exact ⟨a, b, e⟩

/-- non-vacuity: a genuine event with one valid delegation is accepted -/
example : isSigned ⟨true, true, true, true, true, [.checked true]⟩ = .ok := by decide

/-- **Fixed defect (finding #3)** — before the fix `is_signed` was `verify()` alone: a validly
    signed event under a forged id passed (`idIsHash = false` is not looked at by `verify`). -/
theorem C03_verify_alone_ignores_id : verify ⟨true, true, true, false, true, []⟩ = some true := by decide

end NostrRelay.Admission
