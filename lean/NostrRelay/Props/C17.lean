/-
C17 — Garbage collection removes expired and ephemeral events and nothing else.

SQL: exact characterisation of the rows after a pass (`C17_sql_gc_exact`): a row is removed iff its
kind is ephemeral or one of its tags-table rows is an `expiration` row whose value is smaller than
`str(now)` **as a string** — which is the comparison the code makes.  For values that are decimal
strings of the same length as `str(now)` string order is numeric order; for other values it is
not, which is the open finding `gc-expiration-string-compare` (witnesses below).
LMDB: every id the collector queues is the trailing 32 bytes of a key inside one of the two walked
ranges (`C17_kv_gc_sound`), and applying the queued deletions keeps the keyspace coherent (C10), so
index entries go with the record.
-/
import NostrRelay.Props.C08

namespace NostrRelay.SQL
open NostrRelay NostrRelay.KV

/-- **C17 (SQL)** — rows after a GC pass at time `now` -/
theorem C17_sql_gc_exact (s : State) (now : Nat) (r : Event) :
    r ∈ (gcSql s now).events ↔ r ∈ s.events ∧
      ¬ (isEphemeral r.kind = true ∨
         ∃ t ∈ s.tags, t.id = r.id ∧ t.name = ascii "expiration" ∧ t.value < decDigits now) := by
  unfold gcSql
  rw [mem_deleteWhere]
  constructor
  · rintro ⟨hm, hp⟩
    refine ⟨hm, ?_⟩
    simp only [Bool.or_eq_false_iff] at hp
    rintro (he | ⟨t, ht, hid, hn, hv⟩)
    · rw [hp.1] at he; simp at he
    · have := hp.2
      rw [List.any_eq_false] at this
      have h2 := this t ht
      simp [hid, hn, hv] at h2
  · rintro ⟨hm, hnot⟩
    refine ⟨hm, ?_⟩
    simp only [Bool.or_eq_false_iff]
    constructor
    · cases he : isEphemeral r.kind with
      | false => rfl
      | true => exact absurd (Or.inl he) hnot
    · rw [List.any_eq_false]
      intro t ht hcond
      simp only [Bool.and_eq_true, beq_iff_eq, decide_eq_true_eq] at hcond
      exact hnot (Or.inr ⟨t, ht, hcond.1.1, hcond.1.2, hcond.2⟩)

/-- nothing without an expiration row and with a non-ephemeral kind is ever collected -/
theorem C17_sql_gc_keeps_unexpiring (s : State) (now : Nat) (r : Event) (hr : r ∈ s.events)
    (hk : isEphemeral r.kind = false) (hno : ∀ t ∈ s.tags, t.id = r.id → t.name ≠ ascii "expiration") :
    r ∈ (gcSql s now).events := by
  rw [C17_sql_gc_exact]
  refine ⟨hr, ?_⟩
  rintro (he | ⟨t, ht, hid, hn, _⟩)
  · rw [hk] at he; simp at he
  · exact hno t ht hid hn

/-- every ephemeral row is collected -/
theorem C17_sql_gc_removes_ephemeral (s : State) (now : Nat) (r : Event)
    (hk : isEphemeral r.kind = true) : r ∉ (gcSql s now).events := by
  rw [C17_sql_gc_exact]
  rintro ⟨_, hnot⟩
  exact hnot (Or.inl hk)

/-- the table invariant survives a pass (index rows go with their record) -/
theorem C17_sql_gc_inv (s : State) (now : Nat) (h : Inv s) : Inv (gcSql s now) := inv_gcSql s now h

/-! ### the finding: expirations are compared as strings -/

/-- **Finding `gc-expiration-string-compare`** at T = 1700000001: an 11-digit far-future
    expiration is string-smaller than `str(T)` (collected although not expired), a 3-digit long
    expired one is string-larger (never collected), a malformed one is collected. -/
theorem C17_string_compare_witness :
    (ascii "17000000000" < decDigits 1700000001) ∧
    ¬ (ascii "999" < decDigits 1700000001) ∧
    (ascii "1600abc" < decDigits 1700000001) := by
  decide +kernel

end NostrRelay.SQL

namespace NostrRelay.KV
open NostrRelay

theorem mem_takeWhile_pred {α} (p : α → Bool) (l : List α) (x : α) (h : x ∈ l.takeWhile p) : p x = true := by
  induction l with
  | nil => simp at h
  | cons a as ih =>
    simp only [List.takeWhile_cons] at h
    split at h
    · rcases List.mem_cons.mp h with rfl | h'
      · assumption
      · exact ih h'
    · simp at h

/-- **C17 (LMDB)** — every id queued by the collector comes from a key inside one of the two
    walked ranges: the kind index from kind 20000 up to (the bare key of) kind 29999, or the
    `expiration` tag index from value "0" up to `str(now)` -/
theorem C17_kv_gc_sound (s : Store) (now : Nat) (id : Bytes) (h : id ∈ gcCollect s now) :
    ∃ k ∈ skeys s, id = lastN 32 k ∧
      ((¬ k < [2] ++ be32! 20000 ∧ ¬ [2] ++ be32! 29999 < k) ∨
       (¬ k < tagKey (ascii "expiration") (ascii "0") ∧ ¬ tagKey (ascii "expiration") (decDigits now) < k)) := by
  unfold gcCollect rangeIds at h
  simp only [List.mem_append, List.mem_map] at h
  rcases h with ⟨k, hk, rfl⟩ | ⟨k, hk, rfl⟩
  · have h1 := mem_takeWhile_pred _ _ _ hk
    have h2 := (List.takeWhile_sublist _).subset hk
    simp only [List.mem_filter, Bool.not_eq_true', decide_eq_false_iff_not] at h2
    exact ⟨k, h2.1, rfl, Or.inl ⟨h2.2, by simpa using h1⟩⟩
  · have h1 := mem_takeWhile_pred _ _ _ hk
    have h2 := (List.takeWhile_sublist _).subset hk
    simp only [List.mem_filter, Bool.not_eq_true', decide_eq_false_iff_not] at h2
    exact ⟨k, h2.1, rfl, Or.inr ⟨h2.2, by simpa using h1⟩⟩

/-- applying the queued deletions keeps the keyspace coherent: no dangling entries after GC -/
theorem C17_kv_gc_coherent (s : Store) (hc : Coh s) (now : Nat) :
    Coh (applyTasks s ((gcCollect s now).map Task.del)) := by
  unfold applyTasks
  suffices ∀ (l : List Bytes) s, Coh s → Coh ((l.map Task.del).foldl applyTask s) by
    exact this (gcCollect s now) s hc
  intro l
  induction l with
  | nil => intro s hc; simpa using hc
  | cons i rest ih =>
    intro s hc
    simp only [List.map_cons, List.foldl_cons]
    exact ih _ (C10_coherent_applyTask s (.del i) hc trivial)

/-- the kind walk stops before kind 29999: its keys are longer than the bare end key.  (Only
    reachable for stores not written through `add_event`, which never stores ephemeral kinds.) -/
theorem C17_kv_gc_skips_29999_witness :
    let e : Event := { id := List.replicate 31 0 ++ [1], pubkey := List.replicate 32 170, createdAt := 1700000000, kind := 29999, tags := [] }
    gcCollect (applyTasks init [.add e]) 1700000000 = [] := by
  decide +kernel

end NostrRelay.KV
