/-
C02 (LMDB) — completeness of the variable-width tag index, under the two hypotheses that the open
findings show to be necessary:
  * the filter has no `since` (finding `kv-tag-prefix-since`: with `since` the stop key cuts the block of
    a value that another requested or stored value extends), and
  * no NUL character in the names / values of the indexed tags that are stored or asked for (finding
    `kv-tag-nul-extension-window`: `00` is the separator of the key layout).
Then, for every coherent sorted store with the sentinel, every list of requested (name, value) pairs
whose keys are in descending order, and every `until`: each stored event that carries one of the
requested pairs and is not newer than `until` is yielded.
-/
import NostrRelay.Props.C02Scan

namespace NostrRelay.KV
open NostrRelay

/-! ## byte-string lemmas -/

/-- the text before the first zero is determined -/
theorem split_at_zero (a b c d : Bytes) (ha : 0 ∉ a) (hc : 0 ∉ c) (h : a ++ [0] ++ b = c ++ [0] ++ d) :
    a = c ∧ b = d := by
  induction a generalizing c with
  | nil =>
    cases c with
    | nil => simpa using h
    | cons y ys =>
      simp only [List.nil_append, List.cons_append, List.cons.injEq] at h
      exact absurd (h.1 ▸ List.mem_cons_self) hc
  | cons x xs ih =>
    cases c with
    | nil =>
      simp only [List.nil_append, List.cons_append, List.cons.injEq] at h
      exact absurd (h.1 ▸ List.mem_cons_self) ha
    | cons y ys =>
      simp only [List.cons_append, List.cons.injEq] at h
      obtain ⟨hxy, hrest⟩ := h
      have := ih ys (fun hm => ha (List.mem_cons_of_mem _ hm)) (fun hm => hc (List.mem_cons_of_mem _ hm))
        (by simpa using hrest)
      exact ⟨by rw [hxy, this.1], this.2⟩

/-- `a < b`: either `a` is a proper prefix of `b`, or the order is decided inside `a` and survives any extension -/
theorem lt_cases (a b : Bytes) (h : a < b) :
    (∃ y z, b = a ++ y :: z) ∨ (∀ x w, a ++ x < b ++ w) := by
  induction a generalizing b with
  | nil =>
    cases b with
    | nil => exact absurd h (lex_irrefl _)
    | cons y z => left; exact ⟨y, z, rfl⟩
  | cons p ps ih =>
    cases b with
    | nil => exact absurd h (List.not_lt_nil _)
    | cons q qs =>
      rcases List.cons_lt_cons_iff.mp h with h1 | ⟨rfl, h2⟩
      · right; intro x w
        exact List.cons_lt_cons_iff.mpr (Or.inl h1)
      · rcases ih qs h2 with ⟨y, z, rfl⟩ | hr
        · left; exact ⟨y, z, rfl⟩
        · right; intro x w
          exact List.cons_lt_cons_iff.mpr (Or.inr ⟨rfl, hr x w⟩)

theorem prefix_le (a r stop : Bytes) (h : ¬ a < stop) : ¬ a ++ r < stop := by
  intro hlt
  rcases lex_trichotomy a stop with h1 | h1 | h1
  · exact h h1
  · rw [← h1] at hlt; exact not_append_lt_self a r hlt
  · exact not_append_lt_self a r (lex_trans hlt h1)

/-! ## the tag entries of a coherent store -/

/-- no NUL character in the name and value of the indexed tags of an event -/
def NoNulTags (e : Event) : Prop :=
  ∀ t ∈ e.tags, isIndexableTag t = true → 0 ∉ t.getD 0 [] ∧ 0 ∉ t.getD 1 []

/-- the index keys of an event that start with the tag prefix come from its indexable tags -/
theorem skOf_tag_form (c : Event) (k : Bytes) (h : k ∈ skOf c) (h9 : k.head? = some 9) :
    ∃ ts t, be32 c.createdAt = some ts ∧ t ∈ c.tags ∧ isIndexableTag t = true ∧
      k = fullKey (tagKey (t.getD 0 []) (t.getD 1 [])) ts c.id := by
  unfold skOf secondaryKeys at h
  cases hts : be32 c.createdAt with
  | none => simp [hts] at h
  | some ts =>
    unfold convKeys at h
    cases hkd : be32 c.kind with
    | none => simp [hts, hkd] at h
    | some kd =>
      simp only [hts, hkd, Option.bind_eq_bind, Option.bind_some, Option.pure_def, Option.getD_some,
        List.map_append, List.map_cons, List.map_nil, List.mem_append, List.mem_cons, List.mem_map,
        List.mem_filter, List.not_mem_nil, or_false] at h
      rcases h with (h | h | h | h) | ⟨key, ⟨t, ⟨ht, hidx⟩, rfl⟩, rfl⟩
      · subst h; simp [fullKey] at h9
      · subst h; simp [fullKey] at h9
      · subst h; simp [fullKey] at h9
      · subst h; simp [fullKey] at h9
      · exact ⟨ts, t, rfl, ht, hidx, rfl⟩

/-- a key of a coherent store that starts with the tag prefix is the entry of an indexable tag of a stored event -/
theorem tag_key_owner (s : Store) (hc : Coh s) (x : Bytes) (hx : x ∈ skeys s) (h9 : x.head? = some 9) :
    ∃ c ts t, getEvent s c.id = some c ∧ c.id.length = 32 ∧ be32 c.createdAt = some ts ∧ t ∈ c.tags ∧
      isIndexableTag t = true ∧ x = fullKey (tagKey (t.getD 0 []) (t.getD 1 [])) ts c.id := by
  have hnt : x ≠ tombstone := by intro h; rw [h] at h9; simp [tombstone] at h9
  have hnp : ∀ id, x ≠ primaryKey id := by intro id h; rw [h] at h9; simp [primaryKey] at h9
  obtain ⟨c, hcst, hid, hkc⟩ := key_owner s hc x hx hnt hnp
  obtain ⟨ts, t, hts, ht, hidx, hk⟩ := skOf_tag_form c x hkc h9
  exact ⟨c, ts, t, hcst, hid, hts, ht, hidx, hk⟩

/-- inside the seek range of the match `tagKey n v`, a tag entry of a NUL-free store that extends the match
    by a zero byte is an entry of exactly that name and value -/
theorem tag_entry_of_block (n v n' v' ts' id' r' : Bytes) (hn : 0 ∉ n) (hv : 0 ∉ v) (hn' : 0 ∉ n') (hv' : 0 ∉ v')
    (h : fullKey (tagKey n' v') ts' id' = tagKey n v ++ [0] ++ r') :
    n' = n ∧ v' = v ∧ r' = ts' ++ [0] ++ id' := by
  unfold fullKey tagKey at h
  have h1 : n' ++ [0] ++ (v' ++ [0] ++ ts' ++ [0] ++ id') = n ++ [0] ++ (v ++ [0] ++ r') := by
    have := h
    simp only [List.append_assoc, List.cons_append, List.nil_append, List.cons.injEq, true_and] at this
    simpa [List.append_assoc] using this
  obtain ⟨hnn, hrest⟩ := split_at_zero n' _ n _ hn' hn h1
  have h2 : v' ++ [0] ++ (ts' ++ [0] ++ id') = v ++ [0] ++ r' := by simpa [List.append_assoc] using hrest
  obtain ⟨hvv, hr⟩ := split_at_zero v' _ v _ hv' hv h2
  exact ⟨hnn, hvv, hr.symm⟩

/-! ## completeness -/

/-- **C02 (LMDB, tag index, no `since`, NUL-free tags)** -/
theorem C02_kv_tags_complete_nosince (s : Store) (hwk : WellKept s) (hc : Coh s)
    (hnn : ∀ id c, getEvent s id = some c → NoNulTags c)
    (pairs : List (Bytes × Bytes)) (hpn : ∀ p ∈ pairs, 0 ∉ p.1 ∧ 0 ∉ p.2)
    (hdesc : (pairs.map fun p => tagKey p.1 p.2).Pairwise (fun a b => b < a))
    (until_ : Option Int) (uB : Option Bytes) (huB : encOpt until_ = some uB)
    (c : Event) (hst : getEvent s c.id = some c) (t : List Bytes) (ht : t ∈ c.tags) (hidx : isIndexableTag t = true)
    (hmem : (t.getD 0 [], t.getD 1 []) ∈ pairs)
    (huntil : ∀ x, until_ = some x → c.createdAt ≤ x) :
    ∃ out, scanIndex s (pairs.map fun p => tagKey p.1 p.2) none until_ none = some out ∧ c.id ∈ out := by
  unfold scanIndex
  have hsB : encOpt (none : Option Int) = some none := rfl
  simp only [hsB, huB, Option.bind_some]
  refine ⟨_, rfl, ?_⟩
  obtain ⟨hs, htomb⟩ := hwk
  -- abbreviations
  let n := t.getD 0 []
  let v := t.getD 1 []
  let mats := pairs.map fun p => tagKey p.1 p.2
  let m := tagKey n v
  have hm : m ∈ mats := List.mem_map.mpr ⟨(n, v), hmem, rfl⟩
  obtain ⟨hnz, hvz⟩ := hpn (n, v) hmem
  -- the stored key of the target
  obtain ⟨_, hid, hsec, hkeys⟩ := hc.rec_ok c.id c ((getEvent_iff s c.id c).mp hst)
  obtain ⟨ts, hts⟩ : ∃ ts, be32 c.createdAt = some ts := by
    cases h : be32 c.createdAt with
    | none => simp [secondaryKeys, h] at hsec
    | some ts => exact ⟨ts, rfl⟩
  have hts4 := be32_length _ _ hts
  obtain ⟨kd, hkd⟩ : ∃ kd, be32 c.kind = some kd := by
    cases h : be32 c.kind with
    | none => simp [secondaryKeys, convKeys, hts, h] at hsec
    | some kd => exact ⟨kd, rfl⟩
  have hkin : fullKey m ts c.id ∈ skOf c := by
    unfold skOf secondaryKeys convKeys
    simp only [hts, hkd, Option.bind_eq_bind, Option.bind_some, Option.pure_def, Option.getD_some, List.map_append,
      List.mem_append, List.mem_map, List.mem_filter]
    right
    exact ⟨m, ⟨t, ⟨ht, hidx⟩, rfl⟩, rfl⟩
  have hk := get_some_mem_skeys s _ _ (hkeys _ hkin)
  obtain ⟨hw, _, hu4⟩ := window_of_bounds none until_ none uB rfl huB c.createdAt ts hts (by intro x hx; cases hx) huntil
  -- structure of the match list
  obtain ⟨before, after, hsplit⟩ := List.append_of_mem hm
  have hne : mats ≠ [] := by intro h; rw [h] at hm; cases hm
  obtain ⟨ini, hinit⟩ := getLastD_split mats hne
  have hge : ∀ a ∈ mats, ¬ a < mats.getLastD [] := by
    intro a ha
    have hd := hdesc
    change mats.Pairwise _ at hd
    rw [hinit] at ha hd
    rcases List.mem_append.mp ha with h | h
    · exact lex_asymm ((List.pairwise_append.mp hd).2.2 a h (mats.getLastD []) (by simp))
    · simp only [List.mem_singleton] at h; rw [h]; exact lex_irrefl _
  have hbefore_gt : ∀ m' ∈ before, m < m' := by
    intro m' hm'
    have hd := hdesc
    change mats.Pairwise _ at hd
    rw [hsplit] at hd
    exact (List.pairwise_append.mp hd).2.2 m' hm' _ (by simp)
  have hmat_form : ∀ a ∈ mats, ∃ n' v', a = tagKey n' v' ∧ 0 ∉ n' ∧ 0 ∉ v' := by
    intro a ha
    obtain ⟨p, hp, rfl⟩ := List.mem_map.mp ha
    exact ⟨p.1, p.2, rfl, (hpn p hp).1, (hpn p hp).2⟩
  have hseekAll : ∀ a ∈ mats, seekFinds s (a ++ addTimeOf uB ++ [255]) = true := by
    intro a ha
    obtain ⟨n', v', rfl, _, _⟩ := hmat_form a ha
    unfold seekFinds
    simp only [List.any_eq_true, Bool.not_eq_true', decide_eq_false_iff_not]
    refine ⟨tombstone, htomb, ?_⟩
    intro hlt
    simp only [tombstone, tagKey, List.append_assoc, List.cons_append, List.nil_append] at hlt
    rcases List.cons_lt_cons_iff.mp hlt with h | ⟨h, _⟩ <;> omega
  show c.id ∈ scanMatches s ⟨none, uB, mats.getLastD [], none⟩ (addTimeOf uB) mats true
  let cfg : ScanCfg := ⟨none, uB, mats.getLastD [], none⟩
  -- goodness of a key `m' ++ 00 ++ ts' ++ 00 ++ id'` of the block of a requested value, inside the window
  have hkey_good : ∀ m' ∈ mats, ∀ ts' id', ts'.length = 4 → id'.length = 32 → inWindow none uB ts' →
      good cfg m' (fullKey m' ts' id') = true := by
    intro m' hm' ts' id' h4 h32 hw'
    unfold good
    rw [badKey_fullKey cfg m' ts' id' h4 h32 hw']
    have : ¬ fullKey m' ts' id' < cfg.stop := by
      unfold fullKey
      rw [show m' ++ [0] ++ ts' ++ [0] ++ id' = m' ++ ([0] ++ ts' ++ [0] ++ id') by simp]
      exact prefix_le m' _ _ (hge m' hm')
    simp [this]
  suffices h : lastN 32 (fullKey m ts c.id) ∈ scanMatches s cfg (addTimeOf uB) (before ++ m :: after) true by
    rw [lastN_fullKey m ts c.id hid, ← hsplit] at h; exact h
  apply C02_kv_scan_complete s hs cfg (addTimeOf uB) before m after true (fullKey m ts c.id) hk
  · exact fullKey_lt_seek m ts c.id uB hts4 (fun u hu => ⟨hu4 u hu, hw.2 u hu⟩)
  · exact hkey_good m hm ts c.id hts4 hid hw
  · -- every key between the target and the seek position is a good key of the same block
    intro x hx hkx hxs
    obtain ⟨r, hxr, hr1, hr2⟩ := between_has_prefix m ([0] ++ ts ++ [0] ++ c.id) (addTimeOf uB ++ [255]) x
      (by simpa [fullKey, List.append_assoc] using hkx) (by simpa [List.append_assoc] using hxs)
    have htake : x.take m.length = m := by rw [hxr]; exact take_append_left _ _ _ rfl
    have hstop : ¬ x < cfg.stop := by rw [hxr]; exact prefix_le m r _ (hge m hm)
    unfold good badKey
    simp only [htake, bne_self_eq_false, Bool.false_or, hstop, decide_false, Bool.not_false, Bool.and_true]
    cases huB' : uB with
    | none => simp [cfg, huB']
    | some u =>
      simp only [cfg, huB', Bool.not_eq_true']
      -- r starts with the zero byte, so x is an entry of exactly this name and value
      rw [huB'] at hr2
      simp only [addTimeOf, List.append_assoc, List.cons_append, List.nil_append] at hr2
      cases r with
      | nil => exact absurd hr1 (List.not_lt_nil _)
      | cons b r' =>
        have hb : b = 0 := by
          rcases List.cons_lt_cons_iff.mp hr2 with h | ⟨h, _⟩
          · omega
          · exact h
        subst hb
        have h9 : x.head? = some 9 := by rw [hxr]; simp [m, tagKey]
        obtain ⟨c', ts', t', hc'st, hid', hts', ht', hidx', hxf⟩ := tag_key_owner s hc x hx h9
        obtain ⟨hn'z, hv'z⟩ := hnn c'.id c' hc'st t' ht' hidx'
        have hshape := tag_entry_of_block n v (t'.getD 0 []) (t'.getD 1 []) ts' c'.id r' hnz hvz hn'z hv'z
          (by rw [← hxf, hxr]; simp [m, List.append_assoc])
        obtain ⟨hn', hv', hr'⟩ := hshape
        have hxf' : x = fullKey m ts' c'.id := by rw [hxf, hn', hv']
        rw [hxf', pySlice_fullKey m ts' c'.id (be32_length _ _ hts') hid']
        -- ts' ≤ u from the upper bound
        have h2 : ts' ++ ([0] ++ c'.id) < u ++ ([1] ++ [255]) := by
          rw [hr'] at hr2
          rcases List.cons_lt_cons_iff.mp hr2 with h | ⟨_, h⟩
          · omega
          · simpa [List.append_assoc] using h
        have hu4' := hu4 u huB'
        have hfin : ¬ u < ts' := by
          rcases (lex_block ts' u _ _ (by rw [be32_length _ _ hts', hu4'])).mp h2 with a | ⟨a, _⟩
          · exact lex_asymm a
          · rw [a]; exact lex_irrefl _
        simp [hfin]
  · rw [lastN_fullKey m ts c.id hid]; rfl
  · exact hseekAll m hm
  · -- the walk of every earlier (larger) match value ends with "next match" at the latest at the target key
    intro m' hm'
    have hm'mem : m' ∈ mats := by rw [hsplit]; exact List.mem_append_left _ hm'
    refine ⟨hseekAll m' hm'mem, ?_⟩
    have hmm' := hbefore_gt m' hm'
    obtain ⟨n'', v'', hm'eq, hn''z, hv''z⟩ := hmat_form m' hm'mem
    -- m' does not extend m by a zero byte
    have hnoext : ∀ a'', m' ≠ m ++ 0 :: a'' := by
      intro a'' heq
      rw [hm'eq] at heq
      have h1 : n'' ++ [0] ++ v'' = n ++ [0] ++ (v ++ 0 :: a'') := by
        have := heq
        simp only [m, tagKey, List.append_assoc, List.cons_append, List.nil_append, List.cons.injEq, true_and] at this
        simpa [List.append_assoc] using this
      obtain ⟨_, hv⟩ := split_at_zero n'' _ n _ hn''z hnz h1
      exact hv''z (by rw [hv]; simp)
    have hklt : fullKey m ts c.id < m' ++ addTimeOf uB ++ [255] := by
      rcases lt_cases m m' hmm' with ⟨y, z, hy⟩ | hr
      · have hy0 : y ≠ 0 := by intro h0; rw [h0] at hy; exact hnoext z hy
        rw [hy]
        unfold fullKey
        simp only [List.append_assoc]
        apply List.append_left_lt
        exact List.cons_lt_cons_iff.mpr (Or.inl (by omega))
      · unfold fullKey
        have := hr ([0] ++ ts ++ [0] ++ c.id) (addTimeOf uB ++ [255])
        simp only [List.append_assoc] at this ⊢
        exact this
    obtain ⟨pre, post, hb, hpre⟩ := below_split s hs _ (fullKey m ts c.id) hk hklt
    rw [hb]
    apply walk_ends_next
    · intro x hx hnb
      have htk : x.take m'.length = m' := by
        unfold badKey at hnb
        simp only [Bool.or_eq_false_iff, bne_eq_false_iff_eq] at hnb
        exact hnb.1.1
      have : x = m' ++ x.drop m'.length := by
        conv => lhs; rw [← List.take_append_drop m'.length x, htk]
      rw [this]
      exact prefix_le m' _ _ (hge m' hm'mem)
    · -- the target key does not carry m' as a prefix
      unfold badKey
      have hnp : (fullKey m ts c.id).take m'.length ≠ m' := by
        intro htk
        have hsplit' : fullKey m ts c.id = m' ++ (fullKey m ts c.id).drop m'.length := by
          conv => lhs; rw [← List.take_append_drop m'.length (fullKey m ts c.id), htk]
        unfold fullKey at hsplit'
        have h' : m ++ ([0] ++ ts ++ [0] ++ c.id) = m' ++ List.drop m'.length (m ++ [0] ++ ts ++ [0] ++ c.id) := by
          simpa [List.append_assoc] using hsplit'
        rcases List.append_eq_append_iff.mp h' with ⟨a', ha1, ha2⟩ | ⟨c', hc1, hc2⟩
        · -- m' = m ++ a'
          cases a' with
          | nil => simp at ha1; rw [ha1] at hmm'; exact lex_irrefl _ hmm'
          | cons y a'' =>
            have : y = 0 := by
              have := ha2
              simp only [List.cons_append, List.nil_append, List.cons.injEq] at this
              exact this.1.symm
            subst this
            exact hnoext a'' ha1
        · -- m = m' ++ c'
          rw [hc1] at hmm'
          exact not_append_lt_self m' c' hmm'
      simp [hnp]

/-! ## every reachable store, and the REQ filter -/

/-- tasks whose events have 32-byte ids and no NUL in their indexed tags -/
def Task.wfn : Task → Prop
  | .add e => e.id.length = 32 ∧ NoNulTags e
  | .del _ => True

theorem wfn_wf (t : Task) (h : t.wfn) : t.wf := by
  cases t with
  | add e => exact h.1
  | del _ => trivial

theorem nonul_reachable (tasks : List Task) (hwf : ∀ t ∈ tasks, t.wfn) :
    ∀ id c, getEvent (applyTasks init tasks) id = some c → NoNulTags c := by
  intro id c h
  have := C01_kv_returned_was_added tasks (fun t ht => wfn_wf t (hwf t ht)) id c h
  exact (hwf _ this).2

/-- **C02 (LMDB, tag index, every reachable store)** -/
theorem C02_kv_tags_complete_nosince_reachable (tasks : List Task) (hwf : ∀ t ∈ tasks, t.wfn)
    (pairs : List (Bytes × Bytes)) (hpn : ∀ p ∈ pairs, 0 ∉ p.1 ∧ 0 ∉ p.2)
    (hdesc : (pairs.map fun p => tagKey p.1 p.2).Pairwise (fun a b => b < a))
    (until_ : Option Int) (uB : Option Bytes) (huB : encOpt until_ = some uB)
    (c : Event) (hst : getEvent (applyTasks init tasks) c.id = some c) (t : List Bytes) (ht : t ∈ c.tags)
    (hidx : isIndexableTag t = true) (hmem : (t.getD 0 [], t.getD 1 []) ∈ pairs)
    (huntil : ∀ x, until_ = some x → c.createdAt ≤ x) :
    ∃ out, scanIndex (applyTasks init tasks) (pairs.map fun p => tagKey p.1 p.2) none until_ none = some out ∧ c.id ∈ out :=
  C02_kv_tags_complete_nosince _ (wk_reachable tasks) (C10_coherent_reachable tasks (fun t ht => wfn_wf t (hwf t ht)))
    (nonul_reachable tasks hwf) pairs hpn hdesc until_ uB huB c hst t ht hidx hmem huntil

theorem mem_insertDesc (a x : Bytes × Bytes) (l : List (Bytes × Bytes)) :
    x ∈ planShape.insertDesc a l ↔ x = a ∨ x ∈ l := by
  induction l with
  | nil => simp [planShape.insertDesc]
  | cons b bs ih =>
    unfold planShape.insertDesc
    split
    · simp
    · simp only [List.mem_cons, ih]
      constructor
      · rintro (h | h | h)
        · right; left; exact h
        · left; exact h
        · right; right; exact h
      · rintro (h | h | h)
        · right; left; exact h
        · left; exact h
        · right; right; exact h

theorem mem_sortDesc (x : Bytes × Bytes) (l : List (Bytes × Bytes)) : x ∈ planShape.sortDesc l ↔ x ∈ l := by
  unfold planShape.sortDesc
  rw [List.mem_eraseDups]
  induction l with
  | nil => simp
  | cons a as ih => simp only [List.foldr_cons, mem_insertDesc, ih, List.mem_cons]


/-! ## the planner's sort hands the match values over in strictly descending order -/

/-- tuple order on (name, value) -/
def plt (a b : Bytes × Bytes) : Prop := a.1 < b.1 ∨ (a.1 = b.1 ∧ a.2 < b.2)

theorem pairLt_iff (a b : Bytes × Bytes) : planShape.pairLt a b = true ↔ plt a b := by
  unfold planShape.pairLt plt
  simp [Bool.or_eq_true, Bool.and_eq_true]

theorem plt_trichotomy (a b : Bytes × Bytes) : plt a b ∨ a = b ∨ plt b a := by
  rcases lex_trichotomy a.1 b.1 with h | h | h
  · left; left; exact h
  · rcases lex_trichotomy a.2 b.2 with h2 | h2 | h2
    · left; right; exact ⟨h, h2⟩
    · right; left; exact Prod.ext h h2
    · right; right; right; exact ⟨h.symm, h2⟩
  · right; right; left; exact h

theorem plt_trans {a b c : Bytes × Bytes} (h1 : plt a b) (h2 : plt b c) : plt a c := by
  rcases h1 with h1 | ⟨e1, h1⟩ <;> rcases h2 with h2 | ⟨e2, h2⟩
  · left; exact lex_trans h1 h2
  · left; rw [← e2]; exact h1
  · left; rw [e1]; exact h2
  · right; exact ⟨e1.trans e2, lex_trans h1 h2⟩

theorem plt_irrefl (a : Bytes × Bytes) : ¬ plt a a := by
  rintro (h | ⟨_, h⟩) <;> exact lex_irrefl _ h

/-- not ascending: `b` is not above `a` -/
def pge (a b : Bytes × Bytes) : Prop := ¬ plt a b

theorem insertDesc_sorted (a : Bytes × Bytes) (l : List (Bytes × Bytes)) (h : l.Pairwise pge) :
    (planShape.insertDesc a l).Pairwise pge := by
  induction l with
  | nil => simp [planShape.insertDesc]
  | cons b bs ih =>
    simp only [List.pairwise_cons] at h
    unfold planShape.insertDesc
    by_cases hba : planShape.pairLt b a = true
    · simp only [hba, if_true, List.pairwise_cons]
      have hba' := (pairLt_iff b a).mp hba
      refine ⟨?_, h.1, h.2⟩
      intro y hy
      rcases List.mem_cons.mp hy with rfl | hy
      · -- ¬ plt a b, since plt b a
        intro hab; exact plt_irrefl _ (plt_trans hab hba')
      · intro hay
        exact h.1 y hy (plt_trans hba' hay)
    · simp only [hba, Bool.false_eq_true, if_false, List.pairwise_cons]
      have hnba : ¬ plt b a := fun hh => hba ((pairLt_iff b a).mpr hh)
      refine ⟨?_, ih h.2⟩
      intro y hy
      rcases (mem_insertDesc a y bs).mp hy with rfl | hy
      · exact hnba
      · exact h.1 y hy

theorem foldr_insertDesc_sorted (l : List (Bytes × Bytes)) : (l.foldr planShape.insertDesc []).Pairwise pge := by
  induction l with
  | nil => simp
  | cons a as ih => exact insertDesc_sorted a _ ih

theorem eraseDups_sublist' (l : List (Bytes × Bytes)) : l.eraseDups.Sublist l := by
  induction hn : l.length using Nat.strongRecOn generalizing l with
  | _ n ih =>
    cases l with
    | nil => simp
    | cons a as =>
      rw [List.eraseDups_cons]
      refine List.Sublist.cons_cons a ?_
      have hlen : (as.filter fun b => !(b == a)).length < n := by
        subst hn
        simp only [List.length_cons]
        exact Nat.lt_succ_of_le (List.length_filter_le _ _)
      exact List.Sublist.trans (ih _ hlen _ rfl) List.filter_sublist

theorem nodup_eraseDups' (l : List (Bytes × Bytes)) : l.eraseDups.Nodup := by
  induction hn : l.length using Nat.strongRecOn generalizing l with
  | _ n ih =>
    cases l with
    | nil => simp
    | cons a as =>
      rw [List.eraseDups_cons, List.nodup_cons]
      refine ⟨?_, ih _ ?_ _ rfl⟩
      · intro hmem
        rw [List.mem_eraseDups, List.mem_filter] at hmem
        simp at hmem
      · subst hn
        simp only [List.length_cons]
        exact Nat.lt_succ_of_le (List.length_filter_le _ _)

/-- `sorted(set(pairs), reverse=True)`: strictly descending in the tuple order -/
theorem sortDesc_strict (l : List (Bytes × Bytes)) : (planShape.sortDesc l).Pairwise (fun a b => plt b a) := by
  unfold planShape.sortDesc
  have hs := List.Pairwise.sublist (eraseDups_sublist' _) (foldr_insertDesc_sorted l)
  have hn := nodup_eraseDups' (l.foldr planShape.insertDesc [])
  have := List.Pairwise.and hs hn
  refine List.Pairwise.imp ?_ this
  intro a b ⟨hge, hne⟩
  rcases plt_trichotomy a b with h | h | h
  · exact absurd h hge
  · exact absurd h hne
  · exact h

/-- the key of a (name, value) pair is strictly monotone in the tuple order, for names without NUL -/
theorem tagKey_mono (a b : Bytes × Bytes) (hb : 0 ∉ b.1) (h : plt a b) : tagKey a.1 a.2 < tagKey b.1 b.2 := by
  unfold tagKey
  simp only [List.append_assoc]
  apply List.append_left_lt
  rcases h with h | ⟨e, h⟩
  · rcases lt_cases a.1 b.1 h with ⟨y, z, hy⟩ | hr
    · have hy0 : y ≠ 0 := by intro h0; apply hb; rw [hy, h0]; simp
      rw [hy]
      simp only [List.append_assoc]
      apply List.append_left_lt
      exact List.cons_lt_cons_iff.mpr (Or.inl (by omega))
    · exact hr _ _
  · rw [e]
    exact List.append_left_lt (List.append_left_lt h)

theorem sortDesc_mats_desc (l : List (Bytes × Bytes)) (hn : ∀ q ∈ l, 0 ∉ q.1) :
    ((planShape.sortDesc l).map fun q => tagKey q.1 q.2).Pairwise (fun a b => b < a) := by
  rw [List.pairwise_map]
  refine List.Pairwise.imp_of_mem ?_ (sortDesc_strict l)
  intro a b ha _ hba
  exact tagKey_mono b a (hn a ((mem_sortDesc a l).mp ha)) hba

/-- **C02 (LMDB, a tags-only filter, every reachable store)** — for a filter that names tag conditions (single-letter
    names, no empty value lists, no NUL in names or values) and optionally `until`, and nothing else — in particular no
    `since` — over any history of writer tasks whose events carry no NUL in their indexed tags: every stored event that
    matches the filter under the strict NIP-01 reading is delivered, as long as the limit does not truncate. -/
theorem C02_kv_tags_filter_complete (tasks : List Task) (hwf : ∀ t ∈ tasks, t.wfn) (f : Filter) (dl : Option Nat) (ml : Nat)
    (t0 : Bytes × List Bytes) (rest : List (Bytes × List Bytes)) (htags : f.tags = t0 :: rest)
    (hsingle : ∀ t ∈ f.tags, isSingleChar t.1 = true)
    (hnz : ∀ t ∈ f.tags, 0 ∉ t.1 ∧ ∀ v ∈ t.2, 0 ∉ v)
    (hvals : f.tags.any (fun t => t.2.isEmpty) = false)
    (hids : f.ids = none) (hkinds : f.kinds = none) (hauth : f.authors = none) (hsince : f.since = none)
    (uB : Option Bytes) (huB : encOpt f.until_ = some uB)
    (p : Plan) (hp : planFilter f dl ml = some p)
    (e : Event) (hst : getEvent (applyTasks init tasks) e.id = some e) (hm : matchesSpec true f e = true)
    (hlim : ∀ n cands, p.limit = some n → planCandidates (applyTasks init tasks) p = some cands →
      (planHits (applyTasks init tasks) p.filter cands).length ≤ n) :
    e.id ∈ executePlan (applyTasks init tasks) p := by
  let pairs := planShape.sortDesc (f.tags.flatMap fun t => t.2.map fun v => (t.1, v))
  have hshape : planShape f = some (.tags, pairs.map (fun q => tagKey q.1 q.2), [], false) := by
    unfold planShape
    simp only [Bool.false_eq_true, if_false, hvals, hids, hkinds, hauth,
      Option.isSome_none, Bool.and_self]
    rw [htags]
    have h0 : ((none : Option (List Bytes)) == some []) = false := rfl
    have h0' : ((none : Option (List Int)) == some []) = false := rfl
    simp only [h0, h0', Bool.or_self, Bool.false_eq_true, if_false]
    simp only [pairs, htags]
  have hpl : p.filter = f ∧ p.index = .tags ∧ p.mats = pairs.map (fun q => tagKey q.1 q.2) ∧ p.raises = false := by
    unfold planFilter at hp
    rw [hshape] at hp
    simp only [Option.map_some, Option.some.injEq] at hp
    subst hp
    exact ⟨rfl, rfl, rfl, rfl⟩
  obtain ⟨hpf, hpi, hpm, hpr⟩ := hpl
  have hm0 := hm
  unfold matchesSpec at hm
  simp only [Bool.and_eq_true] at hm
  obtain ⟨⟨⟨⟨⟨_, _⟩, _⟩, _⟩, h5⟩, h6⟩ := hm
  -- the first tag condition gives an indexed tag of the event
  have ht0 : t0 ∈ f.tags := by rw [htags]; exact List.mem_cons_self
  have h6' := List.all_eq_true.mp h6 t0 ht0
  obtain ⟨tg, htg, hcond⟩ := List.any_eq_true.mp h6'
  simp only [Bool.and_eq_true, beq_iff_eq, decide_eq_true_eq] at hcond
  obtain ⟨⟨hhead, hlen⟩, hval⟩ := hcond
  have hidx : isIndexableTag tg = true := by
    cases tg with
    | nil => simp at hlen
    | cons a tl =>
      cases tl with
      | nil => simp at hlen
      | cons b tl' =>
        simp only [List.head?_cons, Option.some.injEq] at hhead
        simp [isIndexableTag, hhead, hsingle t0 ht0]
  have hname : tg.getD 0 [] = t0.1 := by
    cases tg with
    | nil => simp at hlen
    | cons a tl => simpa using hhead
  have hmem : (tg.getD 0 [], tg.getD 1 []) ∈ pairs := by
    rw [mem_sortDesc, hname]
    simp only [List.mem_flatMap, List.mem_map]
    exact ⟨t0, ht0, tg.getD 1 [], by simpa using hval, rfl⟩
  have hpn : ∀ q ∈ pairs, 0 ∉ q.1 ∧ 0 ∉ q.2 := by
    intro q hq
    rw [mem_sortDesc] at hq
    simp only [List.mem_flatMap, List.mem_map] at hq
    obtain ⟨t, ht, v, hv, rfl⟩ := hq
    exact ⟨(hnz t ht).1, (hnz t ht).2 v hv⟩
  have huntil : ∀ x, f.until_ = some x → e.createdAt ≤ x := by
    intro x hx; simp only [hx, if_true, decide_eq_true_eq] at h5; omega
  have hdesc : (pairs.map fun q => tagKey q.1 q.2).Pairwise (fun a b => b < a) := by
    apply sortDesc_mats_desc
    intro q hq
    simp only [List.mem_flatMap, List.mem_map] at hq
    obtain ⟨t, ht, v, _, rfl⟩ := hq
    exact (hnz t ht).1
  obtain ⟨out, hout, hin⟩ := C02_kv_tags_complete_nosince_reachable tasks hwf pairs hpn hdesc
    f.until_ uB huB e hst tg htg hidx hmem huntil
  have hcands : planCandidates (applyTasks init tasks) p = some out := by
    unfold planCandidates
    simp only [hpr, Bool.false_eq_true, if_false, hpi, hpm, hpf, hsince]
    exact hout
  exact C02_kv_executePlan_complete _ p out hcands e.id e hin hst (by rw [hpf]; exact residual_complete f e hm0)
    (fun n hn => hlim n out hn hcands)

-- non-vacuity: values a / ab / b under one name, `until`; the prefix-related value does not disturb the answer
example :
    let mk (i : Nat) (ts : Int) (v : Bytes) : Event :=
      { id := List.replicate 31 0 ++ [i], pubkey := List.replicate 32 170, createdAt := ts, kind := 1, tags := [[[116], v]] }
    let s := applyTasks init [.add (mk 1 1700000000 [97]), .add (mk 2 1700000100 [97, 98]), .add (mk 3 1700000050 [98]), .add (mk 4 1700000300 [97])]
    (planFilter { tags := [([116], [[97], [98]])], until_ := some 1700000200 } none 20).map (fun p => (p.mats, executePlan s p))
      = some ([[9, 116, 0, 98], [9, 116, 0, 97]], [(mk 3 1700000050 [98]).id, (mk 1 1700000000 [97]).id]) := by
  decide +kernel


end NostrRelay.KV
