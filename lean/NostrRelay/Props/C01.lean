/-
C01 — A REQ is answered only with accepted events that match one of its filters; filter contents
are pure data.

KV: every id leaving `executePlan` was fetched from its primary record and passed the residual
predicate, and the residual predicate implies NIP-01 matching — independently of the index scanner.
SQL: every row of `matchingRows` is a stored row satisfying the WHERE predicate of one filter, and
under the tags-table invariant that predicate implies NIP-01 matching.
Text level: the quoting used for tag names/values is inverted by a SQL string-literal reader.
-/
import NostrRelay.Model.SQL
import NostrRelay.Props.C10

namespace NostrRelay.KV
open NostrRelay

/-! ## KV -/

theorem residual_sound (f : Filter) (e : Event) (h : residual f e = true) :
    matchesSpec false f e = true := by
  unfold residual at h
  unfold matchesSpec
  simp only [Bool.and_eq_true] at h ⊢
  obtain ⟨⟨⟨⟨⟨h1, h2⟩, h3⟩, h4⟩, h5⟩, h6⟩ := h
  refine ⟨⟨⟨⟨⟨h1, ?_⟩, h3⟩, ?_⟩, ?_⟩, h6⟩
  · cases hf : f.authors with
    | none => simp
    | some l => simp only [hf] at h2; simp at h2; simp [h2]
  · cases hf : f.since with
    | none => simp
    | some x => simp only [hf] at h4; simpa using h4
  · cases hf : f.until_ with
    | none => simp
    | some x => simp only [hf] at h5; simpa using h5

theorem executePlan_mem (s : Store) (p : Plan) (id : Bytes) (h : id ∈ executePlan s p) :
    ∃ e, getEvent s id = some e ∧ residual p.filter e = true := by
  unfold executePlan at h
  cases hc : planCandidates s p with
  | none => simp [hc] at h
  | some cands =>
    simp only [hc] at h
    have hm : id ∈ planHits s p.filter cands := by
      split at h
      · exact List.mem_of_mem_take h
      · exact h
    unfold planHits at hm
    simp only [List.mem_filter] at hm
    cases hg : getEvent s id with
    | none => simp [hg] at hm
    | some e => exact ⟨e, rfl, by simpa [hg] using hm.2⟩

theorem planFilter_filter (f : Filter) (dl : Option Nat) (ml : Nat) (p : Plan) (h : planFilter f dl ml = some p) :
    p.filter = f := by
  unfold planFilter at h
  cases hs : planShape f with
  | none => simp [hs] at h
  | some sh => simp only [hs, Option.map_some, Option.some.injEq] at h; subst h; rfl

/-- **C01 (LMDB)** — every event delivered for a filter is a stored record, filed under the id
    it is delivered as, and matches the filter under NIP-01; this holds for every store coherent
    in the sense of C10 (hence every reachable one) and every plan the planner makes. -/
theorem C01_kv_sound (s : Store) (hc : Coh s) (f : Filter) (dl : Option Nat) (ml : Nat) (p : Plan)
    (hp : planFilter f dl ml = some p) (id : Bytes) (h : id ∈ executePlan s p) :
    ∃ e, getEvent s id = some e ∧ e.id = id ∧ matchesSpec false f e = true := by
  obtain ⟨e, hg, hr⟩ := executePlan_mem s p id h
  rw [planFilter_filter f dl ml p hp] at hr
  exact ⟨e, hg, getEvent_id s hc id e hg, residual_sound f e hr⟩

/-- what is stored was handed to the writer as an `add` task -/
theorem stored_was_added_aux (rest : List Task) :
    ∀ (pre : List Task) (s : Store), Coh s → (∀ t ∈ rest, t.wf) →
    (∀ id e, getEvent s id = some e → Task.add e ∈ pre) →
    ∀ id e, getEvent (rest.foldl applyTask s) id = some e → Task.add e ∈ pre ++ rest := by
  induction rest with
  | nil => intro pre s _ _ hsrc id e h; simpa using hsrc id e h
  | cons t rest ih =>
    intro pre s hc hwf hsrc id e h
    simp only [List.foldl_cons] at h
    have hwt : t.wf := hwf t List.mem_cons_self
    have hc' : Coh (applyTask s t) := C10_coherent_applyTask s t hc hwt
    have hsrc' : ∀ id e, getEvent (applyTask s t) id = some e → Task.add e ∈ pre ++ [t] := by
      intro id e hg
      unfold applyTask at hg
      cases hb : taskBody s t with
      | none => simp only [hb, Option.getD_none] at hg; exact List.mem_append_left _ (hsrc id e hg)
      | some s' =>
        simp only [hb, Option.getD_some] at hg
        cases t with
        | del i =>
          simp only [taskBody] at hb
          cases hge : getEvent s i with
          | none => simp [hge] at hb; subst hb; exact List.mem_append_left _ (hsrc id e hg)
          | some c =>
            simp only [hge] at hb
            have hid := getEvent_id s hc i c hge
            have hst : getEvent s c.id = some c := by rw [hid]; exact hge
            have := getEvent_deleteEvent s s' c hc hst hb id
            rw [this] at hg
            by_cases h1 : id = c.id
            · simp [h1] at hg
            · simp only [h1, if_false] at hg
              exact List.mem_append_left _ (hsrc id e hg)
        | add a =>
          simp only [taskBody] at hb
          cases hge : getEvent s a.id with
          | some x => simp [hge] at hb; subst hb; exact List.mem_append_left _ (hsrc id e hg)
          | none =>
            simp only [hge] at hb
            cases hw : writeEvent s a with
            | none => simp [hw] at hb
            | some s1 =>
              simp only [hw, Option.bind_some] at hb
              have hfresh := (getEvent_none_iff s hc a.id).mp hge
              obtain ⟨hc1, _, hget1⟩ := coh_writeEvent s s1 a hc hwt hfresh hw
              have r := postSave_removes s1 s' a hc1 hb
              have h1 := r.nothing_new id e hg
              -- in s1 the record is either the new one or an old one
              have h2 := (getEvent_iff s1 id e).mp h1
              rw [hget1] at h2
              by_cases hk : primaryKey id = primaryKey a.id
              · simp only [hk, if_true, Option.some.injEq] at h2
                subst h2
                exact List.mem_append_right _ (by simp)
              · simp only [hk, if_false] at h2
                have hns : primaryKey id ∉ skOf a := fun hs => (sk_not_primary a hwt _ hs).1 id rfl
                simp only [hns, if_false] at h2
                exact List.mem_append_left _ (hsrc id e ((getEvent_iff s id e).mpr h2))
    have := ih (pre ++ [t]) (applyTask s t) hc' (fun t' ht' => hwf t' (List.mem_cons_of_mem _ ht')) hsrc' id e h
    simpa using this

/-- **C01 (LMDB, "accepted earlier")** — every stored record of a reachable store was handed to
    the writer by an `add` task (i.e. was accepted by `add_event`); nothing else is ever served. -/
theorem C01_kv_returned_was_added (ts : List Task) (hwf : ∀ t ∈ ts, t.wf) (id : Bytes) (e : Event)
    (h : getEvent (applyTasks init ts) id = some e) : Task.add e ∈ ts := by
  have := stored_was_added_aux ts [] init coh_init hwf
    (by intro id e hg; simp [init, getEvent, get, tombstone] at hg) id e h
  simpa using this

end NostrRelay.KV

namespace NostrRelay.SQL
open NostrRelay NostrRelay.KV

/-! ## SQL -/

/-- the tags-table rows `process_tags` derives from an event (empty when it raises) -/
def rowsOf (e : Event) : List TagRow := (tagRows e).getD []

/-- what a tags-table row says about its event -/
theorem tagRows_spec (e : Event) (rows : List TagRow) (h : tagRows e = some rows) :
    ∀ r ∈ rows, r.id = e.id ∧ ∃ t ∈ e.tags, t.head? = some r.name ∧
      ((r.name = ascii "delegation" ∨ r.name = ascii "expiration") → t.length > 1 ∧ t.getD 1 [] = r.value) ∧
      (r.value ≠ [] → t.length > 1 ∧ t.getD 1 [] = r.value) := by
  unfold tagRows at h
  -- generalise the accumulator
  suffices ∀ (tags : List (List Bytes)) (acc rows : List TagRow),
      (∀ r ∈ acc, r.id = e.id ∧ ∃ t ∈ e.tags, t.head? = some r.name ∧
        ((r.name = ascii "delegation" ∨ r.name = ascii "expiration") → t.length > 1 ∧ t.getD 1 [] = r.value) ∧
        (r.value ≠ [] → t.length > 1 ∧ t.getD 1 [] = r.value)) →
      (∀ t ∈ tags, t ∈ e.tags) →
      tags.foldlM (init := acc) (fun acc t =>
        match t with
        | [] => none
        | n :: vs =>
          if n == ascii "delegation" || n == ascii "expiration" then
            match vs with
            | [] => none
            | v :: _ => some (acc ++ [⟨e.id, n, v⟩])
          else if isSingleChar n then some (acc ++ [⟨e.id, n, vs.headD []⟩])
          else some acc) = some rows →
      ∀ r ∈ rows, r.id = e.id ∧ ∃ t ∈ e.tags, t.head? = some r.name ∧
        ((r.name = ascii "delegation" ∨ r.name = ascii "expiration") → t.length > 1 ∧ t.getD 1 [] = r.value) ∧
        (r.value ≠ [] → t.length > 1 ∧ t.getD 1 [] = r.value) by
    exact this e.tags [] rows (by simp) (fun t ht => ht) h
  intro tags
  induction tags with
  | nil => intro acc rows hacc _ h; simp at h; subst h; exact hacc
  | cons t rest ih =>
    intro acc rows hacc hsub h
    simp only [List.foldlM_cons] at h
    have ht : t ∈ e.tags := hsub t List.mem_cons_self
    have hsub' : ∀ t' ∈ rest, t' ∈ e.tags := fun t' h' => hsub t' (List.mem_cons_of_mem _ h')
    cases t with
    | nil => simp at h
    | cons n vs =>
      by_cases hde : (n == ascii "delegation" || n == ascii "expiration") = true
      · simp only [hde, if_true] at h
        cases vs with
        | nil => simp at h
        | cons v vs' =>
          simp only [Option.bind_eq_bind, Option.bind_some] at h
          refine ih _ rows ?_ hsub' h
          intro r hr
          rcases List.mem_append.mp hr with hr | hr
          · exact hacc r hr
          · simp only [List.mem_singleton] at hr
            subst hr
            exact ⟨rfl, n :: v :: vs', ht, by simp, fun _ => by simp, fun _ => by simp⟩
      · simp only [hde, Bool.false_eq_true, if_false] at h
        by_cases hs : isSingleChar n = true
        · simp only [hs, if_true, Option.bind_eq_bind, Option.bind_some] at h
          refine ih _ rows ?_ hsub' h
          intro r hr
          rcases List.mem_append.mp hr with hr | hr
          · exact hacc r hr
          · simp only [List.mem_singleton] at hr
            subst hr
            refine ⟨rfl, n :: vs, ht, by simp, ?_, ?_⟩
            · intro hn
              exfalso
              rcases hn with hn | hn <;> (subst hn; simp at hde)
            · intro hv
              cases vs with
              | nil => simp at hv
              | cons v vs' => simp
        · simp only [hs, Bool.false_eq_true, if_false, Option.bind_eq_bind, Option.bind_some] at h
          exact ih _ rows hacc hsub' h

/-- invariant of the two tables: ids are unique, and every tags row belongs to a stored event and
    is one of the rows `process_tags` derives from that event -/
structure Inv (s : State) : Prop where
  uniq : s.events.Pairwise (fun a b => a.id ≠ b.id)
  tag_ok : ∀ t ∈ s.tags, ∃ e ∈ s.events, e.id = t.id ∧ t ∈ rowsOf e

theorem inv_init : Inv {} := ⟨by simp, by simp⟩

theorem inv_deleteWhere (s : State) (p : Event → Bool) (h : Inv s) : Inv (deleteWhere s p) := by
  constructor
  · exact List.Pairwise.sublist (List.filter_sublist) h.uniq
  · intro t ht
    simp only [deleteWhere, List.mem_filter] at ht
    obtain ⟨ht1, ht2⟩ := ht
    obtain ⟨e, he, hid, hr⟩ := h.tag_ok t ht1
    refine ⟨e, ?_, hid, hr⟩
    simp only [deleteWhere, List.mem_filter]
    refine ⟨he, ?_⟩
    cases hp : p e with
    | false => simp
    | true =>
      exfalso
      have : t.id ∈ (s.events.filter p).map (·.id) := by
        simp only [List.mem_map, List.mem_filter]
        exact ⟨e, ⟨he, hp⟩, hid⟩
      simp [List.contains_iff_mem, this] at ht2

theorem inv_deleteId (s : State) (id : Bytes) (h : Inv s) : Inv (deleteId s id) := by
  constructor
  · exact List.Pairwise.sublist (List.filter_sublist) h.uniq
  · intro t ht
    simp only [deleteId, List.mem_filter] at ht
    obtain ⟨ht1, ht2⟩ := ht
    obtain ⟨e, he, hid, hr⟩ := h.tag_ok t ht1
    refine ⟨e, ?_, hid, hr⟩
    simp only [deleteId, List.mem_filter]
    refine ⟨he, ?_⟩
    rw [hid]; exact ht2

theorem mem_insertTags (ts new : List TagRow) (t : TagRow) (h : t ∈ insertTags ts new) : t ∈ ts ∨ t ∈ new := by
  unfold insertTags at h
  induction new generalizing ts with
  | nil => left; simpa using h
  | cons r rest ih =>
    simp only [List.foldl_cons] at h
    rcases ih _ h with h1 | h1
    · by_cases hc : ts.contains r = true
      · simp only [hc, if_true] at h1; exact Or.inl h1
      · simp only [hc, Bool.false_eq_true, if_false] at h1
        rcases List.mem_append.mp h1 with h2 | h2
        · exact Or.inl h2
        · right; simp at h2; simp [h2]
    · right; exact List.mem_cons_of_mem _ h1

theorem applyDeletions_inv (e : Event) (tags : List (List Bytes)) (s s' : State) (h : Inv s)
    (hd : tags.foldlM (init := s) (fun st t =>
        match t with
        | [] => none
        | n :: vs =>
          if n == KV.eName then
            match vs with
            | [] => none
            | v :: _ =>
              match pyFromHex v with
              | none => none
              | some target => some (deleteWhere st fun r => r.pubkey == e.pubkey && r.id == target)
          else some st) = some s') : Inv s' := by
  induction tags generalizing s with
  | nil => simp at hd; subst hd; exact h
  | cons t rest ih =>
    simp only [List.foldlM_cons] at hd
    cases t with
    | nil => simp at hd
    | cons n vs =>
      by_cases hn : (n == KV.eName) = true
      · simp only [hn, if_true] at hd
        cases vs with
        | nil => simp at hd
        | cons v vs' =>
          cases hx : pyFromHex v with
          | none => simp [hx] at hd
          | some target =>
            simp only [hx, Option.bind_eq_bind, Option.bind_some] at hd
            exact ih _ (inv_deleteWhere s _ h) hd
      · simp only [hn, Bool.false_eq_true, if_false, Option.bind_eq_bind, Option.bind_some] at hd
        exact ih s h hd

theorem inv_addCore (s1 s' : State) (e : Event) (ch : Bool) (hs1 : Inv s1)
    (ha : addCore s1 e = AddResult.ok s' ch) : Inv s' := by
  unfold addCore at ha
  by_cases hdup : s1.events.any (fun r => r.id == e.id) = true
  · simp only [hdup, if_true, AddResult.ok.injEq] at ha
    obtain ⟨rfl, _⟩ := ha; exact hs1
  · simp only [hdup, Bool.false_eq_true, if_false] at ha
    have hfresh : ∀ r ∈ s1.events, r.id ≠ e.id := by
      intro r hr hre
      apply hdup
      rw [List.any_eq_true]
      exact ⟨r, hr, by simp [hre]⟩
    have hs2 : Inv { s1 with events := s1.events ++ [e] } := by
      constructor
      · rw [List.pairwise_append]
        refine ⟨hs1.uniq, by simp, ?_⟩
        intro x hx y hy
        simp only [List.mem_singleton] at hy
        subst hy
        exact hfresh x hx
      · intro t ht
        obtain ⟨e', he', hid, hr⟩ := hs1.tag_ok t ht
        exact ⟨e', List.mem_append_left _ he', hid, hr⟩
    -- s3
    generalize hs3def : (if (e.kind == 0 || e.kind == 3) = true then
        deleteWhere { s1 with events := s1.events ++ [e] } fun r =>
          r.pubkey == e.pubkey && r.kind == e.kind && decide (r.createdAt < e.createdAt)
        else { s1 with events := s1.events ++ [e] }) = s3 at ha
    have hs3 : Inv s3 := by
      rw [← hs3def]
      split
      · exact inv_deleteWhere _ _ hs2
      · exact hs2
    have he3 : e ∈ s3.events := by
      rw [← hs3def]
      split
      · simp only [deleteWhere, List.mem_filter, List.mem_append, List.mem_singleton, or_true, true_and]
        simp
      · simp
    by_cases hte : e.tags.isEmpty = true
    · simp only [hte, if_true, AddResult.ok.injEq] at ha
      obtain ⟨rfl, _⟩ := ha; exact hs3
    · simp only [hte, Bool.false_eq_true, if_false] at ha
      cases htr : tagRows e with
      | none => simp [htr] at ha
      | some rows =>
        simp only [htr] at ha
        have hs4 : Inv { s3 with tags := insertTags s3.tags rows } := by
          constructor
          · exact hs3.uniq
          · intro t ht
            rcases mem_insertTags _ _ t ht with h1 | h1
            · exact hs3.tag_ok t h1
            · have := tagRows_spec e rows htr t h1
              exact ⟨e, he3, this.1.symm, by simp [rowsOf, htr, h1]⟩
        by_cases h5 : (e.kind == 5) = true
        · simp only [h5, if_true] at ha
          cases hd : applyDeletions { s3 with tags := insertTags s3.tags rows } e with
          | none => simp [hd] at ha
          | some s5 =>
            simp only [hd, AddResult.ok.injEq] at ha
            obtain ⟨rfl, _⟩ := ha
            unfold applyDeletions at hd
            exact applyDeletions_inv e e.tags _ _ hs4 hd
        · simp only [h5, Bool.false_eq_true, if_false, AddResult.ok.injEq] at ha
          obtain ⟨rfl, _⟩ := ha; exact hs4

/-- is `e` a resubmitted, already stored replaceable event (for which `pre_save` returns False)? -/
def isResubmission (s : State) (e : Event) : Bool :=
  (isReplaceable e.kind || isParamReplaceable e.kind) && s.events.any (fun r => r.id == e.id)

theorem addEvent_resubmission (s : State) (e : Event) (h : isResubmission s e = true) :
    addEvent s e = .ok s false := by
  unfold addEvent
  unfold isResubmission at h
  simp only [h, if_true]

theorem addEvent_fresh (s : State) (e : Event) (h : isResubmission s e = false) :
    addEvent s e = match preSave s e with | none => .raises | some s1 => addCore s1 e := by
  unfold addEvent
  unfold isResubmission at h
  simp only [h, Bool.false_eq_true, if_false]
  rfl

/-- every committed `add_event` keeps the invariant -/
theorem inv_addEvent (s s' : State) (e : Event) (ch : Bool) (h : Inv s)
    (ha : addEvent s e = .ok s' ch) : Inv s' := by
  cases hres : isResubmission s e with
  | true =>
    rw [addEvent_resubmission s e hres] at ha
    simp only [AddResult.ok.injEq] at ha
    obtain ⟨rfl, _⟩ := ha; exact h
  | false =>
    rw [addEvent_fresh s e hres] at ha
    cases hp : preSave s e with
    | none => simp [hp] at ha
    | some s1 =>
      simp only [hp] at ha
      have hs1 : Inv s1 := by
        unfold preSave at hp
        split at hp
        · simp only [Option.some.injEq] at hp; subst hp; exact inv_deleteWhere s _ h
        · split at hp
          · split at hp
            · simp at hp
            · simp only [Option.some.injEq] at hp; subst hp; exact inv_deleteWhere s _ h
          · simp only [Option.some.injEq] at hp; subst hp; exact h
      exact inv_addCore s1 s' e ch hs1 ha

theorem inv_gcSql (s : State) (now : Nat) (h : Inv s) : Inv (gcSql s now) := inv_deleteWhere s _ h

/-- the WHERE predicate of a filter implies NIP-01 matching (inclusive reading) -/
theorem whereOf_sound (s : State) (hinv : Inv s) (f : Filter) (p : Event → Bool)
    (hw : whereOf s f = some p) (e : Event) (he : e ∈ s.events) (hp : p e = true) :
    matchesSpec false f e = true := by
  unfold whereOf at hw
  split at hw
  · simp at hw
  · split at hw
    · simp at hw
    · simp only [Option.some.injEq] at hw
      subst hw
      simp only [Bool.and_eq_true] at hp
      obtain ⟨⟨⟨⟨⟨h1, h2⟩, h3⟩, h4⟩, h5⟩, h6⟩ := hp
      -- a tags row with this event's id is one of this event's rows
      have hrow : ∀ t ∈ s.tags, (t.id == e.id) = true → t ∈ rowsOf e := by
        intro t ht hid
        obtain ⟨e', he', hid', hr⟩ := hinv.tag_ok t ht
        have : e' = e := by
          by_cases hee : e' = e
          · exact hee
          · exfalso
            have hid2 : e'.id = e.id := by rw [hid']; simpa using hid
            rcases List.mem_iff_getElem.mp he' with ⟨i, hi, rfl⟩
            rcases List.mem_iff_getElem.mp he with ⟨j, hj, rfl⟩
            have hij : i ≠ j := fun h => hee (by subst h; rfl)
            rcases Nat.lt_or_gt_of_ne hij with hlt | hgt
            · exact (List.pairwise_iff_getElem.mp hinv.uniq i j hi hj hlt) hid2
            · exact (List.pairwise_iff_getElem.mp hinv.uniq j i hj hi hgt) hid2.symm
        subst this; exact hr
      unfold matchesSpec
      simp only [Bool.and_eq_true]
      refine ⟨⟨⟨⟨⟨h1, ?_⟩, h3⟩, ?_⟩, ?_⟩, ?_⟩
      · cases hf : f.authors with
        | none => simp
        | some l =>
          simp only [hf, Bool.or_eq_true] at h2
          simp only [Bool.not_false, Bool.true_and, Bool.or_eq_true]
          rcases h2 with h2 | h2
          · exact Or.inl h2
          · right
            rw [List.any_eq_true] at h2 ⊢
            obtain ⟨t, ht, htp⟩ := h2
            simp only [Bool.and_eq_true] at htp
            obtain ⟨⟨hid, hname⟩, hval⟩ := htp
            have hr := hrow t ht hid
            unfold rowsOf at hr
            cases htr : tagRows e with
            | none => simp [htr] at hr
            | some rows =>
              simp only [htr, Option.getD_some] at hr
              obtain ⟨_, tg, htg, hhead, hdel, _⟩ := tagRows_spec e rows htr t hr
              have hn : t.name = ascii "delegation" := by simpa using hname
              obtain ⟨hlen, hv⟩ := hdel (Or.inl hn)
              refine ⟨t.value, ?_, hval⟩
              unfold delegators
              simp only [List.mem_filterMap]
              refine ⟨tg, htg, ?_⟩
              simp [hhead, hn, hlen, ← hv]
      · cases hf : f.since with
        | none => simp
        | some x => simp only [hf] at h4; simpa using h4
      · cases hf : f.until_ with
        | none => simp
        | some x =>
          simp only [hf, decide_eq_true_eq] at h5
          simp only [Bool.false_eq_true, if_false, decide_eq_true_eq]
          omega
      · rw [List.all_eq_true] at h6 ⊢
        intro tc htc
        have := h6 tc htc
        rw [List.any_eq_true] at this ⊢
        obtain ⟨t, ht, htp⟩ := this
        simp only [Bool.and_eq_true, Bool.not_eq_true', List.isEmpty_eq_false_iff] at htp
        obtain ⟨⟨⟨hid, hname⟩, hne⟩, hval⟩ := htp
        have hr := hrow t ht hid
        unfold rowsOf at hr
        cases htr : tagRows e with
        | none => simp [htr] at hr
        | some rows =>
          simp only [htr, Option.getD_some] at hr
          obtain ⟨_, tg, htg, hhead, _, hv⟩ := tagRows_spec e rows htr t hr
          obtain ⟨hlen, hv2⟩ := hv (by simpa using hne)
          refine ⟨tg, htg, ?_⟩
          have hn : t.name = tc.1 := by simpa using hname
          simp [hhead, hn, hlen, ← hv2] at hval ⊢
          exact hval

/-- **C01 (SQL)** — every row answering a REQ is a stored row and matches one of the REQ's
    filters under NIP-01, in every state satisfying the table invariant (which every sequence of
    `add_event` / GC preserves: `inv_addEvent`, `inv_gcSql`). -/
theorem C01_sql_sound (s : State) (hinv : Inv s) (fs : List Filter) (e : Event)
    (h : e ∈ matchingRows s fs) :
    e ∈ s.events ∧ ∃ f ∈ fs, matchesSpec false f e = true := by
  unfold matchingRows at h
  simp only [List.mem_filter, List.any_eq_true, List.mem_filterMap] at h
  obtain ⟨he, p, ⟨f, hf, hw⟩, hp⟩ := h
  exact ⟨he, f, hf, whereOf_sound s hinv f p hw e he hp⟩

/-! ## text level: quoting is inverted by a SQL string-literal reader -/

/-- `"'" + val.replace("'", "''") + "'"` -/
def sqlQuote (v : Bytes) : Bytes := [39] ++ v.flatMap (fun c => if c = 39 then [39, 39] else [c]) ++ [39]

/-- body of a SQL string literal: up to the first quote that is not doubled -/
def sqlReadBody : Bytes → Option (Bytes × Bytes)
  | [] => none
  | 39 :: 39 :: rest => (sqlReadBody rest).map fun p => (39 :: p.1, p.2)
  | 39 :: rest => some ([], rest)
  | c :: rest => (sqlReadBody rest).map fun p => (c :: p.1, p.2)

def sqlReadLit : Bytes → Option (Bytes × Bytes)
  | 39 :: rest => sqlReadBody rest
  | _ => none

theorem sqlReadBody_quote (v rest : Bytes) (hr : rest.head? ≠ some 39) :
    sqlReadBody (v.flatMap (fun c => if c = 39 then [39, 39] else [c]) ++ 39 :: rest) = some (v, rest) := by
  induction v with
  | nil =>
    simp only [List.flatMap_nil, List.nil_append]
    cases rest with
    | nil => simp [sqlReadBody]
    | cons r rs =>
      have : r ≠ 39 := by simpa using hr
      simp [sqlReadBody, this]
  | cons c cs ih =>
    by_cases hc : c = 39
    · subst hc
      simp only [List.flatMap_cons, if_true, List.cons_append, List.nil_append]
      rw [sqlReadBody, ih]; rfl
    · simp only [List.flatMap_cons, hc, if_false, List.cons_append, List.nil_append]
      rw [sqlReadBody.eq_def]
      split
      · rename_i h; simp at h
      · rename_i h; simp at h; exact absurd h.1 hc
      · rename_i h; simp at h; exact absurd h.1 hc
      · rename_i h; simp only [List.cons.injEq] at h; obtain ⟨rfl, rfl⟩ := h
        rw [ih]; rfl

/-- **C01 (text)** — for every byte string `v` (any quotes, backslashes, comment markers, …) the
    literal the query builder emits is read back as exactly `v`, consuming exactly the literal:
    a value cannot terminate its literal early or extend past it. -/
theorem C01_sql_quote_roundtrip (v rest : Bytes) (hr : rest.head? ≠ some 39) :
    sqlReadLit (sqlQuote v ++ rest) = some (v, rest) := by
  unfold sqlQuote sqlReadLit
  simp only [List.cons_append, List.nil_append, List.append_assoc]
  exact sqlReadBody_quote v rest hr

/-- non-vacuity: the value of the repaired injection input is read back verbatim -/
example : sqlReadLit (sqlQuote (ascii " OR 1=1)) --") ++ ascii " AND") = some (ascii " OR 1=1)) --", ascii " AND") := by
  decide +kernel
example : sqlReadLit (sqlQuote (ascii "a'b''c") ++ [41]) = some (ascii "a'b''c", [41]) := by decide +kernel

end NostrRelay.SQL
