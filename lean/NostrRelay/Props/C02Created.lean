/-
C02 (LMDB) — completeness of the created_at range scan (`Index.scanner` without match values, the plan of a
filter that names only `since` / `until`).

The scan positions the cursor with `set_range(start)`, walks backwards while `key > stop` and yields the id of
every key that carries the index prefix.  With `until` the start key is `01 until 00`, without it `01 ff ff ff ff 01`
(since the `fix:` commit; it was `01 ff`, which lies *below* the entries of events created at 0xff000000 or later —
`C02_kv_range_old_start_witness`).  With `since` the stop key is `01 since ff`, without it the bare prefix.

`C02_kv_created_complete`: in every coherent, sorted store that holds the top sentinel, every stored event whose
timestamp lies strictly inside the window is yielded, whatever else is stored.  `…_reachable`: hence after every
history of writer tasks.  `C02_kv_created_filter_complete`: at the level of a REQ filter that names only the window.
-/
import NostrRelay.Props.C02Scan
import NostrRelay.Props.C02Ids

namespace NostrRelay.KV
open NostrRelay

/-- in a strictly descending list, `takeWhile p` keeps every member that satisfies an upward-closed `p` -/
theorem mem_takeWhile_desc (p : Bytes → Bool) (L : List Bytes) (hdesc : L.Pairwise (fun a b => b < a))
    (hup : ∀ a b, p b = true → b < a → p a = true) (x : Bytes) (hx : x ∈ L) (hp : p x = true) :
    x ∈ L.takeWhile p := by
  induction L with
  | nil => cases hx
  | cons a t ih =>
    simp only [List.pairwise_cons] at hdesc
    rcases List.mem_cons.mp hx with h | h
    · subst h; simp [List.takeWhile, hp]
    · have hpa : p a = true := hup a x hp (hdesc.1 x h)
      simp only [List.takeWhile, hpa]
      exact List.mem_cons_of_mem _ (ih hdesc.2 h)

theorem below_desc (s : Store) (hs : Sorted s) (seek : Bytes) : (below s seek).Pairwise (fun a b => b < a) := by
  unfold below
  rw [List.pairwise_reverse]
  exact List.Pairwise.sublist List.filter_sublist hs

/-- the created_at index entry of an event -/
def createdKey (ts id : Bytes) : Bytes := fullKey ([1] ++ ts) ts id

theorem createdKey_lt_top (ts id : Bytes) (hts : ts.length = 4) (hb : ∀ x ∈ ts, x < 256) :
    createdKey ts id < [1] ++ [255, 255, 255, 255, 1] := by
  match ts, hts with
  | [a, b, c, d], _ =>
    have ha : a < 256 := hb a (by simp)
    have hb' : b < 256 := hb b (by simp)
    have hc : c < 256 := hb c (by simp)
    have hd : d < 256 := hb d (by simp)
    simp only [createdKey, fullKey, List.cons_append, List.nil_append]
    apply List.cons_lt_cons_iff.mpr; right; refine ⟨rfl, ?_⟩
    by_cases h1 : a < 255
    · exact List.cons_lt_cons_iff.mpr (Or.inl h1)
    · have : a = 255 := by omega
      subst this
      apply List.cons_lt_cons_iff.mpr; right; refine ⟨rfl, ?_⟩
      by_cases h2 : b < 255
      · exact List.cons_lt_cons_iff.mpr (Or.inl h2)
      · have : b = 255 := by omega
        subst this
        apply List.cons_lt_cons_iff.mpr; right; refine ⟨rfl, ?_⟩
        by_cases h3 : c < 255
        · exact List.cons_lt_cons_iff.mpr (Or.inl h3)
        · have : c = 255 := by omega
          subst this
          apply List.cons_lt_cons_iff.mpr; right; refine ⟨rfl, ?_⟩
          by_cases h4 : d < 255
          · exact List.cons_lt_cons_iff.mpr (Or.inl h4)
          · have : d = 255 := by omega
            subst this
            apply List.cons_lt_cons_iff.mpr; right; refine ⟨rfl, ?_⟩
            exact List.cons_lt_cons_iff.mpr (Or.inl (by omega))

theorem be32_bytes_lt (n : Int) (b : Bytes) (h : be32 n = some b) : ∀ x ∈ b, x < 256 := by
  unfold be32 at h
  split at h
  · cases h
    intro x hx
    simp only [List.mem_cons, List.not_mem_nil, or_false] at hx
    rcases hx with rfl | rfl | rfl | rfl <;> omega
  · cases h

/-- `a < b` for equal-length strings gives `a ++ x < b ++ y` -/
theorem append_lt_append_of_lt (a b x y : Bytes) (hl : a.length = b.length) (h : a < b) : a ++ x < b ++ y :=
  (lex_block a b x y hl).mpr (Or.inl h)

/-- the walk of the range scan, for abstract start / stop keys: a key of the store strictly between them that carries
    the prefix is yielded -/
theorem range_core (s : Store) (hs : Sorted s) (htomb : tombstone ∈ skeys s) (start stop kc id r : Bytes)
    (hstart1 : start = 1 :: r) (hkmem : kc ∈ skeys s) (hlt_start : kc < start) (hstop_lt : stop < kc)
    (htake : kc.take 1 = [1]) (hlast : lastN 32 kc = id) :
    ∃ out, (match (skeys s).filter (fun k => !(decide (k < start))) with
      | [] => some []
      | k0 :: _ =>
        some (((k0 :: below s k0).takeWhile (fun k => decide (stop < k))).filterMap fun k =>
          if k.take 1 == [1] then some (lastN 32 k) else none)) = some out ∧ id ∈ out := by
  have htomb_ge : ¬ tombstone < start := by
    rw [hstart1, tombstone]
    intro h
    rcases List.cons_lt_cons_iff.mp h with h | ⟨h, _⟩ <;> omega
  have hne : (skeys s).filter (fun k => !(decide (k < start))) ≠ [] := by
    intro h
    have : tombstone ∈ (skeys s).filter (fun k => !(decide (k < start))) := by
      simp only [List.mem_filter, Bool.not_eq_true', decide_eq_false_iff_not]
      exact ⟨htomb, htomb_ge⟩
    rw [h] at this; cases this
  cases hf : (skeys s).filter (fun k => !(decide (k < start))) with
  | nil => exact absurd hf hne
  | cons k0 rest =>
    simp only [Option.some.injEq, exists_eq_left']
    have hk0 : k0 ∈ (skeys s).filter (fun k => !(decide (k < start))) := by rw [hf]; exact List.mem_cons_self
    simp only [List.mem_filter, Bool.not_eq_true', decide_eq_false_iff_not] at hk0
    have hlt0 : kc < k0 := by
      rcases lex_trichotomy kc k0 with h | h | h
      · exact h
      · rw [h] at hlt_start; exact absurd hlt_start hk0.2
      · exact absurd (lex_trans h hlt_start) hk0.2
    have hvis : kc ∈ k0 :: below s k0 := by
      apply List.mem_cons_of_mem
      unfold below
      simp only [List.mem_reverse, List.mem_filter, decide_eq_true_eq]
      exact ⟨hkmem, hlt0⟩
    have hdesc : (k0 :: below s k0).Pairwise (fun a b => b < a) := by
      simp only [List.pairwise_cons]
      exact ⟨fun b hb => (mem_below s k0 b hb).2, below_desc s hs k0⟩
    have htw := mem_takeWhile_desc (fun k => decide (stop < k)) (k0 :: below s k0) hdesc
      (by intro a b hb hab; simp only [decide_eq_true_eq] at hb ⊢; exact lex_trans hb hab)
      kc hvis (by simpa using hstop_lt)
    rw [List.mem_filterMap]
    exact ⟨kc, htw, by simp [htake, hlast]⟩

/-- **C02 (LMDB, created_at range scan)** -/
theorem C02_kv_created_complete (s : Store) (hwk : WellKept s) (hc : Coh s)
    (since until_ : Option Int) (sB uB : Option Bytes) (hsB : encOpt since = some sB) (huB : encOpt until_ = some uB)
    (c : Event) (hst : getEvent s c.id = some c)
    (hsince : ∀ x, since = some x → x < c.createdAt) (huntil : ∀ x, until_ = some x → c.createdAt < x) :
    ∃ out, scanRange s [1] since until_ = some out ∧ c.id ∈ out := by
  obtain ⟨hs, htomb⟩ := hwk
  -- the event's created_at key is in the store
  have hrec := hc.rec_ok c.id c ((getEvent_iff s c.id c).mp hst)
  obtain ⟨_, hid, hsec, hkeys⟩ := hrec
  obtain ⟨ts, hts⟩ : ∃ ts, be32 c.createdAt = some ts := by
    cases h : be32 c.createdAt with
    | none => simp [secondaryKeys, h] at hsec
    | some ts => exact ⟨ts, rfl⟩
  obtain ⟨kd, hkd⟩ : ∃ kd, be32 c.kind = some kd := by
    cases h : be32 c.kind with
    | none => simp [secondaryKeys, convKeys, hts, h] at hsec
    | some kd => exact ⟨kd, rfl⟩
  have hts4 := be32_length _ _ hts
  have hkin : createdKey ts c.id ∈ skOf c := by
    unfold skOf secondaryKeys convKeys createdKey
    simp [hts, hkd]
  have hkmem : createdKey ts c.id ∈ skeys s := get_some_mem_skeys s _ _ (hkeys _ hkin)
  have htake : (createdKey ts c.id).take 1 = [1] := by
    simp [createdKey, fullKey]
  have hlast : lastN 32 (createdKey ts c.id) = c.id := lastN_fullKey _ _ _ hid
  unfold scanRange
  simp only [hsB, huB, Option.bind_some]
  refine range_core s hs htomb _ _ (createdKey ts c.id) c.id
    (match uB with | some u => u ++ [0] | none => [255, 255, 255, 255, 1]) ?_ hkmem ?_ ?_ htake hlast
  · cases uB <;> rfl
  · cases until_ with
    | none =>
      simp only [encOpt, Option.some.injEq] at huB
      subst huB
      exact createdKey_lt_top ts c.id hts4 (be32_bytes_lt _ _ hts)
    | some x =>
      simp only [encOpt, Option.map_eq_some_iff] at huB
      obtain ⟨u, hu, hu'⟩ := huB
      subst hu'
      have hlt : ts < u := be32_lt_of_lt c.createdAt x ts u hts hu (huntil x rfl)
      have hu4 := be32_length _ _ hu
      show createdKey ts c.id < [1] ++ u ++ [0]
      unfold createdKey fullKey
      rw [show [1] ++ ts ++ [0] ++ ts ++ [0] ++ c.id = ([1] ++ ts) ++ ([0] ++ ts ++ [0] ++ c.id) by simp,
          show [1] ++ u ++ [0] = ([1] ++ u) ++ [0] by simp]
      apply append_lt_append_of_lt
      · simp [hts4, hu4]
      · exact List.append_left_lt hlt
  · cases since with
    | none =>
      simp only [encOpt, Option.some.injEq] at hsB
      subst hsB
      show [1] < createdKey ts c.id
      unfold createdKey fullKey
      rw [show [1] ++ ts ++ [0] ++ ts ++ [0] ++ c.id = [1] ++ (ts ++ [0] ++ ts ++ [0] ++ c.id) by simp]
      cases ts with
      | nil => simp at hts4
      | cons a t => exact lt_append_cons [1] a _
    | some x =>
      simp only [encOpt, Option.map_eq_some_iff] at hsB
      obtain ⟨sn, hsn, hsn'⟩ := hsB
      subst hsn'
      have hlt : sn < ts := be32_lt_of_lt x c.createdAt sn ts hsn hts (hsince x rfl)
      have hs4 := be32_length _ _ hsn
      show [1] ++ sn ++ [255] < createdKey ts c.id
      unfold createdKey fullKey
      rw [show [1] ++ ts ++ [0] ++ ts ++ [0] ++ c.id = ([1] ++ ts) ++ ([0] ++ ts ++ [0] ++ c.id) by simp,
          show [1] ++ sn ++ [255] = ([1] ++ sn) ++ [255] by simp]
      apply append_lt_append_of_lt
      · simp [hts4, hs4]
      · exact List.append_left_lt hlt

/-- **C02 (LMDB, created_at range scan, every reachable store)** -/
theorem C02_kv_created_complete_reachable (tasks : List Task) (hwf : ∀ t ∈ tasks, t.wf)
    (since until_ : Option Int) (sB uB : Option Bytes) (hsB : encOpt since = some sB) (huB : encOpt until_ = some uB)
    (c : Event) (hst : getEvent (applyTasks init tasks) c.id = some c)
    (hsince : ∀ x, since = some x → x < c.createdAt) (huntil : ∀ x, until_ = some x → c.createdAt < x) :
    ∃ out, scanRange (applyTasks init tasks) [1] since until_ = some out ∧ c.id ∈ out :=
  C02_kv_created_complete _ (wk_reachable tasks) (C10_coherent_reachable tasks hwf) since until_ sB uB hsB huB c hst
    hsince huntil

/-- **C02 (LMDB, a filter that names only a time window, every reachable store)** — the planner serves it with the
    created_at range scan (it refuses the filter when both bounds are absent or zero): after any history of writer
    tasks, every stored event strictly inside the window is delivered, as long as the limit does not truncate. -/
theorem C02_kv_created_filter_complete (tasks : List Task) (hwf : ∀ t ∈ tasks, t.wf) (f : Filter) (dl : Option Nat) (ml : Nat)
    (hids : f.ids = none) (hauth : f.authors = none) (hk : f.kinds = none) (htags : f.tags = [])
    (sB uB : Option Bytes) (hsB : encOpt f.since = some sB) (huB : encOpt f.until_ = some uB)
    (p : Plan) (hp : planFilter f dl ml = some p)
    (e : Event) (hst : getEvent (applyTasks init tasks) e.id = some e) (hm : matchesSpec true f e = true)
    (hlim : ∀ n cands, p.limit = some n → planCandidates (applyTasks init tasks) p = some cands →
      (planHits (applyTasks init tasks) p.filter cands).length ≤ n) :
    e.id ∈ executePlan (applyTasks init tasks) p := by
  have hshape : ∃ sh, planShape f = some sh ∧ sh.1 = .created := by
    unfold planFilter at hp
    cases hsh : planShape f with
    | none => simp [hsh] at hp
    | some sh =>
      refine ⟨sh, rfl, ?_⟩
      unfold planShape at hsh
      simp only [hids, hauth, hk, htags, List.any_nil, Option.isSome_none, Bool.and_self, Bool.false_eq_true, if_false] at hsh
      have h0 : ((none : Option (List Bytes)) == some []) = false := rfl
      have h1 : ((none : Option (List Int)) == some []) = false := rfl
      simp only [h0, h1, Bool.or_self, Bool.false_eq_true, if_false] at hsh
      split at hsh
      · cases hsh; rfl
      · cases hsh
  obtain ⟨sh, hsh, hidx⟩ := hshape
  have hpl : p.filter = f ∧ p.index = .created ∧ p.raises = sh.2.2.2 := by
    unfold planFilter at hp
    rw [hsh] at hp
    simp only [Option.map_some, Option.some.injEq] at hp
    subst hp
    exact ⟨rfl, hidx, rfl⟩
  have hraise : sh.2.2.2 = false := by
    unfold planShape at hsh
    simp only [hids, hauth, hk, htags, List.any_nil, Option.isSome_none, Bool.and_self, Bool.false_eq_true, if_false] at hsh
    have h0 : ((none : Option (List Bytes)) == some []) = false := rfl
    have h1 : ((none : Option (List Int)) == some []) = false := rfl
    simp only [h0, h1, Bool.or_self, Bool.false_eq_true, if_false] at hsh
    split at hsh
    · cases hsh; rfl
    · cases hsh
  obtain ⟨hpf, hpi, hpr⟩ := hpl
  have hm0 := hm
  unfold matchesSpec at hm
  simp only [Bool.and_eq_true] at hm
  obtain ⟨⟨⟨⟨⟨_, _⟩, _⟩, h4⟩, h5⟩, _⟩ := hm
  have hsince : ∀ x, f.since = some x → x < e.createdAt := by
    intro x hx; simpa [hx] using h4
  have huntil : ∀ x, f.until_ = some x → e.createdAt < x := by
    intro x hx; simpa [hx] using h5
  obtain ⟨out, hout, hin⟩ := C02_kv_created_complete_reachable tasks hwf f.since f.until_ sB uB hsB huB e hst hsince huntil
  have hcands : planCandidates (applyTasks init tasks) p = some out := by
    unfold planCandidates
    simp only [hpr, hraise, Bool.false_eq_true, if_false, hpi, hpf]
    exact hout
  exact C02_kv_executePlan_complete _ p out hcands e.id e hin hst (by rw [hpf]; exact residual_complete f e hm0)
    (fun n hn => hlim n out hn hcands)

-- non-vacuity: a window filter over four events, two of them created at 0xff000000 or later
example :
    let mk (i : Nat) (ts : Int) : Event :=
      { id := List.replicate 31 0 ++ [i], pubkey := List.replicate 32 170, createdAt := ts, kind := 1, tags := [] }
    let s := applyTasks init [.add (mk 1 1700000000), .add (mk 2 4278190081), .add (mk 3 4278190085), .add (mk 4 1600000000)]
    ((planFilter { since := some 1650000000 } none 20).map (fun p => (executePlan s p).length)) = some 3 := by
  decide +kernel

/-- the range scan as it was before the `fix:` commit: the seek key without `until` was `prefix ff` -/
def scanRangeOld (s : Store) (pfx : Bytes) (since : Option Int) : Option (List Bytes) := do
  let sB ← match since with | some x => (be32 x).map some | none => some none
  let start := pfx ++ [255]
  let stop := match sB with | some sn => pfx ++ sn ++ [255] | none => pfx
  match (skeys s).filter (fun k => !(decide (k < start))) with
  | [] => pure []
  | k0 :: _ =>
    pure (((k0 :: below s k0).takeWhile (fun k => decide (stop < k))).filterMap fun k =>
      if k.take 1 == pfx then some (lastN 32 k) else none)

/-- **counter-witness (repaired defect)** — with the old start key, of two stored events created at 0xff000001 and
    0xff000005 the newer one is not yielded for `since = 1650000000` -/
theorem C02_kv_range_old_start_witness :
    let mk (i : Nat) (ts : Int) : Event :=
      { id := List.replicate 31 0 ++ [i], pubkey := List.replicate 32 170, createdAt := ts, kind := 1, tags := [] }
    let s := applyTasks init [.add (mk 1 1700000000), .add (mk 2 4278190081), .add (mk 3 4278190085)]
    (scanRangeOld s [1] (some 1650000000)).map List.length = some 2
    ∧ (scanRange s [1] (some 1650000000) none).map List.length = some 3 := by
  decide +kernel

end NostrRelay.KV
