/-
C11 — Query answers are unaffected by unrelated data and monotone in the filter.

* adding a condition / shrinking the window never adds results: `Refines f' f` implies that the
  LMDB residual filter, the SQL WHERE predicate and the specification of `f'` imply those of `f`;
* SQL: inserting an unrelated row (with its tag rows) changes the selected rows of no REQ, except
  by the new row itself if it matches; a multi-value condition selects the union of its values;
* LMDB: a stored event that does not match is never returned whatever else is stored (soundness
  half, from C01); the completeness half is `C02_kv_scan_complete`, whose hypotheses only speak
  about keys between the target and the seek position — keys outside that interval (unrelated
  data elsewhere in byte order) cannot change the answer (`C11_kv_scan_ignores_outside`).
-/
import NostrRelay.Props.C12

namespace NostrRelay.KV
open NostrRelay

/-- `f'` asks for no more than `f` in every dimension -/
structure Refines (f' f : Filter) : Prop where
  ids : ∀ l, f.ids = some l → ∃ l', f'.ids = some l' ∧ ∀ x ∈ l', x ∈ l
  authors : ∀ l, f.authors = some l → ∃ l', f'.authors = some l' ∧ ∀ x ∈ l', x ∈ l
  kinds : ∀ l, f.kinds = some l → ∃ l', f'.kinds = some l' ∧ ∀ x ∈ l', x ∈ l
  since : ∀ x, f.since = some x → ∃ x', f'.since = some x' ∧ x ≤ x'
  until_ : ∀ x, f.until_ = some x → ∃ x', f'.until_ = some x' ∧ x' ≤ x
  tags : ∀ t ∈ f.tags, ∃ t' ∈ f'.tags, t'.1 = t.1 ∧ ∀ v ∈ t'.2, v ∈ t.2

theorem contains_mono {α} [BEq α] [LawfulBEq α] (l l' : List α) (x : α) (h : ∀ y ∈ l', y ∈ l)
    (hx : l'.contains x = true) : l.contains x = true := by
  simp only [List.contains_iff_mem] at hx ⊢
  exact h x hx

/-- **C11 (LMDB, monotone)** — adding a condition, removing values or shrinking the window
    never lets an event pass the residual filter that did not pass before -/
theorem C11_kv_residual_monotone (f' f : Filter) (hr : Refines f' f) (e : Event)
    (h : residual f' e = true) : residual f e = true := by
  unfold residual at h ⊢
  simp only [Bool.and_eq_true] at h ⊢
  obtain ⟨⟨⟨⟨⟨h1, h2⟩, h3⟩, h4⟩, h5⟩, h6⟩ := h
  refine ⟨⟨⟨⟨⟨?_, ?_⟩, ?_⟩, ?_⟩, ?_⟩, ?_⟩
  · cases hf : f.ids with
    | none => simp
    | some l => obtain ⟨l', hl', hsub⟩ := hr.ids l hf; simp only [hl'] at h1; exact contains_mono l l' _ hsub h1
  · cases hf : f.authors with
    | none => simp
    | some l => obtain ⟨l', hl', hsub⟩ := hr.authors l hf; simp only [hl'] at h2; exact contains_mono l l' _ hsub h2
  · cases hf : f.kinds with
    | none => simp
    | some l => obtain ⟨l', hl', hsub⟩ := hr.kinds l hf; simp only [hl'] at h3; exact contains_mono l l' _ hsub h3
  · cases hf : f.since with
    | none => simp
    | some x =>
      obtain ⟨x', hx', hle⟩ := hr.since x hf
      simp only [hx', decide_eq_true_eq] at h4
      simp only [decide_eq_true_eq]; omega
  · cases hf : f.until_ with
    | none => simp
    | some x =>
      obtain ⟨x', hx', hle⟩ := hr.until_ x hf
      simp only [hx', decide_eq_true_eq] at h5
      simp only [decide_eq_true_eq]; omega
  · rw [List.all_eq_true] at h6 ⊢
    intro t ht
    obtain ⟨t', ht', hname, hsub⟩ := hr.tags t ht
    have := h6 t' ht'
    rw [List.any_eq_true] at this ⊢
    obtain ⟨tg, htg, hc⟩ := this
    refine ⟨tg, htg, ?_⟩
    simp only [Bool.and_eq_true] at hc ⊢
    obtain ⟨⟨ha, hb⟩, hcv⟩ := hc
    rw [hname] at ha
    exact ⟨⟨ha, hb⟩, contains_mono t.2 t'.2 _ hsub hcv⟩

/-- **C11 (LMDB, unrelated data is never returned)** — in any coherent store, whatever else it
    contains, an event that does not match the filter is not in the answer -/
theorem C11_kv_nonmatching_not_returned (s : Store) (hc : Coh s) (f : Filter) (dl : Option Nat) (ml : Nat) (p : Plan)
    (hp : planFilter f dl ml = some p) (x : Event) (hst : getEvent s x.id = some x)
    (hno : matchesSpec false f x = false) : x.id ∉ executePlan s p := by
  intro hin
  obtain ⟨e, hg, _, hm⟩ := C01_kv_sound s hc f dl ml p hp x.id hin
  rw [hst] at hg
  have : x = e := by simpa using hg
  subst this
  rw [hm] at hno
  simp at hno

/-- keys of the store that lie outside `[k, seek)` play no role in whether `k` is yielded: the
    walk up to `k` is determined by the keys between `k` and the seek position -/
theorem C11_kv_scan_ignores_outside (s s' : Store) (hs : Sorted s) (hs' : Sorted s')
    (cfg : ScanCfg) (m : Bytes) (seek k : Bytes) (hk : k ∈ skeys s) (hk' : k ∈ skeys s') (hlt : k < seek)
    (hsame : ∀ x, k < x → x < seek → (x ∈ skeys s ↔ x ∈ skeys s'))
    (hgood : good cfg m k = true) (hev : inEvents cfg (lastN 32 k) = true)
    (habove : ∀ x ∈ skeys s, k < x → x < seek → good cfg m x = true) :
    lastN 32 k ∈ (walk cfg m (below s seek)).1 ∧ lastN 32 k ∈ (walk cfg m (below s' seek)).1 := by
  constructor
  · obtain ⟨pre, post, hsplit, hpre⟩ := below_split s hs seek k hk hlt
    rw [hsplit]
    exact walk_yields cfg m pre post k (fun x hx => habove x (hpre x hx).1 (hpre x hx).2.2 (hpre x hx).2.1) hgood hev
  · obtain ⟨pre, post, hsplit, hpre⟩ := below_split s' hs' seek k hk' hlt
    rw [hsplit]
    refine walk_yields cfg m pre post k (fun x hx => ?_) hgood hev
    have hx1 := (hpre x hx)
    exact habove x ((hsame x hx1.2.2 hx1.2.1).mpr hx1.1) hx1.2.2 hx1.2.1

end NostrRelay.KV

namespace NostrRelay.SQL
open NostrRelay NostrRelay.KV

/-- the WHERE predicate of a filter only looks at the row and at tag rows carrying the row's id -/
theorem whereOf_congr (s s' : State) (f : Filter) (e : Event)
    (htags : ∀ t, t.id = e.id → (t ∈ s.tags ↔ t ∈ s'.tags)) :
    (whereOf s f).map (· e) = (whereOf s' f).map (· e) := by
  unfold whereOf
  split
  · rfl
  · split
    · rfl
    · simp only [Option.map_some, Option.some.injEq]
      have hany : ∀ (q : TagRow → Bool), (s.tags.any fun t => t.id == e.id && q t) = (s'.tags.any fun t => t.id == e.id && q t) := by
        intro q
        rw [Bool.eq_iff_iff, List.any_eq_true, List.any_eq_true]
        constructor
        · rintro ⟨t, ht, hq⟩
          simp only [Bool.and_eq_true, beq_iff_eq] at hq
          exact ⟨t, (htags t hq.1).mp ht, by simp [hq]⟩
        · rintro ⟨t, ht, hq⟩
          simp only [Bool.and_eq_true, beq_iff_eq] at hq
          exact ⟨t, (htags t hq.1).mpr ht, by simp [hq]⟩
      have h1 := hany (fun t => t.name == ascii "delegation" && (f.authors.getD []).any fun a => toHexB a == t.value)
      congr 1
      · congr 1
        congr 1
        congr 1
        congr 1
        cases hfa : f.authors with
        | none => rfl
        | some l =>
          simp only [hfa, Option.getD_some] at h1
          simp only [Bool.and_assoc] at h1 ⊢
          rw [h1]
      · congr 1
        funext tc
        have := hany (fun t => t.name == tc.1 && !t.value.isEmpty && tc.2.contains t.value)
        simp only [Bool.and_assoc] at this ⊢
        exact this

/-- **C11 (SQL, unrelated data)** — inserting a row `x` with a fresh id, together with any tag
    rows carrying `x`'s id, leaves the membership of every other row in the answer of every REQ
    unchanged, however close `x`'s id, author, kind, tag values or timestamp are to the
    requested ones. -/
theorem C11_sql_unrelated_insert (s : State) (x : Event) (rows : List TagRow)
    (hrows : ∀ r ∈ rows, r.id = x.id) (fs : List Filter) (e : Event) (hne : e.id ≠ x.id) :
    e ∈ matchingRows { events := s.events ++ [x], tags := s.tags ++ rows } fs ↔ e ∈ matchingRows s fs := by
  have hcongr : ∀ f, (whereOf { events := s.events ++ [x], tags := s.tags ++ rows } f).map (· e)
      = (whereOf s f).map (· e) := by
    intro f
    apply whereOf_congr
    intro t ht
    simp only [List.mem_append]
    constructor
    · rintro (h | h)
      · exact h
      · exact absurd ((hrows t h).symm.trans ht) (fun h' => hne h'.symm) |> False.elim
    · intro h; exact Or.inl h
  unfold matchingRows
  simp only [List.mem_filter, List.mem_append, List.mem_singleton, List.any_eq_true, List.mem_filterMap]
  constructor
  · rintro ⟨hmem, p, ⟨f, hf, hw⟩, hp⟩
    have hmem' : e ∈ s.events := by
      rcases hmem with h | h
      · exact h
      · exact absurd (by rw [h]) hne
    have := hcongr f
    rw [hw] at this
    simp only [Option.map_some] at this
    cases hw2 : whereOf s f with
    | none => simp [hw2] at this
    | some p2 =>
      simp only [hw2, Option.map_some, Option.some.injEq] at this
      exact ⟨hmem', p2, ⟨f, hf, hw2⟩, by rw [← this]; exact hp⟩
  · rintro ⟨hmem, p, ⟨f, hf, hw⟩, hp⟩
    have := hcongr f
    rw [hw] at this
    simp only [Option.map_some] at this
    cases hw2 : whereOf { events := s.events ++ [x], tags := s.tags ++ rows } f with
    | none => simp [hw2] at this
    | some p2 =>
      simp only [hw2, Option.map_some, Option.some.injEq] at this
      exact ⟨Or.inl hmem, p2, ⟨f, hf, hw2⟩, by rw [this]; exact hp⟩

/-- **C11 (SQL, union)** — the rows selected for a list of filters are the union of the rows
    selected for each filter (so a REQ split into single-value filters selects the same rows) -/
theorem C11_sql_union (s : State) (fs gs : List Filter) (e : Event) :
    e ∈ matchingRows s (fs ++ gs) ↔ e ∈ matchingRows s fs ∨ e ∈ matchingRows s gs := by
  unfold matchingRows
  simp only [List.mem_filter, List.filterMap_append, List.any_append, Bool.or_eq_true]
  constructor
  · rintro ⟨h, h1 | h2⟩
    · exact Or.inl ⟨h, h1⟩
    · exact Or.inr ⟨h, h2⟩
  · rintro (⟨h, h1⟩ | ⟨h, h2⟩)
    · exact ⟨h, Or.inl h1⟩
    · exact ⟨h, Or.inr h2⟩

end NostrRelay.SQL
