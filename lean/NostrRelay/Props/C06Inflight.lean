/-
C06 — "resubmitting an already accepted event changes nothing": on LMDB an event that was acknowledged
as new is a duplicate from then on — while it waits in the writer's queue, while the writer thread holds
it in an uncommitted write transaction, and once it is stored — under every interleaving of submissions
with the writer thread (model: `Model/Announce.lean`; invariant: `Props/C20Glue.lean`).
-/
import NostrRelay.Props.C20Glue

namespace NostrRelay.Announce

/-- **C06 (LMDB, a resubmission changes nothing)** — submitting a storable event whose id is stored, being
    written or queued leaves the whole state as it is: not acknowledged as new, nothing queued, nothing
    announced -/
theorem C06_kv_resubmission_refused (s : State) (e : Ev) (he : e.ephemeral = false)
    (h : e.id ∈ s.committed ∨ e.id ∈ (pend s).map (·.id)) : step .kv s (.submit e) = s := by
  simp only [step, he, Bool.false_eq_true, if_false, if_pos h]

/-- **C06 (LMDB, acknowledged as new at most once)** — under every interleaving, the storable events
    acknowledged as new have pairwise distinct ids: however often and whenever an event is resubmitted,
    it is accepted once -/
theorem C06_kv_accepted_once (steps : List Step) :
    (((run .kv steps).accepted.filter (Ev.written .kv)).map (·.id)).Nodup := by
  have h := inv_run .kv steps
  rw [h.accepted, List.nodup_append]
  refine ⟨h.nodup, h.pend_nodup, ?_⟩
  intro a ha b hb heq
  subst heq
  obtain ⟨e, he, rfl⟩ := List.mem_map.mp hb
  exact (h.pend_fresh e he).1 ha

/-- the same on SQL (the unique id column) -/
theorem C06_sql_accepted_once (steps : List Step) :
    ((run .sql steps).accepted.map (·.id)).Nodup := by
  have h := inv_run .sql steps
  have hacc := h.accepted
  rw [h.sql_no_pend rfl] at hacc
  have : (run .sql steps).accepted.filter (Ev.written .sql) = (run .sql steps).accepted := by
    apply List.filter_eq_self.mpr
    intro a _; simp [Ev.written]
  rw [this] at hacc
  rw [hacc]; simpa using h.nodup

-- non-vacuity: the window the seeded change `C06-pending-ids-cleared-on-dequeue` opens — taken by the writer, not yet committed
example : (run .kv [.submit ⟨1, false⟩, .writerTake, .submit ⟨1, false⟩, .submit ⟨1, false⟩, .writerCommit, .submit ⟨1, false⟩]).accepted
    = [⟨1, false⟩] := by decide

end NostrRelay.Announce
