/-
C02 (front end) — the filter validation delivers what `ValidFilter` (C02General.lean) assumes about ids and authors.

`validated_hex_ok`: whatever list of strings a client puts into `ids` / `authors`, if `ids_are_hex` + `sort_fields` accept it
and every validated string has exactly 64 digits, then the byte strings the planner decodes from them are 32 bytes long and
in *strictly descending byte order* — the order `Index.scanner` relies on for its stop key — and they are exactly the decodings
of the (lower-cased) requested strings.  The two ingredients:
  * `sortFields_strict`: `sorted(set(..), reverse=True)` is strictly descending in code-point order and keeps the members;
  * `fromHex_mono`: on lower-case hex strings of one even length, decoding is strictly monotone (code-point order of the text =
    byte order of the value).  Upper-case digits would break this ('B' < 'a' as text, 0xB? > 0xa? as bytes): it is exactly why
    the lower-casing must come before the sort (seeded changes C02-sort-before-lowercase / C11-sort-before-lowercase).
`sortKinds_strict`: the same for kinds.
-/
import NostrRelay.Model.Validate
import NostrRelay.Props.C02Scan

namespace NostrRelay.Validate
open NostrRelay NostrRelay.KV

/-! ## sort_fields -/

theorem mem_insertDesc (a x : Bytes) (l : List Bytes) : x ∈ insertDesc a l ↔ x = a ∨ x ∈ l := by
  induction l with
  | nil => simp [insertDesc]
  | cons b bs ih =>
    unfold insertDesc
    split
    · simp
    · simp only [List.mem_cons, ih]
      constructor
      · rintro (h | h | h)
        · right; left; exact h
        · left; exact h
        · right; right; exact h
      · rintro (h | h | h)
        · right; left; exact h
        · left; exact h
        · right; right; exact h

theorem mem_sortFields (x : Bytes) (l : List Bytes) : x ∈ sortFields l ↔ x ∈ l := by
  unfold sortFields
  rw [List.mem_eraseDups]
  induction l with
  | nil => simp
  | cons a as ih => simp only [List.foldr_cons, mem_insertDesc, ih, List.mem_cons]

theorem insertDesc_sorted (a : Bytes) (l : List Bytes) (h : l.Pairwise (fun x y => ¬ x < y)) :
    (insertDesc a l).Pairwise (fun x y => ¬ x < y) := by
  induction l with
  | nil => simp [insertDesc]
  | cons b bs ih =>
    simp only [List.pairwise_cons] at h
    unfold insertDesc
    by_cases hba : b < a
    · simp only [hba, if_true, List.pairwise_cons]
      refine ⟨?_, h.1, h.2⟩
      intro y hy
      rcases List.mem_cons.mp hy with rfl | hy
      · exact lex_asymm hba
      · intro hay
        exact h.1 y hy (lex_trans hba hay)
    · simp only [hba, if_false, List.pairwise_cons]
      refine ⟨?_, ih h.2⟩
      intro y hy
      rcases (mem_insertDesc a y bs).mp hy with rfl | hy
      · exact hba
      · exact h.1 y hy

theorem foldr_insertDesc_sorted (l : List Bytes) : (l.foldr insertDesc []).Pairwise (fun x y => ¬ x < y) := by
  induction l with
  | nil => simp
  | cons a as ih => exact insertDesc_sorted a _ ih

theorem eraseDups_sublist {α : Type} [BEq α] [LawfulBEq α] (l : List α) : l.eraseDups.Sublist l := by
  induction hn : l.length using Nat.strongRecOn generalizing l with
  | _ n ih =>
    cases l with
    | nil => simp
    | cons a as =>
      rw [List.eraseDups_cons]
      refine List.Sublist.cons_cons a ?_
      have hlen : (as.filter fun b => !(b == a)).length < n := by
        subst hn
        simp only [List.length_cons]
        exact Nat.lt_succ_of_le (List.length_filter_le _ _)
      exact List.Sublist.trans (ih _ hlen _ rfl) List.filter_sublist

theorem nodup_eraseDups {α : Type} [BEq α] [LawfulBEq α] (l : List α) : l.eraseDups.Nodup := by
  induction hn : l.length using Nat.strongRecOn generalizing l with
  | _ n ih =>
    cases l with
    | nil => simp
    | cons a as =>
      rw [List.eraseDups_cons, List.nodup_cons]
      refine ⟨?_, ih _ ?_ _ rfl⟩
      · intro hmem
        rw [List.mem_eraseDups, List.mem_filter] at hmem
        simp at hmem
      · subst hn
        simp only [List.length_cons]
        exact Nat.lt_succ_of_le (List.length_filter_le _ _)

/-- `sorted(set(values), reverse=True)` is strictly descending -/
theorem sortFields_strict (l : List Bytes) : (sortFields l).Pairwise (fun a b => b < a) := by
  unfold sortFields
  have hs := List.Pairwise.sublist (eraseDups_sublist _) (foldr_insertDesc_sorted l)
  have hn := nodup_eraseDups (l.foldr insertDesc [])
  have := List.Pairwise.and hs hn
  refine List.Pairwise.imp ?_ this
  intro a b ⟨hge, hne⟩
  rcases lex_trichotomy a b with h | h | h
  · exact absurd h hge
  · exact absurd h hne
  · exact h

/-! ### kinds -/

theorem mem_insertDescI (a x : Int) (l : List Int) : x ∈ insertDescI a l ↔ x = a ∨ x ∈ l := by
  induction l with
  | nil => simp [insertDescI]
  | cons b bs ih =>
    unfold insertDescI
    split
    · simp
    · simp only [List.mem_cons, ih]
      constructor
      · rintro (h | h | h)
        · right; left; exact h
        · left; exact h
        · right; right; exact h
      · rintro (h | h | h)
        · right; left; exact h
        · left; exact h
        · right; right; exact h

theorem mem_sortKinds (x : Int) (l : List Int) : x ∈ sortKinds l ↔ x ∈ l := by
  unfold sortKinds
  rw [List.mem_eraseDups]
  induction l with
  | nil => simp
  | cons a as ih => simp only [List.foldr_cons, mem_insertDescI, ih, List.mem_cons]

theorem insertDescI_sorted (a : Int) (l : List Int) (h : l.Pairwise (fun x y => y ≤ x)) :
    (insertDescI a l).Pairwise (fun x y => y ≤ x) := by
  induction l with
  | nil => simp [insertDescI]
  | cons b bs ih =>
    simp only [List.pairwise_cons] at h
    unfold insertDescI
    by_cases hba : b < a
    · simp only [hba, if_true, List.pairwise_cons]
      refine ⟨?_, h.1, h.2⟩
      intro y hy
      rcases List.mem_cons.mp hy with rfl | hy
      · omega
      · have := h.1 y hy; omega
    · simp only [hba, if_false, List.pairwise_cons]
      refine ⟨?_, ih h.2⟩
      intro y hy
      rcases (mem_insertDescI a y bs).mp hy with rfl | hy
      · omega
      · exact h.1 y hy

/-- the validated kinds are strictly descending (what `kinds_mats_desc` / `kds_desc` ask for) and have the same members -/
theorem sortKinds_strict (l : List Int) : (sortKinds l).Pairwise (fun a b => b < a) := by
  unfold sortKinds
  have hsorted : (l.foldr insertDescI []).Pairwise (fun x y => y ≤ x) := by
    induction l with
    | nil => simp
    | cons a as ih => exact insertDescI_sorted a _ ih
  have hs := List.Pairwise.sublist (eraseDups_sublist _) hsorted
  have hn := nodup_eraseDups (l.foldr insertDescI [])
  have := List.Pairwise.and hs hn
  refine List.Pairwise.imp ?_ this
  intro a b ⟨hge, hne⟩
  omega

/-! ## decoding lower-case hex -/

theorem hexVal_of_isHexC (c : Nat) (h : isHexC c = true) : ∃ v, hexVal c = some v ∧ v < 16 ∧
    ((48 ≤ c ∧ c ≤ 57 ∧ v = c - 48) ∨ (97 ≤ c ∧ c ≤ 102 ∧ v = c - 87)) := by
  unfold isHexC at h
  simp only [Bool.or_eq_true, Bool.and_eq_true, decide_eq_true_eq] at h
  unfold hexVal
  rcases h with ⟨h1, h2⟩ | ⟨h1, h2⟩
  · refine ⟨c - 48, by simp [h1, h2], by omega, Or.inl ⟨h1, h2, rfl⟩⟩
  · have : ¬ (48 ≤ c ∧ c ≤ 57) := by omega
    refine ⟨c - 87, by simp [this, h1, h2], by omega, Or.inr ⟨h1, h2, rfl⟩⟩

theorem not_space_of_isHexC (c : Nat) (h : isHexC c = true) : isHexSpace c = false := by
  unfold isHexC at h
  simp only [Bool.or_eq_true, Bool.and_eq_true, decide_eq_true_eq] at h
  unfold isHexSpace
  simp only [Bool.or_eq_false_iff, beq_eq_false_iff_ne, ne_eq, Bool.and_eq_false_iff, decide_eq_false_iff_not]
  constructor
  · omega
  · omega

/-- a lower-case hex string of length 2n decodes to n bytes -/
theorem fromHex_some (n : Nat) : ∀ s : Bytes, s.length = 2 * n → s.all isHexC = true →
    ∃ d, pyFromHex s = some d ∧ d.length = n := by
  induction n with
  | zero =>
    intro s hl _
    have : s = [] := List.eq_nil_of_length_eq_zero (by omega)
    subst this
    exact ⟨[], rfl, rfl⟩
  | succ n ih =>
    intro s hl hall
    match s, hl with
    | c :: d :: rest, hl =>
      simp only [List.all_cons, Bool.and_eq_true] at hall
      obtain ⟨hc, hd, hrest⟩ := hall
      obtain ⟨vc, hvc, _, _⟩ := hexVal_of_isHexC c hc
      obtain ⟨vd, hvd, _, _⟩ := hexVal_of_isHexC d hd
      obtain ⟨dr, hdr, hlr⟩ := ih rest (by simp only [List.length_cons] at hl; omega) hrest
      refine ⟨(vc * 16 + vd) :: dr, ?_, by simp [hlr]⟩
      unfold pyFromHex
      simp [not_space_of_isHexC c hc, hvc, hvd, hdr]

/-- on lower-case hex strings of one even length, decoding is strictly monotone -/
theorem fromHex_mono (n : Nat) : ∀ a b da db : Bytes, a.length = 2 * n → b.length = 2 * n →
    a.all isHexC = true → b.all isHexC = true → pyFromHex a = some da → pyFromHex b = some db → a < b → da < db := by
  induction n with
  | zero =>
    intro a b da db hla hlb _ _ _ _ hlt
    have ha : a = [] := List.eq_nil_of_length_eq_zero (by omega)
    have hb : b = [] := List.eq_nil_of_length_eq_zero (by omega)
    subst ha hb
    exact absurd hlt (List.lt_irrefl _)
  | succ n ih =>
    intro a b da db hla hlb halla hallb hda hdb hlt
    match a, hla, b, hlb with
    | c1 :: c2 :: ra, hla, d1 :: d2 :: rb, hlb =>
      simp only [List.all_cons, Bool.and_eq_true] at halla hallb
      obtain ⟨hc1, hc2, hra⟩ := halla
      obtain ⟨hd1, hd2, hrb⟩ := hallb
      obtain ⟨v1, hv1, hb1, hf1⟩ := hexVal_of_isHexC c1 hc1
      obtain ⟨v2, hv2, hb2, hf2⟩ := hexVal_of_isHexC c2 hc2
      obtain ⟨w1, hw1, hb3, hf3⟩ := hexVal_of_isHexC d1 hd1
      obtain ⟨w2, hw2, hb4, hf4⟩ := hexVal_of_isHexC d2 hd2
      have hlra : ra.length = 2 * n := by simp only [List.length_cons] at hla; omega
      have hlrb : rb.length = 2 * n := by simp only [List.length_cons] at hlb; omega
      obtain ⟨dra, hdra, _⟩ := fromHex_some n ra hlra hra
      obtain ⟨drb, hdrb, _⟩ := fromHex_some n rb hlrb hrb
      have ea : da = (v1 * 16 + v2) :: dra := by
        unfold pyFromHex at hda
        simp [not_space_of_isHexC c1 hc1, hv1, hv2, hdra] at hda
        exact hda.symm
      have eb : db = (w1 * 16 + w2) :: drb := by
        unfold pyFromHex at hdb
        simp [not_space_of_isHexC d1 hd1, hw1, hw2, hdrb] at hdb
        exact hdb.symm
      subst ea eb
      rcases List.cons_lt_cons_iff.mp hlt with h1 | ⟨e1, hlt2⟩
      · apply List.cons_lt_cons_iff.mpr; left
        rcases hf1 with ⟨_, _, r1⟩ | ⟨_, _, r1⟩ <;> rcases hf3 with ⟨_, _, r3⟩ | ⟨_, _, r3⟩ <;> omega
      · subst e1
        have ev : v1 = w1 := by rw [hv1] at hw1; exact Option.some.inj hw1
        subst ev
        rcases List.cons_lt_cons_iff.mp hlt2 with h2 | ⟨e2, hlt3⟩
        · apply List.cons_lt_cons_iff.mpr; left
          rcases hf2 with ⟨_, _, r2⟩ | ⟨_, _, r2⟩ <;> rcases hf4 with ⟨_, _, r4⟩ | ⟨_, _, r4⟩ <;> omega
        · subst e2
          have ev2 : v2 = w2 := by rw [hv2] at hw2; exact Option.some.inj hw2
          subst ev2
          apply List.cons_lt_cons_iff.mpr; right
          exact ⟨rfl, ih ra rb dra drb hlra hlrb hra hrb hdra hdrb hlt3⟩

/-! ## ids_are_hex -/

theorem idsAreHex_spec : ∀ (raw hs : List Bytes), idsAreHex raw = some hs →
    hs = raw.map (fun h => h.map lowerC) ∧ ∀ h ∈ hs, h.all isHexC = true ∧ 64 ≤ h.length := by
  intro raw
  induction raw with
  | nil => intro hs h; simp [idsAreHex] at h; subst h; simp
  | cons r t ih =>
    intro hs h
    unfold idsAreHex at h
    simp only at h
    split at h
    · rename_i hc
      simp only [Bool.and_eq_true, decide_eq_true_eq] at hc
      cases ht : idsAreHex t with
      | none => simp [ht] at h
      | some ts =>
        simp only [ht, Option.map_some, Option.some.injEq] at h
        subst h
        obtain ⟨e, hall⟩ := ih ts ht
        refine ⟨by simp [e], ?_⟩
        intro x hx
        rcases List.mem_cons.mp hx with rfl | hx
        · exact hc
        · exact hall x hx
    · cases h

/-- lower-case hex strings of 64 digits in strictly descending text order decode to 32-byte strings in strictly descending
    byte order -/
theorem decode_desc (hs : List Bytes) (h64 : ∀ x ∈ hs, x.length = 64) (hall : ∀ x ∈ hs, x.all isHexC = true)
    (hdesc : hs.Pairwise (fun a b => b < a)) :
    ∃ ds : List Bytes, hs.map pyFromHex = ds.map some ∧ (∀ d ∈ ds, d.length = 32) ∧ ds.Pairwise (fun a b => b < a) := by
  induction hs with
  | nil => exact ⟨[], rfl, by simp, by simp⟩
  | cons x xs ih =>
    simp only [List.pairwise_cons] at hdesc
    obtain ⟨ds, h1, h2, h3⟩ := ih (fun z hz => h64 z (List.mem_cons_of_mem _ hz)) (fun z hz => hall z (List.mem_cons_of_mem _ hz)) hdesc.2
    obtain ⟨d, hd, hdl⟩ := fromHex_some 32 x (by rw [h64 x List.mem_cons_self]) (hall x List.mem_cons_self)
    refine ⟨d :: ds, by simp [hd, h1], ?_, ?_⟩
    · intro z hz
      rcases List.mem_cons.mp hz with rfl | hz
      · exact hdl
      · exact h2 z hz
    · simp only [List.pairwise_cons]
      refine ⟨?_, h3⟩
      intro dz hdz
      have : some dz ∈ ds.map some := List.mem_map.mpr ⟨dz, hdz, rfl⟩
      rw [← h1] at this
      obtain ⟨z, hz, hze⟩ := List.mem_map.mp this
      exact fromHex_mono 32 z x dz d (by rw [h64 z (List.mem_cons_of_mem _ hz)]) (by rw [h64 x List.mem_cons_self])
        (hall z (List.mem_cons_of_mem _ hz)) (hall x List.mem_cons_self) hze hd (hdesc.1 z hz)

/-- **C02 (filter validation)** — the decoded ids / authors of a validated filter whose strings have 64 digits are 32-byte
    strings in strictly descending byte order, and the validated strings are exactly the requested ones, lower-cased -/
theorem validated_hex_ok (raw hs : List Bytes) (h : validateHexList raw = some hs) (h64 : ∀ x ∈ hs, x.length = 64) :
    ∃ ds : List Bytes, hs.map pyFromHex = ds.map some ∧ (∀ d ∈ ds, d.length = 32) ∧ ds.Pairwise (fun a b => b < a) ∧
      (∀ x, x ∈ hs ↔ x ∈ raw.map (fun r => r.map lowerC)) := by
  unfold validateHexList at h
  cases hi : idsAreHex raw with
  | none => simp [hi] at h
  | some hs0 =>
    simp only [hi, Option.map_some, Option.some.injEq] at h
    obtain ⟨e0, hall0⟩ := idsAreHex_spec raw hs0 hi
    have hmem : ∀ x, x ∈ hs ↔ x ∈ hs0 := by intro x; rw [← h]; exact mem_sortFields x hs0
    have hall : ∀ x ∈ hs, x.all isHexC = true := fun x hx => (hall0 x ((hmem x).mp hx)).1
    have hdesc : hs.Pairwise (fun a b => b < a) := by rw [← h]; exact sortFields_strict hs0
    obtain ⟨ds, h1, h2, h3⟩ := decode_desc hs h64 hall hdesc
    exact ⟨ds, h1, h2, h3, fun x => by rw [hmem x, e0]⟩

-- non-vacuity, and why the order of the two steps matters: mixed-case input, lower-cased first, comes out descending;
-- sorted on its raw spelling first it would not
example :
    let a := ascii ("B" ++ String.ofList (List.replicate 63 '0'))      -- "B000…"
    let b := ascii ("a" ++ String.ofList (List.replicate 63 '0'))      -- "a000…"
    (validateHexList [a, b]).map (fun hs => hs.map (fun h => (pyFromHex h).map (·.head!))) = some [some 0xb0, some 0xa0]
    ∧ (sortFields [a, b]).map (fun h => (pyFromHex (h.map lowerC)).map (·.head!)) = [some 0xa0, some 0xb0] := by
  decide +kernel

end NostrRelay.Validate
