/-
C01 (SQL, text level) — the colon escaping added by the `fix:` commit for `sql-text-bind-colon`.

The REQ statement is assembled as text and handed to `sqlalchemy.text()`, which (1) turns every
`:word` not preceded by `:`, a word character or a backslash into a bind parameter and (2), when the
statement is compiled, rewrites `\:` back to `:`.  The relay now writes every `:` of a tag value or
name as `\:`.  Modelled here: the escaping, the two facts about `text()` that matter, and the
composition with the quote doubling of `C01_sql_quote_roundtrip`.  The regular-expression engine
itself is trusted; the correspondence check compares the literals of the compiled statement with
the filter values for an adversarial value pool (`:w`, `x\:y`, `a :b`, `::`, …).
-/
import NostrRelay.Props.C01

namespace NostrRelay.SQL
open NostrRelay

/-- `val.replace(":", "\\:")` -/
def escColon (v : Bytes) : Bytes := v.flatMap fun c => if c = 58 then [92, 58] else [c]

/-- what `text()` compilation does to colon-escaped text: the backslash before a colon goes -/
def unescColon : Bytes → Bytes
  | 92 :: 58 :: rest => 58 :: unescColon rest
  | c :: rest => c :: unescColon rest
  | [] => []

/-- every colon of the text is immediately preceded by a backslash (`prev` = the character before
    the text, if any) -/
def colonsEscaped : Option Nat → Bytes → Bool
  | _, [] => true
  | prev, c :: rest => (c != 58 || prev == some 92) && colonsEscaped (some c) rest

theorem escColon_cons (c : Nat) (v : Bytes) :
    escColon (c :: v) = (if c = 58 then [92, 58] else [c]) ++ escColon v := by
  simp [escColon]

theorem escColon_head_ne_colon (v : Bytes) : (escColon v).head? ≠ some 58 := by
  cases v with
  | nil => simp [escColon]
  | cons c rest =>
    rw [escColon_cons]
    by_cases h : c = 58
    · simp [h]
    · simp [h]

theorem unescColon_cons (c d : Nat) (r : Bytes) (h : ¬ (c = 92 ∧ d = 58)) :
    unescColon (c :: d :: r) = c :: unescColon (d :: r) := by
  rw [unescColon.eq_def]
  split
  · rename_i heq
    simp only [List.cons.injEq] at heq
    exact absurd ⟨heq.1, heq.2.1⟩ h
  · rename_i heq
    simp only [List.cons.injEq] at heq
    obtain ⟨h1, h2⟩ := heq
    subst h1; subst h2; rfl
  · rename_i heq; cases heq

/-- **the escaped text reads back as the value** -/
theorem unescColon_escColon (v : Bytes) : unescColon (escColon v) = v := by
  induction v with
  | nil => simp [escColon, unescColon]
  | cons c rest ih =>
    rw [escColon_cons]
    by_cases h : c = 58
    · subst h
      simp only [if_true, List.cons_append, List.nil_append, unescColon, ih]
    · simp only [h, if_false, List.cons_append, List.nil_append]
      -- the pattern `92 :: 58 :: _` cannot fire here: the escaped rest never starts with a colon
      have hne := escColon_head_ne_colon rest
      cases hr : escColon rest with
      | nil =>
        rw [hr] at ih
        have : rest = [] := by simpa [unescColon] using ih.symm
        subst this
        simp [unescColon]
      | cons d rest' =>
        rw [hr] at ih hne
        have hd : d ≠ 58 := by simpa using hne
        rw [unescColon_cons c d rest' (fun hh => hd hh.2), ih]

/-- **no colon of the escaped text can start a bind parameter**: each is preceded by a backslash,
    whatever precedes the text (the bind pattern is `(?<![:\w\x5c]):(\w+)(?!:)`) -/
theorem escColon_colonsEscaped (v : Bytes) (prev : Option Nat) : colonsEscaped prev (escColon v) = true := by
  induction v generalizing prev with
  | nil => simp [escColon, colonsEscaped]
  | cons c rest ih =>
    rw [escColon_cons]
    by_cases h : c = 58
    · subst h
      simp only [if_true, List.cons_append, List.nil_append, colonsEscaped]
      simp [ih]
    · simp only [h, if_false, List.cons_append, List.nil_append, colonsEscaped]
      simp [h, ih]

/-- text whose colons are escaped, followed by a piece whose colons are escaped whatever precedes
    it, is text whose colons are escaped -/
theorem colonsEscaped_append (a b : Bytes) (p : Option Nat) (ha : colonsEscaped p a = true)
    (hb : ∀ q, colonsEscaped q b = true) : colonsEscaped p (a ++ b) = true := by
  induction a generalizing p with
  | nil => simpa using hb p
  | cons c rest ih =>
    simp only [colonsEscaped, Bool.and_eq_true] at ha
    simp only [List.cons_append, colonsEscaped, Bool.and_eq_true]
    exact ⟨ha.1, ih (some c) ha.2⟩

/-- a piece without any colon (the fixed parts of the statement, hex literals, numbers) -/
theorem colonsEscaped_of_no_colon (t : Bytes) (h : 58 ∉ t) (p : Option Nat) : colonsEscaped p t = true := by
  induction t generalizing p with
  | nil => rfl
  | cons c rest ih =>
    simp only [List.mem_cons, not_or] at h
    simp only [colonsEscaped, Bool.and_eq_true]
    refine ⟨?_, ih h.2 (some c)⟩
    have : c ≠ 58 := fun e => h.1 e.symm
    simp [this]

/-- the quoted, colon-escaped literal the relay writes for a tag value -/
def sqlLiteral (v : Bytes) : Bytes := [39] ++ escColon (v.flatMap fun c => if c = 39 then [39, 39] else [c]) ++ [39]

/-- **C01 (SQL text, after the fix)** — the literal written for any tag value contains no colon that
    could start a bind parameter, and after `text()` has removed the escapes the SQL engine reads
    exactly the value back, with the rest of the statement untouched -/
theorem C01_sql_literal_roundtrip (v rest : Bytes) (hr : rest.head? ≠ some 39) :
    (∀ p, colonsEscaped p (sqlLiteral v) = true) ∧
    sqlReadLit (unescColon (sqlLiteral v) ++ rest) = some (v, rest) := by
  constructor
  · intro p
    unfold sqlLiteral
    rw [List.append_assoc]
    refine colonsEscaped_append [39] _ p (by simp [colonsEscaped]) ?_
    intro q
    exact colonsEscaped_append _ [39] q (escColon_colonsEscaped _ q) (fun r => by simp [colonsEscaped])
  · -- unescaping commutes with the surrounding quotes
    have hun : unescColon (sqlLiteral v) = sqlQuote v := by
      unfold sqlLiteral sqlQuote
      generalize (v.flatMap fun c => if c = 39 then [39, 39] else [c]) = body
      -- leading quote
      have h1 : ∀ t : Bytes, unescColon ([39] ++ t) = 39 :: unescColon t := by
        intro t
        cases t with
        | nil => simp [unescColon]
        | cons d r => exact unescColon_cons 39 d r (by simp)
      rw [List.append_assoc, h1]
      -- trailing quote: unescColon (escColon body ++ [39]) = body ++ [39]
      have h2 : ∀ b : Bytes, unescColon (escColon b ++ [39]) = b ++ [39] := by
        intro b
        induction b with
        | nil => simp [escColon, unescColon]
        | cons c r ih =>
          rw [escColon_cons]
          by_cases h : c = 58
          · subst h
            simp only [if_true, List.cons_append, List.nil_append, unescColon, ih]
          · simp only [h, if_false, List.cons_append, List.nil_append]
            cases hr' : escColon r ++ [39] with
            | nil => simp at hr'
            | cons d r' =>
              have hd : d ≠ 58 := by
                have := escColon_head_ne_colon r
                cases he : escColon r with
                | nil => rw [he] at hr'; simp at hr'; omega
                | cons x xs => rw [he] at hr' this; simp at hr' this; omega
              rw [hr'] at ih
              rw [unescColon_cons c d r' (fun hh => hd hh.2), ih]
      simp [h2]
    rw [hun]
    exact C01_sql_quote_roundtrip v rest hr

-- the values that used to change the statement
example : unescColon (escColon [58, 119]) = [58, 119] ∧ colonsEscaped (some 39) (escColon [58, 119]) = true := by decide
example : unescColon (escColon [120, 92, 58, 121]) = [120, 92, 58, 121] := by decide

end NostrRelay.SQL
