/-
C11 on the LMDB backend at the level of a REQ filter, for every history of writer tasks and whichever plan the
planner makes: the answer is *exactly* the stored events that match (soundness C01 + completeness C02), hence

  * it depends on the store only through its stored matching events — data that does not match cannot change it
    (`C11_kv_filter_unrelated_data`);
  * a narrower filter is answered with a subset (`C11_kv_filter_narrowing`);
  * a filter whose matches are the union of two others' is answered with the union (`C11_kv_filter_union`).

`Exact f s`: in the store no event is matched by the generous reading only (none sits on a `since` / `until` bound, none is
matched through a NIP-26 delegator alone) — inside that freedom the property lets an implementation answer either way.
`Untruncated`: the limit does not cut the answer (C12's business).
-/
import NostrRelay.Props.C02General
import NostrRelay.Props.C11
namespace NostrRelay.KV
open NostrRelay

/-- no stored event is matched by the generous reading alone -/
def Exact (f : Filter) (s : Store) : Prop :=
  ∀ id e, getEvent s id = some e → matchesSpec false f e = true → matchesSpec true f e = true

/-- the plan's limit does not truncate the answer -/
def Untruncated (s : Store) (p : Plan) : Prop :=
  ∀ n cands, p.limit = some n → planCandidates s p = some cands → (planHits s p.filter cands).length ≤ n

/-- the strict reading implies the generous one -/
theorem strict_generous (f : Filter) (e : Event) (h : matchesSpec true f e = true) : matchesSpec false f e = true := by
  unfold matchesSpec at h ⊢
  simp only [Bool.and_eq_true] at h ⊢
  obtain ⟨⟨⟨⟨⟨h1, h2⟩, h3⟩, h4⟩, h5⟩, h6⟩ := h
  refine ⟨⟨⟨⟨⟨h1, ?_⟩, h3⟩, ?_⟩, ?_⟩, h6⟩
  · cases hf : f.authors with
    | none => simp
    | some l => simp only [hf] at h2 ⊢; simp only [Bool.or_eq_true] at h2 ⊢; cases h2 with
      | inl h => exact Or.inl h
      | inr h => simp at h
  · cases hf : f.since with
    | none => simp
    | some x => simp only [hf, if_true] at h4; simp only [Bool.false_eq_true, if_false, decide_eq_true_eq] at h4 ⊢; omega
  · cases hf : f.until_ with
    | none => simp
    | some x => simp only [hf, if_true] at h5; simp only [Bool.false_eq_true, if_false, decide_eq_true_eq] at h5 ⊢; omega

/-- **the answer, exactly**: over every history of writer tasks, for every validated filter and the plan made for it, an id is
    delivered iff it is the id of a stored event that matches the filter -/
theorem C11_kv_filter_exact (tasks : List Task) (hwf : ∀ t ∈ tasks, t.wfn) (hwfp : ∀ t ∈ tasks, t.wfp)
    (f : Filter) (hv : ValidFilter f) (dl : Option Nat) (ml : Nat) (p : Plan) (hp : planFilter f dl ml = some p)
    (hex : Exact f (applyTasks init tasks)) (hun : Untruncated (applyTasks init tasks) p) (id : Bytes) :
    id ∈ executePlan (applyTasks init tasks) p ↔
      ∃ e, getEvent (applyTasks init tasks) id = some e ∧ e.id = id ∧ matchesSpec true f e = true := by
  have hc : Coh (applyTasks init tasks) := C10_coherent_reachable tasks fun t ht => wfn_wf t (hwf t ht)
  constructor
  · intro h
    obtain ⟨e, hg, hid, hm⟩ := C01_kv_sound _ hc f dl ml p hp id h
    exact ⟨e, hg, hid, hex id e hg hm⟩
  · rintro ⟨e, hg, hid, hm⟩
    subst hid
    exact C02_kv_filter_complete tasks hwf hwfp f hv dl ml p hp e hg hm hun

/-- **C11 (LMDB, unrelated data)**: two histories whose stores hold the same matching events are answered alike —
    whatever else was added, replaced, deleted or collected in either of them -/
theorem C11_kv_filter_unrelated_data (tasks tasks' : List Task)
    (hwf : ∀ t ∈ tasks, t.wfn) (hwfp : ∀ t ∈ tasks, t.wfp) (hwf' : ∀ t ∈ tasks', t.wfn) (hwfp' : ∀ t ∈ tasks', t.wfp)
    (f : Filter) (hv : ValidFilter f) (dl : Option Nat) (ml : Nat) (p : Plan) (hp : planFilter f dl ml = some p)
    (hex : Exact f (applyTasks init tasks)) (hex' : Exact f (applyTasks init tasks'))
    (hun : Untruncated (applyTasks init tasks) p) (hun' : Untruncated (applyTasks init tasks') p)
    (hsame : ∀ id e, matchesSpec true f e = true →
      (getEvent (applyTasks init tasks) id = some e ↔ getEvent (applyTasks init tasks') id = some e))
    (id : Bytes) :
    id ∈ executePlan (applyTasks init tasks) p ↔ id ∈ executePlan (applyTasks init tasks') p := by
  rw [C11_kv_filter_exact tasks hwf hwfp f hv dl ml p hp hex hun id,
    C11_kv_filter_exact tasks' hwf' hwfp' f hv dl ml p hp hex' hun' id]
  constructor
  · rintro ⟨e, hg, hid, hm⟩; exact ⟨e, (hsame id e hm).1 hg, hid, hm⟩
  · rintro ⟨e, hg, hid, hm⟩; exact ⟨e, (hsame id e hm).2 hg, hid, hm⟩

/-- the generous reading is monotone under narrowing (like the residual predicate, `C11_kv_residual_monotone`) -/
theorem matchesSpec_mono (f' f : Filter) (hr : Refines f' f) (e : Event)
    (h : matchesSpec false f' e = true) : matchesSpec false f e = true := by
  unfold matchesSpec at h ⊢
  simp only [Bool.and_eq_true] at h ⊢
  obtain ⟨⟨⟨⟨⟨h1, h2⟩, h3⟩, h4⟩, h5⟩, h6⟩ := h
  refine ⟨⟨⟨⟨⟨?_, ?_⟩, ?_⟩, ?_⟩, ?_⟩, ?_⟩
  · cases hf : f.ids with
    | none => simp
    | some l => obtain ⟨l', hl', hsub⟩ := hr.ids l hf; simp only [hl'] at h1; exact contains_mono l l' _ hsub h1
  · cases hf : f.authors with
    | none => simp
    | some l =>
      obtain ⟨l', hl', hsub⟩ := hr.authors l hf
      simp only [hl', Bool.not_false, Bool.true_and, Bool.or_eq_true] at h2
      simp only [Bool.not_false, Bool.true_and, Bool.or_eq_true]
      cases h2 with
      | inl h => exact Or.inl (contains_mono l l' _ hsub h)
      | inr h =>
        right
        simp only [List.any_eq_true] at h ⊢
        obtain ⟨d, hd, a, ha, hda⟩ := h
        exact ⟨d, hd, a, hsub a ha, hda⟩
  · cases hf : f.kinds with
    | none => simp
    | some l => obtain ⟨l', hl', hsub⟩ := hr.kinds l hf; simp only [hl'] at h3; exact contains_mono l l' _ hsub h3
  · cases hf : f.since with
    | none => simp
    | some x =>
      obtain ⟨x', hx', hle⟩ := hr.since x hf
      simp only [hx', Bool.false_eq_true, if_false, decide_eq_true_eq] at h4
      simp only [Bool.false_eq_true, if_false, decide_eq_true_eq]; omega
  · cases hf : f.until_ with
    | none => simp
    | some x =>
      obtain ⟨x', hx', hle⟩ := hr.until_ x hf
      simp only [hx', Bool.false_eq_true, if_false, decide_eq_true_eq] at h5
      simp only [Bool.false_eq_true, if_false, decide_eq_true_eq]; omega
  · simp only [List.all_eq_true] at h6 ⊢
    intro t ht
    obtain ⟨t', ht', hname, hvals⟩ := hr.tags t ht
    have := h6 t' ht'
    simp only [List.any_eq_true, Bool.and_eq_true] at this ⊢
    obtain ⟨tg, htg, ⟨hhead, hlen⟩, hval⟩ := this
    refine ⟨tg, htg, ⟨?_, hlen⟩, ?_⟩
    · rw [← hname]; exact hhead
    · exact contains_mono t.2 t'.2 _ hvals hval

/-- **C11 (LMDB, monotone in the filter)**: a narrower filter (a condition added, values removed, the window shrunk) is answered
    with a subset of the wider filter's answer -/
theorem C11_kv_filter_narrowing (tasks : List Task) (hwf : ∀ t ∈ tasks, t.wfn) (hwfp : ∀ t ∈ tasks, t.wfp)
    (f' f : Filter) (hr : Refines f' f) (hv : ValidFilter f)
    (dl : Option Nat) (ml : Nat) (p' p : Plan) (hp' : planFilter f' dl ml = some p') (hp : planFilter f dl ml = some p)
    (hex : Exact f (applyTasks init tasks)) (hun : Untruncated (applyTasks init tasks) p)
    (id : Bytes) (h : id ∈ executePlan (applyTasks init tasks) p') :
    id ∈ executePlan (applyTasks init tasks) p := by
  have hc : Coh (applyTasks init tasks) := C10_coherent_reachable tasks fun t ht => wfn_wf t (hwf t ht)
  obtain ⟨e, hg, hid, hm⟩ := C01_kv_sound _ hc f' dl ml p' hp' id h
  have hm2 := hex id e hg (matchesSpec_mono f' f hr e hm)
  subst hid
  exact C02_kv_filter_complete tasks hwf hwfp f hv dl ml p hp e hg hm2 hun

/-- **C11 (LMDB, several values = the union of the single values)**: if an event matches `f` exactly when it matches `f₁` or `f₂`
    (e.g. the values of one condition split in two), the answer to `f` is the union of the answers to `f₁` and `f₂` -/
theorem C11_kv_filter_union (tasks : List Task) (hwf : ∀ t ∈ tasks, t.wfn) (hwfp : ∀ t ∈ tasks, t.wfp)
    (f f₁ f₂ : Filter) (hv : ValidFilter f) (hv₁ : ValidFilter f₁) (hv₂ : ValidFilter f₂)
    (dl : Option Nat) (ml : Nat) (p p₁ p₂ : Plan)
    (hp : planFilter f dl ml = some p) (hp₁ : planFilter f₁ dl ml = some p₁) (hp₂ : planFilter f₂ dl ml = some p₂)
    (hex : Exact f (applyTasks init tasks)) (hex₁ : Exact f₁ (applyTasks init tasks)) (hex₂ : Exact f₂ (applyTasks init tasks))
    (hun : Untruncated (applyTasks init tasks) p) (hun₁ : Untruncated (applyTasks init tasks) p₁)
    (hun₂ : Untruncated (applyTasks init tasks) p₂)
    (hsplit : ∀ e, matchesSpec true f e = (matchesSpec true f₁ e || matchesSpec true f₂ e))
    (id : Bytes) :
    id ∈ executePlan (applyTasks init tasks) p ↔
      id ∈ executePlan (applyTasks init tasks) p₁ ∨ id ∈ executePlan (applyTasks init tasks) p₂ := by
  rw [C11_kv_filter_exact tasks hwf hwfp f hv dl ml p hp hex hun id,
    C11_kv_filter_exact tasks hwf hwfp f₁ hv₁ dl ml p₁ hp₁ hex₁ hun₁ id,
    C11_kv_filter_exact tasks hwf hwfp f₂ hv₂ dl ml p₂ hp₂ hex₂ hun₂ id]
  constructor
  · rintro ⟨e, hg, hid, hm⟩
    rw [hsplit e, Bool.or_eq_true] at hm
    cases hm with
    | inl h => exact Or.inl ⟨e, hg, hid, h⟩
    | inr h => exact Or.inr ⟨e, hg, hid, h⟩
  · rintro (⟨e, hg, hid, hm⟩ | ⟨e, hg, hid, hm⟩)
    · exact ⟨e, hg, hid, by rw [hsplit e, hm]; rfl⟩
    · exact ⟨e, hg, hid, by rw [hsplit e, hm]; simp⟩

/-- non-vacuity of the splitting hypothesis: the kinds condition [7, 1] matches exactly what [7] or [1] match -/
example (e : Event) :
    matchesSpec true { ids := none, authors := none, kinds := some [7, 1], since := none, until_ := none, limit := none, tags := [] } e =
      (matchesSpec true { ids := none, authors := none, kinds := some [7], since := none, until_ := none, limit := none, tags := [] } e
       || matchesSpec true { ids := none, authors := none, kinds := some [1], since := none, until_ := none, limit := none, tags := [] } e) := by
  simp [matchesSpec]

/-- non-vacuity of `Exact`: a filter without time bounds and without authors is exact on every store -/
theorem exact_of_no_bounds (f : Filter) (s : Store) (hs : f.since = none) (hu : f.until_ = none) (ha : f.authors = none) :
    Exact f s := by
  intro id e _ h
  unfold matchesSpec at h ⊢
  simpa [hs, hu, ha] using h

end NostrRelay.KV
