/-
C18 — Rate limits bound admitted messages per window and do not over-block.

Theorems about `NostrRelay.RateLimiter` (model of rate_limiter.py).  All are for every rule list,
every (non-decreasing) arrival sequence of any length and every window position.
-/
import NostrRelay.Model.RateLimiter

namespace NostrRelay.RateLimiter

/-! ## helper lemmas -/

/-- number of deque entries younger than `interval` at time `now` -/
def within (now interval : Int) (dq : Deque) : Nat := dq.countP (fun ts => decide (now - ts < interval))

theorem scanRule_iff (now I freq : Int) (dq : Deque) (c : Int) (hc : c < freq) :
    scanRule now I freq dq c = true ↔ freq ≤ c + within now I dq := by
  induction dq generalizing c with
  | nil => simp [scanRule, within]; omega
  | cons ts rest ih =>
    unfold scanRule
    by_cases h : now - ts < I
    · simp only [h, if_true]
      by_cases h2 : c + 1 = freq
      · simp [h2, within, List.countP_cons, h]; omega
      · simp only [h2, if_false]
        rw [ih (c + 1) (by omega)]
        simp [within, List.countP_cons, h]; omega
    · simp only [h, if_false]
      have : c ≠ freq := by omega
      simp only [this, if_false]
      rw [ih c hc]
      simp [within, List.countP_cons, h]

/-- a rule with a negative count never limits (`n = -1` exempts) -/
theorem scanRule_neg (now I freq : Int) (dq : Deque) (c : Int) (hf : freq < 0) (hc : 0 ≤ c) :
    scanRule now I freq dq c = false := by
  induction dq generalizing c with
  | nil => simp [scanRule]
  | cons ts rest ih =>
    unfold scanRule
    by_cases h : now - ts < I
    · simp only [h, if_true]
      have : c + 1 ≠ freq := by omega
      simp only [this, if_false]
      exact ih (c + 1) (by omega)
    · simp only [h, if_false]
      have : c ≠ freq := by omega
      simp only [this, if_false]
      exact ih c hc

theorem le_foldl_max (rs : List Rule) (m : Int) :
    m ≤ rs.foldl (fun m x => max m x.interval) m ∧
    ∀ r ∈ rs, r.interval ≤ rs.foldl (fun m x => max m x.interval) m := by
  induction rs generalizing m with
  | nil => simp
  | cons x xs ih =>
    simp only [List.foldl_cons, List.mem_cons]
    have h := ih (max m x.interval)
    refine ⟨by omega, ?_⟩
    intro r hr
    rcases hr with rfl | hr
    · omega
    · exact h.2 r hr

theorem le_maxInterval (rules : List Rule) (r : Rule) (hr : r ∈ rules) :
    r.interval ≤ maxInterval rules := by
  cases rules with
  | nil => simp at hr
  | cons x xs =>
    simp only [maxInterval]
    have h := le_foldl_max xs x.interval
    rcases List.mem_cons.mp hr with rfl | hr
    · exact h.1
    · exact h.2 r hr

/-! ## one deque under one rule list: the history invariant -/

/-- Run `visit` at each of the given times on one deque.  Returns the admitted times (newest first)
    and the final deque; `none` if Python would raise. -/
def run (rules : List Rule) : List Int → Deque → List Int → Option (List Int × Deque)
  | [], dq, adm => some (adm, dq)
  | t :: ts, dq, adm =>
    match visit rules dq t with
    | none => none
    | some (true, dq') => run rules ts dq' adm
    | some (false, dq') => run rules ts dq' (t :: adm)

/-- count of admitted times inside the half-open window `[a, a + len)` -/
def inWindow (a len : Int) (l : List Int) : Nat := l.countP (fun t => decide (a ≤ t ∧ t < a + len))

/-- History invariant: the admitted history is the deque followed by entries that were cleared
    because they were older than the longest interval; nothing is newer than `lb`. -/
structure Inv (rules : List Rule) (lb : Int) (dq : Deque) (adm : List Int) : Prop where
  split : ∃ old, adm = dq ++ old ∧ ∀ t ∈ old, t + maxInterval rules < lb
  le_lb : ∀ t ∈ adm, t ≤ lb
  head_max : ∀ t0 rest, dq = t0 :: rest → ∀ t ∈ rest, t ≤ t0
  bound : ∀ r ∈ rules, 1 ≤ r.freq → ∀ a, inWindow a r.interval adm ≤ r.freq.toNat

theorem inWindow_le_within (a I now : Int) (dq : Deque) (h : now < a + I) :
    inWindow a I dq ≤ within now I dq := by
  unfold inWindow within
  apply List.countP_mono_left
  intro t _ ht
  simp only [decide_eq_true_eq] at ht ⊢
  omega

theorem inWindow_old_zero (a I now M : Int) (old : List Int) (hI : I ≤ M)
    (hold : ∀ t ∈ old, t + M < now) (h2 : now < a + I) : inWindow a I old = 0 := by
  unfold inWindow
  rw [List.countP_eq_zero]
  intro t ht
  have := hold t ht
  simp only [decide_eq_true_eq]
  omega

theorem inWindow_append (a I : Int) (l1 l2 : List Int) :
    inWindow a I (l1 ++ l2) = inWindow a I l1 + inWindow a I l2 := by
  simp [inWindow, List.countP_append]

theorem inWindow_cons (a I now : Int) (l : List Int) :
    inWindow a I (now :: l) = inWindow a I l + (if a ≤ now ∧ now < a + I then 1 else 0) := by
  simp [inWindow, List.countP_cons]

/-- `rules.any scanRule = false` gives, for each counting rule, fewer than `freq` recent entries -/
theorem not_limited_within (rules : List Rule) (now : Int) (dq : Deque)
    (h : rules.any (fun r => scanRule now r.interval r.freq dq 0) = false)
    (r : Rule) (hr : r ∈ rules) (hf : 1 ≤ r.freq) : (within now r.interval dq : Int) < r.freq := by
  rw [List.any_eq_false] at h
  have h1 := h r hr
  have h2 := scanRule_iff now r.interval r.freq dq 0 (by omega)
  simp only [Int.zero_add] at h2
  by_cases hc : (within now r.interval dq : Int) < r.freq
  · exact hc
  · exact absurd (h2.mpr (by omega)) h1

/-- Adding `now` to a history all of whose entries inside any window ending after `now` are
    bounded by `k < freq` keeps every window within `freq`. -/
theorem bound_step (adm : List Int) (now I : Int) (f : Int) (hf : 1 ≤ f)
    (hb : ∀ a, inWindow a I adm ≤ f.toNat)
    (hnew : ∀ a, a ≤ now → now < a + I → (inWindow a I adm : Int) < f) :
    ∀ a, inWindow a I (now :: adm) ≤ f.toNat := by
  intro a
  rw [inWindow_cons]
  by_cases hw : a ≤ now ∧ now < a + I
  · simp only [hw, and_self, if_true]
    have := hnew a hw.1 hw.2
    omega
  · simp only [hw, if_false, Nat.add_zero]
    exact hb a

/-- one admission step preserves the invariant -/
theorem visit_inv (rules : List Rule) (lb now : Int) (dq : Deque) (adm : List Int)
    (hinv : Inv rules lb dq adm) (hnow : lb ≤ now) (b : Bool) (dq' : Deque)
    (h : visit rules dq now = some (b, dq')) :
    Inv rules now dq' (if b then adm else now :: adm) := by
  obtain ⟨⟨old, hsplit, hold⟩, hle, hhead, hbound⟩ := hinv
  -- facts shared by all "admitted" cases
  have hle' : ∀ t ∈ now :: adm, t ≤ now := by
    intro t ht
    rcases List.mem_cons.mp ht with rfl | ht
    · omega
    · have := hle t ht; omega
  unfold visit at h
  cases dq with
  | nil =>
    simp [evaluateRules] at h
    obtain ⟨rfl, rfl⟩ := h
    simp only [Bool.false_eq_true, if_false]
    simp only [List.nil_append] at hsplit
    subst hsplit
    refine ⟨⟨adm, by simp, fun t ht => by have := hold t ht; omega⟩, hle', ?_, ?_⟩
    · intro t0 rest heq t ht
      simp only [List.cons.injEq] at heq
      obtain ⟨_, rfl⟩ := heq
      simp at ht
    · intro r hr hf
      apply bound_step adm now r.interval r.freq hf (hbound r hr hf)
      intro a _ h2
      have hz : inWindow a r.interval adm = 0 :=
        inWindow_old_zero a r.interval now (maxInterval rules) adm (le_maxInterval rules r hr)
          (fun t ht => by have := hold t ht; omega) h2
      omega
  | cons t0 rest =>
    cases rules with
    | nil => simp [evaluateRules] at h
    | cons r0 rs =>
      simp only [evaluateRules] at h
      by_cases hclr : now - t0 > maxInterval (r0 :: rs)
      · -- the deque is cleared, the message admitted
        simp only [hclr, if_true] at h
        simp only [Option.some.injEq, Prod.mk.injEq] at h
        obtain ⟨rfl, rfl⟩ := h
        simp only [Bool.false_eq_true, if_false]
        have hallold : ∀ t ∈ adm, t + maxInterval (r0 :: rs) < now := by
          intro t ht
          rw [hsplit] at ht
          rcases List.mem_append.mp ht with ht | ht
          · rcases List.mem_cons.mp ht with rfl | ht
            · omega
            · have := hhead t0 rest rfl t ht; omega
          · have := hold t ht; omega
        refine ⟨⟨adm, by simp, hallold⟩, hle', ?_, ?_⟩
        · intro t1 rest1 heq t ht
          simp only [List.cons.injEq] at heq
          obtain ⟨_, rfl⟩ := heq
          simp at ht
        · intro r hr hf
          apply bound_step adm now r.interval r.freq hf (hbound r hr hf)
          intro a _ h2
          have hz : inWindow a r.interval adm = 0 :=
            inWindow_old_zero a r.interval now (maxInterval (r0 :: rs)) adm
              (le_maxInterval _ r hr) hallold h2
          omega
      · simp only [hclr, if_false] at h
        cases hany : (r0 :: rs).any (fun r => scanRule now r.interval r.freq (t0 :: rest) 0) with
        | true =>
          -- limited: nothing changes
          rw [hany] at h
          simp only [Option.some.injEq, Prod.mk.injEq] at h
          obtain ⟨rfl, rfl⟩ := h
          simp only [if_true]
          refine ⟨⟨old, hsplit, fun t ht => by have := hold t ht; omega⟩,
            fun t ht => by have := hle t ht; omega, hhead, hbound⟩
        | false =>
          rw [hany] at h
          simp only [Option.some.injEq, Prod.mk.injEq] at h
          obtain ⟨rfl, rfl⟩ := h
          simp only [Bool.false_eq_true, if_false]
          refine ⟨⟨old, by rw [hsplit]; simp, fun t ht => by have := hold t ht; omega⟩, hle', ?_, ?_⟩
          · intro t1 rest1 heq t ht
            simp only [List.cons.injEq] at heq
            obtain ⟨_, rfl⟩ := heq
            have : t ∈ adm := by rw [hsplit]; exact List.mem_append_left _ ht
            have := hle t this; omega
          · intro r hr hf
            apply bound_step adm now r.interval r.freq hf (hbound r hr hf)
            intro a _ h2
            have h1 := not_limited_within (r0 :: rs) now (t0 :: rest) hany r hr hf
            have h3 := inWindow_le_within a r.interval now (t0 :: rest) h2
            have hz : inWindow a r.interval old = 0 :=
              inWindow_old_zero a r.interval now (maxInterval (r0 :: rs)) old
                (le_maxInterval _ r hr) (fun t ht => by have := hold t ht; omega) h2
            rw [hsplit, inWindow_append]
            omega

theorem inv_init (rules : List Rule) (lb : Int) : Inv rules lb [] [] :=
  ⟨⟨[], by simp, by simp⟩, by simp, by simp, by intro r _ _ a; simp [inWindow]⟩

/-- the invariant holds along every run with non-decreasing times -/
theorem run_inv (rules : List Rule) (times : List Int) (lb : Int) (dq : Deque) (adm : List Int)
    (hinv : Inv rules lb dq adm) (hmono : (lb :: times).Pairwise (· ≤ ·))
    (adm' : List Int) (dq' : Deque) (h : run rules times dq adm = some (adm', dq')) :
    ∃ lb', Inv rules lb' dq' adm' := by
  induction times generalizing lb dq adm with
  | nil =>
    simp only [run, Option.some.injEq, Prod.mk.injEq] at h
    obtain ⟨rfl, rfl⟩ := h
    exact ⟨lb, hinv⟩
  | cons t ts ih =>
    have hlt : lb ≤ t := by
      have := List.rel_of_pairwise_cons hmono (List.mem_cons_self)
      exact this
    have hmono' : (t :: ts).Pairwise (· ≤ ·) := (List.pairwise_cons.mp hmono).2
    unfold run at h
    cases hvis : visit rules dq t with
    | none => rw [hvis] at h; simp at h
    | some p =>
      obtain ⟨b, dq1⟩ := p
      have hstep := visit_inv rules lb t dq adm hinv hlt b dq1 hvis
      rw [hvis] at h
      cases b with
      | true =>
        simp only [if_true] at hstep
        exact ih t dq1 adm hstep hmono' h
      | false =>
        simp only [Bool.false_eq_true, if_false] at hstep
        exact ih t dq1 (t :: adm) hstep hmono' h

/-! ## property theorems -/

/-- **C18 window bound** — for every rule list, every non-decreasing sequence of arrival times of
    any length, every counting rule `n per interval` (`n ≥ 1`) of the list and every window
    position `a`: the messages the limiter let through contain at most `n` timestamps in the
    half-open window `[a, a + interval)`. -/
theorem C18_window_bound (rules : List Rule) (times : List Int)
    (hmono : times.Pairwise (· ≤ ·)) (adm : List Int) (dq : Deque)
    (h : run rules times [] [] = some (adm, dq))
    (r : Rule) (hr : r ∈ rules) (hf : 1 ≤ r.freq) (a : Int) :
    inWindow a r.interval adm ≤ r.freq.toNat := by
  cases times with
  | nil =>
    simp only [run, Option.some.injEq, Prod.mk.injEq] at h
    obtain ⟨rfl, _⟩ := h
    simp [inWindow]
  | cons t ts =>
    have hm : (t :: t :: ts).Pairwise (· ≤ ·) := by
      rw [List.pairwise_cons]
      refine ⟨?_, hmono⟩
      intro x hx
      rcases List.mem_cons.mp hx with rfl | hx
      · omega
      · exact List.rel_of_pairwise_cons hmono hx
    obtain ⟨lb', hinv⟩ := run_inv rules (t :: ts) t [] [] (inv_init rules t) hm adm dq h
    exact hinv.bound r hr hf a

/-- **C18 no over-blocking (single scope)** — a message is refused by a scope's rule list only if
    some counting rule of that list already has `n` admitted messages younger than its interval
    in the deque (and the deque holds admitted messages only, see `Inv.split`). -/
theorem C18_refused_only_when_full (rules : List Rule) (dq dq' : Deque) (now : Int)
    (hpos : ∀ r ∈ rules, 1 ≤ r.freq ∨ r.freq < 0)
    (h : visit rules dq now = some (true, dq')) :
    ∃ r ∈ rules, 1 ≤ r.freq ∧ r.freq ≤ (within now r.interval dq : Int) := by
  unfold visit at h
  cases dq with
  | nil => simp [evaluateRules] at h
  | cons t0 rest =>
    cases rules with
    | nil => simp [evaluateRules] at h
    | cons r0 rs =>
      simp only [evaluateRules] at h
      by_cases hclr : now - t0 > maxInterval (r0 :: rs)
      · simp [hclr] at h
      · simp only [hclr, if_false] at h
        cases hany : (r0 :: rs).any (fun r => scanRule now r.interval r.freq (t0 :: rest) 0) with
        | false => rw [hany] at h; simp at h
        | true =>
          rw [List.any_eq_true] at hany
          obtain ⟨r, hr, hs⟩ := hany
          refine ⟨r, hr, ?_⟩
          rcases hpos r hr with hp | hn
          · have := (scanRule_iff now r.interval r.freq (t0 :: rest) 0 (by omega)).mp hs
            exact ⟨hp, by omega⟩
          · have := scanRule_neg now r.interval r.freq (t0 :: rest) 0 hn (by omega)
            rw [this] at hs; simp at hs

/-- **C18 exemption** — a rule list whose every rule has `n = -1` (or any negative count) never
    limits, whatever the history. -/
theorem C18_exempt (rules : List Rule) (dq : Deque) (now : Int) (b : Bool) (dq' : Deque)
    (hneg : ∀ r ∈ rules, r.freq < 0) (h : visit rules dq now = some (b, dq')) : b = false := by
  unfold visit at h
  cases dq with
  | nil => simp [evaluateRules] at h; exact h.1
  | cons t0 rest =>
    cases rules with
    | nil => simp [evaluateRules] at h
    | cons r0 rs =>
      simp only [evaluateRules] at h
      by_cases hclr : now - t0 > maxInterval (r0 :: rs)
      · simp [hclr] at h; exact h.1
      · simp only [hclr, if_false] at h
        have hany : (r0 :: rs).any (fun r => scanRule now r.interval r.freq (t0 :: rest) 0) = false := by
          rw [List.any_eq_false]
          intro r hr
          rw [scanRule_neg now r.interval r.freq (t0 :: rest) 0 (hneg r hr) (by omega)]
          simp
        rw [hany] at h
        simp at h
        exact h.1

/-! ## runs with interleaved `cleanup()` -/

/-- what `cleanup()` does to one per-address deque: clear it when it is empty or idle for longer
    than `maxIp`, the longest interval of the generic `ip` rules -/
def cleanupDq (maxIp : Int) (dq : Deque) (now : Int) : Deque :=
  match dq with
  | [] => []
  | t0 :: _ => if now - t0 > maxIp then [] else dq

inductive Op where
  | msg (t : Int)
  | cleanup (t : Int)
  deriving Repr, DecidableEq

def Op.time : Op → Int
  | .msg t => t
  | .cleanup t => t

def runOps (rules : List Rule) (maxIp : Int) : List Op → Deque → List Int → Option (List Int × Deque)
  | [], dq, adm => some (adm, dq)
  | .cleanup t :: ops, dq, adm => runOps rules maxIp ops (cleanupDq maxIp dq t) adm
  | .msg t :: ops, dq, adm =>
    match visit rules dq t with
    | none => none
    | some (true, dq') => runOps rules maxIp ops dq' adm
    | some (false, dq') => runOps rules maxIp ops dq' (t :: adm)

theorem cleanup_inv (rules : List Rule) (maxIp lb now : Int) (dq : Deque) (adm : List Int)
    (hinv : Inv rules lb dq adm) (hnow : lb ≤ now) (hmax : maxInterval rules ≤ maxIp) :
    Inv rules now (cleanupDq maxIp dq now) adm := by
  obtain ⟨⟨old, hsplit, hold⟩, hle, hhead, hbound⟩ := hinv
  cases dq with
  | nil =>
    simp only [cleanupDq]
    exact ⟨⟨old, hsplit, fun t ht => by have := hold t ht; omega⟩,
      fun t ht => by have := hle t ht; omega, hhead, hbound⟩
  | cons t0 rest =>
    simp only [cleanupDq]
    by_cases hc : now - t0 > maxIp
    · simp only [hc, if_true]
      refine ⟨⟨adm, by simp, ?_⟩, fun t ht => by have := hle t ht; omega, by intro _ _ h; simp at h, hbound⟩
      intro t ht
      rw [hsplit] at ht
      rcases List.mem_append.mp ht with ht | ht
      · rcases List.mem_cons.mp ht with rfl | ht
        · omega
        · have := hhead t0 rest rfl t ht; omega
      · have := hold t ht; omega
    · simp only [hc, if_false]
      exact ⟨⟨old, hsplit, fun t ht => by have := hold t ht; omega⟩,
        fun t ht => by have := hle t ht; omega, hhead, hbound⟩

theorem runOps_inv (rules : List Rule) (maxIp : Int) (hmax : maxInterval rules ≤ maxIp)
    (ops : List Op) (lb : Int) (dq : Deque) (adm : List Int)
    (hinv : Inv rules lb dq adm) (hmono : (lb :: ops.map Op.time).Pairwise (· ≤ ·))
    (adm' : List Int) (dq' : Deque) (h : runOps rules maxIp ops dq adm = some (adm', dq')) :
    ∃ lb', Inv rules lb' dq' adm' := by
  induction ops generalizing lb dq adm with
  | nil =>
    simp only [runOps, Option.some.injEq, Prod.mk.injEq] at h
    obtain ⟨rfl, rfl⟩ := h
    exact ⟨lb, hinv⟩
  | cons op ops ih =>
    simp only [List.map_cons] at hmono
    have hlt : lb ≤ op.time := List.rel_of_pairwise_cons hmono (List.mem_cons_self)
    have hmono' : (op.time :: ops.map Op.time).Pairwise (· ≤ ·) := (List.pairwise_cons.mp hmono).2
    cases op with
    | cleanup t =>
      simp only [runOps] at h
      exact ih t _ adm (cleanup_inv rules maxIp lb t dq adm hinv hlt hmax) hmono' h
    | msg t =>
      simp only [runOps] at h
      cases hvis : visit rules dq t with
      | none => rw [hvis] at h; simp at h
      | some p =>
        obtain ⟨b, dq1⟩ := p
        have hstep := visit_inv rules lb t dq adm hinv hlt b dq1 hvis
        rw [hvis] at h
        cases b with
        | true =>
          simp only [if_true] at hstep
          exact ih t dq1 adm hstep hmono' h
        | false =>
          simp only [Bool.false_eq_true, if_false] at hstep
          exact ih t dq1 (t :: adm) hstep hmono' h

/-- **C18 window bound, with `cleanup()` interleaved anywhere** — holds whenever the cleanup
    threshold (longest generic `ip` interval) is at least the longest interval of the rule list
    governing the deque: always the case for deques governed by the `ip` rules themselves. -/
theorem C18_window_bound_with_cleanup (rules : List Rule) (maxIp : Int)
    (hmax : maxInterval rules ≤ maxIp) (ops : List Op)
    (hmono : (ops.map Op.time).Pairwise (· ≤ ·)) (adm : List Int) (dq : Deque)
    (h : runOps rules maxIp ops [] [] = some (adm, dq))
    (r : Rule) (hr : r ∈ rules) (hf : 1 ≤ r.freq) (a : Int) :
    inWindow a r.interval adm ≤ r.freq.toNat := by
  cases ops with
  | nil =>
    simp only [runOps, Option.some.injEq, Prod.mk.injEq] at h
    obtain ⟨rfl, _⟩ := h
    simp [inWindow]
  | cons op ops =>
    have hm : (op.time :: (op :: ops).map Op.time).Pairwise (· ≤ ·) := by
      rw [List.pairwise_cons]
      refine ⟨?_, hmono⟩
      intro x hx
      simp only [List.map_cons] at hx hmono
      rcases List.mem_cons.mp hx with rfl | hx
      · omega
      · exact List.rel_of_pairwise_cons hmono hx
    obtain ⟨lb', hinv⟩ :=
      runOps_inv rules maxIp hmax (op :: ops) op.time [] [] (inv_init rules op.time) hm adm dq h
    exact hinv.bound r hr hf a

theorem foldl_max_ge_init {α : Type} (f : α → Int) (l : List α) (m : Int) : m ≤ l.foldl (fun acc x => max acc (f x)) m := by
  induction l generalizing m with
  | nil => exact Int.le_refl _
  | cons a rest ih =>
    simp only [List.foldl_cons]
    exact Int.le_trans (Int.le_max_left _ _) (ih _)

theorem foldl_max_ge_mem {α : Type} (f : α → Int) (l : List α) (m : Int) (x : α) (hx : x ∈ l) :
    f x ≤ l.foldl (fun acc x => max acc (f x)) m := by
  induction l generalizing m with
  | nil => cases hx
  | cons a rest ih =>
    simp only [List.foldl_cons]
    rcases List.mem_cons.mp hx with rfl | h
    · exact Int.le_trans (Int.le_max_right _ _) (foldl_max_ge_init f rest _)
    · exact ih _ h

/-- **C18 (cleanup forgets nothing a per-address rule still needs)** — the threshold `cleanup()` uses is
    at least the longest interval of every per-address rule list: the generic `ip` rules and the rules of
    every specific-address section.  With `C18_window_bound_with_cleanup` (whose hypothesis is exactly
    this inequality) the window bound therefore survives `cleanup()` calls at any time, for specific
    addresses too.  (The pinned code took the threshold from the `ip` rules only — and did no cleanup at
    all without them; repaired by a `fix:` commit.) -/
theorem C18_cleanup_threshold_covers (cfg : Config) :
    (∀ e ∈ cfg.ipRules, maxInterval e.2 ≤ cleanupThreshold cfg) ∧
    (∀ sec ∈ cfg.specific, ∀ e ∈ sec.2, maxInterval e.2 ≤ cleanupThreshold cfg) := by
  unfold cleanupThreshold
  constructor
  · intro e he
    -- the ip part is the starting value of the fold over the specific sections
    have h1 : maxInterval e.2 ≤ cfg.ipRules.foldl (fun m e => max m (maxInterval e.2)) 0 :=
      foldl_max_ge_mem (fun e => maxInterval e.2) cfg.ipRules 0 e he
    refine Int.le_trans h1 ?_
    generalize cfg.ipRules.foldl (fun m e => max m (maxInterval e.2)) 0 = ip
    induction cfg.specific generalizing ip with
    | nil => exact Int.le_refl _
    | cons sec rest ih =>
      simp only [List.foldl_cons]
      exact Int.le_trans (foldl_max_ge_init (fun e => maxInterval e.2) sec.2 ip) (ih _)
  · intro sec hsec e he
    generalize cfg.ipRules.foldl (fun m e => max m (maxInterval e.2)) 0 = ip
    generalize cfg.specific = sp at hsec ⊢
    induction sp generalizing ip with
    | nil => cases hsec
    | cons sec' rest ih =>
      simp only [List.foldl_cons]
      rcases List.mem_cons.mp hsec with rfl | h
      · have h1 := foldl_max_ge_mem (fun e => maxInterval e.2) sec.2 ip e he
        refine Int.le_trans h1 ?_
        generalize sec.2.foldl (fun m' e => max m' (maxInterval e.2)) ip = m0
        clear ih hsec h1
        induction rest generalizing m0 with
        | nil => exact Int.le_refl _
        | cons s2 r2 ih2 =>
          simp only [List.foldl_cons]
          exact Int.le_trans (foldl_max_ge_init (fun e => maxInterval e.2) s2.2 m0) (ih2 _)
      · exact ih _ h

/-- what happened on the pinned tree (threshold from the generic ip rules only): specific rule `1/m`,
    generic ip rules no longer than `1 s`; the address sends at t=0, some connection ends at t=3
    (`cleanup()`), and the address sends again at t=4: two messages admitted inside one minute. -/
theorem C18_cleanup_clears_specific_witness :
    (runOps [⟨60, 1⟩] 1 [.msg 0, .cleanup 3, .msg 4] [] []).map (·.1) = some [4, 0] := by decide

-- with the repaired threshold (≥ 60) the second message is refused
example : (runOps [⟨60, 1⟩] 60 [.msg 0, .cleanup 3, .msg 4] [] []).map (·.1) = some [0] := by decide

/-! ## non-vacuity and negation witnesses (tests, labelled as tests) -/

/-- the hypotheses of `C18_window_bound` are met by a concrete run in which the limiter refuses -/
example : run [⟨10, 2⟩] [0, 1, 2, 11, 12] [] [] = some ([12, 11, 1, 0], [12, 11, 1, 0]) := by decide

/-- **Finding (state growth)** — C18 asks that the state per address stay bounded by the configured
    rates.  Under sustained traffic just below the limit the deque is never pruned: its length
    equals the number of admitted messages.  (Witness: 1 per second against `2/s`… here `5/10`.) -/
theorem C18_state_grows_witness :
    (run [⟨2, 5⟩] [0, 1, 2, 3, 4, 5, 6, 7, 8, 9, 10, 11] [] []).map (fun p => p.2.length) = some 12 := by
  decide

/-- **C18 (a specific-address rule takes precedence)** — whenever the address has its own rule for
    the command and that rule admits the message, `is_limited` answers "not limited" and neither the
    `global` nor the `ip` rules are evaluated or charged — for every address, IPv4 or IPv6.  (The
    pinned code recognised a specific rule by `"." in key`, so for an IPv6 address the generic rules
    were still applied, on the deque the specific rule had just written to: an exempt `-1/s` IPv6
    address was refused on its first message by a `1/h` ip rule.  Repaired by a `fix:` commit.) -/
theorem C18_specific_precedence (cfg : Config) (s : State) (addr cmd : String) (now : Int)
    (rs : List (String × List Rule)) (rules : List Rule) (dq : Deque)
    (h1 : lookup addr cfg.specific = some rs) (h2 : lookup cmd rs = some rules)
    (h3 : visit rules (getDq s (.ip addr) cmd) now = some (false, dq)) :
    isLimited cfg s addr cmd now = some (false, setDq s (.ip addr) cmd dq) := by
  simp [isLimited, h1, h2, h3]

/-- an exempt IPv6 address under a strict generic ip rule -/
example :
    (isLimited { specific := [("::1", [("EVENT", [⟨1, -1⟩])])], ipRules := [("EVENT", [⟨3600, 1⟩])] }
      {} "::1" "EVENT" 0).map (·.1) = some false := by decide +kernel

/-- the same configuration with an IPv4 address: exempt, as documented -/
theorem C18_ipv4_specific_exempt_witness :
    (isLimited { specific := [("1.2.3.4", [("EVENT", [⟨1, -1⟩])])], ipRules := [("EVENT", [⟨3600, 1⟩])] }
      {} "1.2.3.4" "EVENT" 0).map (·.1) = some false := by decide +kernel

/-- **Finding (refused messages consume global budget)** — a message passed by the `global` rule
    and then refused by the `ip` rule stays in the global deque: with `global 1/s`, `ip 1/m`,
    address A at t=0 (admitted) and t=5 (refused by ip), address B at t=5 is refused by the
    global rule although no message was let through since t=0. -/
theorem C18_refused_consumes_global_witness :
    let cfg : Config := { globalRules := [("REQ", [⟨1, 1⟩])], ipRules := [("REQ", [⟨60, 1⟩])] }
    ((isLimited cfg {} "1.2.3.4" "REQ" 0).bind fun r1 =>
      (isLimited cfg r1.2 "1.2.3.4" "REQ" 5).bind fun r2 =>
        (isLimited cfg r2.2 "5.6.7.8" "REQ" 5).map fun r3 => (r1.1, r2.1, r3.1))
      = some (false, true, true) := by decide +kernel

end NostrRelay.RateLimiter
