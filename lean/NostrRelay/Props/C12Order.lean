/-
C12 (LMDB) — a single-value plan over a fixed-width index delivers newest first, so its limit keeps
the newest.

`walkKeys` are the keys whose ids `walk` yields; they form a sub-list of the keys visited (which the
cursor visits in descending order).  For a plan with one match value the scanner's output is exactly
that walk.  Under the coherence invariant a key of the kinds index determines the stored event it
belongs to and carries that event's encoded `created_at`, and descending key order inside one block is
descending timestamp order.  Hence: the answer of a single-kind plan is ordered by `created_at`,
newest first; with `C12_kv_prefix` (the limited answer is a prefix of the unlimited one) no omitted
match is newer than a sent one.  (For several match values the order is newest-first per value only:
open finding `kv-limit-per-value-order`, witness in C12.lean.)
-/
import NostrRelay.Props.C02Scan
import NostrRelay.Props.C12

namespace NostrRelay.KV
open NostrRelay

/-- the keys whose ids `walk` yields, in order -/
def walkKeys (cfg : ScanCfg) (m : Bytes) : List Bytes → List Bytes
  | [] => []
  | k :: rest =>
    if badKey cfg m k then []
    else if k < cfg.stop then []
    else
      (if inEvents cfg (lastN 32 k) then [k] else []) ++
        (match rest with
         | [] => []
         | _ :: _ => walkKeys cfg m rest)

theorem walk_eq_map (cfg : ScanCfg) (m : Bytes) (L : List Bytes) :
    (walk cfg m L).1 = (walkKeys cfg m L).map (lastN 32) := by
  induction L with
  | nil => simp [walk, walkKeys]
  | cons k rest ih =>
    unfold walk walkKeys
    by_cases hb : badKey cfg m k = true
    · simp [hb]
    · simp only [hb, Bool.false_eq_true, if_false]
      by_cases hs : k < cfg.stop
      · simp [hs]
      · simp only [hs, if_false]
        cases rest with
        | nil => by_cases he : inEvents cfg (lastN 32 k) = true <;> simp [he]
        | cons r rs =>
          simp only [List.map_append]
          rw [← ih]
          by_cases he : inEvents cfg (lastN 32 k) = true <;> simp [he]

theorem walkKeys_sublist (cfg : ScanCfg) (m : Bytes) (L : List Bytes) : (walkKeys cfg m L).Sublist L := by
  induction L with
  | nil => simp [walkKeys]
  | cons k rest ih =>
    unfold walkKeys
    by_cases hb : badKey cfg m k = true
    · simp [hb]
    · simp only [hb, Bool.false_eq_true, if_false]
      by_cases hs : k < cfg.stop
      · simp [hs]
      · simp only [hs, if_false]
        have htail : (match rest with | [] => [] | _ :: _ => walkKeys cfg m rest).Sublist rest := by
          cases rest with
          | nil => simp
          | cons r rs => exact ih
        by_cases he : inEvents cfg (lastN 32 k) = true
        · simp only [he, if_true, List.singleton_append]
          exact List.Sublist.cons₂ k htail
        · simp only [he, Bool.false_eq_true, if_false, List.nil_append]
          exact List.Sublist.cons k htail

theorem walkKeys_not_bad (cfg : ScanCfg) (m : Bytes) (L : List Bytes) :
    ∀ k ∈ walkKeys cfg m L, badKey cfg m k = false := by
  induction L with
  | nil => simp [walkKeys]
  | cons k rest ih =>
    unfold walkKeys
    by_cases hb : badKey cfg m k = true
    · simp [hb]
    · simp only [hb, Bool.false_eq_true, if_false]
      by_cases hs : k < cfg.stop
      · simp [hs]
      · simp only [hs, if_false]
        intro x hx
        rcases List.mem_append.mp hx with h1 | h1
        · by_cases he : inEvents cfg (lastN 32 k) = true
          · simp only [he, if_true, List.mem_singleton] at h1; subst h1; simpa using hb
          · simp [he] at h1
        · cases rest with
          | nil => simp at h1
          | cons r rs => exact ih x h1

/-- the scanner's output for one match value: the ids of a descending list of store keys that carry
    the match as prefix -/
theorem single_match_keys (s : Store) (hs : Sorted s) (cfg : ScanCfg) (addTime m : Bytes) (first : Bool) :
    ∃ K : List Bytes, scanMatches s cfg addTime [m] first = K.map (lastN 32) ∧
      K.Pairwise (fun a b => b < a) ∧ ∀ k ∈ K, k ∈ skeys s ∧ k.take m.length = m := by
  unfold scanMatches
  by_cases hsk : seekFinds s (m ++ addTime ++ [255]) = true
  · simp only [hsk, if_true]
    refine ⟨walkKeys cfg m (below s (m ++ addTime ++ [255])), ?_, ?_, ?_⟩
    · cases hw : (walk cfg m (below s (m ++ addTime ++ [255]))).2 with
      | nextMatch => simp [scanMatches, walk_eq_map]
      | endAll => simp [walk_eq_map]
    · have hdesc : (below s (m ++ addTime ++ [255])).Pairwise (fun a b => b < a) := by
        unfold below
        rw [List.pairwise_reverse]
        exact List.Pairwise.sublist List.filter_sublist hs
      exact List.Pairwise.sublist (walkKeys_sublist cfg m _) hdesc
    · intro k hk
      have hmem := (walkKeys_sublist cfg m _).subset hk
      refine ⟨(mem_below s _ k hmem).1, ?_⟩
      have := walkKeys_not_bad cfg m _ k hk
      unfold badKey at this
      simp only [Bool.or_eq_false_iff, bne_eq_false_iff_eq] at this
      exact this.1.1
  · simp only [hsk, Bool.false_eq_true, if_false]
    refine ⟨[], ?_, by simp, by simp⟩
    cases first <;> simp [scanMatches]

/-- "not older than": the relation the answer is ordered by, stated on ids through the store -/
def NotOlder (s : Store) (a b : Bytes) : Prop :=
  ∀ ea eb, getEvent s a = some ea → getEvent s b = some eb → eb.createdAt ≤ ea.createdAt

theorem eraseDups_sublist (l : List Bytes) : l.eraseDups.Sublist l := by
  induction hn : l.length using Nat.strongRecOn generalizing l with
  | _ n ih =>
    cases l with
    | nil => simp
    | cons a as =>
      rw [List.eraseDups_cons]
      refine List.Sublist.cons₂ a ?_
      have hlen : (as.filter fun b => !(b == a)).length < n := by
        subst hn
        simp only [List.length_cons]
        exact Nat.lt_succ_of_le (List.length_filter_le _ _)
      exact List.Sublist.trans (ih _ hlen _ rfl) List.filter_sublist

/-- **C12 (LMDB, single kind: newest first)** — in a coherent sorted store the candidates of a plan
    over one kind come out ordered by `created_at`, newest first (equal timestamps in any order) -/
theorem C12_kv_single_kind_newest_first (s : Store) (hs : Sorted s) (hc : Coh s) (kd : Bytes) (hkd : kd.length = 4)
    (since until_ : Option Int) (out : List Bytes)
    (h : scanIndex s [[2] ++ kd] since until_ none = some out) :
    out.Pairwise (NotOlder s) := by
  suffices key : ∀ cfg addTime, (scanMatches s cfg addTime [[2] ++ kd] true).Pairwise (NotOlder s) by
    unfold scanIndex at h
    simp only [Option.bind_eq_some_iff] at h
    obtain ⟨sB, _, uB, _, hout⟩ := h
    simp only [Option.some.injEq] at hout
    rw [← hout]
    exact key _ _
  intro cfg addTime
  obtain ⟨K, hK, hdesc, hmem⟩ := single_match_keys s hs cfg addTime ([2] ++ kd) true
  rw [hK, List.pairwise_map]
  -- every key of K belongs to a stored event of that kind and carries its timestamp
  have hshape := kinds_shape s hc [kd] (by intro k hk; simp only [List.mem_singleton] at hk; subst hk; exact hkd)
  have hlen : ([2] ++ kd).length = 5 := by simp [hkd]
  have howner : ∀ k ∈ K, ∃ c ts, getEvent s c.id = some c ∧ c.id.length = 32 ∧ be32 c.createdAt = some ts ∧
      k = fullKey ([2] ++ kd) ts c.id := by
    intro k hk
    obtain ⟨hks, hpre⟩ := hmem k hk
    rw [hlen] at hpre
    cases k with
    | nil => simp at hpre
    | cons b rest =>
      have hb : b = 2 := by simp at hpre; omega
      obtain ⟨c, ts, kd', hcst, hid, hts, hkd', hform⟩ := sec_key_form s hc (b :: rest) hks b rest rfl (Or.inl hb)
      rcases hform with ⟨_, hf⟩ | ⟨h3, _⟩ | ⟨h4, _⟩
      · refine ⟨c, ts, hcst, hid, hts, ?_⟩
        have hl' : ([2] ++ kd').length = 5 := by simp [be32_length _ _ hkd']
        have : (b :: rest).take 5 = [2] ++ kd' := by
          rw [hf]; unfold fullKey
          rw [show [2] ++ kd' ++ [0] ++ ts ++ [0] ++ c.id = ([2] ++ kd') ++ ([0] ++ ts ++ [0] ++ c.id) by simp]
          exact take_append_left _ _ _ hl'.symm
        rw [this] at hpre
        rw [hf, hpre]
      · omega
      · omega
  refine List.Pairwise.imp_of_mem ?_ hdesc
  intro k1 k2 h1 h2 hlt ea eb hea heb
  obtain ⟨c1, ts1, hc1, hid1, hts1, hk1⟩ := howner k1 h1
  obtain ⟨c2, ts2, hc2, hid2, hts2, hk2⟩ := howner k2 h2
  have hl1 : lastN 32 k1 = c1.id := by rw [hk1]; exact lastN_fullKey _ _ _ hid1
  have hl2 : lastN 32 k2 = c2.id := by rw [hk2]; exact lastN_fullKey _ _ _ hid2
  rw [hl1, hc1] at hea
  rw [hl2, hc2] at heb
  cases hea; cases heb
  -- k2 < k1 inside one block: ts2 ≤ ts1
  rw [hk1, hk2] at hlt
  unfold fullKey at hlt
  simp only [List.append_assoc] at hlt
  have h' := (lex_block ([2] ++ kd) ([2] ++ kd) _ _ rfl).mp hlt
  rcases h' with hbad | ⟨_, h''⟩
  · exact absurd hbad (lex_irrefl _)
  · rcases List.cons_lt_cons_iff.mp h'' with h0 | ⟨_, h3⟩
    · omega
    · have h4 := (lex_block ts2 ts1 _ _ (by rw [be32_length _ _ hts2, be32_length _ _ hts1])).mp h3
      have hnl : ¬ ts1 < ts2 := by
        rcases h4 with a | ⟨a, _⟩
        · exact lex_asymm a
        · rw [a]; exact lex_irrefl _
      exact be32_not_lt _ _ ts2 ts1 hts2 hts1 hnl

/-- **C12 (LMDB, single kind: the limit keeps the newest)** — for a filter naming one kind (and
    optionally since / until), in every store the writer can produce: the answer is ordered newest
    first, and no event that the unlimited plan would deliver but the limited one leaves out is newer
    than one that was sent. -/
theorem C12_kv_single_kind_limit_keeps_newest (tasks : List Task) (hwf : ∀ t ∈ tasks, t.wf) (f : Filter) (dl : Option Nat) (ml : Nat)
    (k : Int) (hk : f.kinds = some [k]) (kd : Bytes) (henc : be32 k = some kd)
    (hids : f.ids = none) (hauth : f.authors = none) (htags : f.tags = [])
    (p : Plan) (hp : planFilter f dl ml = some p) (n : Nat) (hn : p.limit = some n) :
    let s := applyTasks init tasks
    (executePlan s p).Pairwise (NotOlder s) ∧
    ∀ a ∈ executePlan s p, ∀ b ∈ (executePlan s { p with limit := none }).drop n, NotOlder s a b := by
  intro s
  have hcoh := C10_coherent_reachable tasks hwf
  have hwk := wk_reachable tasks
  have hshape : planShape f = some (.kinds, [[2] ++ kd], [], false) := by
    unfold planShape
    have h1 : (f.ids == some []) = false := by rw [hids]; rfl
    have h2 : (f.kinds == some []) = false := by rw [hk]; rfl
    have h3 : (f.authors == some []) = false := by rw [hauth]; rfl
    simp [h1, h2, h3, htags, hids, hauth, hk, henc]
  have hpl : p.filter = f ∧ p.index = .kinds ∧ p.mats = [[2] ++ kd] ∧ p.raises = false := by
    unfold planFilter at hp
    rw [hshape] at hp
    simp only [Option.map_some, Option.some.injEq] at hp
    subst hp
    exact ⟨rfl, rfl, rfl, rfl⟩
  obtain ⟨hpf, hpi, hpm, hpr⟩ := hpl
  -- the unlimited answer is ordered
  have hall : (executePlan s { p with limit := none }).Pairwise (NotOlder s) := by
    unfold executePlan
    have hcand : planCandidates s { p with limit := none } = scanIndex s [[2] ++ kd] f.since f.until_ none := by
      unfold planCandidates
      simp [hpr, hpi, hpm, hpf]
    rw [hcand]
    cases hsc : scanIndex s [[2] ++ kd] f.since f.until_ none with
    | none => simp
    | some out =>
      simp only
      have hord := C12_kv_single_kind_newest_first s hwk.1 hcoh kd (be32_length _ _ henc) f.since f.until_ out hsc
      unfold planHits
      exact List.Pairwise.sublist (List.Sublist.trans List.filter_sublist (eraseDups_sublist out)) hord
  rw [C12_kv_prefix s p n hn]
  refine ⟨List.Pairwise.sublist (List.take_sublist _ _) hall, ?_⟩
  intro a ha b hb
  have := List.take_append_drop n (executePlan s { p with limit := none })
  rw [← this] at hall
  exact (List.pairwise_append.mp hall).2.2 a ha b hb

end NostrRelay.KV
