/-
C06 — OK acknowledgements agree with what the relay actually did (storage half; the "one OK per
EVENT message" half is a property of the handler and lives with the protocol model, C13/C19).
-/
import NostrRelay.Props.C17

namespace NostrRelay.SQL
open NostrRelay NostrRelay.KV

/-- state after a submission: a raised exception rolls the transaction back -/
def applyAdd (s : State) (e : Event) : State :=
  match addEvent s e with
  | .ok s' _ => s'
  | .raises => s

/-- **C06 (SQL, refused ⇒ no trace)** — when `add_event` raises (OK=false with a reason) the
    tables are exactly as before -/
theorem C06_sql_refused_no_trace (s : State) (e : Event) (h : addEvent s e = .raises) : applyAdd s e = s := by
  simp [applyAdd, h]

/-- **C06 (SQL, resubmission)** — submitting an event whose id is already stored changes nothing
    and reports `changed = false` (OK false "duplicate", no broadcast), for every kind -/
theorem C06_sql_resubmission_no_change (s : State) (e : Event) (r : Event) (hr : r ∈ s.events) (hid : r.id = e.id) :
    addEvent s e = .ok s false := by
  have hany : s.events.any (fun x => x.id == e.id) = true := by
    rw [List.any_eq_true]; exact ⟨r, hr, by simp [hid]⟩
  cases hres : isResubmission s e with
  | true => exact addEvent_resubmission s e hres
  | false =>
    rw [addEvent_fresh s e hres]
    have hk : (isReplaceable e.kind || isParamReplaceable e.kind) = false := by
      unfold isResubmission at hres
      simp only [hany, Bool.and_true] at hres
      exact hres
    have hpre : preSave s e = some s := by
      simp only [Bool.or_eq_false_iff] at hk
      unfold preSave
      simp [hk.1, hk.2]
    simp only [hpre]
    unfold addCore
    simp [hany]

/-- **C06 (SQL, OK=true ⇒ stored)** — a committed insert (`changed = true`) of an event that is
    not a deletion leaves the event in the table -/
theorem C06_sql_ok_iff_inserted (s s' : State) (e : Event) (h5 : e.kind ≠ 5) (h : addEvent s e = .ok s' true) :
    e ∈ s'.events ∧ ¬ (∃ r ∈ s.events, r.id = e.id) := by
  cases hres : isResubmission s e with
  | true => rw [addEvent_resubmission s e hres] at h; simp at h
  | false =>
    rw [addEvent_fresh s e hres] at h
    cases hp : preSave s e with
    | none => simp [hp] at h
    | some s1 =>
      simp only [hp] at h
      unfold addCore at h
      by_cases hdup : s1.events.any (fun x => x.id == e.id) = true
      · simp [hdup] at h
      · simp only [hdup, Bool.false_eq_true, if_false] at h
        have h5' : (e.kind == 5) = false := by simpa using h5
        simp only [h5'] at h
        constructor
        · -- e survives the kind 0/3 clean-up: it is not older than itself
          have hin : e ∈ (if (e.kind == 0 || e.kind == 3) = true then
              deleteWhere { s1 with events := s1.events ++ [e] } fun r =>
                r.pubkey == e.pubkey && r.kind == e.kind && decide (r.createdAt < e.createdAt)
              else { s1 with events := s1.events ++ [e] }).events := by
            split
            · rw [mem_deleteWhere]
              refine ⟨by simp, ?_⟩
              simp
            · simp
          split at h
          · simp only [AddResult.ok.injEq, and_true] at h; rw [← h]; exact hin
          · split at h
            · simp at h
            · simp only [Bool.false_eq_true, if_false, AddResult.ok.injEq, and_true] at h
              rw [← h]; exact hin
        · -- not a duplicate: ids in s1 ⊆ ids in s … and pre_save only removes other rows
          rintro ⟨r, hr, hid⟩
          have := C06_sql_resubmission_no_change s e r hr hid
          rw [addEvent_fresh s e hres, hp] at this
          unfold addCore at this
          simp only [hdup, Bool.false_eq_true, if_false] at this
          split at this
          · simp at this
          · split at this
            · simp at this
            · split at this
              · split at this <;> simp at this
              · simp at this

end NostrRelay.SQL

namespace NostrRelay.KV
open NostrRelay

/-- **C06 (LMDB, resubmission)** — the writer skips an event whose primary record exists: the
    keyspace is unchanged -/
theorem C06_kv_duplicate_no_change (s : Store) (e x : Event) (h : getEvent s e.id = some x) :
    taskBody s (.add e) = some s := by
  simp [taskBody, h]

/-- **C06 (LMDB, acknowledged ⇒ stored)** — when the write transaction of an acknowledged fresh
    event commits, the event is retrievable afterwards (unless it is a kind-5 event referencing
    its own id, which no hash allows) -/
theorem C06_kv_stored_after_ack (s s' : Store) (e : Event) (hc : Coh s) (hid : e.id.length = 32)
    (hfresh : getEvent s e.id = none) (h : taskBody s (.add e) = some s') :
    getEvent s' e.id = some e ∨ (e.kind = 5 ∧ ∃ refs, deletionRefs e.tags = some refs ∧ e.id ∈ refs) :=
  C09_kv_never_removes_itself s s' e hc hid hfresh h

/-- an aborted transaction leaves the keyspace exactly as it was -/
theorem C06_kv_abort_no_trace (s : Store) (t : Task) (h : taskBody s t = none) : applyTask s t = s := by
  simp [applyTask, h]

end NostrRelay.KV
