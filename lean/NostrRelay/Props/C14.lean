/-
C14 — Role-based authorization is enforced on every read and write path (decision logic).
-/
import NostrRelay.Model.Admission

namespace NostrRelay.Admission

/-- **C14 (can_do)** — with authentication enabled and roles configured for the action, the
    action is allowed iff the token's roles (the anonymous role when unauthenticated) intersect
    the configured ones -/
theorem C14_canDo_spec (actionRoles tokenRoles : List Char) :
    canDo true (some actionRoles) tokenRoles = true ↔ ∃ r, r ∈ actionRoles ∧ r ∈ tokenRoles := by
  simp [canDo, List.any_eq_true]

theorem C14_canDo_disabled (a : Option (List Char)) (t : List Char) : canDo false a t = true := by
  simp [canDo]

/-- **C14 (closed action)** — an action configured with no role at all admits nobody, whoever asks -/
theorem C14_canDo_closed (tokenRoles : List Char) : canDo true (some []) tokenRoles = false := by
  simp [canDo]

/-- **C14 (no roles held)** — a token holding no role at all is never allowed a configured action -/
theorem C14_canDo_no_roles (actionRoles : List Char) : canDo true (some actionRoles) [] = false := by
  simp [canDo]

/-- role strings read back as the set of their lower-cased characters, exactly as last set
    (`set_auth_roles` stores the string, `get_auth_roles` returns `set(roles.lower())`) -/
def rolesRead (stored : String) : List Char := (stored.toLower.toList).eraseDups

theorem C14_roles_roundtrip (r : String) (c : Char) : c ∈ rolesRead r ↔ c ∈ r.toLower.toList := by
  simp [rolesRead, List.mem_eraseDups]

example : canDo true (some ['w', 's']) ['a'] = false := by decide
example : canDo true (some ['w', 's']) ['r', 'w'] = true := by decide

end NostrRelay.Admission
