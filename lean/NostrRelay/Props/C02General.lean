/-
C02 (LMDB) — one statement for every filter, "whichever index ends up serving it".

`ValidFilter f` says what the relay's filter validation (`NostrQuery`) delivers — ids / authors are 32-byte strings in
strictly descending order, kinds are encodable and strictly descending, value lists are not empty — plus the two
restrictions that the open findings show to be necessary for the variable-width tag index (when the tag index is scanned,
i.e. tag conditions without ids: no `since`, single-letter names, no NUL in names and values).

`C02_kv_filter_complete`: for every such filter, every history of writer tasks (events with 32-byte ids and pubkeys, no NUL
in indexed tags), and whatever plan the planner makes for it (ids, created_at range, kinds, authors, author+kind, tags, or a
chained plan in either order): every stored event that matches the filter under the strict NIP-01 reading is delivered when
the limit does not truncate.  The proof is a case split over which fields the filter names, into the per-plan theorems of
C02Ids / C02Created / C02Scan / C02AuthorKinds / C02Tags / C02Multi / C02MultiMore.
-/
import NostrRelay.Props.C02MultiMore
import NostrRelay.Props.C02Created

namespace NostrRelay.KV
open NostrRelay

structure ValidFilter (f : Filter) : Prop where
  ids_ok : ∀ l, f.ids = some l → l ≠ [] ∧ (∀ i ∈ l, i.length = 32) ∧ l.Pairwise (fun a b => b < a)
  authors_ok : ∀ l, f.authors = some l → l ≠ [] ∧ (∀ a ∈ l, a.length = 32) ∧ l.Pairwise (fun a b => b < a)
  kinds_ok : ∀ l, f.kinds = some l → l ≠ [] ∧ l.Pairwise (fun a b => b < a) ∧ ∃ kds : List Bytes, l.map be32 = kds.map some
  vals_ok : f.tags.any (fun t => t.2.isEmpty) = false
  since_ok : ∃ sB, encOpt f.since = some sB
  until_ok : ∃ uB, encOpt f.until_ = some uB
  /-- the tag index is scanned (tag conditions, no ids): the hypotheses of the two open findings -/
  tags_ok : f.tags ≠ [] → f.ids = none →
    f.since = none ∧ (∀ t ∈ f.tags, isSingleChar t.1 = true) ∧ (∀ t ∈ f.tags, 0 ∉ t.1 ∧ ∀ v ∈ t.2, 0 ∉ v)

/-- **C02 (LMDB, every filter, every plan, every reachable store)** -/
theorem C02_kv_filter_complete (tasks : List Task) (hwf : ∀ t ∈ tasks, t.wfn) (hwfp : ∀ t ∈ tasks, t.wfp)
    (f : Filter) (hv : ValidFilter f) (dl : Option Nat) (ml : Nat)
    (p : Plan) (hp : planFilter f dl ml = some p)
    (e : Event) (hst : getEvent (applyTasks init tasks) e.id = some e) (hm : matchesSpec true f e = true)
    (hlim : ∀ n cands, p.limit = some n → planCandidates (applyTasks init tasks) p = some cands →
      (planHits (applyTasks init tasks) p.filter cands).length ≤ n) :
    e.id ∈ executePlan (applyTasks init tasks) p := by
  obtain ⟨sB, hsB⟩ := hv.since_ok
  obtain ⟨uB, huB⟩ := hv.until_ok
  have hwf' : ∀ t ∈ tasks, t.wf := fun t ht => wfn_wf t (hwf t ht)
  cases hi : f.ids with
  | some ids =>
    obtain ⟨hne, h32, hdesc⟩ := hv.ids_ok ids hi
    have hk : f.kinds ≠ some [] := fun h => (hv.kinds_ok [] h).1 rfl
    have ha : f.authors ≠ some [] := fun h => (hv.authors_ok [] h).1 rfl
    exact C02_kv_ids_filter_complete tasks f dl ml ids hi hne h32 hdesc hk ha hv.vals_ok p hp e hst hm hlim
  | none =>
    cases htg : f.tags with
    | nil =>
      cases ha : f.authors with
      | none =>
        cases hk : f.kinds with
        | none => exact C02_kv_created_filter_complete tasks hwf' f dl ml hi ha hk htg sB uB hsB huB p hp e hst hm hlim
        | some ks =>
          obtain ⟨hneK, hdescK, kds, henc⟩ := hv.kinds_ok ks hk
          exact C02_kv_kinds_filter_complete tasks hwf' f dl ks hk hneK hi ha htg kds henc hdescK sB uB hsB huB p hp e hst hm hlim
      | some as =>
        obtain ⟨hneA, h32A, hdescA⟩ := hv.authors_ok as ha
        cases hk : f.kinds with
        | none => exact C02_kv_authors_filter_complete tasks hwfp f dl as ha hneA h32A hi hk htg hdescA sB uB hsB huB p hp e hst hm hlim
        | some ks =>
          obtain ⟨hneK, hdescK, kds, henc⟩ := hv.kinds_ok ks hk
          exact C02_kv_authorkinds_filter_complete tasks hwfp f dl as ha hneA h32A ks hk hneK hi htg kds henc hdescA hdescK
            sB uB hsB huB p hp e hst hm hlim
    | cons t0 rest =>
      obtain ⟨hsince, hsingle, hnz⟩ := hv.tags_ok (by rw [htg]; exact List.cons_ne_nil _ _) hi
      cases ha : f.authors with
      | none =>
        cases hk : f.kinds with
        | none => exact C02_kv_tags_filter_complete tasks hwf f dl ml t0 rest htg hsingle hnz hv.vals_ok hi hk ha hsince uB huB p hp e hst hm hlim
        | some ks =>
          obtain ⟨hneK, hdescK, kds, henc⟩ := hv.kinds_ok ks hk
          exact C02_kv_kinds_tags_filter_complete tasks hwf f dl ml ks hk hneK kds henc hdescK t0 rest htg hsingle hnz hv.vals_ok
            hi ha hsince uB huB p hp e hst hm hlim
      | some as =>
        obtain ⟨hneA, h32A, hdescA⟩ := hv.authors_ok as ha
        cases hk : f.kinds with
        | none =>
          exact C02_kv_authors_tags_filter_complete tasks hwf hwfp f dl ml as ha hneA h32A hdescA t0 rest htg hsingle hnz
            hv.vals_ok hi hk hsince uB huB p hp e hst hm hlim
        | some ks =>
          obtain ⟨hneK, hdescK, kds, henc⟩ := hv.kinds_ok ks hk
          exact C02_kv_authorkinds_tags_filter_complete tasks hwf hwfp f dl ml as ha hneA h32A hdescA ks hk hneK kds henc hdescK
            t0 rest htg hsingle hnz hv.vals_ok hi hsince uB huB p hp e hst hm hlim

-- non-vacuity: a filter that satisfies `ValidFilter` for each plan shape
example : ValidFilter { kinds := some [7, 1], since := some 1700000000 } := by
  refine ⟨?_, ?_, ?_, rfl, ⟨_, rfl⟩, ⟨_, rfl⟩, ?_⟩
  · intro l h; cases h
  · intro l h; cases h
  · intro l h; cases h; exact ⟨by simp, by simp, [[0, 0, 0, 7], [0, 0, 0, 1]], by decide⟩
  · intro h; exact absurd rfl h

example : ValidFilter { authors := some [List.replicate 32 187, List.replicate 32 170], tags := [([116], [[97], [98]])], until_ := some 1700000000 } := by
  refine ⟨?_, ?_, ?_, rfl, ⟨_, rfl⟩, ⟨_, rfl⟩, ?_⟩
  · intro l h; cases h
  · intro l h; cases h; exact ⟨by simp, by simp, by decide⟩
  · intro l h; cases h
  · intro _ _; exact ⟨rfl, by decide, by decide⟩

end NostrRelay.KV
