/-
C05 — the fan-out under the settled schedule, constructively: after an event is accepted and the
notification round has run, every connection's queue has gained exactly one live item for each of its
registered subscriptions whose filters match (in registration order, under the subscription's own
name), and nothing else.
-/
import NostrRelay.Props.C05

namespace NostrRelay.Proto

/-- the live items a list of notify tasks puts on connection `c` -/
def liveItemsFor (s : State) (isMatch : Nat → Nat → Bool) (c : Nat) (tasks : List (Nat × Nat)) : List Item :=
  (tasks.filter fun p => isMatch p.1 p.2 && (s.owner p.2).1 == c).map fun p => ⟨(s.owner p.2).2, some p.1, p.2, true⟩

theorem notify_step_facts (s s' : State) (ev i : Nat) (m : Bool) (hs : step s (.notify ev i m) = some s') :
    s'.notifyTasks = s.notifyTasks.erase (ev, i) ∧ s'.owner = s.owner ∧ s'.transcript = s.transcript ∧
    s'.registry = s.registry ∧
    (∀ c, s'.queue c = s.queue c ++ (if m && (s.owner i).1 == c then [⟨(s.owner i).2, some ev, i, true⟩] else [])) := by
  simp only [step] at hs
  split at hs
  · cases hs
  · cases m with
    | true =>
      simp only [if_true] at hs
      cases hs
      refine ⟨rfl, rfl, rfl, rfl, ?_⟩
      intro c
      by_cases hc : c = (s.owner i).1
      · subst hc; simp [enqueue]
      · have : ((s.owner i).1 == c) = false := by simp; exact fun h => hc h.symm
        simp [enqueue, upd_other _ _ _ _ hc, this]
    | false =>
      simp only [Bool.false_eq_true, if_false] at hs
      cases hs
      exact ⟨rfl, rfl, rfl, rfl, by intro c; simp⟩

theorem settleNotify_spec (s : State) (isMatch : Nat → Nat → Bool) (n : Nat) (hn : s.notifyTasks.length ≤ n) :
    (settleNotify s isMatch n).notifyTasks = [] ∧
    (∀ c, (settleNotify s isMatch n).queue c = s.queue c ++ liveItemsFor s isMatch c s.notifyTasks) ∧
    (settleNotify s isMatch n).owner = s.owner ∧ (settleNotify s isMatch n).transcript = s.transcript ∧
    (settleNotify s isMatch n).registry = s.registry := by
  induction n generalizing s with
  | zero =>
    have : s.notifyTasks = [] := List.eq_nil_of_length_eq_zero (Nat.le_zero.mp hn)
    simp [settleNotify, this, liveItemsFor]
  | succ n ih =>
    unfold settleNotify
    cases hT : s.notifyTasks with
    | nil => simp [hT, liveItemsFor]
    | cons p rest =>
      obtain ⟨ev, i⟩ := p
      simp only
      have hen : (step s (.notify ev i (isMatch ev i))).isSome := C05_task_enabled s ev i _ (by rw [hT]; simp)
      cases hst : step s (.notify ev i (isMatch ev i)) with
      | none => rw [hst] at hen; cases hen
      | some s' =>
        simp only
        obtain ⟨f1, f2, f3, f4, f5⟩ := notify_step_facts s s' ev i _ hst
        have herase : s.notifyTasks.erase (ev, i) = rest := by rw [hT]; simp
        rw [herase] at f1
        obtain ⟨h1, h2, h3, h4, h5⟩ := ih s' (by rw [f1]; rw [hT] at hn; simp at hn; omega)
        refine ⟨h1, ?_, h3.trans f2, h4.trans f3, h5.trans f4⟩
        intro c
        rw [h2 c, f5 c, f1]
        unfold liveItemsFor
        rw [f2]
        simp only [List.filter_cons]
        by_cases hb : (isMatch ev i && (s.owner i).1 == c) = true
        · simp [hb]
        · simp [hb]

/-- **C05 (settled fan-out)** — in a reachable state with no pending notify task: when an event is
    accepted and the round has run, connection `c'`'s queue has gained exactly the live items
    `(name, event)` of its registered subscriptions whose filters match — one each, in registration
    order, under their own names — and no other queue entry has appeared anywhere. -/
theorem C05_settled_fanout (s s1 : State) (c ev : Nat) (h : Reachable s) (hq : s.notifyTasks = [])
    (hs : step s (.event c ev true) = some s1) (isMatch : Nat → Nat → Bool) (fuel : Nat) (hf : s.registry.length ≤ fuel) (c' : Nat) :
    (settleNotify s1 isMatch fuel).notifyTasks = [] ∧
    (settleNotify s1 isMatch fuel).queue c' = s.queue c' ++
      ((s.registry.filter fun r => isMatch ev r.inst && r.conn == c').map fun r => ⟨r.name, some ev, r.inst, true⟩) := by
  have hinv := inv_reachable s h
  obtain ⟨htasks, _⟩ := C05_fanout_exact s s1 c ev hinv hs
  rw [hq, List.nil_append] at htasks
  have hs1 : s1.queue = s.queue ∧ s1.owner = s.owner := by
    simp only [step] at hs
    split at hs
    · cases hs
    · split at hs
      · simp at *
      · split at hs
        · cases hs
        · cases hs; exact ⟨rfl, rfl⟩
  obtain ⟨h1, h2, _, _, _⟩ := settleNotify_spec s1 isMatch fuel (by rw [htasks]; simpa using hf)
  refine ⟨h1, ?_⟩
  rw [h2 c', hs1.1, htasks]
  congr 1
  unfold liveItemsFor
  rw [hs1.2, List.filter_map, List.map_map]
  -- owner of a registered instance is its registry entry
  have hown : ∀ r ∈ s.registry, s.owner r.inst = (r.conn, r.name) := hinv.reg_owner
  generalize s.registry = reg at hown
  induction reg with
  | nil => simp
  | cons r rest ih =>
    have hr := hown r List.mem_cons_self
    have ih' := ih (fun x hx => hown x (List.mem_cons_of_mem _ hx))
    simp only [List.filter_cons, Function.comp_def, hr]
    by_cases hb : (isMatch ev r.inst && r.conn == c') = true
    · simp only [hb, if_true, List.map_cons, Function.comp_def, hr]
      simp only [Function.comp_def] at ih'
      rw [ih']
    · simp only [hb, Bool.false_eq_true, if_false]
      simp only [Function.comp_def] at ih'
      exact ih'

end NostrRelay.Proto
