/-
C02 (LMDB) — the statement at the level of a REQ filter for the author+kind plan: authors × kinds, both
in the validated descending order, give match values `04 pubkey 00 kind` in strictly descending order
(`akMats_desc`), so `C02_kv_authorkinds_complete_reachable` applies to the plan the planner builds.
-/
import NostrRelay.Props.C02Scan

namespace NostrRelay.KV

def akMats (as kds : List Bytes) : List Bytes :=
  as.flatMap fun a => kds.map fun kd => [4] ++ a ++ [0] ++ kd

theorem akMats_mem (as kds : List Bytes) (m : Bytes) :
    m ∈ akMats as kds ↔ ∃ a ∈ as, ∃ kd ∈ kds, m = [4] ++ a ++ [0] ++ kd := by
  unfold akMats
  simp only [List.mem_flatMap, List.mem_map]
  constructor
  · rintro ⟨a, ha, kd, hkd, rfl⟩; exact ⟨a, ha, kd, hkd, rfl⟩
  · rintro ⟨a, ha, kd, hkd, rfl⟩; exact ⟨a, ha, kd, hkd, rfl⟩

/-- kinds in strictly descending order give encodings in strictly descending byte order -/
theorem kds_desc (ks : List Int) (kds : List Bytes) (henc : ks.map be32 = kds.map some)
    (hdesc : ks.Pairwise (fun a b => b < a)) : kds.Pairwise (fun a b => b < a) := by
  induction ks generalizing kds with
  | nil =>
    cases kds with
    | nil => simp
    | cons _ _ => simp at henc
  | cons k rest ih =>
    cases kds with
    | nil => simp at henc
    | cons kd kdrest =>
      simp only [List.map_cons, List.cons.injEq] at henc
      obtain ⟨hk, hrest⟩ := henc
      simp only [List.pairwise_cons] at hdesc
      simp only [List.pairwise_cons]
      refine ⟨?_, ih kdrest hrest hdesc.2⟩
      intro kd' hkd'
      have : some kd' ∈ kdrest.map some := List.mem_map.mpr ⟨kd', hkd', rfl⟩
      rw [← hrest] at this
      obtain ⟨k', hk', hk'e⟩ := List.mem_map.mp this
      exact be32_lt_of_lt k' k kd' kd hk'e hk (hdesc.1 k' hk')

/-- authors descending (all 32 bytes) × kinds descending: the author+kind match values are strictly
    descending, as `itertools.product(authors, kinds)` over the validated lists delivers them -/
theorem akMats_desc (as kds : List Bytes) (h32 : ∀ a ∈ as, a.length = 32)
    (hA : as.Pairwise (fun a b => b < a)) (hK : kds.Pairwise (fun a b => b < a)) :
    (akMats as kds).Pairwise (fun a b => b < a) := by
  induction as with
  | nil => simp [akMats]
  | cons a rest ih =>
    simp only [List.pairwise_cons] at hA
    have ih' := ih (fun x hx => h32 x (List.mem_cons_of_mem _ hx)) hA.2
    have hsplit : akMats (a :: rest) kds = (kds.map fun kd => [4] ++ a ++ [0] ++ kd) ++ akMats rest kds := by
      simp [akMats]
    rw [hsplit, List.pairwise_append]
    refine ⟨?_, ih', ?_⟩
    · -- same author: kinds descending
      clear ih ih' hsplit
      induction kds with
      | nil => simp
      | cons kd kr ihk =>
        simp only [List.pairwise_cons] at hK
        simp only [List.map_cons, List.pairwise_cons]
        refine ⟨?_, ihk hK.2⟩
        intro m hm
        obtain ⟨kd', hkd', rfl⟩ := List.mem_map.mp hm
        exact List.append_left_lt (hK.1 kd' hkd')
    · intro x hx y hy
      obtain ⟨kd, _, rfl⟩ := List.mem_map.mp hx
      obtain ⟨a', ha', kd', _, rfl⟩ := (akMats_mem rest kds y).mp hy
      have hlt : a' < a := hA.1 a' ha'
      have hl : ([4] ++ a').length = ([4] ++ a).length := by
        simp [h32 a (List.mem_cons_self), h32 a' (List.mem_cons_of_mem _ ha')]
      have : ([4] ++ a') ++ ([0] ++ kd') < ([4] ++ a) ++ ([0] ++ kd) :=
        (lex_block _ _ _ _ hl).mpr (Or.inl (List.append_left_lt hlt))
      simpa [List.append_assoc] using this

/-- **C02 (LMDB, an authors + kinds filter, every reachable store)** — for a filter that names authors
    and kinds (both in the validated, descending order; kinds encodable) and optionally since / until,
    and nothing else: after any history of writer tasks, every stored event that matches the filter
    under the strict NIP-01 reading is delivered, as long as the limit does not truncate. -/
theorem C02_kv_authorkinds_filter_complete (tasks : List Task) (hwf : ∀ t ∈ tasks, t.wfp) (f : Filter) (dl : Option Nat)
    (as : List Bytes) (ha : f.authors = some as) (hneA : as ≠ []) (h32 : ∀ a ∈ as, a.length = 32)
    (ks : List Int) (hk : f.kinds = some ks) (hneK : ks ≠ [])
    (hids : f.ids = none) (htags : f.tags = [])
    (kds : List Bytes) (henc : ks.map be32 = kds.map some)
    (hdescA : as.Pairwise (fun a b => b < a)) (hdescK : ks.Pairwise (fun a b => b < a))
    (sB uB : Option Bytes) (hsB : encOpt f.since = some sB) (huB : encOpt f.until_ = some uB)
    (p : Plan) (hp : planFilter f dl ml = some p)
    (e : Event) (hst : getEvent (applyTasks init tasks) e.id = some e) (hm : matchesSpec true f e = true)
    (hlim : ∀ n cands, p.limit = some n → planCandidates (applyTasks init tasks) p = some cands →
      (planHits (applyTasks init tasks) p.filter cands).length ≤ n) :
    e.id ∈ executePlan (applyTasks init tasks) p := by
  have hkds4 : ∀ kd ∈ kds, kd.length = 4 := by
    intro kd hkd
    have : some kd ∈ kds.map some := List.mem_map.mpr ⟨kd, hkd, rfl⟩
    rw [← henc] at this
    obtain ⟨k, _, hke⟩ := List.mem_map.mp this
    exact be32_length _ _ hke
  have hshape : planShape f = some (.authorkinds, akMats as kds, [], false) := by
    unfold planShape
    simp only [Bool.false_eq_true, if_false, htags, List.any_nil, hids, ha, hk,
      Option.isSome_some, Option.isSome_none, Bool.and_self, Option.getD_some, henc, List.map_map, if_true]
    simp [Function.comp_def, akMats, List.filterMap_flatMap, List.filterMap_map, List.any_flatMap, hneA, hneK]
  have hpl : p.filter = f ∧ p.index = .authorkinds ∧ p.mats = akMats as kds ∧ p.raises = false := by
    unfold planFilter at hp
    rw [hshape] at hp
    simp only [Option.map_some, Option.some.injEq] at hp
    subst hp
    exact ⟨rfl, rfl, rfl, rfl⟩
  obtain ⟨hpf, hpi, hpm, hpr⟩ := hpl
  have hm0 := hm
  unfold matchesSpec at hm
  simp only [Bool.and_eq_true] at hm
  obtain ⟨⟨⟨⟨⟨_, h2⟩, h3⟩, h4⟩, h5⟩, _⟩ := hm
  have hain : e.pubkey ∈ as := by simpa [ha] using h2
  have hkin : e.kind ∈ ks := by simpa [hk] using h3
  have : be32 e.kind ∈ ks.map be32 := List.mem_map.mpr ⟨e.kind, hkin, rfl⟩
  rw [henc] at this
  obtain ⟨kd, hkdm, hkd⟩ := List.mem_map.mp this
  have hsince : ∀ x, f.since = some x → x ≤ e.createdAt := by
    intro x hx; simp only [hx, if_true, decide_eq_true_eq] at h4; omega
  have huntil : ∀ x, f.until_ = some x → e.createdAt ≤ x := by
    intro x hx; simp only [hx, if_true, decide_eq_true_eq] at h5; omega
  obtain ⟨out, hout, hin⟩ := C02_kv_authorkinds_complete_reachable tasks hwf (akMats as kds)
    (by
      intro m hm
      obtain ⟨a, ha', kd', hkd', rfl⟩ := (akMats_mem as kds m).mp hm
      exact ⟨a, kd', rfl, h32 a ha', hkds4 kd' hkd'⟩)
    (akMats_desc as kds h32 hdescA (kds_desc ks kds henc hdescK))
    f.since f.until_ sB uB hsB huB e hst kd hkd.symm
    ((akMats_mem as kds _).mpr ⟨e.pubkey, hain, kd, hkdm, rfl⟩) hsince huntil
  have hcands : planCandidates (applyTasks init tasks) p = some out := by
    unfold planCandidates
    simp only [hpr, Bool.false_eq_true, if_false, hpi, hpm, hpf]
    exact hout
  exact C02_kv_executePlan_complete _ p out hcands e.id e hin hst (by rw [hpf]; exact residual_complete f e hm0)
    (fun n hn => hlim n out hn hcands)

-- non-vacuity: the filter {authors:[bb.., aa..], kinds:[7,1]} on a store after three tasks
example :
    let e1 : Event := { id := List.replicate 31 0 ++ [1], pubkey := List.replicate 32 170, createdAt := 1700000000, kind := 1, tags := [] }
    let e2 : Event := { id := List.replicate 31 0 ++ [2], pubkey := List.replicate 32 170, createdAt := 1700000100, kind := 3, tags := [] }
    let e3 : Event := { id := List.replicate 31 0 ++ [3], pubkey := List.replicate 32 187, createdAt := 1700000050, kind := 7, tags := [] }
    let s := applyTasks init [.add e1, .add e2, .add e3]
    (planFilter { authors := some [List.replicate 32 187, List.replicate 32 170], kinds := some [7, 1] } none 20).map (fun p => executePlan s p)
      = some [e3.id, e1.id] := by decide +kernel

end NostrRelay.KV
