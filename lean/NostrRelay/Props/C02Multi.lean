/-
C02 (LMDB) — chained (MultiIndex) plans.  The `events` container of a chained scan only decides whether a
visited key's id is yielded, never where the walk goes: a scan restricted to `events` is the unrestricted
scan filtered by membership (`scanIndex_events`).  Hence the candidates of a MultiIndex plan contain every
id that both unrestricted scans yield (`C02_kv_multi_candidates`), and the completeness theorems of the
single indexes carry over to chained plans (`C02_kv_kinds_tags_filter_complete` as the worked instance).
-/
import NostrRelay.Props.C02Tags

namespace NostrRelay.KV
open NostrRelay

def inL (l : List Bytes) (id : Bytes) : Bool := l.contains id

theorem walk_events (cfg : ScanCfg) (l : List Bytes) (m : Bytes) (L : List Bytes) :
    walk { cfg with events := some l } m L =
      (((walk { cfg with events := none } m L).1).filter (inL l), (walk { cfg with events := none } m L).2) := by
  induction L with
  | nil => simp [walk]
  | cons k rest ih =>
    unfold walk
    have hb : badKey { cfg with events := some l } m k = badKey { cfg with events := none } m k := rfl
    rw [hb]
    by_cases hbad : badKey { cfg with events := none } m k = true
    · simp [hbad]
    · simp only [hbad, Bool.false_eq_true, if_false]
      by_cases hs : k < cfg.stop
      · simp [hs]
      · simp only [hs, if_false]
        cases rest with
        | nil =>
          by_cases hin : l.contains (lastN 32 k) = true
          · have hin' : lastN 32 k ∈ l := by simpa using hin
            simp [inEvents, inL, hin']
          · have hin' : lastN 32 k ∉ l := by simpa using hin
            simp [inEvents, inL, hin']
        | cons r rs =>
          simp only
          rw [ih]
          by_cases hin : l.contains (lastN 32 k) = true
          · have hin' : lastN 32 k ∈ l := by simpa using hin
            simp [inEvents, inL, hin']
          · have hin' : lastN 32 k ∉ l := by simpa using hin
            simp [inEvents, inL, hin']

theorem scanMatches_events (s : Store) (cfg : ScanCfg) (l : List Bytes) (addTime : Bytes) (mats : List Bytes) (first : Bool) :
    scanMatches s { cfg with events := some l } addTime mats first =
      (scanMatches s { cfg with events := none } addTime mats first).filter (inL l) := by
  induction mats generalizing first with
  | nil => simp [scanMatches]
  | cons m ms ih =>
    unfold scanMatches
    by_cases hsk : seekFinds s (m ++ addTime ++ [255]) = true
    · simp only [hsk, if_true]
      rw [walk_events]
      cases hw : (walk { cfg with events := none } m (below s (m ++ addTime ++ [255]))).2 with
      | nextMatch => simp only [List.filter_append, ih]
      | endAll => simp
    · simp only [hsk, Bool.false_eq_true, if_false]
      cases first with
      | true => simp only [if_true]; exact ih false
      | false => simp

/-- a scan restricted to a container is the unrestricted scan filtered by membership -/
theorem scanIndex_events (s : Store) (mats : List Bytes) (since until_ : Option Int) (l : List Bytes) :
    scanIndex s mats since until_ (some l) = (scanIndex s mats since until_ none).map (·.filter (inL l)) := by
  unfold scanIndex
  cases encOpt since with
  | none => rfl
  | some sB =>
    cases encOpt until_ with
    | none => rfl
    | some uB =>
      simp only [Option.bind_some, Option.map_some, Option.some.injEq]
      exact scanMatches_events s ⟨sB, uB, _, none⟩ l _ mats true

/-- **C02 (LMDB, MultiIndex)** — the candidates of a chained plan contain every id that the unrestricted scans of
    both of its indexes yield -/
theorem C02_kv_multi_candidates (s : Store) (p : Plan) (i1 i2 : PlanIndex) (hidx : p.index = .multi i1 i2)
    (hr : p.raises = false) (o1 o2 : List Bytes)
    (h1 : scanIndex s p.mats p.filter.since p.filter.until_ none = some o1)
    (h2 : scanIndex s p.mats2 p.filter.since p.filter.until_ none = some o2)
    (id : Bytes) (hin1 : id ∈ o1) (hin2 : id ∈ o2) :
    ∃ cands, planCandidates s p = some cands ∧ id ∈ cands := by
  unfold planCandidates
  simp only [hr, Bool.false_eq_true, if_false, hidx, h1, Option.bind_eq_bind, Option.bind_some]
  have hne : o1.isEmpty = false := by
    cases o1 with
    | nil => cases hin1
    | cons _ _ => rfl
  simp only [hne, Bool.false_eq_true, if_false]
  rw [scanIndex_events, h2]
  simp only [Option.map_some, Option.bind_some, Option.pure_def, Option.some.injEq, exists_eq_left']
  rw [List.mem_eraseDups, List.mem_filter]
  refine ⟨hin2, ?_⟩
  simp only [inL, List.contains_iff_mem]
  exact List.mem_eraseDups.mpr hin1

theorem filterMap_some_cons (l : List Bytes) :
    List.filterMap ((fun kb => Option.map (fun k => 2 :: k) kb) ∘ some) l = List.map (fun kd => 2 :: kd) l := by
  induction l with
  | nil => rfl
  | cons a as ih => simp [ih]

theorem ite_or {α : Type} (c : Prop) [Decidable c] (x y a b : α) (hx : x = a) (hy : y = b) :
    (if c then x else y) = a ∨ (if c then x else y) = b := by
  by_cases h : c
  · left; simp [h, hx]
  · right; simp [h, hy]

/-- **C02 (LMDB, a kinds + tags filter, every reachable store)** — the chained plan (whichever of the two indexes the
    planner puts first): for a filter that names kinds (validated order, encodable) and tag conditions (single-letter
    names, no empty value lists, no NUL) and optionally `until`, and nothing else, over any history of writer tasks whose
    events carry no NUL in their indexed tags: every stored event that matches the filter under the strict NIP-01 reading
    is delivered, as long as the limit does not truncate. -/
theorem C02_kv_kinds_tags_filter_complete (tasks : List Task) (hwf : ∀ t ∈ tasks, t.wfn) (f : Filter) (dl : Option Nat) (ml : Nat)
    (ks : List Int) (hk : f.kinds = some ks) (hneK : ks ≠ [])
    (kds : List Bytes) (henc : ks.map be32 = kds.map some) (hdescK : ks.Pairwise (fun a b => b < a))
    (t0 : Bytes × List Bytes) (rest : List (Bytes × List Bytes)) (htags : f.tags = t0 :: rest)
    (hsingle : ∀ t ∈ f.tags, isSingleChar t.1 = true)
    (hnz : ∀ t ∈ f.tags, 0 ∉ t.1 ∧ ∀ v ∈ t.2, 0 ∉ v)
    (hvals : f.tags.any (fun t => t.2.isEmpty) = false)
    (hids : f.ids = none) (hauth : f.authors = none) (hsince : f.since = none)
    (uB : Option Bytes) (huB : encOpt f.until_ = some uB)
    (p : Plan) (hp : planFilter f dl ml = some p)
    (e : Event) (hst : getEvent (applyTasks init tasks) e.id = some e) (hm : matchesSpec true f e = true)
    (hlim : ∀ n cands, p.limit = some n → planCandidates (applyTasks init tasks) p = some cands →
      (planHits (applyTasks init tasks) p.filter cands).length ≤ n) :
    e.id ∈ executePlan (applyTasks init tasks) p := by
  let s := applyTasks init tasks
  let pairs := planShape.sortDesc (f.tags.flatMap fun t => t.2.map fun v => (t.1, v))
  let tagM := pairs.map (fun q => tagKey q.1 q.2)
  let kM := kds.map (fun kd => [2] ++ kd)
  have hwf' : ∀ t ∈ tasks, t.wf := fun t ht => wfn_wf t (hwf t ht)
  have hkds4 : ∀ kd ∈ kds, kd.length = 4 := by
    intro kd hkd
    have : some kd ∈ kds.map some := List.mem_map.mpr ⟨kd, hkd, rfl⟩
    rw [← henc] at this
    obtain ⟨k, _, hke⟩ := List.mem_map.mp this
    exact be32_length _ _ hke
  -- the two unrestricted scans both yield the event
  have hm0 := hm
  unfold matchesSpec at hm
  simp only [Bool.and_eq_true] at hm
  obtain ⟨⟨⟨⟨⟨_, _⟩, h3⟩, _⟩, h5⟩, h6⟩ := hm
  have huntil : ∀ x, f.until_ = some x → e.createdAt ≤ x := by
    intro x hx; simp only [hx, if_true, decide_eq_true_eq] at h5; omega
  have hkin : e.kind ∈ ks := by simpa [hk] using h3
  have hbe : be32 e.kind ∈ ks.map be32 := List.mem_map.mpr ⟨e.kind, hkin, rfl⟩
  rw [henc] at hbe
  obtain ⟨kd, hkdm, hkd⟩ := List.mem_map.mp hbe
  obtain ⟨oK, hoK, hinK⟩ := C02_kv_kinds_complete_reachable tasks hwf' kds hkds4 (kinds_mats_desc ks kds henc hdescK)
    none f.until_ none uB rfl huB e hst kd hkd.symm hkdm (by intro x hx; cases hx) huntil
  have ht0 : t0 ∈ f.tags := by rw [htags]; exact List.mem_cons_self
  have h6' := List.all_eq_true.mp h6 t0 ht0
  obtain ⟨tg, htg, hcond⟩ := List.any_eq_true.mp h6'
  simp only [Bool.and_eq_true, beq_iff_eq, decide_eq_true_eq] at hcond
  obtain ⟨⟨hhead, hlen⟩, hval⟩ := hcond
  have hidx : isIndexableTag tg = true := by
    cases tg with
    | nil => simp at hlen
    | cons a tl =>
      cases tl with
      | nil => simp at hlen
      | cons b tl' =>
        simp only [List.head?_cons, Option.some.injEq] at hhead
        simp [isIndexableTag, hhead, hsingle t0 ht0]
  have hname : tg.getD 0 [] = t0.1 := by
    cases tg with
    | nil => simp at hlen
    | cons a tl => simpa using hhead
  have hmem : (tg.getD 0 [], tg.getD 1 []) ∈ pairs := by
    rw [mem_sortDesc, hname]
    simp only [List.mem_flatMap, List.mem_map]
    exact ⟨t0, ht0, tg.getD 1 [], by simpa using hval, rfl⟩
  have hpn : ∀ q ∈ pairs, 0 ∉ q.1 ∧ 0 ∉ q.2 := by
    intro q hq
    rw [mem_sortDesc] at hq
    simp only [List.mem_flatMap, List.mem_map] at hq
    obtain ⟨t, ht, v, hv, rfl⟩ := hq
    exact ⟨(hnz t ht).1, (hnz t ht).2 v hv⟩
  have hdescT : tagM.Pairwise (fun a b => b < a) := by
    apply sortDesc_mats_desc
    intro q hq
    simp only [List.mem_flatMap, List.mem_map] at hq
    obtain ⟨t, ht, v, _, rfl⟩ := hq
    exact (hnz t ht).1
  obtain ⟨oT, hoT, hinT⟩ := C02_kv_tags_complete_nosince_reachable tasks hwf pairs hpn hdescT
    f.until_ uB huB e hst tg htg hidx hmem huntil
  -- the plan: one of the two orders
  have hshape : planShape f = some (.multi .kinds .tags, kM, tagM, false) ∨
                planShape f = some (.multi .tags .kinds, tagM, kM, false) := by
    unfold planShape
    simp only [Bool.false_eq_true, if_false, hvals, hids, hk, hauth, Option.isSome_some, Option.isSome_none,
      Bool.and_false, Option.getD_some, henc, List.map_map]
    rw [htags]
    have h0 : ((none : Option (List Bytes)) == some []) = false := rfl
    have h2 : ((some ks : Option (List Int)) == some []) = false := by
      cases ks with
      | nil => exact absurd rfl hneK
      | cons _ _ => rfl
    simp only [h0, h2, Bool.or_self, Bool.false_eq_true, if_false]
    have hfm := filterMap_some_cons kds
    refine ite_or _ _ _ _ _ ?_ ?_
    · simp [kM, tagM, pairs, htags, hfm]
    · simp [kM, tagM, pairs, htags, hfm]
  have hcands : ∃ cands, planCandidates s p = some cands ∧ e.id ∈ cands ∧ p.filter = f := by
    rcases hshape with hsh | hsh
    · have hpl : p.filter = f ∧ p.index = .multi .kinds .tags ∧ p.mats = kM ∧ p.mats2 = tagM ∧ p.raises = false := by
        unfold planFilter at hp
        rw [hsh] at hp
        simp only [Option.map_some, Option.some.injEq] at hp
        subst hp
        exact ⟨rfl, rfl, rfl, rfl, rfl⟩
      obtain ⟨hpf, hpi, hpm, hpm2, hpr⟩ := hpl
      obtain ⟨c, hc1, hc2⟩ := C02_kv_multi_candidates s p .kinds .tags hpi hpr oK oT
        (by rw [hpm, hpf, hsince]; exact hoK) (by rw [hpm2, hpf, hsince]; exact hoT) e.id hinK hinT
      exact ⟨c, hc1, hc2, hpf⟩
    · have hpl : p.filter = f ∧ p.index = .multi .tags .kinds ∧ p.mats = tagM ∧ p.mats2 = kM ∧ p.raises = false := by
        unfold planFilter at hp
        rw [hsh] at hp
        simp only [Option.map_some, Option.some.injEq] at hp
        subst hp
        exact ⟨rfl, rfl, rfl, rfl, rfl⟩
      obtain ⟨hpf, hpi, hpm, hpm2, hpr⟩ := hpl
      obtain ⟨c, hc1, hc2⟩ := C02_kv_multi_candidates s p .tags .kinds hpi hpr oT oK
        (by rw [hpm, hpf, hsince]; exact hoT) (by rw [hpm2, hpf, hsince]; exact hoK) e.id hinT hinK
      exact ⟨c, hc1, hc2, hpf⟩
  obtain ⟨cands, hc1, hc2, hpf⟩ := hcands
  exact C02_kv_executePlan_complete _ p cands hc1 e.id e hc2 hst (by rw [hpf]; exact residual_complete f e hm0)
    (fun n hn => hlim n cands hn hc1)

-- non-vacuity: kinds {1} and #t {a, b}: the chained plan delivers exactly the kind-1 events tagged a or b
example :
    let mk (i : Nat) (ts : Int) (k : Int) (v : Bytes) : Event :=
      { id := List.replicate 31 0 ++ [i], pubkey := List.replicate 32 170, createdAt := ts, kind := k, tags := [[[116], v]] }
    let s := applyTasks init [.add (mk 1 1700000000 1 [97]), .add (mk 2 1700000100 7 [97]), .add (mk 3 1700000050 1 [98]), .add (mk 4 1700000300 1 [99])]
    ((planFilter { kinds := some [1], tags := [([116], [[97], [98]])] } none 20).map (fun p => (executePlan s p).length)) = some 2 := by
  decide +kernel


end NostrRelay.KV
