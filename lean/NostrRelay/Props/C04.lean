/-
C04 — Every frame the relay sends is well-formed and every served event is verbatim.

Round-trip laws of the hand-written serialiser: for *every* string (any code points: quotes,
backslashes, control characters, U+2028, non-BMP, …) the JSON string reader returns exactly the
string that was encoded and exactly the rest of the input; for every subscription id, content and
tag structure (string items) the EVENT and EOSE frames parse back to what was put in.
-/
import NostrRelay.Model.Json

namespace NostrRelay.Json

/-! ## strings -/

theorem unhex_hexDigit (n : Nat) (h : n < 16) : unhex (hexDigit n) = some n := by
  unfold hexDigit unhex
  by_cases h10 : n < 10
  · simp only [h10, if_true]
    have h1 : 48 ≤ 48 + n ∧ 48 + n ≤ 57 := by omega
    simp only [h1, and_self, if_true]
    congr 1; omega
  · simp only [h10, if_false]
    have h1 : ¬ (48 ≤ 87 + n ∧ 87 + n ≤ 57) := by omega
    have h2 : 97 ≤ 87 + n ∧ 87 + n ≤ 102 := by omega
    simp only [h1, if_false, h2, and_self, if_true]
    congr 1; omega

theorem escChar_length_pos (c : Nat) : 0 < (escChar c).length := by
  unfold escChar
  repeat' split
  all_goals simp

/-- one encoded character followed by anything is read back as that character -/
theorem readBody_step (c : Nat) (fuel : Nat) (tail : Str) :
    readBody (fuel + 1) (escChar c ++ tail) = (readBody fuel tail).map fun p => (c :: p.1, p.2) := by
  unfold escChar
  by_cases h1 : c = 34
  · subst h1; simp [readBody]
  · by_cases h2 : c = 92
    · subst h2; simp [readBody]
    · by_cases h3 : c = 10
      · subst h3; simp [readBody]
      · by_cases h4 : c = 13
        · subst h4; simp [readBody]
        · by_cases h5 : c = 9
          · subst h5; simp [readBody]
          · by_cases h6 : c = 8
            · subst h6; simp [readBody]
            · by_cases h7 : c = 12
              · subst h7; simp [readBody]
              · by_cases h8 : c < 32
                · simp only [h1, h2, h3, h4, h5, h6, h7, h8, if_false, if_true, List.cons_append, List.nil_append]
                  have hhi : unhex (hexDigit (c / 16)) = some (c / 16) := unhex_hexDigit _ (by omega)
                  have hlo : unhex (hexDigit (c % 16)) = some (c % 16) := unhex_hexDigit _ (by omega)
                  have h0 : unhex 48 = some 0 := by decide
                  simp only [readBody, show (92 : Nat) ≠ 34 by decide, if_false, if_true, h0, hhi, hlo]
                  have : ((0 * 16 + 0) * 16 + c / 16) * 16 + c % 16 = c := by omega
                  rw [this]
                · simp only [h1, h2, h3, h4, h5, h6, h7, h8, if_false, List.cons_append, List.nil_append]
                  simp only [readBody, h1, h2, h8, if_false]

theorem readBody_escBody (s : Str) (r : Str) (fuel : Nat) (hf : s.length < fuel) :
    readBody fuel (escBody s ++ 34 :: r) = some (s, r) := by
  induction s generalizing fuel with
  | nil =>
    cases fuel with
    | zero => omega
    | succ f => simp [escBody, readBody]
  | cons c cs ih =>
    cases fuel with
    | zero => omega
    | succ f =>
      have : escBody (c :: cs) ++ 34 :: r = escChar c ++ (escBody cs ++ 34 :: r) := by
        simp [escBody, List.append_assoc]
      rw [this, readBody_step, ih f (by simp at hf; omega)]
      rfl

theorem escBody_length_ge (s : Str) : s.length ≤ (escBody s).length := by
  induction s with
  | nil => simp [escBody]
  | cons c cs ih =>
    have := escChar_length_pos c
    simp only [escBody, List.flatMap_cons, List.length_append, List.length_cons] at ih ⊢
    omega

/-- **C04 (strings)** — for every string `s` and every continuation `r`, reading the encoded
    string gives back `s` and leaves `r` -/
theorem C04_readString_encode (s r : Str) : readString (encodeBasestring s ++ r) = some (s, r) := by
  unfold encodeBasestring readString
  simp only [List.cons_append, List.nil_append, List.append_assoc]
  apply readBody_escBody
  have := escBody_length_ge s
  simp only [List.length_append, List.length_cons]
  omega

/-! ## tags -/

theorem readItems_render (x : Str) (xs : List Str) (r : Str) (fuel : Nat) (hf : xs.length < fuel) :
    readItems fuel (joinComma ((x :: xs).map encodeBasestring) ++ 93 :: r) = some (x :: xs, r) := by
  induction xs generalizing x fuel with
  | nil =>
    cases fuel with
    | zero => omega
    | succ f => simp [joinComma, readItems, C04_readString_encode]
  | cons y ys ih =>
    cases fuel with
    | zero => omega
    | succ f =>
      have h1 : joinComma ((x :: y :: ys).map encodeBasestring) ++ 93 :: r
          = encodeBasestring x ++ (44 :: (joinComma ((y :: ys).map encodeBasestring) ++ 93 :: r)) := by
        simp [joinComma, List.append_assoc]
      rw [h1]
      unfold readItems
      simp only [C04_readString_encode]
      rw [ih y f (by simp at hf; omega)]
      rfl

theorem joinComma_length_ge (l : List Str) : l.length ≤ (joinComma l).length + 1 := by
  induction l with
  | nil => simp [joinComma]
  | cons x xs ih =>
    cases xs with
    | nil => simp [joinComma]
    | cons y ys =>
      simp only [joinComma, List.length_append, List.length_cons, List.length_nil] at ih ⊢
      omega

theorem joinComma_enc_head (x : Str) (xs : List Str) :
    ∃ tail, joinComma ((x :: xs).map encodeBasestring) = 34 :: tail := by
  cases xs with
  | nil => exact ⟨escBody x ++ [34], by simp [joinComma, encodeBasestring]⟩
  | cons y ys =>
    exact ⟨escBody x ++ [34] ++ [44] ++ joinComma ((y :: ys).map encodeBasestring),
      by simp [joinComma, encodeBasestring]⟩

theorem readTag_render (t : List Str) (r : Str) : readTag (renderTag t ++ r) = some (t, r) := by
  cases t with
  | nil => simp [renderTag, joinComma, readTag]
  | cons x xs =>
    have hfuel := readItems_render x xs r ((joinComma ((x :: xs).map encodeBasestring) ++ 93 :: r).length + 1) (by
      have h1 := joinComma_length_ge ((x :: xs).map encodeBasestring)
      simp only [List.length_map, List.length_cons, List.length_append] at h1 ⊢
      omega)
    obtain ⟨tail, ht⟩ := joinComma_enc_head x xs
    have hform : renderTag (x :: xs) ++ r = 91 :: (joinComma ((x :: xs).map encodeBasestring) ++ 93 :: r) := by
      simp [renderTag, List.append_assoc]
    rw [hform]
    unfold readTag
    simp only
    rw [ht] at hfuel ⊢
    simp only [List.cons_append] at hfuel ⊢
    exact hfuel

theorem renderTag_head (t : List Str) : ∃ tail, renderTag t = 91 :: tail :=
  ⟨joinComma (t.map encodeBasestring) ++ [93], by simp [renderTag]⟩

theorem readTagList_render (t : List Str) (ts : List (List Str)) (r : Str) (fuel : Nat) (hf : ts.length < fuel) :
    readTagList fuel (joinComma ((t :: ts).map renderTag) ++ 93 :: r) = some (t :: ts, r) := by
  induction ts generalizing t fuel with
  | nil =>
    cases fuel with
    | zero => omega
    | succ f => simp [joinComma, readTagList, readTag_render]
  | cons u us ih =>
    cases fuel with
    | zero => omega
    | succ f =>
      have h1 : joinComma ((t :: u :: us).map renderTag) ++ 93 :: r
          = renderTag t ++ (44 :: (joinComma ((u :: us).map renderTag) ++ 93 :: r)) := by
        simp [joinComma, List.append_assoc]
      rw [h1]
      unfold readTagList
      simp only [readTag_render]
      rw [ih u f (by simp at hf; omega)]
      rfl

theorem joinComma_tag_head (t : List Str) (ts : List (List Str)) :
    ∃ tail, joinComma ((t :: ts).map renderTag) = 91 :: tail := by
  cases ts with
  | nil => exact ⟨joinComma (t.map encodeBasestring) ++ [93], by simp [joinComma, renderTag]⟩
  | cons y ys =>
    exact ⟨joinComma (t.map encodeBasestring) ++ [93] ++ [44] ++ joinComma ((y :: ys).map renderTag),
      by simp [joinComma, renderTag]⟩

/-- **C04 (tags)** — every list of tags whose items are strings is read back verbatim -/
theorem C04_readTags_render (tags : List (List Str)) (r : Str) : readTags (renderTags tags ++ r) = some (tags, r) := by
  cases tags with
  | nil => simp [renderTags, joinComma, readTags]
  | cons t ts =>
    have hfuel := readTagList_render t ts r ((joinComma ((t :: ts).map renderTag) ++ 93 :: r).length + 1) (by
      have h1 := joinComma_length_ge ((t :: ts).map renderTag)
      simp only [List.length_map, List.length_cons, List.length_append] at h1 ⊢
      omega)
    obtain ⟨tail, ht⟩ := joinComma_tag_head t ts
    have hform : renderTags (t :: ts) ++ r = 91 :: (joinComma ((t :: ts).map renderTag) ++ 93 :: r) := by
      simp [renderTags, List.append_assoc]
    rw [hform]
    unfold readTags
    simp only
    rw [ht] at hfuel ⊢
    simp only [List.cons_append] at hfuel ⊢
    exact hfuel

/-! ## frames -/

theorem expect_append (p r : Str) : expect p (p ++ r) = some r := by
  unfold expect
  simp

theorem readRaw_append (x r : Str) (h : 34 ∉ x) : readRaw (x ++ 34 :: r) = (x, 34 :: r) := by
  unfold readRaw
  induction x with
  | nil => simp
  | cons a as ih =>
    have ha : a ≠ 34 := fun h' => h (by simp [h'])
    have := ih (fun h' => h (List.mem_cons_of_mem _ h'))
    simp only [Prod.mk.injEq] at this
    simp only [List.cons_append, List.takeWhile_cons, List.dropWhile_cons, ne_eq, ha, not_false_eq_true,
      decide_true, if_true, Prod.mk.injEq, List.cons.injEq, true_and]
    exact this

def isDigit (c : Nat) : Bool := 48 ≤ c && c ≤ 57

theorem readDigits_append (x r : Str) (c : Nat) (h : ∀ d ∈ x, isDigit d = true) (hc : isDigit c = false) :
    readDigits (x ++ c :: r) = (x, c :: r) := by
  unfold readDigits
  have hc' : (decide (48 ≤ c) && decide (c ≤ 57)) = false := by simpa [isDigit] using hc
  induction x with
  | nil => simp [hc']
  | cons a as ih =>
    have ha : (decide (48 ≤ a) && decide (a ≤ 57)) = true := by
      have := h a List.mem_cons_self; simpa [isDigit] using this
    have := ih (fun d hd => h d (List.mem_cons_of_mem _ hd))
    simp only [Prod.mk.injEq] at this
    simp only [List.cons_append, List.takeWhile_cons, List.dropWhile_cons, ha, if_true, Prod.mk.injEq,
      List.cons.injEq, true_and]
    exact this

/-- **C04 (EOSE)** — for every subscription id the EOSE frame parses back to that id -/
theorem C04_parse_eose (sid : Str) : parseFrame (eoseFrame sid) = some (.eose sid) := by
  unfold parseFrame eoseFrame
  rw [List.append_assoc, expect_append]
  simp [C04_readString_encode]

/-- what the serialiser needs from the fields it pastes between quotes / prints as numbers:
    hex fields contain no quote, numbers are decimal digits -/
structure FieldsOk (e : EventFields) : Prop where
  id : 34 ∉ e.id
  pubkey : 34 ∉ e.pubkey
  sig : 34 ∉ e.sig
  createdAt : ∀ d ∈ e.createdAt, isDigit d = true
  kind : ∀ d ∈ e.kind, isDigit d = true

theorem readRaw_lit (x l tail : Str) (h : 34 ∉ x) (hl : l.head? = some 34) :
    readRaw (x ++ (l ++ tail)) = (x, l ++ tail) := by
  cases l with
  | nil => simp at hl
  | cons a as =>
    simp only [List.head?_cons, Option.some.injEq] at hl
    subst hl
    exact readRaw_append x (as ++ tail) h

theorem readDigits_lit (x l tail : Str) (h : ∀ d ∈ x, isDigit d = true) (hl : l.head? = some 44) :
    readDigits (x ++ (l ++ tail)) = (x, l ++ tail) := by
  cases l with
  | nil => simp at hl
  | cons a as =>
    simp only [List.head?_cons, Option.some.injEq] at hl
    subst hl
    exact readDigits_append x (as ++ tail) 44 h (by decide)

theorem parseEventBody_render (sid : Str) (e : EventFields) (hok : FieldsOk e) :
    parseEventBody (encodeBasestring sid ++ lit ",{\"id\":\"" ++ e.id ++ lit "\",\"created_at\":" ++ e.createdAt
      ++ lit ",\"pubkey\":\"" ++ e.pubkey ++ lit "\",\"kind\":" ++ e.kind ++ lit ",\"sig\":\"" ++ e.sig
      ++ lit "\",\"content\":" ++ encodeBasestring e.content ++ lit ",\"tags\":" ++ renderTags e.tags ++ lit "}]")
    = some (.event sid e) := by
  unfold parseEventBody
  simp only [List.append_assoc]
  rw [C04_readString_encode]
  simp only [Option.bind_some]
  rw [expect_append]
  simp only [Option.bind_some]
  rw [readRaw_lit _ _ _ hok.id (by decide)]
  simp only
  rw [expect_append]
  simp only [Option.bind_some]
  rw [readDigits_lit _ _ _ hok.createdAt (by decide)]
  simp only
  rw [expect_append]
  simp only [Option.bind_some]
  rw [readRaw_lit _ _ _ hok.pubkey (by decide)]
  simp only
  rw [expect_append]
  simp only [Option.bind_some]
  rw [readDigits_lit _ _ _ hok.kind (by decide)]
  simp only
  rw [expect_append]
  simp only [Option.bind_some]
  rw [readRaw_lit _ _ _ hok.sig (by decide)]
  simp only
  rw [expect_append]
  simp only [Option.bind_some]
  rw [C04_readString_encode]
  simp only [Option.bind_some]
  rw [expect_append]
  simp only [Option.bind_some]
  rw [C04_readTags_render]
  simp

/-- **C04 (EVENT)** — for every subscription id, every content and every tag structure of
    strings, the EVENT frame parses back, field for field, to the event that was serialised -/
theorem C04_parse_event (sid : Str) (e : EventFields) (hok : FieldsOk e) :
    parseFrame (eventAsJson sid e) = some (.event sid e) := by
  unfold parseFrame eventAsJson
  have hne : expect (lit "[\"EOSE\",") (lit "[\"EVENT\"," ++ encodeBasestring sid ++ lit ",{\"id\":\"" ++ e.id
      ++ lit "\",\"created_at\":" ++ e.createdAt ++ lit ",\"pubkey\":\"" ++ e.pubkey ++ lit "\",\"kind\":" ++ e.kind
      ++ lit ",\"sig\":\"" ++ e.sig ++ lit "\",\"content\":" ++ encodeBasestring e.content ++ lit ",\"tags\":"
      ++ renderTags e.tags ++ lit "}]") = none := by
    simp [expect, lit]
  rw [hne]
  simp only
  have hassoc : lit "[\"EVENT\"," ++ encodeBasestring sid ++ lit ",{\"id\":\"" ++ e.id
      ++ lit "\",\"created_at\":" ++ e.createdAt ++ lit ",\"pubkey\":\"" ++ e.pubkey ++ lit "\",\"kind\":" ++ e.kind
      ++ lit ",\"sig\":\"" ++ e.sig ++ lit "\",\"content\":" ++ encodeBasestring e.content ++ lit ",\"tags\":"
      ++ renderTags e.tags ++ lit "}]"
      = lit "[\"EVENT\"," ++ (encodeBasestring sid ++ lit ",{\"id\":\"" ++ e.id
      ++ lit "\",\"created_at\":" ++ e.createdAt ++ lit ",\"pubkey\":\"" ++ e.pubkey ++ lit "\",\"kind\":" ++ e.kind
      ++ lit ",\"sig\":\"" ++ e.sig ++ lit "\",\"content\":" ++ encodeBasestring e.content ++ lit ",\"tags\":"
      ++ renderTags e.tags ++ lit "}]") := by
    simp only [List.append_assoc]
  rw [hassoc, expect_append]
  simp only [Option.bind_some]
  exact parseEventBody_render sid e hok

/-! ## non-vacuity, and the repaired defect -/

/-- a frame with a hostile subscription id, control characters and a quote in the content -/
example : parseFrame (eventAsJson (lit "a\"b\\") ⟨lit "ab", lit "cd", lit "ef", lit "1700000000", lit "1",
    [34, 10, 1, 233, 8232, 128512, 92], [[lit "t", lit "x\"y"], []]⟩)
    = some (.event (lit "a\"b\\") ⟨lit "ab", lit "cd", lit "ef", lit "1700000000", lit "1",
    [34, 10, 1, 233, 8232, 128512, 92], [[lit "t", lit "x\"y"], []]⟩) := by
  apply C04_parse_event
  constructor <;> decide

/-- **Fixed defect (finding #10)** — the former `f'["EOSE","{sub_id}"]'` with the subscription id
    `a"b` is not a frame for that id: the reader sees the id `a` followed by garbage. -/
theorem C04_eose_old_not_a_frame : parseFrame (eoseFrameOld (lit "a\"b")) = none := by decide +kernel

end NostrRelay.Json
