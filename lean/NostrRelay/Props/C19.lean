/-
C19 — No client input can crash, wedge or leak a connection, or disturb others.

What is logic here: the gate, the exception ladder (every Exception class is mapped to "go on" or
"end cleanly"; none escapes), and — on the protocol machine — that an open connection can always be
served, that one connection's labels leave the others' state alone, and that ending a connection
drops all its subscriptions.  What the real code raises for which bytes is not logic; that half is
the typed-mutation grammar run against the real handler (harness/props/c19.py).
-/
import NostrRelay.Model.Handler
import NostrRelay.Props.C13

namespace NostrRelay.Handler

/-- **C19 (gate)** — a message passes iff it is an array of at least two items whose first is one of
    the four command words -/
theorem C19_gate_spec (j : J) (c : Cmd) :
    gate j = some c ↔ ∃ s x rest, j = .arr (.str s :: x :: rest) ∧ cmdOf s = some c := by
  constructor
  · intro h
    match j, h with
    | .arr (.str s :: x :: rest), h => exact ⟨s, x, rest, rfl, h⟩
  · rintro ⟨s, x, rest, rfl, h⟩; exact h

theorem C19_gate_rejects_non_arrays (j : J) (h : ∀ xs, j ≠ .arr xs) : gate j = none := by
  cases j <;> first | rfl | exact absurd rfl (h _)

/-- **C19 (no exception escapes the handler)** — every subclass of Exception raised in the loop body
    is turned into "go on" (with or without a NOTICE) or "end this connection cleanly" -/
theorem C19_ladder_no_escape (e : Exc) (h : e ≠ .baseException) : ladder e ≠ .escapeAfterCleanup := by
  cases e <;> simp [ladder] at * 

/-- the relay's own errors never end the connection -/
theorem C19_own_errors_continue (e : Exc) (h : e = .storageError ∨ e = .authError) : ladder e = .continueWithNotice := by
  rcases h with rfl | rfl <;> rfl

/-- whatever add_event raises, the client gets its OK frame and the loop goes on -/
theorem C19_event_always_answered (e : Exc) (h : e ≠ .baseException) : eventLadder (some e) = (some false, .continueSilently) := by
  cases e <;> simp [eventLadder] at *

/-- every frame has at least one allowed answer, and a REQ is never met with silence -/
theorem C19_allowed_nonempty (c : Option Cmd) : allowed c ≠ [] := by
  cases c with
  | none => simp [allowed]
  | some c => cases c <;> simp [allowed]

theorem C19_req_not_silent : Resp.silent ∉ allowed (some .req) := by decide

end NostrRelay.Handler

namespace NostrRelay.Proto

/-- **C19 (an open connection is never wedged)** — in every state the handler of an open connection
    can process a REQ, a CLOSE, a refused EVENT and an accepted fresh EVENT, whatever notify tasks are still
    pending (and those can always make progress: C05_task_enabled) -/
theorem C19_open_conn_never_wedged (s : State) (c : Nat) (ho : s.isOpen c = true) :
    (∀ sub u a ans, (step s (.req c sub u a ans)).isSome)
    ∧ (∀ sub, (step s (.close c sub)).isSome)
    ∧ (∀ ev, (step s (.event c ev false)).isSome)
    ∧ (∀ ev, ev ∉ s.stored → (step s (.event c ev true)).isSome)
    ∧ (step s (.disconnect c)).isSome := by
  refine ⟨?_, ?_, ?_, ?_, ?_⟩
  · intro sub u a ans
    simp only [step, ho, Bool.not_true, Bool.false_eq_true, if_false]
    split
    · rfl
    · split
      · rfl
      · split <;> rfl
  · intro sub; simp [step, ho]
  · intro ev; simp [step, ho]
  · intro ev hf
    simp [step, ho, hf]
  · simp [step, ho]

/-- **C19 (other connections are not disturbed)** — a REQ, CLOSE, sender step or disconnect of one
    connection leaves every other connection's queue, transcript, open flag and subscriptions as
    they were -/
theorem C19_others_undisturbed (s s' : State) (l : Label) (c c' : Nat) (hne : c' ≠ c)
    (hl : (∃ sub u a ans, l = .req c sub u a ans) ∨ (∃ sub, l = .close c sub) ∨ l = .send c ∨ l = .disconnect c)
    (hs : step s l = some s') :
    s'.queue c' = s.queue c' ∧ s'.transcript c' = s.transcript c' ∧ s'.isOpen c' = s.isOpen c' ∧ subsOf s' c' = subsOf s c' := by
  have hsub : ∀ sub, subsOf (unsubscribeOne s c sub) c' = subsOf s c' := by
    intro sub
    simp only [subsOf, unsubscribeOne, List.filter_filter]
    apply List.filter_congr
    intro r _
    by_cases h : r.conn = c'
    · have : r.conn ≠ c := by rw [h]; exact hne
      simp [hit, h, hne]
    · simp [h]
  rcases hl with ⟨sub, u, a, ans, rfl⟩ | ⟨sub, rfl⟩ | rfl | rfl
  · simp only [step] at hs
    split at hs
    · cases hs
    · split at hs
      · cases hs
        exact ⟨rfl, by simp [say, upd_other _ _ _ _ hne, unsubscribeOne], rfl, hsub sub⟩
      · split at hs
        · cases hs
          refine ⟨by simp [enqueue, upd_other _ _ _ _ hne, unsubscribeOne], rfl, rfl, ?_⟩
          exact hsub sub
        · split at hs
          · cases hs
            exact ⟨rfl, by simp [say, upd_other _ _ _ _ hne, unsubscribeOne], rfl, hsub sub⟩
          · cases hs
            refine ⟨rfl, rfl, rfl, ?_⟩
            have := hsub sub
            simp only [subsOf] at this ⊢
            rw [List.filter_append, this]
            have hc : (c == c') = false := by simp; exact fun h => hne h.symm
            simp [hc]
  · simp only [step] at hs
    split at hs
    · cases hs
    · cases hs; exact ⟨rfl, rfl, rfl, hsub sub⟩
  · simp only [step] at hs
    split at hs
    · cases hs
    · split at hs
      · cases hs
      · cases hs
        exact ⟨by simp [say, upd_other _ _ _ _ hne], by simp [say, upd_other _ _ _ _ hne], rfl, rfl⟩
  · simp only [step] at hs
    split at hs
    · cases hs
    · cases hs
      refine ⟨rfl, rfl, by show upd s.isOpen c false c' = _; rw [upd_other _ _ _ _ hne], ?_⟩
      simp only [subsOf, List.filter_filter]
      apply List.filter_congr
      intro r _
      by_cases h : r.conn = c'
      · simp [h, hne]
      · simp [h]

/-- **C19 (ending a connection drops all its subscriptions)** -/
theorem C19_disconnect_drops_all (s s' : State) (c : Nat) (hs : step s (.disconnect c) = some s') :
    subsOf s' c = [] ∧ s'.isOpen c = false := by
  simp only [step] at hs
  split at hs
  · cases hs
  · cases hs
    refine ⟨?_, by simp⟩
    simp only [subsOf, List.filter_filter]
    apply List.filter_eq_nil_iff.mpr
    intro r _; simp

end NostrRelay.Proto
