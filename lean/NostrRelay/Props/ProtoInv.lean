/-
Helper lemmas for the protocol machine (M8): the invariant `Inv` of every reachable state.
The property theorems are in C05.lean, C13.lean, C19.lean.
-/
import NostrRelay.Model.Proto

namespace NostrRelay.Proto

structure Inv (s : State) : Prop where
  reg_lt : ∀ r ∈ s.registry, r.inst < s.nextInst
  reg_owner : ∀ r ∈ s.registry, s.owner r.inst = (r.conn, r.name)
  reg_open : ∀ r ∈ s.registry, s.isOpen r.conn = true
  reg_nodup : (s.registry.map (·.inst)).Nodup
  reg_names : ∀ r1 ∈ s.registry, ∀ r2 ∈ s.registry, r1.conn = r2.conn → r1.name = r2.name → r1 = r2
  open_known : ∀ c, s.isOpen c = true → c ∈ s.connIds
  tasks_nodup : s.notifyTasks.Nodup
  tasks_stored : ∀ p ∈ s.notifyTasks, p.1 ∈ s.stored
  tasks_lt : ∀ p ∈ s.notifyTasks, p.2 < s.nextInst
  resolved_stored : ∀ p ∈ s.resolved, p.1 ∈ s.stored
  resolved_nodup : s.resolved.Nodup
  tasks_unresolved : ∀ p ∈ s.notifyTasks, p ∉ s.resolved
  live_nodup : s.livePut.Nodup
  live_resolved : ∀ p ∈ s.livePut, p ∈ s.resolved
  targeted_iff : ∀ p, p ∈ s.targeted ↔ p ∈ s.notifyTasks ∨ p ∈ s.resolved
  eose_nodup : s.eosePut.Nodup
  eose_done : ∀ i ∈ s.eosePut, s.eoseDone i = true ∧ i < s.nextInst
  limit : s.subLimit ≠ 0 → ∀ c, (subsOf s c).length ≤ s.subLimit
  items : ∀ c, ∀ it ∈ s.queue c ++ s.sent c, it.inst < s.nextInst ∧ s.owner it.inst = (c, it.sub)

/-- close a goal that is literally a field of the invariant of the previous state -/
macro "keep " h:ident : tactic => `(tactic| first
  | exact (Inv.reg_lt $h :) | exact (Inv.reg_owner $h :) | exact (Inv.reg_open $h :) | exact (Inv.reg_nodup $h :) | exact (Inv.reg_names $h :)
  | exact (Inv.open_known $h :) | exact (Inv.tasks_nodup $h :) | exact (Inv.tasks_stored $h :) | exact (Inv.tasks_lt $h :)
  | exact (Inv.resolved_stored $h :) | exact (Inv.resolved_nodup $h :) | exact (Inv.tasks_unresolved $h :) | exact (Inv.live_nodup $h :)
  | exact (Inv.live_resolved $h :) | exact (Inv.targeted_iff $h :) | exact (Inv.eose_nodup $h :) | exact (Inv.eose_done $h :)
  | exact (Inv.limit $h :) | exact (Inv.items $h :))

theorem nodup_map_pair {α β : Type} (a : α) (l : List β) (h : l.Nodup) : (l.map fun b => (a, b)).Nodup := by
  induction l with
  | nil => simp
  | cons x xs ih =>
    simp only [List.nodup_cons] at h
    simp only [List.map_cons, List.nodup_cons, List.mem_map, Prod.mk.injEq, true_and, exists_eq_right]
    exact ⟨h.1, ih h.2⟩

theorem nodup_append_single {α : Type} (l : List α) (a : α) (h : l.Nodup) (ha : a ∉ l) : (l ++ [a]).Nodup := by
  rw [List.nodup_append]
  refine ⟨h, by simp, ?_⟩
  intro x hx y hy
  simp only [List.mem_singleton] at hy
  subst hy
  intro hxy; subst hxy; exact ha hx

theorem filter_length_le_of_imp {α : Type} (l : List α) (p q : α → Bool) (h : ∀ x, p x = true → q x = true) :
    (l.filter p).length ≤ (l.filter q).length := by
  induction l with
  | nil => simp
  | cons x xs ih =>
    simp only [List.filter_cons]
    by_cases hp : p x = true
    · simp [hp, h x hp]; exact ih
    · simp only [hp]
      by_cases hq : q x = true
      · simp [hq]; omega
      · simp [hq]; exact ih

theorem inv_init (lim : Nat) (eoc : Bool) : Inv { subLimit := lim, eoseOnCancel := eoc } := by
  constructor <;> simp [subsOf]

/-- the per-connection view after `unsubscribeOne` is a sub-list of the one before -/
theorem subsOf_unsub_le (s : State) (c sub c' : Nat) :
    (subsOf (unsubscribeOne s c sub) c').length ≤ (subsOf s c').length := by
  simp only [subsOf, unsubscribeOne, List.filter_filter]
  exact filter_length_le_of_imp _ _ _ (by intro x hx; simp at hx; simp [hx.1])

theorem inv_unsub (s : State) (h : Inv s) (c sub : Nat) : Inv (unsubscribeOne s c sub) := by
  have hsub : (s.registry.filter fun r => !hit c sub r).Sublist s.registry := List.filter_sublist
  constructor
  case reg_lt => intro r hr; exact h.reg_lt r (List.mem_filter.mp hr).1
  case reg_owner => intro r hr; exact h.reg_owner r (List.mem_filter.mp hr).1
  case reg_open => intro r hr; exact h.reg_open r (List.mem_filter.mp hr).1
  case reg_nodup => exact List.Nodup.sublist (List.Sublist.map _ hsub) h.reg_nodup
  case reg_names => intro r1 h1 r2 h2; exact h.reg_names r1 (List.mem_filter.mp h1).1 r2 (List.mem_filter.mp h2).1
  case limit =>
    intro hl c'
    exact Nat.le_trans (subsOf_unsub_le s c sub c') (h.limit hl c')
  all_goals keep h

theorem inv_say (s : State) (h : Inv s) (c : Nat) (f : Frame) : Inv (say s c f) := by
  constructor
  all_goals keep h

/-- the invariant after a fresh Subscription object `i = nextInst` has been created -/
theorem owner_fresh (s : State) (j : Nat) (v : Nat × Nat) (hj : j < s.nextInst) : upd s.owner s.nextInst v j = s.owner j :=
  upd_other _ _ _ _ (Nat.ne_of_lt hj)

/-- putting an item of a known instance on its owner's queue keeps the item invariant -/
theorem items_enqueue (s : State) (h : Inv s) (c : Nat) (it : Item) (hi : it.inst < s.nextInst) (ho : s.owner it.inst = (c, it.sub)) :
    ∀ c', ∀ x ∈ upd s.queue c (s.queue c ++ [it]) c' ++ s.sent c', x.inst < s.nextInst ∧ s.owner x.inst = (c', x.sub) := by
  intro c' x hx
  by_cases hc : c' = c
  · subst hc
    simp only [upd_same, List.mem_append, List.mem_singleton] at hx
    rcases hx with (hx | hx) | hx
    · exact h.items c' x (by simp [hx])
    · subst hx; exact ⟨hi, ho⟩
    · exact h.items c' x (by simp [hx])
  · rw [upd_other _ _ _ _ hc] at hx
    exact h.items c' x hx

theorem inv_step (s s' : State) (l : Label) (h : Inv s) (hs : step s l = some s') : Inv s' := by
  cases l with
  | connect c =>
    simp only [step] at hs
    split at hs
    · cases hs
    · cases hs
      constructor
      case reg_open =>
        intro r hr
        have := h.reg_open r hr
        show upd s.isOpen c true r.conn = true
        simp only [upd]; split <;> simp_all
      case open_known =>
        intro c' hc'
        replace hc' : upd s.isOpen c true c' = true := hc'
        simp only [upd] at hc'
        show c' ∈ s.connIds ++ [c]
        simp only [List.mem_append, List.mem_singleton]
        split at hc'
        · right; assumption
        · left; exact h.open_known c' hc'
      all_goals keep h
  | req c sub usable allowed answer =>
    simp only [step] at hs
    have h1 := inv_unsub s h c sub
    split at hs
    · cases hs
    · rename_i hopen
      split at hs
      · cases hs; exact inv_say _ h1 _ _
      · rename_i hlim
        split at hs
        · -- nothing usable: ghost instance, sentinel
          cases hs
          generalize hs1 : unsubscribeOne s c sub = s1 at h1 hlim
          have hfresh : s1.nextInst ∉ s1.eosePut := fun hm => Nat.lt_irrefl _ (h1.eose_done _ hm).2
          constructor
          case reg_lt => intro r hr; exact Nat.lt_succ_of_lt (h1.reg_lt r hr)
          case reg_owner =>
            intro r hr
            show upd s1.owner s1.nextInst (c, sub) r.inst = _
            rw [owner_fresh _ _ _ (h1.reg_lt r hr)]
            exact h1.reg_owner r hr
          case tasks_lt => intro p hp; exact Nat.lt_succ_of_lt (h1.tasks_lt p hp)
          case eose_nodup => exact nodup_append_single _ _ h1.eose_nodup hfresh
          case eose_done =>
            intro i hi
            replace hi : i ∈ s1.eosePut ++ [s1.nextInst] := hi
            show upd s1.eoseDone s1.nextInst true i = true ∧ i < s1.nextInst + 1
            simp only [List.mem_append, List.mem_singleton] at hi
            rcases hi with hi | hi
            · have := h1.eose_done i hi
              rw [upd_other _ _ _ _ (Nat.ne_of_lt this.2)]
              exact ⟨this.1, Nat.lt_succ_of_lt this.2⟩
            · subst hi; simp
          case items =>
            intro c' x hx
            replace hx : x ∈ upd s1.queue c (s1.queue c ++ [⟨sub, none, s1.nextInst, false⟩]) c' ++ s1.sent c' := hx
            show x.inst < s1.nextInst + 1 ∧ upd s1.owner s1.nextInst (c, sub) x.inst = (c', x.sub)
            by_cases hc : c' = c
            · subst hc
              simp only [upd_same, List.mem_append, List.mem_singleton] at hx
              have old : ∀ y, y ∈ s1.queue c' ++ s1.sent c' → y.inst < s1.nextInst + 1 ∧ upd s1.owner s1.nextInst (c', sub) y.inst = (c', y.sub) := by
                intro y hy
                have := h1.items c' y hy
                rw [owner_fresh _ _ _ this.1]
                exact ⟨Nat.lt_succ_of_lt this.1, this.2⟩
              rcases hx with (hx | hx) | hx
              · exact old x (by simp [hx])
              · subst hx; simp
              · exact old x (by simp [hx])
            · rw [upd_other _ _ _ _ hc] at hx
              have := h1.items c' x hx
              rw [owner_fresh _ _ _ this.1]
              exact ⟨Nat.lt_succ_of_lt this.1, this.2⟩
          all_goals keep h1
        · split at hs
          · cases hs; exact inv_say _ h1 _ _
          · -- registered
            cases hs
            have hopen' : s.isOpen c = true := by simpa using hopen
            have nohit : ∀ r ∈ (unsubscribeOne s c sub).registry, ¬ (r.conn = c ∧ r.name = sub) := by
              intro r hr
              simp only [unsubscribeOne, List.mem_filter, hit] at hr
              intro ⟨a, b⟩
              simp [a, b] at hr
            have hopen1 : (unsubscribeOne s c sub).isOpen c = true := hopen'
            have hlim1 : ¬ ((unsubscribeOne s c sub).subLimit != 0 && (subsOf (unsubscribeOne s c sub) c).length == (unsubscribeOne s c sub).subLimit) = true := hlim
            generalize hs1 : unsubscribeOne s c sub = s1 at h1 hlim1 nohit hopen1
            constructor
            case reg_lt =>
              intro r hr
              replace hr : r ∈ s1.registry ++ [(⟨c, sub, s1.nextInst⟩ : Reg)] := hr
              simp only [List.mem_append, List.mem_singleton] at hr
              rcases hr with hr | hr
              · exact Nat.lt_succ_of_lt (h1.reg_lt r hr)
              · subst hr; exact Nat.lt_succ_self _
            case reg_owner =>
              intro r hr
              replace hr : r ∈ s1.registry ++ [(⟨c, sub, s1.nextInst⟩ : Reg)] := hr
              show upd s1.owner s1.nextInst (c, sub) r.inst = _
              simp only [List.mem_append, List.mem_singleton] at hr
              rcases hr with hr | hr
              · rw [owner_fresh _ _ _ (h1.reg_lt r hr)]
                exact h1.reg_owner r hr
              · subst hr; simp
            case reg_open =>
              intro r hr
              replace hr : r ∈ s1.registry ++ [(⟨c, sub, s1.nextInst⟩ : Reg)] := hr
              simp only [List.mem_append, List.mem_singleton] at hr
              rcases hr with hr | hr
              · exact h1.reg_open r hr
              · subst hr; exact hopen1
            case reg_nodup =>
              show ((s1.registry ++ [(⟨c, sub, s1.nextInst⟩ : Reg)]).map (·.inst)).Nodup
              simp only [List.map_append, List.map_cons, List.map_nil]
              refine nodup_append_single _ _ h1.reg_nodup ?_
              intro hm
              simp only [List.mem_map] at hm
              obtain ⟨r, hr, he⟩ := hm
              have := h1.reg_lt r hr
              replace he : r.inst = s1.nextInst := he
              omega
            case reg_names =>
              intro r1 hr1 r2 hr2 hc hn
              replace hr1 : r1 ∈ s1.registry ++ [(⟨c, sub, s1.nextInst⟩ : Reg)] := hr1
              replace hr2 : r2 ∈ s1.registry ++ [(⟨c, sub, s1.nextInst⟩ : Reg)] := hr2
              simp only [List.mem_append, List.mem_singleton] at hr1 hr2
              rcases hr1 with hr1 | hr1 <;> rcases hr2 with hr2 | hr2
              · exact h1.reg_names r1 hr1 r2 hr2 hc hn
              · subst hr2; exact absurd ⟨hc, hn⟩ (nohit r1 hr1)
              · subst hr1; exact absurd ⟨hc.symm, hn.symm⟩ (nohit r2 hr2)
              · subst hr1; subst hr2; rfl
            case tasks_lt => intro p hp; exact Nat.lt_succ_of_lt (h1.tasks_lt p hp)
            case eose_done =>
              intro i hi
              have := h1.eose_done i hi
              show upd s1.eoseDone s1.nextInst false i = true ∧ i < s1.nextInst + 1
              rw [upd_other _ _ _ _ (Nat.ne_of_lt this.2)]
              exact ⟨this.1, Nat.lt_succ_of_lt this.2⟩
            case limit =>
              intro hl c'
              replace hl : s1.subLimit ≠ 0 := hl
              have hb := h1.limit hl c'
              show ((s1.registry ++ [(⟨c, sub, s1.nextInst⟩ : Reg)]).filter fun r => r.conn == c').length ≤ s1.subLimit
              simp only [subsOf] at hb hlim1
              simp only [List.filter_append, List.length_append]
              by_cases hc : c' = c
              · subst hc
                have hne : ¬ ((s1.registry.filter fun r => r.conn == c').length = s1.subLimit) := by
                  intro he
                  apply hlim1
                  simp [he, hl]
                have hone : (([(⟨c', sub, s1.nextInst⟩ : Reg)]).filter fun r => r.conn == c').length = 1 := by simp
                rw [hone]
                omega
              · have : (c == c') = false := by simp; omega
                simp [this]
                exact hb
            case items =>
              intro c' x hx
              have := h1.items c' x hx
              show _ ∧ upd s1.owner s1.nextInst (c, sub) x.inst = _
              rw [owner_fresh _ _ _ this.1]
              exact ⟨Nat.lt_succ_of_lt this.1, this.2⟩
            all_goals keep h1
  | close c sub =>
    simp only [step] at hs
    split at hs
    · cases hs
    · cases hs; exact inv_unsub s h c sub
  | event c ev accepted =>
    simp only [step] at hs
    split at hs
    · cases hs
    · split at hs
      · cases hs; exact inv_say _ h _ _
      · split at hs
        · cases hs
        · rename_i hfresh
          cases hs
          have hfresh' : ev ∉ s.stored := by simpa using hfresh
          -- no task of the new round is already pending or resolved: its event is fresh
          have hnew_not_old : ∀ p ∈ (s.registry.map fun r => (ev, r.inst)), p ∉ s.notifyTasks ∧ p ∉ s.resolved := by
            intro p hp
            simp only [List.mem_map] at hp
            obtain ⟨r, _, rfl⟩ := hp
            exact ⟨fun hm => hfresh' (h.tasks_stored _ hm), fun hm => hfresh' (h.resolved_stored _ hm)⟩
          apply inv_say
          constructor
          case tasks_nodup =>
            show (s.notifyTasks ++ s.registry.map fun r => (ev, r.inst)).Nodup
            rw [List.nodup_append]
            refine ⟨h.tasks_nodup, ?_, ?_⟩
            · have : (s.registry.map fun r => (ev, r.inst)) = (s.registry.map (·.inst)).map fun i => (ev, i) := by simp
              rw [this]; exact nodup_map_pair ev _ h.reg_nodup
            · intro a ha b hb hab
              subst hab
              exact (hnew_not_old a hb).1 ha
          case tasks_stored =>
            intro p hp
            replace hp : p ∈ s.notifyTasks ++ s.registry.map fun r => (ev, r.inst) := hp
            show p.1 ∈ s.stored ++ [ev]
            rcases List.mem_append.mp hp with hp | hp
            · simp only [List.mem_append]; left; exact h.tasks_stored p hp
            · simp only [List.mem_map] at hp
              obtain ⟨r, _, rfl⟩ := hp
              simp
          case tasks_lt =>
            intro p hp
            replace hp : p ∈ s.notifyTasks ++ s.registry.map fun r => (ev, r.inst) := hp
            rcases List.mem_append.mp hp with hp | hp
            · exact h.tasks_lt p hp
            · simp only [List.mem_map] at hp
              obtain ⟨r, hr, rfl⟩ := hp
              exact h.reg_lt r hr
          case resolved_stored =>
            intro p hp
            show p.1 ∈ s.stored ++ [ev]
            simp only [List.mem_append]; left; exact h.resolved_stored p hp
          case tasks_unresolved =>
            intro p hp hr
            replace hp : p ∈ s.notifyTasks ++ s.registry.map fun r => (ev, r.inst) := hp
            rcases List.mem_append.mp hp with hp | hp
            · exact h.tasks_unresolved p hp hr
            · exact (hnew_not_old p hp).2 hr
          case targeted_iff =>
            intro p
            show p ∈ s.targeted ++ (s.registry.map fun r => (ev, r.inst)) ↔
              p ∈ s.notifyTasks ++ (s.registry.map fun r => (ev, r.inst)) ∨ p ∈ s.resolved
            simp only [List.mem_append]
            rw [h.targeted_iff p]
            constructor
            · rintro ((a | a) | a)
              · left; left; exact a
              · right; exact a
              · left; right; exact a
            · rintro ((a | a) | a)
              · left; left; exact a
              · right; exact a
              · left; right; exact a
          all_goals keep h
  | notify ev i isMatch =>
    simp only [step] at hs
    split at hs
    · cases hs
    · rename_i hmem
      have hmem' : (ev, i) ∈ s.notifyTasks := by simpa using hmem
      have hunres : (ev, i) ∉ s.resolved := h.tasks_unresolved _ hmem'
      have hbase : Inv { s with notifyTasks := s.notifyTasks.erase (ev, i), resolved := s.resolved ++ [(ev, i)] } := by
        constructor
        case tasks_nodup => exact List.Nodup.sublist List.erase_sublist h.tasks_nodup
        case tasks_stored => intro p hp; exact h.tasks_stored p (List.mem_of_mem_erase hp)
        case tasks_lt => intro p hp; exact h.tasks_lt p (List.mem_of_mem_erase hp)
        case resolved_stored =>
          intro p hp
          replace hp : p ∈ s.resolved ++ [(ev, i)] := hp
          simp only [List.mem_append, List.mem_singleton] at hp
          rcases hp with hp | hp
          · exact h.resolved_stored p hp
          · subst hp; exact h.tasks_stored _ hmem'
        case resolved_nodup => exact nodup_append_single _ _ h.resolved_nodup hunres
        case tasks_unresolved =>
          intro p hp hr
          replace hp : p ∈ s.notifyTasks.erase (ev, i) := hp
          replace hr : p ∈ s.resolved ++ [(ev, i)] := hr
          simp only [List.mem_append, List.mem_singleton] at hr
          rcases hr with hr | hr
          · exact h.tasks_unresolved p (List.mem_of_mem_erase hp) hr
          · subst hr
            exact ((List.Nodup.mem_erase_iff h.tasks_nodup).mp hp).1 rfl
        case live_resolved =>
          intro p hp
          show p ∈ s.resolved ++ [(ev, i)]
          simp only [List.mem_append]; left; exact h.live_resolved p hp
        case targeted_iff =>
          intro p
          show p ∈ s.targeted ↔ p ∈ s.notifyTasks.erase (ev, i) ∨ p ∈ s.resolved ++ [(ev, i)]
          rw [h.targeted_iff p]
          simp only [List.mem_append, List.mem_singleton]
          constructor
          · rintro (a | a)
            · by_cases hp : p = (ev, i)
              · right; right; exact hp
              · left; exact (List.mem_erase_of_ne hp).mpr a
            · right; left; exact a
          · rintro (a | a | a)
            · left; exact List.mem_of_mem_erase a
            · right; exact a
            · left; subst a; exact hmem'
        all_goals keep h
      split at hs
      · cases hs
        have hlt : i < s.nextInst := h.tasks_lt _ hmem'
        constructor
        case live_nodup => exact nodup_append_single _ _ h.live_nodup (fun hm => hunres (h.live_resolved _ hm))
        case live_resolved =>
          intro p hp
          replace hp : p ∈ s.livePut ++ [(ev, i)] := hp
          show p ∈ s.resolved ++ [(ev, i)]
          simp only [List.mem_append, List.mem_singleton] at hp ⊢
          rcases hp with hp | hp
          · left; exact h.live_resolved p hp
          · right; exact hp
        case items =>
          exact items_enqueue _ hbase (s.owner i).1 ⟨(s.owner i).2, some ev, i, true⟩ hlt rfl
        all_goals keep hbase
      · cases hs; exact hbase
  | queryStep i =>
    simp only [step] at hs
    split at hs
    · cases hs
    · rename_i hen
      have hen' : ¬ (i ≥ s.nextInst) ∧ s.eoseDone i = false := by
        cases hd : s.eoseDone i <;> simp_all
      have hlt : i < s.nextInst := by omega
      have hnd : s.eoseDone i = false := hen'.2
      have hnot : i ∉ s.eosePut := fun hm => by have := (h.eose_done i hm).1; simp [hnd] at this
      have eose_upd : ∀ j ∈ s.eosePut, upd s.eoseDone i true j = true ∧ j < s.nextInst := by
        intro j hj
        have := h.eose_done j hj
        refine ⟨?_, this.2⟩
        simp only [upd]; split <;> simp [this.1]
      have eose_upd' : ∀ j ∈ s.eosePut ++ [i], upd s.eoseDone i true j = true ∧ j < s.nextInst := by
        intro j hj
        simp only [List.mem_append, List.mem_singleton] at hj
        rcases hj with hj | hj
        · exact eose_upd j hj
        · subst hj; simp [hlt]
      split at hs
      · split at hs
        · cases hs
          have hb : Inv { s with eoseDone := upd s.eoseDone i true, pending := upd s.pending i [], eosePut := s.eosePut ++ [i] } := by
            constructor
            case eose_nodup => exact nodup_append_single _ _ h.eose_nodup hnot
            case eose_done => exact eose_upd'
            all_goals keep h
          constructor
          case items => exact items_enqueue _ hb (s.owner i).1 ⟨(s.owner i).2, none, i, false⟩ hlt rfl
          all_goals keep hb
        · cases hs
          constructor
          case eose_done => exact eose_upd
          all_goals keep h
      · split at hs
        · cases hs
          have hb : Inv { s with eoseDone := upd s.eoseDone i true, eosePut := s.eosePut ++ [i] } := by
            constructor
            case eose_nodup => exact nodup_append_single _ _ h.eose_nodup hnot
            case eose_done => exact eose_upd'
            all_goals keep h
          constructor
          case items => exact items_enqueue _ hb (s.owner i).1 ⟨(s.owner i).2, none, i, false⟩ hlt rfl
          all_goals keep hb
        · rename_i e rest hp
          cases hs
          have hb : Inv { s with pending := upd s.pending i rest } := by
            constructor
            all_goals keep h
          constructor
          case items => exact items_enqueue _ hb (s.owner i).1 ⟨(s.owner i).2, some e, i, false⟩ hlt rfl
          all_goals keep hb
  | send c =>
    simp only [step] at hs
    split at hs
    · cases hs
    · split at hs
      · cases hs
      · rename_i it rest hq
        cases hs
        apply inv_say
        constructor
        case items =>
          intro c' x hx
          replace hx : x ∈ upd s.queue c rest c' ++ upd s.sent c (s.sent c ++ [it]) c' := hx
          by_cases hc : c' = c
          · subst hc
            simp only [upd_same, List.mem_append, List.mem_singleton] at hx
            apply h.items c' x
            rw [hq]
            simp only [List.mem_append, List.mem_cons]
            rcases hx with hx | hx | hx
            · left; right; exact hx
            · right; exact hx
            · left; left; exact hx
          · rw [upd_other _ _ _ _ hc, upd_other _ _ _ _ hc] at hx
            exact h.items c' x hx
        all_goals keep h
  | disconnect c =>
    simp only [step] at hs
    split at hs
    · cases hs
    · cases hs
      have hsub : (s.registry.filter fun r => r.conn != c).Sublist s.registry := List.filter_sublist
      constructor
      case reg_lt => intro r hr; exact h.reg_lt r (List.mem_filter.mp hr).1
      case reg_owner => intro r hr; exact h.reg_owner r (List.mem_filter.mp hr).1
      case reg_open =>
        intro r hr
        have hm := List.mem_filter.mp hr
        have := h.reg_open r hm.1
        show upd s.isOpen c false r.conn = true
        have hne : r.conn ≠ c := by simpa using hm.2
        rw [upd_other _ _ _ _ hne]; exact this
      case reg_nodup => exact List.Nodup.sublist (List.Sublist.map _ hsub) h.reg_nodup
      case reg_names => intro r1 h1 r2 h2; exact h.reg_names r1 (List.mem_filter.mp h1).1 r2 (List.mem_filter.mp h2).1
      case open_known =>
        intro c' hc'
        replace hc' : upd s.isOpen c false c' = true := hc'
        simp only [upd] at hc'
        split at hc'
        · cases hc'
        · exact h.open_known c' hc'
      case limit =>
        intro hl c'
        refine Nat.le_trans ?_ (h.limit hl c')
        show ((s.registry.filter fun r => r.conn != c).filter fun r => r.conn == c').length ≤ _
        simp only [subsOf, List.filter_filter]
        exact filter_length_le_of_imp _ _ _ (by intro x hx; simp at hx; simp [hx.1])
      all_goals keep h

/-- the invariant holds in every reachable state -/
theorem inv_run (s s' : State) (sched : List Label) (h : Inv s) (hr : run s sched = some s') : Inv s' := by
  induction sched generalizing s with
  | nil => simp [run] at hr; subst hr; exact h
  | cons l ls ih =>
    simp only [run] at hr
    cases hst : step s l with
    | none => simp [hst] at hr
    | some s1 =>
      simp only [hst, Option.bind_some] at hr
      exact ih s1 (inv_step s s1 l h hst) hr

theorem inv_reachable (s : State) (h : Reachable s) : Inv s := by
  obtain ⟨lim, eoc, sched, hr⟩ := h
  exact inv_run _ _ sched (inv_init lim eoc) hr

end NostrRelay.Proto
