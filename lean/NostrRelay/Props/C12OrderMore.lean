/-
C12 (LMDB) — newest-first for a single-value plan over the authors index and over the author+kind
index (the kinds index is in C12Order.lean).  One generic lemma carries the argument: when every store
key with the match value `m` as prefix is `fullKey m ts c.id` of a stored event `c` with `ts` its
encoded `created_at`, the single-value scan comes out ordered by `created_at`, newest first.
-/
import NostrRelay.Props.C12Order

namespace NostrRelay.KV
open NostrRelay

/-- every store key that starts with `m` is `fullKey m ts c.id` of a stored event `c` carrying its own
    encoded timestamp -/
def OwnedBlock (s : Store) (m : Bytes) : Prop :=
  ∀ k ∈ skeys s, k.take m.length = m →
    ∃ c ts, getEvent s c.id = some c ∧ c.id.length = 32 ∧ be32 c.createdAt = some ts ∧ k = fullKey m ts c.id

/-- the generic step: an owned block is scanned newest first -/
theorem newest_first_of_owned (s : Store) (hs : Sorted s) (m : Bytes) (hown : OwnedBlock s m)
    (cfg : ScanCfg) (addTime : Bytes) :
    (scanMatches s cfg addTime [m] true).Pairwise (NotOlder s) := by
  obtain ⟨K, hK, hdesc, hmem⟩ := single_match_keys s hs cfg addTime m true
  rw [hK, List.pairwise_map]
  refine List.Pairwise.imp_of_mem ?_ hdesc
  intro k1 k2 h1 h2 hlt ea eb hea heb
  obtain ⟨c1, ts1, hc1, hid1, hts1, hk1⟩ := hown k1 (hmem k1 h1).1 (hmem k1 h1).2
  obtain ⟨c2, ts2, hc2, hid2, hts2, hk2⟩ := hown k2 (hmem k2 h2).1 (hmem k2 h2).2
  have hl1 : lastN 32 k1 = c1.id := by rw [hk1]; exact lastN_fullKey _ _ _ hid1
  have hl2 : lastN 32 k2 = c2.id := by rw [hk2]; exact lastN_fullKey _ _ _ hid2
  rw [hl1, hc1] at hea
  rw [hl2, hc2] at heb
  cases hea; cases heb
  rw [hk1, hk2] at hlt
  unfold fullKey at hlt
  simp only [List.append_assoc] at hlt
  have h' := (lex_block m m _ _ rfl).mp hlt
  rcases h' with hbad | ⟨_, h''⟩
  · exact absurd hbad (lex_irrefl _)
  · rcases List.cons_lt_cons_iff.mp h'' with h0 | ⟨_, h3⟩
    · omega
    · have h4 := (lex_block ts2 ts1 _ _ (by rw [be32_length _ _ hts2, be32_length _ _ hts1])).mp h3
      have hnl : ¬ ts1 < ts2 := by
        rcases h4 with a | ⟨a, _⟩
        · exact lex_asymm a
        · rw [a]; exact lex_irrefl _
      exact be32_not_lt _ _ ts2 ts1 hts2 hts1 hnl

theorem scanIndex_single_newest_first (s : Store) (hs : Sorted s) (m : Bytes) (hown : OwnedBlock s m)
    (since until_ : Option Int) (out : List Bytes)
    (h : scanIndex s [m] since until_ none = some out) : out.Pairwise (NotOlder s) := by
  unfold scanIndex at h
  simp only [Option.bind_eq_some_iff] at h
  obtain ⟨sB, _, uB, _, hout⟩ := h
  simp only [Option.some.injEq] at hout
  rw [← hout]
  exact newest_first_of_owned s hs m hown _ _

/-- the authors block of a 32-byte pubkey is owned -/
theorem authors_owned (s : Store) (hc : Coh s) (hpk : ∀ id c, getEvent s id = some c → c.pubkey.length = 32)
    (pk : Bytes) (h32 : pk.length = 32) : OwnedBlock s ([3] ++ pk) := by
  intro k hk hpre
  have hlen : ([3] ++ pk).length = 33 := by simp [h32]
  rw [hlen] at hpre
  cases k with
  | nil => simp at hpre
  | cons b rest =>
    have hb : b = 3 := by simp at hpre; omega
    obtain ⟨c, ts, kd', hcst, hid, hts, hkd', hform⟩ := sec_key_form s hc (b :: rest) hk b rest rfl (Or.inr (Or.inl hb))
    rcases hform with ⟨h2, _⟩ | ⟨_, hf⟩ | ⟨h4, _⟩
    · omega
    · refine ⟨c, ts, hcst, hid, hts, ?_⟩
      have hl' : ([3] ++ c.pubkey).length = 33 := by simp [hpk c.id c hcst]
      have : (b :: rest).take 33 = [3] ++ c.pubkey := by
        rw [hf]; unfold fullKey
        rw [show [3] ++ c.pubkey ++ [0] ++ ts ++ [0] ++ c.id = ([3] ++ c.pubkey) ++ ([0] ++ ts ++ [0] ++ c.id) by simp]
        exact take_append_left _ _ _ hl'.symm
      rw [this] at hpre
      rw [hf, hpre]
    · omega

/-- the author+kind block of a 32-byte pubkey and a 4-byte kind is owned -/
theorem authorkinds_owned (s : Store) (hc : Coh s) (hpk : ∀ id c, getEvent s id = some c → c.pubkey.length = 32)
    (pk kd : Bytes) (h32 : pk.length = 32) (h4 : kd.length = 4) : OwnedBlock s ([4] ++ pk ++ [0] ++ kd) := by
  intro k hk hpre
  have hlen : ([4] ++ pk ++ [0] ++ kd).length = 38 := by simp [h32, h4]
  rw [hlen] at hpre
  cases k with
  | nil => simp at hpre
  | cons b rest =>
    have hb : b = 4 := by simp at hpre; omega
    obtain ⟨c, ts, kd', hcst, hid, hts, hkd', hform⟩ := sec_key_form s hc (b :: rest) hk b rest rfl (Or.inr (Or.inr hb))
    rcases hform with ⟨h2, _⟩ | ⟨h3, _⟩ | ⟨_, hf⟩
    · omega
    · omega
    · refine ⟨c, ts, hcst, hid, hts, ?_⟩
      have hl' : ([4] ++ c.pubkey ++ [0] ++ kd').length = 38 := by simp [hpk c.id c hcst, be32_length _ _ hkd']
      have : (b :: rest).take 38 = [4] ++ c.pubkey ++ [0] ++ kd' := by
        rw [hf]; unfold fullKey
        rw [show [4] ++ c.pubkey ++ [0] ++ kd' ++ [0] ++ ts ++ [0] ++ c.id
              = ([4] ++ c.pubkey ++ [0] ++ kd') ++ ([0] ++ ts ++ [0] ++ c.id) by simp]
        exact take_append_left _ _ _ hl'.symm
      rw [this] at hpre
      rw [hf, hpre]

/-- **C12 (LMDB, single author: newest first)** -/
theorem C12_kv_single_author_newest_first (s : Store) (hs : Sorted s) (hc : Coh s)
    (hpk : ∀ id c, getEvent s id = some c → c.pubkey.length = 32) (pk : Bytes) (h32 : pk.length = 32)
    (since until_ : Option Int) (out : List Bytes)
    (h : scanIndex s [[3] ++ pk] since until_ none = some out) : out.Pairwise (NotOlder s) :=
  scanIndex_single_newest_first s hs _ (authors_owned s hc hpk pk h32) since until_ out h

/-- **C12 (LMDB, single author + single kind: newest first)** -/
theorem C12_kv_single_authorkind_newest_first (s : Store) (hs : Sorted s) (hc : Coh s)
    (hpk : ∀ id c, getEvent s id = some c → c.pubkey.length = 32) (pk kd : Bytes) (h32 : pk.length = 32) (h4 : kd.length = 4)
    (since until_ : Option Int) (out : List Bytes)
    (h : scanIndex s [[4] ++ pk ++ [0] ++ kd] since until_ none = some out) : out.Pairwise (NotOlder s) :=
  scanIndex_single_newest_first s hs _ (authorkinds_owned s hc hpk pk kd h32 h4) since until_ out h

/-- from "the candidates are ordered" to "the limit keeps the newest", for any plan whose candidates
    are a single-value scan -/
theorem limit_keeps_newest_of_ordered (s : Store) (p : Plan) (n : Nat) (hn : p.limit = some n)
    (hord : ∀ out, planCandidates s { p with limit := none } = some out → out.Pairwise (NotOlder s)) :
    (executePlan s p).Pairwise (NotOlder s) ∧
    ∀ a ∈ executePlan s p, ∀ b ∈ (executePlan s { p with limit := none }).drop n, NotOlder s a b := by
  have hall : (executePlan s { p with limit := none }).Pairwise (NotOlder s) := by
    unfold executePlan
    cases hsc : planCandidates s { p with limit := none } with
    | none => simp
    | some out =>
      simp only
      unfold planHits
      exact List.Pairwise.sublist (List.Sublist.trans List.filter_sublist (eraseDups_sublist out)) (hord out hsc)
  rw [C12_kv_prefix s p n hn]
  refine ⟨List.Pairwise.sublist (List.take_sublist _ _) hall, ?_⟩
  intro a ha b hb
  have := List.take_append_drop n (executePlan s { p with limit := none })
  rw [← this] at hall
  exact (List.pairwise_append.mp hall).2.2 a ha b hb

/-- **C12 (LMDB, single author: the limit keeps the newest)** — for a filter naming one author (and
    optionally since / until), in every store the writer can produce from signed events: the answer is
    ordered newest first, and no match left out by the limit is newer than one that was sent. -/
theorem C12_kv_single_author_limit_keeps_newest (tasks : List Task) (hwf : ∀ t ∈ tasks, t.wfp) (f : Filter)
    (dl : Option Nat) (ml : Nat) (pk : Bytes) (h32 : pk.length = 32) (ha : f.authors = some [pk])
    (hids : f.ids = none) (hkinds : f.kinds = none) (htags : f.tags = [])
    (p : Plan) (hp : planFilter f dl ml = some p) (n : Nat) (hn : p.limit = some n) :
    let s := applyTasks init tasks
    (executePlan s p).Pairwise (NotOlder s) ∧
    ∀ a ∈ executePlan s p, ∀ b ∈ (executePlan s { p with limit := none }).drop n, NotOlder s a b := by
  intro s
  have hcoh := C10_coherent_reachable tasks (fun t ht => wfp_wf t (hwf t ht))
  have hwk := wk_reachable tasks
  have hshape : planShape f = some (.authors, [[3] ++ pk], [], false) := by
    unfold planShape
    simp [htags, hids, hkinds, ha]
  have hpl : p.filter = f ∧ p.index = .authors ∧ p.mats = [[3] ++ pk] ∧ p.raises = false := by
    unfold planFilter at hp
    rw [hshape] at hp
    simp only [Option.map_some, Option.some.injEq] at hp
    subst hp
    exact ⟨rfl, rfl, rfl, rfl⟩
  obtain ⟨hpf, hpi, hpm, hpr⟩ := hpl
  apply limit_keeps_newest_of_ordered s p n hn
  intro out hout
  have hcand : planCandidates s { p with limit := none } = scanIndex s [[3] ++ pk] f.since f.until_ none := by
    unfold planCandidates
    simp [hpr, hpi, hpm, hpf]
  rw [hcand] at hout
  exact C12_kv_single_author_newest_first s hwk.1 hcoh (pkok_reachable tasks hwf) pk h32 f.since f.until_ out hout

/-- **C12 (LMDB, single author + single kind: the limit keeps the newest)** -/
theorem C12_kv_single_authorkind_limit_keeps_newest (tasks : List Task) (hwf : ∀ t ∈ tasks, t.wfp) (f : Filter)
    (dl : Option Nat) (ml : Nat) (pk : Bytes) (h32 : pk.length = 32) (ha : f.authors = some [pk])
    (k : Int) (hk : f.kinds = some [k]) (kd : Bytes) (henc : be32 k = some kd)
    (hids : f.ids = none) (htags : f.tags = [])
    (p : Plan) (hp : planFilter f dl ml = some p) (n : Nat) (hn : p.limit = some n) :
    let s := applyTasks init tasks
    (executePlan s p).Pairwise (NotOlder s) ∧
    ∀ a ∈ executePlan s p, ∀ b ∈ (executePlan s { p with limit := none }).drop n, NotOlder s a b := by
  intro s
  have hcoh := C10_coherent_reachable tasks (fun t ht => wfp_wf t (hwf t ht))
  have hwk := wk_reachable tasks
  have hshape : planShape f = some (.authorkinds, [[4] ++ pk ++ [0] ++ kd], [], false) := by
    unfold planShape
    simp [htags, hids, hk, ha, henc]
  have hpl : p.filter = f ∧ p.index = .authorkinds ∧ p.mats = [[4] ++ pk ++ [0] ++ kd] ∧ p.raises = false := by
    unfold planFilter at hp
    rw [hshape] at hp
    simp only [Option.map_some, Option.some.injEq] at hp
    subst hp
    exact ⟨rfl, rfl, rfl, rfl⟩
  obtain ⟨hpf, hpi, hpm, hpr⟩ := hpl
  apply limit_keeps_newest_of_ordered s p n hn
  intro out hout
  have hcand : planCandidates s { p with limit := none } = scanIndex s [[4] ++ pk ++ [0] ++ kd] f.since f.until_ none := by
    unfold planCandidates
    simp [hpr, hpi, hpm, hpf]
  rw [hcand] at hout
  exact C12_kv_single_authorkind_newest_first s hwk.1 hcoh (pkok_reachable tasks hwf) pk kd h32
    (be32_length _ _ henc) f.since f.until_ out hout

-- non-vacuity: one author, three events, limit 2: the two newest, newest first
example :
    let a : Bytes := List.replicate 32 170
    let e1 : Event := { id := List.replicate 31 0 ++ [1], pubkey := a, createdAt := 1700000000, kind := 1, tags := [] }
    let e2 : Event := { id := List.replicate 31 0 ++ [2], pubkey := a, createdAt := 1700000100, kind := 7, tags := [] }
    let e3 : Event := { id := List.replicate 31 0 ++ [3], pubkey := a, createdAt := 1700000050, kind := 1, tags := [] }
    let s := applyTasks init [.add e1, .add e2, .add e3]
    (planFilter { authors := some [a], limit := some 2 } none 20).map (fun p => executePlan s p) = some [e2.id, e3.id]
    ∧ (planFilter { authors := some [a], kinds := some [1], limit := some 1 } none 20).map (fun p => executePlan s p) = some [e3.id] := by
  decide +kernel

end NostrRelay.KV
