/-
C02 (LMDB) — the local conditions of `C02_kv_scan_complete` discharged for the fixed-width indexes.

Part 1: lexicographic facts about byte strings.  Part 2: `scan_complete_fixed` — for a sorted store
with the top sentinel, match values of one common length in strictly descending order, and keys
under those matches of the shape `match ++ 00 ++ ts(4) ++ 00 ++ id(32)`, the scanner yields the id
of every key whose timestamp lies in the requested window.  Part 3: the kinds, authors and
author+kind indexes of a coherent store have that shape, hence `C02_kv_kinds_complete` etc. with no
hypothesis about neighbouring keys.
-/
import NostrRelay.Props.KVScan

namespace NostrRelay.KV
open NostrRelay

/-! ## Part 1: lexicographic order on byte strings -/

theorem lex_trichotomy (a b : Bytes) : a < b ∨ a = b ∨ b < a := by
  induction a generalizing b with
  | nil => cases b with
    | nil => right; left; rfl
    | cons y ys => left; exact List.nil_lt_cons y ys
  | cons x xs ih => cases b with
    | nil => right; right; exact List.nil_lt_cons x xs
    | cons y ys =>
      rcases Nat.lt_trichotomy x y with h | h | h
      · left; exact List.cons_lt_cons_iff.mpr (Or.inl h)
      · subst h
        rcases ih ys with h' | h' | h'
        · left; exact List.cons_lt_cons_iff.mpr (Or.inr ⟨rfl, h'⟩)
        · right; left; rw [h']
        · right; right; exact List.cons_lt_cons_iff.mpr (Or.inr ⟨rfl, h'⟩)
      · right; right; exact List.cons_lt_cons_iff.mpr (Or.inl h)

theorem lex_irrefl (a : Bytes) : ¬ a < a := by
  induction a with
  | nil => exact List.not_lt_nil []
  | cons x xs ih =>
    intro h
    rcases List.cons_lt_cons_iff.mp h with h' | ⟨_, h'⟩
    · exact Nat.lt_irrefl x h'
    · exact ih h'

theorem lex_trans {a b c : Bytes} (h1 : a < b) (h2 : b < c) : a < c := by
  induction a generalizing b c with
  | nil => cases c with
    | nil => exact absurd h2 (List.not_lt_nil b)
    | cons z zs => exact List.nil_lt_cons z zs
  | cons x xs ih =>
    cases b with
    | nil => exact absurd h1 (List.not_lt_nil _)
    | cons y ys =>
      cases c with
      | nil => exact absurd h2 (List.not_lt_nil _)
      | cons z zs =>
        rcases List.cons_lt_cons_iff.mp h1 with a1 | ⟨e1, a1⟩ <;> rcases List.cons_lt_cons_iff.mp h2 with a2 | ⟨e2, a2⟩
        · exact List.cons_lt_cons_iff.mpr (Or.inl (Nat.lt_trans a1 a2))
        · subst e2; exact List.cons_lt_cons_iff.mpr (Or.inl a1)
        · subst e1; exact List.cons_lt_cons_iff.mpr (Or.inl a2)
        · subst e1; subst e2; exact List.cons_lt_cons_iff.mpr (Or.inr ⟨rfl, ih a1 a2⟩)

theorem lex_asymm {a b : Bytes} (h : a < b) : ¬ b < a := fun h' => lex_irrefl a (lex_trans h h')

/-- blocks of equal length compare first -/
theorem lex_block (a b x y : Bytes) (hl : a.length = b.length) :
    a ++ x < b ++ y ↔ a < b ∨ (a = b ∧ x < y) := by
  induction a generalizing b with
  | nil =>
    cases b with
    | nil => simp [lex_irrefl]
    | cons _ _ => simp at hl
  | cons p ps ih =>
    cases b with
    | nil => simp at hl
    | cons q qs =>
      have hl' : ps.length = qs.length := by simpa using hl
      simp only [List.cons_append, List.cons_lt_cons_iff, ih qs hl', List.cons.injEq]
      constructor
      · rintro (h | ⟨rfl, h | ⟨rfl, h⟩⟩)
        · left; left; exact h
        · left; right; exact ⟨rfl, h⟩
        · right; exact ⟨⟨rfl, rfl⟩, h⟩
      · rintro ((h | ⟨rfl, h⟩) | ⟨⟨rfl, rfl⟩, h⟩)
        · left; exact h
        · right; exact ⟨rfl, Or.inl h⟩
        · right; exact ⟨rfl, Or.inr ⟨rfl, h⟩⟩

/-- a string strictly between two extensions of `m` is itself an extension of `m` -/
theorem between_has_prefix (m r t x : Bytes) (h1 : m ++ r < x) (h2 : x < m ++ t) :
    ∃ r', x = m ++ r' ∧ r < r' ∧ r' < t := by
  induction m generalizing x with
  | nil => exact ⟨x, rfl, h1, h2⟩
  | cons a m' ih =>
    cases x with
    | nil => exact absurd h1 (List.not_lt_nil _)
    | cons b x' =>
      simp only [List.cons_append] at h1 h2
      rcases List.cons_lt_cons_iff.mp h1 with a1 | ⟨e1, a1⟩
      · rcases List.cons_lt_cons_iff.mp h2 with a2 | ⟨e2, _⟩
        · omega
        · omega
      · subst e1
        rcases List.cons_lt_cons_iff.mp h2 with a2 | ⟨_, a2⟩
        · omega
        · obtain ⟨r', hx, hr1, hr2⟩ := ih x' a1 a2
          exact ⟨r', by rw [hx]; rfl, hr1, hr2⟩

theorem not_append_lt_self (m r : Bytes) : ¬ m ++ r < m := by
  induction m with
  | nil => simpa using List.not_lt_nil r
  | cons a m' ih =>
    intro h
    rcases List.cons_lt_cons_iff.mp h with h' | ⟨_, h'⟩
    · exact Nat.lt_irrefl a h'
    · exact ih h'

theorem getLastD_split (l : List Bytes) (h : l ≠ []) : ∃ init, l = init ++ [l.getLastD []] := by
  induction l with
  | nil => exact absurd rfl h
  | cons a as ih =>
    cases as with
    | nil => exact ⟨[], by simp [List.getLastD]⟩
    | cons b bs =>
      obtain ⟨init, hi⟩ := ih (by simp)
      refine ⟨a :: init, ?_⟩
      have : (a :: b :: bs).getLastD [] = (b :: bs).getLastD [] := by simp [List.getLastD]
      rw [this, List.cons_append, ← hi]

/-! ## Part 2: completeness of the scanner over fixed-width blocks -/

/-- the walk of a match ends with "next match" as soon as it meets a key that is bad for it,
    provided the keys it passes before are not below the stop key -/
theorem walk_ends_next (cfg : ScanCfg) (m : Bytes) (pre post : List Bytes) (kb : Bytes)
    (hpre : ∀ x ∈ pre, badKey cfg m x = false → ¬ x < cfg.stop) (hbad : badKey cfg m kb = true) :
    (walk cfg m (pre ++ kb :: post)).2 = .nextMatch := by
  induction pre with
  | nil => simp only [List.nil_append]; unfold walk; simp [hbad]
  | cons x xs ih =>
    simp only [List.cons_append]
    unfold walk
    cases hb : badKey cfg m x with
    | true => simp
    | false =>
      have hs := hpre x List.mem_cons_self hb
      simp only [Bool.false_eq_true, if_false, hs]
      cases hrest : xs ++ kb :: post with
      | nil => simp at hrest
      | cons y ys =>
        simp only
        rw [← hrest]
        exact ih (fun z hz => hpre z (List.mem_cons_of_mem _ hz))

/-- the shape of the keys of one fixed-width index -/
def BlockShape (s : Store) (L : Nat) (mats : List Bytes) : Prop :=
  ∀ x ∈ skeys s, x.take L ∈ mats → ∃ ts id, x = fullKey (x.take L) ts id ∧ ts.length = 4 ∧ id.length = 32

/-- the time window as the scanner sees it (big-endian 4-byte bounds) -/
def inWindow (sB uB : Option Bytes) (ts : Bytes) : Prop :=
  (∀ sn, sB = some sn → ¬ ts < sn) ∧ (∀ u, uB = some u → ¬ u < ts)

def addTimeOf (uB : Option Bytes) : Bytes := match uB with | some u => [0] ++ u ++ [1] | none => []
def stopOf (mats : List Bytes) (sB : Option Bytes) : Bytes :=
  match sB with | some sn => mats.getLastD [] ++ [0] ++ sn | none => mats.getLastD []

theorem fullKey_lt_seek (m ts id : Bytes) (uB : Option Bytes) (hts : ts.length = 4)
    (hu : ∀ u, uB = some u → u.length = 4 ∧ ¬ u < ts) : fullKey m ts id < m ++ addTimeOf uB ++ [255] := by
  unfold fullKey addTimeOf
  cases uB with
  | none =>
    simp only [List.append_nil, List.append_assoc]
    apply List.append_left_lt
    exact List.cons_lt_cons_iff.mpr (Or.inl (by decide))
  | some u =>
    obtain ⟨hul, hnu⟩ := hu u rfl
    simp only [List.append_assoc]
    apply List.append_left_lt
    apply List.cons_lt_cons_iff.mpr; right; refine ⟨rfl, ?_⟩
    show ts ++ ([0] ++ id) < u ++ ([1] ++ [255])
    rw [lex_block ts u _ _ (by rw [hts, hul])]
    rcases lex_trichotomy ts u with h | h | h
    · left; exact h
    · right; exact ⟨h, List.cons_lt_cons_iff.mpr (Or.inl (by decide))⟩
    · exact absurd h hnu

/-- a key of the block of `m` whose timestamp is not below `since` is not below the stop key -/
theorem not_lt_stop (mats : List Bytes) (L : Nat) (hlen : ∀ a ∈ mats, a.length = L)
    (m : Bytes) (hm : m ∈ mats) (hlast : ∀ a ∈ mats, ¬ a < mats.getLastD [] ∨ a = mats.getLastD [])
    (hlastmem : mats.getLastD [] ∈ mats)
    (sB : Option Bytes) (hs4 : ∀ sn, sB = some sn → sn.length = 4)
    (ts id : Bytes) (hts : ts.length = 4) (hsince : ∀ sn, sB = some sn → ¬ ts < sn) :
    ¬ fullKey m ts id < stopOf mats sB := by
  have hml := hlen m hm
  have hll := hlen _ hlastmem
  have hge : ¬ m < mats.getLastD [] := by
    rcases hlast m hm with h | h
    · exact h
    · rw [h]; exact lex_irrefl _
  unfold fullKey stopOf
  cases sB with
  | none =>
    simp only [List.append_assoc]
    intro h
    have := (lex_block m (mats.getLastD []) _ [] (by rw [hml, hll])).mp (by simpa using h)
    rcases this with h' | ⟨_, h'⟩
    · exact hge h'
    · exact List.not_lt_nil _ h'
  | some sn =>
    have hsl := hs4 sn rfl
    have hns := hsince sn rfl
    simp only [List.append_assoc]
    intro h
    rcases (lex_block m (mats.getLastD []) _ _ (by rw [hml, hll])).mp h with h' | ⟨_, h'⟩
    · exact hge h'
    · rcases List.cons_lt_cons_iff.mp h' with h'' | ⟨_, h''⟩
      · omega
      · have := (lex_block ts sn ([0] ++ id) [] (by rw [hts, hsl])).mp (by simpa using h'')
        rcases this with a | ⟨_, a⟩
        · exact hns a
        · exact List.not_lt_nil _ a

theorem badKey_fullKey (cfg : ScanCfg) (m ts id : Bytes) (hts : ts.length = 4) (hid : id.length = 32)
    (hw : inWindow cfg.since cfg.until_ ts) : badKey cfg m (fullKey m ts id) = false := by
  unfold badKey
  rw [pySlice_fullKey m ts id hts hid]
  have h1 : (fullKey m ts id).take m.length = m := by
    unfold fullKey
    rw [show m ++ [0] ++ ts ++ [0] ++ id = m ++ ([0] ++ ts ++ [0] ++ id) by simp]
    exact take_append_left _ _ _ rfl
  simp only [h1, bne_self_eq_false, Bool.false_or]
  obtain ⟨hs, hu⟩ := hw
  cases hsn : cfg.since with
  | none =>
    cases hun : cfg.until_ with
    | none => simp
    | some u => simp [hu u hun]
  | some sn =>
    cases hun : cfg.until_ with
    | none => simp [hs sn hsn]
    | some u => simp [hs sn hsn, hu u hun]

/-- **C02 (LMDB, fixed-width indexes)** — for match values of one length in strictly descending
    order over a sorted store with a top sentinel, whose keys under those matches have the shape
    `match 00 ts 00 id`: every such key with its timestamp in the window is yielded.  No hypothesis
    about neighbouring keys is left. -/
theorem scan_complete_fixed (s : Store) (hs : Sorted s) (L : Nat) (mats : List Bytes)
    (hlen : ∀ a ∈ mats, a.length = L) (hdesc : mats.Pairwise (fun a b => b < a))
    (hshape : BlockShape s L mats)
    (cfg : ScanCfg) (hstop : cfg.stop = stopOf mats cfg.since)
    (hs4 : ∀ sn, cfg.since = some sn → sn.length = 4) (hu4 : ∀ u, cfg.until_ = some u → u.length = 4)
    (top : Bytes) (htop : top ∈ skeys s) (htopge : ∀ a ∈ mats, ¬ top < a ++ addTimeOf cfg.until_ ++ [255])
    (m ts id : Bytes) (hm : m ∈ mats) (hts : ts.length = 4) (hid : id.length = 32)
    (hk : fullKey m ts id ∈ skeys s) (hw : inWindow cfg.since cfg.until_ ts)
    (hev : inEvents cfg id = true) :
    id ∈ scanMatches s cfg (addTimeOf cfg.until_) mats true := by
  obtain ⟨before, after, hsplit⟩ := List.append_of_mem hm
  have hne : mats ≠ [] := by intro h; rw [h] at hm; cases hm
  -- the last match is the smallest
  obtain ⟨init, hinit⟩ := getLastD_split mats hne
  have hlastmem : mats.getLastD [] ∈ mats := by
    have : mats.getLastD [] ∈ init ++ [mats.getLastD []] := by simp
    rw [← hinit] at this; exact this
  have hlast : ∀ a ∈ mats, ¬ a < mats.getLastD [] ∨ a = mats.getLastD [] := by
    intro a ha
    by_cases he : a = mats.getLastD []
    · right; exact he
    · left
      have hd := hdesc
      rw [hinit] at ha hd
      rcases List.mem_append.mp ha with h | h
      · have := (List.pairwise_append.mp hd).2.2 a h (mats.getLastD []) (by simp)
        exact lex_asymm this
      · simp only [List.mem_singleton] at h; exact absurd h he
  have hkey_good : ∀ m' ∈ mats, ∀ ts' id', ts'.length = 4 → id'.length = 32 → inWindow cfg.since cfg.until_ ts' →
      good cfg m' (fullKey m' ts' id') = true := by
    intro m' hm' ts' id' h4 h32 hw'
    unfold good
    rw [badKey_fullKey cfg m' ts' id' h4 h32 hw']
    have := not_lt_stop mats L hlen m' hm' hlast hlastmem cfg.since hs4 ts' id' h4 hw'.1
    rw [← hstop] at this
    simp [this]
  have hlt : fullKey m ts id < m ++ addTimeOf cfg.until_ ++ [255] :=
    fullKey_lt_seek m ts id cfg.until_ hts (fun u hu => ⟨hu4 u hu, hw.2 u hu⟩)
  have hseekAll : ∀ a ∈ mats, seekFinds s (a ++ addTimeOf cfg.until_ ++ [255]) = true := by
    intro a ha
    unfold seekFinds
    simp only [List.any_eq_true, Bool.not_eq_true', decide_eq_false_iff_not]
    exact ⟨top, htop, htopge a ha⟩
  have hmatsdesc := hdesc
  rw [hsplit] at hmatsdesc
  have hbefore_gt : ∀ m' ∈ before, m < m' := by
    intro m' hm'
    exact (List.pairwise_append.mp hmatsdesc).2.2 m' hm' m (by simp)
  rw [hsplit]
  have hlast_id := lastN_fullKey m ts id hid
  rw [← hlast_id]
  apply C02_kv_scan_complete s hs cfg (addTimeOf cfg.until_) before m after true (fullKey m ts id) hk hlt
  · exact hkey_good m hm ts id hts hid hw
  · -- every key between the target and the seek position is a good key of the same block
    intro x hx hkx hxs
    have hml := hlen m hm
    obtain ⟨r', hxr, hr1, hr2⟩ := between_has_prefix m ([0] ++ ts ++ [0] ++ id) (addTimeOf cfg.until_ ++ [255]) x
      (by simpa [fullKey, List.append_assoc] using hkx) (by simpa [List.append_assoc] using hxs)
    have htake : x.take L = m := by rw [hxr]; exact take_append_left _ _ _ hml.symm
    obtain ⟨ts', id', hxf, h4, h32⟩ := hshape x hx (by rw [htake]; exact hm)
    rw [htake] at hxf
    -- its timestamp is in the window
    have hr' : r' = [0] ++ ts' ++ [0] ++ id' := by
      have : m ++ r' = m ++ ([0] ++ ts' ++ [0] ++ id') := by rw [← hxr, hxf]; simp [fullKey, List.append_assoc]
      exact List.append_cancel_left this
    have hts_le : ¬ ts' < ts := by
      intro hlt'
      rw [hr'] at hr1
      have : ts ++ ([0] ++ id) < ts' ++ ([0] ++ id') := by
        have := hr1
        simp only [List.append_assoc, List.cons_append, List.nil_append] at this
        rcases List.cons_lt_cons_iff.mp this with h | ⟨_, h⟩
        · omega
        · simpa using h
      rcases (lex_block ts ts' _ _ (by rw [hts, h4])).mp this with h | ⟨h, _⟩
      · exact lex_asymm h hlt'
      · rw [h] at hlt'; exact lex_irrefl _ hlt'
    have hw' : inWindow cfg.since cfg.until_ ts' := by
      constructor
      · intro sn hsn hlt'
        rcases lex_trichotomy ts sn with h | h | h
        · exact hw.1 sn hsn h
        · rw [h] at hts_le; exact hts_le hlt'
        · exact hts_le (lex_trans hlt' h)
      · intro u hu hlt'
        rw [hr'] at hr2
        have hu4' := hu4 u hu
        simp only [addTimeOf, hu, List.append_assoc, List.cons_append, List.nil_append] at hr2
        rcases List.cons_lt_cons_iff.mp hr2 with h | ⟨_, h⟩
        · omega
        · have h' : ts' ++ ([0] ++ id') < u ++ ([1] ++ [255]) := by simpa using h
          rcases (lex_block ts' u _ _ (by rw [h4, hu4'])).mp h' with a | ⟨a, _⟩
          · exact lex_asymm a hlt'
          · rw [a] at hlt'; exact lex_irrefl _ hlt'
    rw [hxf]
    exact hkey_good m hm ts' id' h4 h32 hw'
  · rw [hlast_id]; exact hev
  · exact hseekAll m hm
  · -- the walk of every earlier (larger) match ends with "next match": it reaches the target's block
    intro m' hm'
    have hm'mem : m' ∈ mats := by rw [hsplit]; exact List.mem_append_left _ hm'
    refine ⟨hseekAll m' hm'mem, ?_⟩
    have hmm' := hbefore_gt m' hm'
    have hml := hlen m hm
    have hml' := hlen m' hm'mem
    have hklt : fullKey m ts id < m' ++ addTimeOf cfg.until_ ++ [255] := by
      unfold fullKey
      simp only [List.append_assoc]
      exact (lex_block m m' _ _ (by rw [hml, hml'])).mpr (Or.inl hmm')
    obtain ⟨pre, post, hb, hpre⟩ := below_split s hs _ (fullKey m ts id) hk hklt
    rw [hb]
    apply walk_ends_next
    · intro x hx hnb
      obtain ⟨hxs, _, _⟩ := hpre x hx
      -- not bad for m' ⇒ prefix m' ⇒ a key of the block of m', which lies above the stop key
      have htk : x.take m'.length = m' := by
        unfold badKey at hnb
        simp only [Bool.or_eq_false_iff, bne_eq_false_iff_eq] at hnb
        exact hnb.1.1
      rw [hml'] at htk
      obtain ⟨ts', id', hxf, h4, h32⟩ := hshape x hxs (by rw [htk]; exact hm'mem)
      rw [htk] at hxf
      have hwin : ∀ sn, cfg.since = some sn → ¬ ts' < sn := by
        intro sn hsn
        unfold badKey at hnb
        rw [hxf, pySlice_fullKey m' ts' id' h4 h32] at hnb
        simp only [hsn, Bool.or_eq_false_iff, decide_eq_false_iff_not] at hnb
        exact hnb.1.2
      rw [hxf, hstop]
      exact not_lt_stop mats L hlen m' hm'mem hlast hlastmem cfg.since hs4 ts' id' h4 hwin
    · -- the target key itself is bad for m'
      unfold badKey
      have : (fullKey m ts id).take m'.length = m := by
        unfold fullKey
        rw [show m ++ [0] ++ ts ++ [0] ++ id = m ++ ([0] ++ ts ++ [0] ++ id) by simp, hml', ← hml]
        exact take_append_left _ _ _ rfl
      have hne' : m ≠ m' := by intro h; rw [h] at hmm'; exact lex_irrefl _ hmm'
      simp [this, hne']

/-! ## Part 3: the kinds, authors and author+kind indexes of a coherent store -/

theorem get_some_mem_skeys (s : Store) (k : Bytes) (v : Option Event) (h : get s k = some v) : k ∈ skeys s := by
  induction s with
  | nil => simp [get] at h
  | cons p rest ih =>
    obtain ⟨k', v'⟩ := p
    unfold get at h
    by_cases hk : k = k'
    · subst hk; simp [skeys]
    · simp only [hk, if_false] at h
      have := ih h
      simp only [skeys, List.map_cons, List.mem_cons] at this ⊢
      right; exact this

/-- numeric order implies lexicographic order of the 4-byte encodings -/
theorem be32_le_not_lt (a b : Int) (x y : Bytes) (ha : be32 a = some x) (hb : be32 b = some y) (h : a ≤ b) : ¬ y < x := by
  intro hlt
  have h1 : b ≤ a := be32_not_lt b a y x hb ha (lex_asymm hlt)
  have hab : a = b := by omega
  subst hab
  rw [ha] at hb
  cases hb
  exact lex_irrefl _ hlt

/-- a key of a coherent store whose first byte is 2, 3 or 4 is `fullKey conv ts id` for the matching
    conversion of a stored event -/
theorem sec_key_form (s : Store) (hc : Coh s) (x : Bytes) (hx : x ∈ skeys s) (b : Nat) (rest : Bytes)
    (hxb : x = b :: rest) (hb : b = 2 ∨ b = 3 ∨ b = 4) :
    ∃ c ts kd, getEvent s c.id = some c ∧ c.id.length = 32 ∧ be32 c.createdAt = some ts ∧ be32 c.kind = some kd ∧
      ((b = 2 ∧ x = fullKey ([2] ++ kd) ts c.id) ∨ (b = 3 ∧ x = fullKey ([3] ++ c.pubkey) ts c.id) ∨
       (b = 4 ∧ x = fullKey ([4] ++ c.pubkey ++ [0] ++ kd) ts c.id)) := by
  have hnt : x ≠ tombstone := by
    intro h; rw [h, tombstone] at hxb; cases hxb; omega
  have hnp : ∀ id, x ≠ primaryKey id := by
    intro id h; rw [h, primaryKey] at hxb; cases hxb; omega
  obtain ⟨c, hcst, hid, hkc⟩ := key_owner s hc x hx hnt hnp
  obtain ⟨ts, kd, conv, hts, hkd, hkeq, hconv⟩ := skOf_form c x hkc
  refine ⟨c, ts, kd, hcst, hid, hts, hkd, ?_⟩
  rw [hkeq] at hxb
  unfold fullKey at hxb
  rcases hconv with h | h | h | h | ⟨n, v, h⟩
  · subst h; simp at hxb; omega
  · subst h; simp at hxb
    left; exact ⟨by omega, hkeq⟩
  · subst h; simp at hxb
    right; left; exact ⟨by omega, hkeq⟩
  · subst h; simp at hxb
    right; right; exact ⟨by omega, hkeq⟩
  · subst h; simp [tagKey] at hxb; omega

/-- the kinds index has the block shape -/
theorem kinds_shape (s : Store) (hc : Coh s) (kds : List Bytes) (h4 : ∀ kd ∈ kds, kd.length = 4) :
    BlockShape s 5 (kds.map fun kd => [2] ++ kd) := by
  intro x hx hmem
  obtain ⟨kd, hkd, htake⟩ := List.mem_map.mp hmem
  cases x with
  | nil => simp at htake
  | cons b rest =>
    have hb : b = 2 := by simp at htake; omega
    obtain ⟨c, ts, kd', hcst, hid, hts, hkd', hform⟩ := sec_key_form s hc (b :: rest) hx b rest rfl (Or.inl hb)
    rcases hform with ⟨_, hf⟩ | ⟨h3, _⟩ | ⟨h4', _⟩
    · refine ⟨ts, c.id, ?_, be32_length _ _ hts, hid⟩
      have hl : ([2] ++ kd').length = 5 := by simp [be32_length _ _ hkd']
      have : (b :: rest).take 5 = [2] ++ kd' := by
        rw [hf]; unfold fullKey
        rw [show [2] ++ kd' ++ [0] ++ ts ++ [0] ++ c.id = ([2] ++ kd') ++ ([0] ++ ts ++ [0] ++ c.id) by simp]
        exact take_append_left _ _ _ hl.symm
      rw [this]; exact hf
    · omega
    · omega

/-- **C02 (LMDB, kinds index)** — for a coherent, sorted store holding the top sentinel: a query
    over kinds (their 4-byte encodings given as match values in strictly descending order, as the
    filter validation delivers them) with optional since / until returns the id of *every* stored
    event of one of those kinds whose timestamp lies in the window — whatever else is stored. -/
theorem C02_kv_kinds_complete (s : Store) (hs : Sorted s) (hc : Coh s) (htomb : tombstone ∈ skeys s)
    (kds : List Bytes) (h4 : ∀ kd ∈ kds, kd.length = 4)
    (hdesc : (kds.map fun kd => [2] ++ kd).Pairwise (fun a b => b < a))
    (since until_ : Option Int) (sB uB : Option Bytes) (hsB : encOpt since = some sB) (huB : encOpt until_ = some uB)
    (c : Event) (hst : getEvent s c.id = some c) (kd : Bytes) (hkd : be32 c.kind = some kd) (hmem : kd ∈ kds)
    (hsince : ∀ x, since = some x → x ≤ c.createdAt) (huntil : ∀ x, until_ = some x → c.createdAt ≤ x) :
    ∃ out, scanIndex s (kds.map fun kd => [2] ++ kd) since until_ none = some out ∧ c.id ∈ out := by
  unfold scanIndex
  simp only [hsB, huB, Option.bind_some]
  refine ⟨_, rfl, ?_⟩
  -- the event's kind key is in the store
  have hrec := hc.rec_ok c.id c ((getEvent_iff s c.id c).mp hst)
  obtain ⟨_, hid, hsec, hkeys⟩ := hrec
  obtain ⟨ts, hts⟩ : ∃ ts, be32 c.createdAt = some ts := by
    cases h : be32 c.createdAt with
    | none => simp [secondaryKeys, h] at hsec
    | some ts => exact ⟨ts, rfl⟩
  have hkin : fullKey ([2] ++ kd) ts c.id ∈ skOf c := by
    unfold skOf secondaryKeys convKeys
    simp [hts, hkd]
  have hkmem : fullKey ([2] ++ kd) ts c.id ∈ skeys s := get_some_mem_skeys s _ _ (hkeys _ hkin)
  have hs4 : ∀ sn, sB = some sn → sn.length = 4 := by
    intro sn h
    cases since with
    | none => simp [encOpt] at hsB; rw [← hsB] at h; cases h
    | some x =>
      simp only [encOpt, Option.map_eq_some_iff] at hsB
      obtain ⟨b, hb, hb'⟩ := hsB
      rw [← hb'] at h; cases h
      exact be32_length _ _ hb
  have hu4 : ∀ u, uB = some u → u.length = 4 := by
    intro u h
    cases until_ with
    | none => simp [encOpt] at huB; rw [← huB] at h; cases h
    | some x =>
      simp only [encOpt, Option.map_eq_some_iff] at huB
      obtain ⟨b, hb, hb'⟩ := huB
      rw [← hb'] at h; cases h
      exact be32_length _ _ hb
  have hw : inWindow sB uB ts := by
    constructor
    · intro sn h
      cases since with
      | none => simp [encOpt] at hsB; rw [← hsB] at h; cases h
      | some x =>
        simp only [encOpt, Option.map_eq_some_iff] at hsB
        obtain ⟨b, hb, hb'⟩ := hsB
        rw [← hb'] at h; cases h
        exact be32_le_not_lt x c.createdAt _ _ hb hts (hsince x rfl)
    · intro u h
      cases until_ with
      | none => simp [encOpt] at huB; rw [← huB] at h; cases h
      | some x =>
        simp only [encOpt, Option.map_eq_some_iff] at huB
        obtain ⟨b, hb, hb'⟩ := huB
        rw [← hb'] at h; cases h
        exact be32_le_not_lt c.createdAt x _ _ hts hb (huntil x rfl)
  have hmain := scan_complete_fixed s hs 5 (kds.map fun kd => [2] ++ kd)
    (by intro a ha; obtain ⟨k, hk, rfl⟩ := List.mem_map.mp ha; simp [h4 k hk]) hdesc (kinds_shape s hc kds h4)
    ⟨sB, uB, stopOf (kds.map fun kd => [2] ++ kd) sB, none⟩ rfl hs4 hu4
    tombstone htomb
    (by
      intro a ha hlt
      obtain ⟨k, _, rfl⟩ := List.mem_map.mp ha
      simp only [tombstone, List.append_assoc, List.cons_append, List.nil_append] at hlt
      rcases List.cons_lt_cons_iff.mp hlt with h | ⟨h, _⟩ <;> omega)
    ([2] ++ kd) ts c.id (List.mem_map.mpr ⟨kd, hmem, rfl⟩) (be32_length _ _ hts) hid hkmem hw rfl
  exact hmain


/-! ## Part 4: every store the writer can produce is sorted and keeps the top sentinel -/

/-- sorted, and the tombstone `ee` written at initialisation is still there -/
def WellKept (s : Store) : Prop := Sorted s ∧ tombstone ∈ skeys s

theorem skeys_put (s : Store) (k : Bytes) (v : Option Event) (x : Bytes) :
    x ∈ skeys (put s k v) ↔ x = k ∨ x ∈ skeys s := by
  induction s with
  | nil => simp [put, skeys]
  | cons p rest ih =>
    obtain ⟨k', v'⟩ := p
    unfold put
    by_cases h1 : k < k'
    · simp [h1, skeys]
    · by_cases h2 : k = k'
      · subst h2; simp [h1, skeys]
      · simp only [h1, h2, if_false]
        simp only [skeys, List.map_cons, List.mem_cons] at ih ⊢
        rw [ih]
        constructor
        · rintro (a | a | a)
          · right; left; exact a
          · left; exact a
          · right; right; exact a
        · rintro (a | a | a)
          · right; left; exact a
          · left; exact a
          · right; right; exact a

theorem sorted_put (s : Store) (hs : Sorted s) (k : Bytes) (v : Option Event) : Sorted (put s k v) := by
  induction s with
  | nil => simp [put, Sorted, skeys]
  | cons p rest ih =>
    obtain ⟨k', v'⟩ := p
    have hs' : Sorted rest := by
      unfold Sorted skeys at hs ⊢
      simp only [List.map_cons, List.pairwise_cons] at hs
      exact hs.2
    have hk' : ∀ x ∈ skeys rest, k' < x := by
      unfold Sorted skeys at hs
      simp only [List.map_cons, List.pairwise_cons] at hs
      exact hs.1
    unfold put
    by_cases h1 : k < k'
    · simp only [h1, if_true]
      unfold Sorted skeys at hs ⊢
      simp only [List.map_cons, List.pairwise_cons] at hs ⊢
      refine ⟨?_, hs⟩
      intro x hx
      rcases List.mem_cons.mp hx with rfl | hx
      · exact h1
      · exact lex_trans h1 (hs.1 x hx)
    · by_cases h2 : k = k'
      · subst h2
        simp only [h1, if_false, if_true]
        exact hs
      · simp only [h1, h2, if_false]
        have hlt : k' < k := by
          rcases lex_trichotomy k k' with a | a | a
          · exact absurd a h1
          · exact absurd a h2
          · exact a
        unfold Sorted skeys
        simp only [List.map_cons, List.pairwise_cons]
        refine ⟨?_, ih hs'⟩
        intro x hx
        rcases (skeys_put rest k v x).mp hx with rfl | hx
        · exact hlt
        · exact hk' x hx

theorem sorted_del (s : Store) (hs : Sorted s) (k : Bytes) : Sorted (del s k) := by
  unfold Sorted skeys del at *
  exact List.Pairwise.sublist (List.Sublist.map _ List.filter_sublist) hs

theorem skeys_del (s : Store) (k x : Bytes) : x ∈ skeys (del s k) ↔ x ∈ skeys s ∧ x ≠ k := by
  unfold skeys del
  simp only [List.mem_map, List.mem_filter, decide_eq_true_eq]
  constructor
  · rintro ⟨p, ⟨hp, hne⟩, rfl⟩; exact ⟨⟨p, hp, rfl⟩, hne⟩
  · rintro ⟨⟨p, hp, rfl⟩, hne⟩; exact ⟨p, ⟨hp, hne⟩, rfl⟩

theorem wk_putChecked (s s' : Store) (k : Bytes) (v : Option Event) (h : WellKept s) (hp : putChecked s k v = some s') :
    WellKept s' := by
  unfold putChecked at hp
  split at hp
  · cases hp
  · cases hp
    exact ⟨sorted_put s h.1 k v, (skeys_put s k v _).mpr (Or.inr h.2)⟩

theorem wk_delChecked (s s' : Store) (k : Bytes) (h : WellKept s) (hk : k ≠ tombstone) (hp : delChecked s k = some s') :
    WellKept s' := by
  unfold delChecked at hp
  split at hp
  · cases hp
  · cases hp
    exact ⟨sorted_del s h.1 k, (skeys_del s k _).mpr ⟨h.2, fun e => hk e.symm⟩⟩

theorem wk_putAll (s s' : Store) (kvs : List (Bytes × Option Event)) (h : WellKept s) (hp : putAll s kvs = some s') :
    WellKept s' := by
  induction kvs generalizing s with
  | nil => simp [putAll] at hp; subst hp; exact h
  | cons kv rest ih =>
    obtain ⟨k, v⟩ := kv
    simp only [putAll] at hp
    cases h1 : putChecked s k v with
    | none => simp [h1] at hp
    | some s1 =>
      simp only [h1, Option.bind_some] at hp
      exact ih s1 (wk_putChecked s s1 k v h h1) hp

theorem wk_delAll (s s' : Store) (ks : List Bytes) (h : WellKept s) (hks : ∀ k ∈ ks, k ≠ tombstone)
    (hp : delAll s ks = some s') : WellKept s' := by
  induction ks generalizing s with
  | nil => simp [delAll] at hp; subst hp; exact h
  | cons k rest ih =>
    simp only [delAll] at hp
    cases h1 : delChecked s k with
    | none => simp [h1] at hp
    | some s1 =>
      simp only [h1, Option.bind_some] at hp
      exact ih s1 (wk_delChecked s s1 k h (hks k List.mem_cons_self) h1) (fun x hx => hks x (List.mem_cons_of_mem _ hx)) hp

theorem wk_writeEvent (s s' : Store) (e : Event) (h : WellKept s) (hp : writeEvent s e = some s') : WellKept s' := by
  unfold writeEvent at hp
  cases hsk : secondaryKeys e with
  | none => simp [hsk] at hp
  | some sk =>
    simp only [hsk, Option.bind_eq_bind, Option.bind_some] at hp
    exact wk_putAll s s' _ h hp

/-- no key of an event is the tombstone -/
theorem secondary_ne_tombstone (e : Event) (sk : List Bytes) (h : secondaryKeys e = some sk) : ∀ k ∈ sk, k ≠ tombstone := by
  unfold secondaryKeys at h
  cases hts : be32 e.createdAt with
  | none => simp [hts] at h
  | some ts =>
    cases hcs : convKeys e with
    | none => simp [hts, hcs] at h
    | some cs =>
      simp only [hts, hcs, Option.bind_eq_bind, Option.bind_some, Option.pure_def, Option.some.injEq] at h
      subst h
      intro k hk
      simp only [List.mem_map] at hk
      obtain ⟨c, hc, rfl⟩ := hk
      obtain ⟨b, rest, rfl, hb⟩ := convKeys_head e cs hcs c hc
      intro heq
      simp only [fullKey, tombstone, List.cons_append, List.cons.injEq] at heq
      rcases hb with rfl | rfl | rfl | rfl | rfl <;> omega

theorem wk_deleteEvent (s s' : Store) (e : Event) (h : WellKept s) (hp : deleteEvent s e = some s') : WellKept s' := by
  unfold deleteEvent at hp
  cases hsk : secondaryKeys e with
  | none => simp [hsk] at hp
  | some sk =>
    simp only [hsk, Option.bind_eq_bind, Option.bind_some] at hp
    refine wk_delAll s s' _ h ?_ hp
    intro k hk
    rcases List.mem_append.mp hk with hk | hk
    · exact secondary_ne_tombstone e sk hsk k (List.mem_reverse.mp hk)
    · simp only [List.mem_singleton] at hk; subst hk; exact primaryKey_ne_tombstone e.id

theorem wk_replaceLoop (e : Event) (dTag : Option Bytes) (ids : List Bytes) (s s' : Store) (h : WellKept s)
    (hp : replaceLoop e dTag s ids = some s') : WellKept s' := by
  induction ids generalizing s with
  | nil => simp [replaceLoop] at hp; subst hp; exact h
  | cons id rest ih =>
    unfold replaceLoop at hp
    split at hp
    · exact ih s h hp
    · cases hg : getEvent s id with
      | none => simp [hg] at hp
      | some cand =>
        simp only [hg] at hp
        cases dTag with
        | none =>
          simp only at hp
          cases hd : deleteEvent s cand with
          | none => simp [hd] at hp
          | some s1 =>
            simp only [hd, Option.bind_some] at hp
            exact ih s1 (wk_deleteEvent s s1 cand h hd) hp
        | some d =>
          simp only at hp
          cases hdv : dValue cand.tags with
          | none => simp [hdv] at hp
          | some cd =>
            simp only [hdv] at hp
            split at hp
            · cases hd : deleteEvent s cand with
              | none => simp [hd] at hp
              | some s1 =>
                simp only [hd, Option.bind_some] at hp
                exact ih s1 (wk_deleteEvent s s1 cand h hd) hp
            · exact ih s h hp

theorem wk_deleteLoop (refs cands : List Bytes) (s s' : Store) (h : WellKept s)
    (hp : deleteLoop refs s cands = some s') : WellKept s' := by
  induction cands generalizing s with
  | nil => simp [deleteLoop] at hp; subst hp; exact h
  | cons id rest ih =>
    unfold deleteLoop at hp
    split at hp
    · cases hg : getEvent s id with
      | none => simp only [hg] at hp; exact ih s h hp
      | some cand =>
        simp only [hg] at hp
        cases hd : deleteEvent s cand with
        | none => simp [hd] at hp
        | some s1 =>
          simp only [hd, Option.bind_some] at hp
          exact ih s1 (wk_deleteEvent s s1 cand h hd) hp
    · exact ih s h hp

theorem wk_postSave (s s' : Store) (e : Event) (h : WellKept s) (hp : postSave s e = some s') : WellKept s' := by
  unfold postSave at hp
  split at hp
  · unfold postSaveReplaceable at hp
    simp only [Option.bind_eq_some_iff] at hp
    obtain ⟨dTag, _, kd, _, ids, _, hl⟩ := hp
    exact wk_replaceLoop e dTag ids s s' h hl
  · split at hp
    · unfold postSaveDelete at hp
      cases hr : deletionRefs e.tags with
      | none => simp [hr] at hp
      | some ids =>
        simp only [hr, Option.bind_eq_bind, Option.bind_some, Option.pure_def] at hp
        split at hp
        · cases hp; exact h
        · simp only [Option.bind_eq_some_iff] at hp
          obtain ⟨cands, _, hl⟩ := hp
          exact wk_deleteLoop ids cands s s' h hl
    · cases hp; exact h

theorem wk_taskBody (s s' : Store) (t : Task) (h : WellKept s) (hp : taskBody s t = some s') : WellKept s' := by
  cases t with
  | add e =>
    simp only [taskBody] at hp
    cases hg : getEvent s e.id with
    | some _ => simp only [hg] at hp; cases hp; exact h
    | none =>
      simp only [hg, Option.bind_eq_some_iff] at hp
      obtain ⟨s1, hw, hps⟩ := hp
      exact wk_postSave s1 s' e (wk_writeEvent s s1 e h hw) hps
  | del id =>
    simp only [taskBody] at hp
    cases hg : getEvent s id with
    | some e => simp only [hg] at hp; exact wk_deleteEvent s s' e h hp
    | none => simp only [hg] at hp; cases hp; exact h

theorem wk_applyTask (s : Store) (t : Task) (h : WellKept s) : WellKept (applyTask s t) := by
  unfold applyTask
  cases hb : taskBody s t with
  | none => simpa using h
  | some s' => simpa using wk_taskBody s s' t h hb

theorem wk_init : WellKept init := by
  refine ⟨?_, ?_⟩ <;> simp [init, Sorted, skeys]

theorem wk_reachable (ts : List Task) : WellKept (applyTasks init ts) := by
  unfold applyTasks
  suffices ∀ s, WellKept s → WellKept (ts.foldl applyTask s) from this init wk_init
  induction ts with
  | nil => intro s h; exact h
  | cons t rest ih => intro s h; exact ih _ (wk_applyTask s t h)

/-- **C02 (LMDB, kinds index, every reachable store)** — after any history of writer tasks
    (additions, deletions, replacements, kind-5 deletions, aborted transactions), a kinds query with
    optional since / until returns every stored event of a requested kind inside the window. -/
theorem C02_kv_kinds_complete_reachable (tasks : List Task) (hwf : ∀ t ∈ tasks, t.wf)
    (kds : List Bytes) (h4 : ∀ kd ∈ kds, kd.length = 4)
    (hdesc : (kds.map fun kd => [2] ++ kd).Pairwise (fun a b => b < a))
    (since until_ : Option Int) (sB uB : Option Bytes) (hsB : encOpt since = some sB) (huB : encOpt until_ = some uB)
    (c : Event) (hst : getEvent (applyTasks init tasks) c.id = some c) (kd : Bytes) (hkd : be32 c.kind = some kd)
    (hmem : kd ∈ kds) (hsince : ∀ x, since = some x → x ≤ c.createdAt) (huntil : ∀ x, until_ = some x → c.createdAt ≤ x) :
    ∃ out, scanIndex (applyTasks init tasks) (kds.map fun kd => [2] ++ kd) since until_ none = some out ∧ c.id ∈ out :=
  C02_kv_kinds_complete _ (wk_reachable tasks).1 (C10_coherent_reachable tasks hwf) (wk_reachable tasks).2
    kds h4 hdesc since until_ sB uB hsB huB c hst kd hkd hmem hsince huntil

/-! ## Part 5: the statement at the level of a REQ filter -/

theorem be32_lt_of_lt (a b : Int) (x y : Bytes) (ha : be32 a = some x) (hb : be32 b = some y) (h : a < b) : x < y := by
  rcases lex_trichotomy x y with h1 | h1 | h1
  · exact h1
  · subst h1
    have := be32_inj a b x ha hb
    omega
  · exact absurd h1 (be32_le_not_lt a b x y ha hb (by omega))

/-- kinds in strictly descending order (as `NostrQuery.sort_fields` delivers them) give match values in
    strictly descending byte order -/
theorem kinds_mats_desc (ks : List Int) (kds : List Bytes) (henc : ks.map be32 = kds.map some)
    (hdesc : ks.Pairwise (fun a b => b < a)) :
    (kds.map fun kd => [2] ++ kd).Pairwise (fun a b => b < a) := by
  induction ks generalizing kds with
  | nil =>
    cases kds with
    | nil => simp
    | cons _ _ => simp at henc
  | cons k rest ih =>
    cases kds with
    | nil => simp at henc
    | cons kd kdrest =>
      simp only [List.map_cons, List.cons.injEq] at henc
      obtain ⟨hk, hrest⟩ := henc
      simp only [List.pairwise_cons] at hdesc
      simp only [List.map_cons, List.pairwise_cons]
      refine ⟨?_, ih kdrest hrest hdesc.2⟩
      intro m hm
      obtain ⟨kd', hkd', rfl⟩ := List.mem_map.mp hm
      -- kd' encodes some k' of rest
      have : some kd' ∈ kdrest.map some := List.mem_map.mpr ⟨kd', hkd', rfl⟩
      rw [← hrest] at this
      obtain ⟨k', hk', hk'e⟩ := List.mem_map.mp this
      apply List.append_left_lt
      exact be32_lt_of_lt k' k kd' kd hk'e hk (hdesc.1 k' hk')

/-- **C02 (LMDB, a kinds filter, every reachable store)** — for a filter that names kinds (in the
    validated, descending order, all encodable) and optionally since / until, and nothing else: after
    any history of writer tasks, every stored event that matches the filter under the strict NIP-01
    reading is delivered, as long as the limit does not truncate. -/
theorem C02_kv_kinds_filter_complete (tasks : List Task) (hwf : ∀ t ∈ tasks, t.wf) (f : Filter) (dl : Option Nat)
    (ks : List Int) (hk : f.kinds = some ks) (hne : ks ≠ []) (hids : f.ids = none) (hauth : f.authors = none) (htags : f.tags = [])
    (kds : List Bytes) (henc : ks.map be32 = kds.map some) (hdesc : ks.Pairwise (fun a b => b < a))
    (sB uB : Option Bytes) (hsB : encOpt f.since = some sB) (huB : encOpt f.until_ = some uB)
    (p : Plan) (hp : planFilter f dl ml = some p)
    (e : Event) (hst : getEvent (applyTasks init tasks) e.id = some e) (hm : matchesSpec true f e = true)
    (hlim : ∀ n cands, p.limit = some n → planCandidates (applyTasks init tasks) p = some cands →
      (planHits (applyTasks init tasks) p.filter cands).length ≤ n) :
    e.id ∈ executePlan (applyTasks init tasks) p := by
  -- the plan
  have hkds4 : ∀ kd ∈ kds, kd.length = 4 := by
    intro kd hkd
    have : some kd ∈ kds.map some := List.mem_map.mpr ⟨kd, hkd, rfl⟩
    rw [← henc] at this
    obtain ⟨k, _, hke⟩ := List.mem_map.mp this
    exact be32_length _ _ hke
  have hshape : planShape f = some (.kinds, kds.map (fun kd => [2] ++ kd), [], false) := by
    unfold planShape
    have h1 : (f.ids == some []) = false := by rw [hids]; rfl
    have h2 : (f.kinds == some []) = false := by
      rw [hk]; cases ks with
      | nil => exact absurd rfl hne
      | cons a as => rfl
    have h3 : (f.authors == some []) = false := by rw [hauth]; rfl
    simp only [h1, h2, h3, Bool.or_self, Bool.false_eq_true, if_false, htags, List.any_nil, hids, hauth, hk,
      Option.isSome_some, Option.isSome_none, Bool.and_false, Bool.true_and, Option.getD_some, henc, List.map_map]
    simp [Function.comp_def, List.filterMap_map, hne]
  have hpl : p.filter = f ∧ p.index = .kinds ∧ p.mats = kds.map (fun kd => [2] ++ kd) ∧ p.raises = false := by
    unfold planFilter at hp
    rw [hshape] at hp
    simp only [Option.map_some, Option.some.injEq] at hp
    subst hp
    exact ⟨rfl, rfl, rfl, rfl⟩
  obtain ⟨hpf, hpi, hpm, hpr⟩ := hpl
  -- the event's kind is one of the requested ones, and it lies in the window
  unfold matchesSpec at hm
  simp only [Bool.and_eq_true] at hm
  obtain ⟨⟨⟨⟨⟨_, _⟩, h3⟩, h4⟩, h5⟩, _⟩ := hm
  have hkin : e.kind ∈ ks := by simpa [hk] using h3
  have : be32 e.kind ∈ ks.map be32 := List.mem_map.mpr ⟨e.kind, hkin, rfl⟩
  rw [henc] at this
  obtain ⟨kd, hkdm, hkd⟩ := List.mem_map.mp this
  have hsince : ∀ x, f.since = some x → x ≤ e.createdAt := by
    intro x hx; simp only [hx, if_true, decide_eq_true_eq] at h4; omega
  have huntil : ∀ x, f.until_ = some x → e.createdAt ≤ x := by
    intro x hx; simp only [hx, if_true, decide_eq_true_eq] at h5; omega
  obtain ⟨out, hout, hin⟩ := C02_kv_kinds_complete_reachable tasks hwf kds hkds4 (kinds_mats_desc ks kds henc hdesc)
    f.since f.until_ sB uB hsB huB e hst kd hkd.symm hkdm hsince huntil
  have hcands : planCandidates (applyTasks init tasks) p = some out := by
    unfold planCandidates
    simp only [hpr, Bool.false_eq_true, if_false, hpi, hpm, hpf]
    exact hout
  have hm' : matchesSpec true f e = true := by
    unfold matchesSpec
    simp only [Bool.and_eq_true]
    exact ⟨⟨⟨⟨⟨by assumption, by assumption⟩, h3⟩, h4⟩, h5⟩, by assumption⟩
  exact C02_kv_executePlan_complete _ p out hcands e.id e hin hst (by rw [hpf]; exact residual_complete f e hm')
    (fun n hn => hlim n out hn hcands)

-- non-vacuity: two kind-1 events and a kind-7 event; the filter {kinds:[7,1], since} on the store after three tasks
example :
    let e1 : Event := { id := List.replicate 31 0 ++ [1], pubkey := List.replicate 32 170, createdAt := 1700000000, kind := 1, tags := [] }
    let e2 : Event := { id := List.replicate 31 0 ++ [2], pubkey := List.replicate 32 170, createdAt := 1700000100, kind := 1, tags := [] }
    let e3 : Event := { id := List.replicate 31 0 ++ [3], pubkey := List.replicate 32 187, createdAt := 1700000050, kind := 7, tags := [] }
    let s := applyTasks init [.add e1, .add e2, .add e3]
    (planFilter { kinds := some [7, 1], since := some 1700000050 } none 20).map (fun p => executePlan s p)
      = some [e3.id, e2.id] := by decide +kernel

/-! ## Part 6: the authors and author+kind indexes -/

/-- tasks whose events have 32-byte ids and 32-byte pubkeys (what `is_signed` admits) -/
def Task.wfp : Task → Prop
  | .add e => e.id.length = 32 ∧ e.pubkey.length = 32
  | .del _ => True

theorem wfp_wf (t : Task) (h : t.wfp) : t.wf := by
  cases t with
  | add e => exact h.1
  | del _ => trivial

theorem pkok_reachable (tasks : List Task) (hwf : ∀ t ∈ tasks, t.wfp) :
    ∀ id c, getEvent (applyTasks init tasks) id = some c → c.pubkey.length = 32 := by
  intro id c h
  have := C01_kv_returned_was_added tasks (fun t ht => wfp_wf t (hwf t ht)) id c h
  exact (hwf _ this).2

theorem authors_shape (s : Store) (hc : Coh s) (hpk : ∀ id c, getEvent s id = some c → c.pubkey.length = 32)
    (pks : List Bytes) : BlockShape s 33 (pks.map fun pk => [3] ++ pk) := by
  intro x hx hmem
  obtain ⟨pk, _, htake⟩ := List.mem_map.mp hmem
  cases x with
  | nil => simp at htake
  | cons b rest =>
    have hb : b = 3 := by simp at htake; omega
    obtain ⟨c, ts, kd', hcst, hid, hts, hkd', hform⟩ := sec_key_form s hc (b :: rest) hx b rest rfl (Or.inr (Or.inl hb))
    rcases hform with ⟨h2, _⟩ | ⟨_, hf⟩ | ⟨h4', _⟩
    · omega
    · refine ⟨ts, c.id, ?_, be32_length _ _ hts, hid⟩
      have hl : ([3] ++ c.pubkey).length = 33 := by simp [hpk c.id c hcst]
      have : (b :: rest).take 33 = [3] ++ c.pubkey := by
        rw [hf]; unfold fullKey
        rw [show [3] ++ c.pubkey ++ [0] ++ ts ++ [0] ++ c.id = ([3] ++ c.pubkey) ++ ([0] ++ ts ++ [0] ++ c.id) by simp]
        exact take_append_left _ _ _ hl.symm
      rw [this]; exact hf
    · omega

theorem authorkinds_shape (s : Store) (hc : Coh s) (hpk : ∀ id c, getEvent s id = some c → c.pubkey.length = 32)
    (mats : List Bytes) (hm : ∀ m ∈ mats, ∃ rest, m = 4 :: rest) : BlockShape s 38 mats := by
  intro x hx hmem
  obtain ⟨mrest, hmr⟩ := hm _ hmem
  cases x with
  | nil => simp at hmr
  | cons b rest =>
    have hb : b = 4 := by
      have : ((b :: rest).take 38).head? = some 4 := by rw [hmr]; rfl
      simpa using this
    obtain ⟨c, ts, kd', hcst, hid, hts, hkd', hform⟩ := sec_key_form s hc (b :: rest) hx b rest rfl (Or.inr (Or.inr hb))
    rcases hform with ⟨h2, _⟩ | ⟨h3, _⟩ | ⟨_, hf⟩
    · omega
    · omega
    · refine ⟨ts, c.id, ?_, be32_length _ _ hts, hid⟩
      have hl : ([4] ++ c.pubkey ++ [0] ++ kd').length = 38 := by simp [hpk c.id c hcst, be32_length _ _ hkd']
      have : (b :: rest).take 38 = [4] ++ c.pubkey ++ [0] ++ kd' := by
        rw [hf]; unfold fullKey
        rw [show [4] ++ c.pubkey ++ [0] ++ kd' ++ [0] ++ ts ++ [0] ++ c.id = ([4] ++ c.pubkey ++ [0] ++ kd') ++ ([0] ++ ts ++ [0] ++ c.id) by simp]
        exact take_append_left _ _ _ hl.symm
      rw [this]; exact hf

/-- the window hypotheses, from numeric bounds to the scanner's byte comparisons -/
theorem window_of_bounds (since until_ : Option Int) (sB uB : Option Bytes) (hsB : encOpt since = some sB) (huB : encOpt until_ = some uB)
    (t : Int) (ts : Bytes) (hts : be32 t = some ts)
    (hsince : ∀ x, since = some x → x ≤ t) (huntil : ∀ x, until_ = some x → t ≤ x) :
    inWindow sB uB ts ∧ (∀ sn, sB = some sn → sn.length = 4) ∧ (∀ u, uB = some u → u.length = 4) := by
  refine ⟨⟨?_, ?_⟩, ?_, ?_⟩
  · intro sn h
    cases since with
    | none => simp [encOpt] at hsB; rw [← hsB] at h; cases h
    | some x =>
      simp only [encOpt, Option.map_eq_some_iff] at hsB
      obtain ⟨b, hb, hb'⟩ := hsB
      rw [← hb'] at h; cases h
      exact be32_le_not_lt x t _ _ hb hts (hsince x rfl)
  · intro u h
    cases until_ with
    | none => simp [encOpt] at huB; rw [← huB] at h; cases h
    | some x =>
      simp only [encOpt, Option.map_eq_some_iff] at huB
      obtain ⟨b, hb, hb'⟩ := huB
      rw [← hb'] at h; cases h
      exact be32_le_not_lt t x _ _ hts hb (huntil x rfl)
  · intro sn h
    cases since with
    | none => simp [encOpt] at hsB; rw [← hsB] at h; cases h
    | some x =>
      simp only [encOpt, Option.map_eq_some_iff] at hsB
      obtain ⟨b, hb, hb'⟩ := hsB
      rw [← hb'] at h; cases h
      exact be32_length _ _ hb
  · intro u h
    cases until_ with
    | none => simp [encOpt] at huB; rw [← huB] at h; cases h
    | some x =>
      simp only [encOpt, Option.map_eq_some_iff] at huB
      obtain ⟨b, hb, hb'⟩ := huB
      rw [← hb'] at h; cases h
      exact be32_length _ _ hb

/-- **C02 (LMDB, authors index)** — in any coherent, well-kept store whose records carry 32-byte pubkeys -/
theorem C02_kv_authors_complete (s : Store) (hwk : WellKept s) (hc : Coh s)
    (hpk : ∀ id c, getEvent s id = some c → c.pubkey.length = 32)
    (pks : List Bytes) (h32 : ∀ pk ∈ pks, pk.length = 32)
    (hdesc : (pks.map fun pk => [3] ++ pk).Pairwise (fun a b => b < a))
    (since until_ : Option Int) (sB uB : Option Bytes) (hsB : encOpt since = some sB) (huB : encOpt until_ = some uB)
    (c : Event) (hst : getEvent s c.id = some c) (hmem : c.pubkey ∈ pks)
    (hsince : ∀ x, since = some x → x ≤ c.createdAt) (huntil : ∀ x, until_ = some x → c.createdAt ≤ x) :
    ∃ out, scanIndex s (pks.map fun pk => [3] ++ pk) since until_ none = some out ∧ c.id ∈ out := by
  unfold scanIndex
  simp only [hsB, huB, Option.bind_some]
  refine ⟨_, rfl, ?_⟩
  obtain ⟨_, hid, hsec, hkeys⟩ := hc.rec_ok c.id c ((getEvent_iff s c.id c).mp hst)
  obtain ⟨ts, hts⟩ : ∃ ts, be32 c.createdAt = some ts := by
    cases h : be32 c.createdAt with
    | none => simp [secondaryKeys, h] at hsec
    | some ts => exact ⟨ts, rfl⟩
  obtain ⟨kd, hkd⟩ : ∃ kd, be32 c.kind = some kd := by
    cases h : be32 c.kind with
    | none => simp [secondaryKeys, convKeys, hts, h] at hsec
    | some kd => exact ⟨kd, rfl⟩
  have hkin : fullKey ([3] ++ c.pubkey) ts c.id ∈ skOf c := by
    unfold skOf secondaryKeys convKeys
    simp [hts, hkd]
  have hkmem := get_some_mem_skeys s _ _ (hkeys _ hkin)
  obtain ⟨hw, hs4, hu4⟩ := window_of_bounds since until_ sB uB hsB huB c.createdAt ts hts hsince huntil
  exact scan_complete_fixed s hwk.1 33 (pks.map fun pk => [3] ++ pk)
    (by intro a ha; obtain ⟨k, hk, rfl⟩ := List.mem_map.mp ha; simp [h32 k hk]) hdesc (authors_shape s hc hpk pks)
    ⟨sB, uB, stopOf (pks.map fun pk => [3] ++ pk) sB, none⟩ rfl hs4 hu4
    tombstone hwk.2
    (by
      intro a ha hlt
      obtain ⟨k, _, rfl⟩ := List.mem_map.mp ha
      simp only [tombstone, List.append_assoc, List.cons_append, List.nil_append] at hlt
      rcases List.cons_lt_cons_iff.mp hlt with h | ⟨h, _⟩ <;> omega)
    ([3] ++ c.pubkey) ts c.id (List.mem_map.mpr ⟨c.pubkey, hmem, rfl⟩) (be32_length _ _ hts) hid hkmem hw rfl

/-- **C02 (LMDB, authors index, every reachable store)** -/
theorem C02_kv_authors_complete_reachable (tasks : List Task) (hwf : ∀ t ∈ tasks, t.wfp)
    (pks : List Bytes) (h32 : ∀ pk ∈ pks, pk.length = 32)
    (hdesc : (pks.map fun pk => [3] ++ pk).Pairwise (fun a b => b < a))
    (since until_ : Option Int) (sB uB : Option Bytes) (hsB : encOpt since = some sB) (huB : encOpt until_ = some uB)
    (c : Event) (hst : getEvent (applyTasks init tasks) c.id = some c) (hmem : c.pubkey ∈ pks)
    (hsince : ∀ x, since = some x → x ≤ c.createdAt) (huntil : ∀ x, until_ = some x → c.createdAt ≤ x) :
    ∃ out, scanIndex (applyTasks init tasks) (pks.map fun pk => [3] ++ pk) since until_ none = some out ∧ c.id ∈ out :=
  C02_kv_authors_complete _ (wk_reachable tasks) (C10_coherent_reachable tasks (fun t ht => wfp_wf t (hwf t ht)))
    (pkok_reachable tasks hwf) pks h32 hdesc since until_ sB uB hsB huB c hst hmem hsince huntil

/-- **C02 (LMDB, author+kind index)** — `mats` are the keys `04 pubkey 00 kind` of the requested
    authors × kinds in strictly descending order -/
theorem C02_kv_authorkinds_complete (s : Store) (hwk : WellKept s) (hc : Coh s)
    (hpk : ∀ id c, getEvent s id = some c → c.pubkey.length = 32)
    (mats : List Bytes) (hform : ∀ m ∈ mats, ∃ pk kd, m = [4] ++ pk ++ [0] ++ kd ∧ pk.length = 32 ∧ kd.length = 4)
    (hdesc : mats.Pairwise (fun a b => b < a))
    (since until_ : Option Int) (sB uB : Option Bytes) (hsB : encOpt since = some sB) (huB : encOpt until_ = some uB)
    (c : Event) (hst : getEvent s c.id = some c) (kd : Bytes) (hkd : be32 c.kind = some kd)
    (hmem : [4] ++ c.pubkey ++ [0] ++ kd ∈ mats)
    (hsince : ∀ x, since = some x → x ≤ c.createdAt) (huntil : ∀ x, until_ = some x → c.createdAt ≤ x) :
    ∃ out, scanIndex s mats since until_ none = some out ∧ c.id ∈ out := by
  unfold scanIndex
  simp only [hsB, huB, Option.bind_some]
  refine ⟨_, rfl, ?_⟩
  obtain ⟨_, hid, hsec, hkeys⟩ := hc.rec_ok c.id c ((getEvent_iff s c.id c).mp hst)
  obtain ⟨ts, hts⟩ : ∃ ts, be32 c.createdAt = some ts := by
    cases h : be32 c.createdAt with
    | none => simp [secondaryKeys, h] at hsec
    | some ts => exact ⟨ts, rfl⟩
  have hkin : fullKey ([4] ++ c.pubkey ++ [0] ++ kd) ts c.id ∈ skOf c := by
    unfold skOf secondaryKeys convKeys
    simp [hts, hkd]
  have hkmem := get_some_mem_skeys s _ _ (hkeys _ hkin)
  obtain ⟨hw, hs4, hu4⟩ := window_of_bounds since until_ sB uB hsB huB c.createdAt ts hts hsince huntil
  exact scan_complete_fixed s hwk.1 38 mats
    (by intro a ha; obtain ⟨pk, k, rfl, h1, h2⟩ := hform a ha; simp [h1, h2])
    hdesc (authorkinds_shape s hc hpk mats (by intro m hm; obtain ⟨pk, k, rfl, _, _⟩ := hform m hm; exact ⟨_, rfl⟩))
    ⟨sB, uB, stopOf mats sB, none⟩ rfl hs4 hu4
    tombstone hwk.2
    (by
      intro a ha hlt
      obtain ⟨pk, k, rfl, _, _⟩ := hform a ha
      simp only [tombstone, List.append_assoc, List.cons_append, List.nil_append] at hlt
      rcases List.cons_lt_cons_iff.mp hlt with h | ⟨h, _⟩ <;> omega)
    ([4] ++ c.pubkey ++ [0] ++ kd) ts c.id hmem (be32_length _ _ hts) hid hkmem hw rfl

/-- **C02 (LMDB, author+kind index, every reachable store)** -/
theorem C02_kv_authorkinds_complete_reachable (tasks : List Task) (hwf : ∀ t ∈ tasks, t.wfp)
    (mats : List Bytes) (hform : ∀ m ∈ mats, ∃ pk kd, m = [4] ++ pk ++ [0] ++ kd ∧ pk.length = 32 ∧ kd.length = 4)
    (hdesc : mats.Pairwise (fun a b => b < a))
    (since until_ : Option Int) (sB uB : Option Bytes) (hsB : encOpt since = some sB) (huB : encOpt until_ = some uB)
    (c : Event) (hst : getEvent (applyTasks init tasks) c.id = some c) (kd : Bytes) (hkd : be32 c.kind = some kd)
    (hmem : [4] ++ c.pubkey ++ [0] ++ kd ∈ mats)
    (hsince : ∀ x, since = some x → x ≤ c.createdAt) (huntil : ∀ x, until_ = some x → c.createdAt ≤ x) :
    ∃ out, scanIndex (applyTasks init tasks) mats since until_ none = some out ∧ c.id ∈ out :=
  C02_kv_authorkinds_complete _ (wk_reachable tasks) (C10_coherent_reachable tasks (fun t ht => wfp_wf t (hwf t ht)))
    (pkok_reachable tasks hwf) mats hform hdesc since until_ sB uB hsB huB c hst kd hkd hmem hsince huntil

/-- authors in strictly descending byte order give match values in strictly descending order -/
theorem authors_mats_desc (as : List Bytes) (hdesc : as.Pairwise (fun a b => b < a)) :
    (as.map fun a => [3] ++ a).Pairwise (fun a b => b < a) := by
  induction as with
  | nil => simp
  | cons a rest ih =>
    simp only [List.pairwise_cons] at hdesc
    simp only [List.map_cons, List.pairwise_cons]
    refine ⟨?_, ih hdesc.2⟩
    intro m hm
    obtain ⟨b, hb, rfl⟩ := List.mem_map.mp hm
    exact List.append_left_lt (hdesc.1 b hb)

/-- **C02 (LMDB, an authors filter, every reachable store)** — for a filter that names authors (32-byte
    keys in the validated, descending order) and optionally since / until, and nothing else: after any
    history of writer tasks, every stored event that matches the filter under the strict NIP-01
    reading is delivered, as long as the limit does not truncate. -/
theorem C02_kv_authors_filter_complete (tasks : List Task) (hwf : ∀ t ∈ tasks, t.wfp) (f : Filter) (dl : Option Nat)
    (as : List Bytes) (ha : f.authors = some as) (hne : as ≠ []) (h32 : ∀ a ∈ as, a.length = 32)
    (hids : f.ids = none) (hkinds : f.kinds = none) (htags : f.tags = [])
    (hdesc : as.Pairwise (fun a b => b < a))
    (sB uB : Option Bytes) (hsB : encOpt f.since = some sB) (huB : encOpt f.until_ = some uB)
    (p : Plan) (hp : planFilter f dl ml = some p)
    (e : Event) (hst : getEvent (applyTasks init tasks) e.id = some e) (hm : matchesSpec true f e = true)
    (hlim : ∀ n cands, p.limit = some n → planCandidates (applyTasks init tasks) p = some cands →
      (planHits (applyTasks init tasks) p.filter cands).length ≤ n) :
    e.id ∈ executePlan (applyTasks init tasks) p := by
  have hshape : planShape f = some (.authors, as.map (fun a => [3] ++ a), [], false) := by
    unfold planShape
    have h1 : (f.ids == some []) = false := by rw [hids]; rfl
    have h2 : (f.kinds == some []) = false := by rw [hkinds]; rfl
    have h3 : (f.authors == some []) = false := by
      rw [ha]; cases as with
      | nil => exact absurd rfl hne
      | cons a as' => rfl
    simp only [h1, h2, h3, Bool.or_self, Bool.false_eq_true, if_false, htags, List.any_nil, hids, hkinds, ha,
      Option.isSome_some, Option.isSome_none, Bool.and_false, Bool.false_and, Option.getD_some, Option.getD_none, List.map_map]
    simp [Function.comp_def, List.filterMap_map, hne]
  have hpl : p.filter = f ∧ p.index = .authors ∧ p.mats = as.map (fun a => [3] ++ a) ∧ p.raises = false := by
    unfold planFilter at hp
    rw [hshape] at hp
    simp only [Option.map_some, Option.some.injEq] at hp
    subst hp
    exact ⟨rfl, rfl, rfl, rfl⟩
  obtain ⟨hpf, hpi, hpm, hpr⟩ := hpl
  have hm0 := hm
  unfold matchesSpec at hm
  simp only [Bool.and_eq_true] at hm
  obtain ⟨⟨⟨⟨⟨_, h2⟩, _⟩, h4⟩, h5⟩, _⟩ := hm
  have hain : e.pubkey ∈ as := by simpa [ha] using h2
  have hsince : ∀ x, f.since = some x → x ≤ e.createdAt := by
    intro x hx; simp only [hx, if_true, decide_eq_true_eq] at h4; omega
  have huntil : ∀ x, f.until_ = some x → e.createdAt ≤ x := by
    intro x hx; simp only [hx, if_true, decide_eq_true_eq] at h5; omega
  obtain ⟨out, hout, hin⟩ := C02_kv_authors_complete_reachable tasks hwf as h32 (authors_mats_desc as hdesc)
    f.since f.until_ sB uB hsB huB e hst hain hsince huntil
  have hcands : planCandidates (applyTasks init tasks) p = some out := by
    unfold planCandidates
    simp only [hpr, Bool.false_eq_true, if_false, hpi, hpm, hpf]
    exact hout
  exact C02_kv_executePlan_complete _ p out hcands e.id e hin hst (by rw [hpf]; exact residual_complete f e hm0)
    (fun n hn => hlim n out hn hcands)

end NostrRelay.KV
