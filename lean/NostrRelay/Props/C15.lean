/-
C15 — NIP-42 authentication succeeds only for a fresh, correctly signed answer.
-/
import NostrRelay.Model.Admission

namespace NostrRelay.Admission

theorem scanAuthTags_ok (tags : List AuthTag) (r c r' c' : Bool)
    (h : scanAuthTags tags r c = some (some (r', c'))) :
    (r' = true → r = true ∨ .relay true ∈ tags) ∧ (c' = true → c = true ∨ .challenge true ∈ tags) ∧
    (.relay false ∉ tags) ∧ (.challenge false ∉ tags) := by
  induction tags generalizing r c with
  | nil =>
    simp only [scanAuthTags, Option.some.injEq, Prod.mk.injEq] at h
    obtain ⟨rfl, rfl⟩ := h
    simp
  | cons t rest ih =>
    cases t with
    | relay ok =>
      cases ok with
      | true =>
        simp only [scanAuthTags] at h
        obtain ⟨h1, h2, h3, h4⟩ := ih true c h
        refine ⟨fun _ => Or.inr (by simp), ?_, by simpa using h3, by simpa using h4⟩
        intro hc; rcases h2 hc with h | h
        · exact Or.inl h
        · exact Or.inr (List.mem_cons_of_mem _ h)
      | false => simp [scanAuthTags] at h
    | challenge ok =>
      cases ok with
      | true =>
        simp only [scanAuthTags] at h
        obtain ⟨h1, h2, h3, h4⟩ := ih r true h
        refine ⟨?_, fun _ => Or.inr (by simp), by simpa using h3, by simpa using h4⟩
        intro hr; rcases h1 hr with h | h
        · exact Or.inl h
        · exact Or.inr (List.mem_cons_of_mem _ h)
      | false => simp [scanAuthTags] at h
    | short => simp [scanAuthTags] at h
    | other =>
      simp only [scanAuthTags] at h
      obtain ⟨h1, h2, h3, h4⟩ := ih r c h
      refine ⟨?_, ?_, by simpa using h3, by simpa using h4⟩
      · intro hr; rcases h1 hr with h | h
        · exact Or.inl h
        · exact Or.inr (List.mem_cons_of_mem _ h)
      · intro hc; rcases h2 hc with h | h
        · exact Or.inl h
        · exact Or.inr (List.mem_cons_of_mem _ h)

/-- **C15** — `authenticate` yields a token only for a dict that is a validly signed kind-22242
    event, timestamped strictly within ten minutes of now, carrying a relay tag with a URL the
    relay answers to and a challenge tag equal to this connection's challenge, and no relay /
    challenge tag with a wrong value. -/
theorem C15_authenticate_ok (now : Int) (f : AuthFacts) (h : authenticate now f = .ok) :
    f.isDict = true ∧ f.verifies = some true ∧ f.kind = 22242 ∧
    now - f.createdAt < 600 ∧ -600 < now - f.createdAt ∧
    .relay true ∈ f.tags ∧ .challenge true ∈ f.tags ∧ .relay false ∉ f.tags ∧ .challenge false ∉ f.tags := by
  unfold authenticate at h
  cases hd : f.isDict with
  | false => simp [hd] at h
  | true =>
    simp only [hd, Bool.not_true, Bool.false_eq_true, if_false] at h
    cases hv : f.verifies with
    | none => simp [hv] at h
    | some b =>
      cases b with
      | false => simp [hv] at h
      | true =>
        simp only [hv] at h
        by_cases hk : f.kind = 22242
        · simp only [hk, bne_self_eq_false, Bool.false_eq_true, if_false] at h
          by_cases h1 : now - f.createdAt ≥ 600
          · simp [h1] at h
          · simp only [h1, if_false] at h
            by_cases h2 : now - f.createdAt ≤ -600
            · simp [h2] at h
            · simp only [h2, if_false] at h
              cases hs : scanAuthTags f.tags false false with
              | none => simp [hs] at h
              | some o =>
                cases o with
                | none => simp [hs] at h
                | some p =>
                  obtain ⟨r, c⟩ := p
                  simp only [hs] at h
                  cases r with
                  | false => simp at h
                  | true =>
                    cases c with
                    | false => simp at h
                    | true =>
                      obtain ⟨a1, a2, a3, a4⟩ := scanAuthTags_ok f.tags false false true true hs
                      refine ⟨rfl, rfl, hk, by omega, by omega, ?_, ?_, a3, a4⟩
                      · rcases a1 rfl with h | h
                        · simp at h
                        · exact h
                      · rcases a2 rfl with h | h
                        · simp at h
                        · exact h
        · have : (f.kind != 22242) = true := by simpa using hk
          simp [this] at h

/-- any other AUTH leaves the identity unchanged: the handler assigns the token only from a
    successful `authenticate` (the assignment is the last step; an exception skips it) -/
def tokenAfter (old : Option (List Nat)) (pubkey : List Nat) (v : Verdict) : Option (List Nat) :=
  match v with
  | .ok => some pubkey
  | _ => old

theorem C15_failed_auth_keeps_identity (old : Option (List Nat)) (pk : List Nat) (v : Verdict) (h : v ≠ .ok) :
    tokenAfter old pk v = old := by
  cases v <;> simp_all [tokenAfter]

/-- non-vacuity -/
example : authenticate 1700000000 ⟨true, some true, 22242, 1700000300, [.other, .relay true, .challenge true]⟩ = .ok := by decide
/-- exactly ten minutes old is refused; 599 s is accepted -/
example : authenticate 1700000600 ⟨true, some true, 22242, 1700000000, [.relay true, .challenge true]⟩ = .reject := by decide
example : authenticate 1700000599 ⟨true, some true, 22242, 1700000000, [.relay true, .challenge true]⟩ = .ok := by decide

end NostrRelay.Admission
