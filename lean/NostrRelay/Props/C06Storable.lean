/-
C06 (LMDB), the refusal at the door: `kv.check_storable` refuses an event before it is acknowledged exactly when the writer thread would
later fail on it for reasons of *size or range* — the record cannot be encoded (`packb` raises: Model/MsgPack) or an index key would be longer
than LMDB allows.  Here: an event that passes the check cannot make `writeEvent` fail — so "OK = true" is not followed by a silent abort
for these reasons — and an event that fails it for a key's sake would indeed have aborted the write.
-/
import NostrRelay.Model.KV
import NostrRelay.Model.MsgPack
namespace NostrRelay.KV
open NostrRelay

theorem be32_length (n : Int) (b : Bytes) (h : be32 n = some b) : b.length = 4 := by
  unfold be32 at h
  split at h
  · cases h; rfl
  · cases h

theorem putAll_some_of_lengths (l : List (Bytes × Option Event)) :
    ∀ s : Store, (∀ p ∈ l, 0 < p.1.length ∧ p.1.length ≤ maxKeySize) → (putAll s l).isSome
  := by
  induction l with
  | nil => intro s _; simp [putAll]
  | cons p rest ih =>
    intro s h
    obtain ⟨k, v⟩ := p
    have hk : 0 < k.length ∧ k.length ≤ maxKeySize := h (k, v) (List.mem_cons_self ..)
    simp only [putAll, putChecked]
    have : ¬ (k.length = 0 ∨ k.length > maxKeySize) := by
      intro hh; cases hh with
      | inl h0 => have := hk.1; omega
      | inr h1 => have := hk.2; omega
    simp only [this, if_false, Option.bind_some]
    exact ih _ fun q hq => h q (List.mem_cons_of_mem _ hq)

/-- **an event that passed `check_storable` cannot abort its write for size or range**: every key of the write fits -/
theorem C06_kv_storable_write_succeeds (s : Store) (e : Event) (hid : e.id.length = 32) (rec : Bool)
    (h : checkStorable e rec = true) : (writeEvent s e).isSome := by
  unfold checkStorable at h
  simp only [Bool.and_eq_true] at h
  obtain ⟨_, h2⟩ := h
  cases hck : convKeys e with
  | none => simp [hck] at h2
  | some ks =>
    simp only [hck, List.all_eq_true, decide_eq_true_eq] at h2
    -- convKeys succeeded, so created_at encodes
    have hts : ∃ ts, be32 e.createdAt = some ts := by
      unfold convKeys at hck
      cases hb : be32 e.createdAt with
      | none => simp [hb] at hck
      | some ts => exact ⟨ts, rfl⟩
    obtain ⟨ts, hts⟩ := hts
    have htl := be32_length _ _ hts
    unfold writeEvent secondaryKeys
    simp only [hts, hck, Option.bind_eq_bind, Option.bind_some, Option.pure_def, Option.bind_some]
    apply putAll_some_of_lengths
    intro p hp
    simp only [List.mem_cons, List.mem_map] at hp
    cases hp with
    | inl h0 =>
      subst h0
      simp only [primaryKey, List.length_cons, hid, maxKeySize]; omega
    | inr h1 =>
      obtain ⟨k, hk, rfl⟩ := h1
      obtain ⟨c, hc, rfl⟩ := hk
      have := h2 c hc
      simp only [fullKey, List.length_append, List.length_cons, List.length_nil, htl, hid, keySuffix, maxKeySize] at this ⊢
      omega

/-- and the check does not cry wolf about keys: if it refuses an encodable event whose numbers fit, some index key of the write is
    really too long for LMDB, and the write would have aborted -/
theorem C06_kv_unstorable_has_long_key (e : Event)
    (ks : List Bytes) (hck : convKeys e = some ks) (h : checkStorable e true = false) :
    ∃ c ∈ ks, maxKeySize < c.length + keySuffix := by
  unfold checkStorable at h
  simp only [hck, Bool.true_and] at h
  rcases List.all_eq_false.1 h with ⟨c, hc, hlen⟩
  exact ⟨c, hc, by simpa using hlen⟩

/-- non-vacuity: a one-letter tag with a 470-byte value is the longest storable; 471 bytes is refused -/
example : checkStorable ⟨List.replicate 32 1, List.replicate 32 2, 1700000000, 1, [[[116], List.replicate 470 97]]⟩ true = true := by
  decide +kernel
example : checkStorable ⟨List.replicate 32 1, List.replicate 32 2, 1700000000, 1, [[[116], List.replicate 471 97]]⟩ true = false := by
  decide +kernel

end NostrRelay.KV
