/-
C02 (LMDB) — completeness of the id index: a filter that names ids is planned over the primary keys
`00 id` whatever else it says; the scanner visits each requested id (largest first) and the residual
predicate does the rest.
-/
import NostrRelay.Props.C02Scan

namespace NostrRelay.KV
open NostrRelay

theorem lt_append_cons (m : Bytes) (x : Nat) (r : Bytes) : m < m ++ x :: r := by
  induction m with
  | nil => exact List.nil_lt_cons _ _
  | cons a as ih => exact List.cons_lt_cons_iff.mpr (Or.inr ⟨rfl, ih⟩)

theorem lastN_primaryKey (id : Bytes) (h : id.length = 32) : lastN 32 (primaryKey id) = id := by
  unfold lastN primaryKey
  simp [h]

theorem good_of_prefix (stop m k : Bytes) (htake : k.take m.length = m) (hns : ¬ k < stop) :
    good ⟨none, none, stop, none⟩ m k = true := by
  unfold good badKey
  simp [htake, hns]

/-- **C02 (LMDB, id index)** — in a sorted store holding the top sentinel, a scan over the primary keys
    of the requested ids (32 bytes each, strictly descending, as the validator delivers them) yields
    every requested id that has a record — whatever else is stored. -/
theorem C02_kv_ids_complete (s : Store) (hwk : WellKept s)
    (ids : List Bytes) (h32 : ∀ i ∈ ids, i.length = 32) (hdesc : ids.Pairwise (fun a b => b < a))
    (c : Event) (hst : getEvent s c.id = some c) (hmem : c.id ∈ ids) :
    ∃ out, scanIndex s (ids.map fun i => [0] ++ i) none none none = some out ∧ c.id ∈ out := by
  unfold scanIndex
  simp only [encOpt, Option.bind_some]
  refine ⟨_, rfl, ?_⟩
  obtain ⟨hs, htomb⟩ := hwk
  let mats := ids.map fun i => [0] ++ i
  have hmatsdesc : mats.Pairwise (fun a b => b < a) := by
    show (ids.map fun i => [0] ++ i).Pairwise (fun a b => b < a)
    rw [List.pairwise_map]
    exact List.Pairwise.imp (fun h => List.append_left_lt h) hdesc
  have hlen : ∀ a ∈ mats, a.length = 33 := by
    intro a ha
    obtain ⟨i, hi, rfl⟩ := List.mem_map.mp ha
    simp [h32 i hi]
  have hm : [0] ++ c.id ∈ mats := List.mem_map.mpr ⟨c.id, hmem, rfl⟩
  obtain ⟨before, after, hsplit⟩ := List.append_of_mem hm
  have hne : mats ≠ [] := by intro h; rw [h] at hm; cases hm
  obtain ⟨ini, hinit⟩ := getLastD_split mats hne
  -- every match value is at least the stop key (the last, smallest one)
  have hge : ∀ a ∈ mats, ¬ a < mats.getLastD [] := by
    intro a ha
    have hd := hmatsdesc
    rw [hinit] at ha hd
    rcases List.mem_append.mp ha with h | h
    · exact lex_asymm ((List.pairwise_append.mp hd).2.2 a h (mats.getLastD []) (by simp))
    · simp only [List.mem_singleton] at h; rw [h]; exact lex_irrefl _
  -- a key that extends a match value is not below the stop key
  have hext : ∀ a ∈ mats, ∀ r, ¬ a ++ r < mats.getLastD [] := by
    intro a ha r hlt
    rcases lex_trichotomy a (mats.getLastD []) with h | h | h
    · exact hge a ha h
    · rw [← h] at hlt; exact not_append_lt_self a r hlt
    · exact not_append_lt_self a r (lex_trans hlt h)
  have hseekAll : ∀ a ∈ mats, seekFinds s (a ++ [] ++ [255]) = true := by
    intro a ha
    obtain ⟨i, _, rfl⟩ := List.mem_map.mp ha
    unfold seekFinds
    simp only [List.any_eq_true, Bool.not_eq_true', decide_eq_false_iff_not]
    refine ⟨tombstone, htomb, ?_⟩
    intro hlt
    simp only [tombstone, List.append_assoc, List.cons_append, List.nil_append] at hlt
    rcases List.cons_lt_cons_iff.mp hlt with h | ⟨h, _⟩ <;> omega
  have hk : primaryKey c.id ∈ skeys s := get_some_mem_skeys s _ _ ((getEvent_iff s c.id c).mp hst)
  have hpk : primaryKey c.id = [0] ++ c.id := rfl
  have hid := h32 c.id hmem
  have hbefore_gt : ∀ m' ∈ before, [0] ++ c.id < m' := by
    intro m' hm'
    have hd := hmatsdesc
    rw [hsplit] at hd
    exact (List.pairwise_append.mp hd).2.2 m' hm' _ (by simp)
  show c.id ∈ scanMatches s ⟨none, none, mats.getLastD [], none⟩ [] mats true
  suffices h : lastN 32 (primaryKey c.id) ∈
      scanMatches s ⟨none, none, mats.getLastD [], none⟩ [] (before ++ ([0] ++ c.id) :: after) true by
    rw [lastN_primaryKey c.id hid, ← hsplit] at h; exact h
  apply C02_kv_scan_complete s hs ⟨none, none, mats.getLastD [], none⟩ [] before ([0] ++ c.id) after true (primaryKey c.id) hk
  · rw [hpk, List.append_nil]; exact lt_append_cons _ _ _
  · -- the primary key itself is good
    have := hext _ hm []
    simp only [List.append_nil] at this
    exact good_of_prefix _ _ _ (by rw [hpk]; exact List.take_length) (by rw [hpk]; exact this)
  · intro x hx hkx hxs
    obtain ⟨r', hxr, _, _⟩ := between_has_prefix ([0] ++ c.id) [] ([] ++ [255]) x
      (by simpa [hpk] using hkx) (by simpa [List.append_assoc] using hxs)
    have h1 : x.take ([0] ++ c.id).length = [0] ++ c.id := by rw [hxr]; exact take_append_left _ _ _ rfl
    have h2 := hext _ hm r'
    rw [← hxr] at h2
    exact good_of_prefix _ _ _ h1 h2
  · rfl
  · exact hseekAll _ hm
  · intro m' hm'
    have hm'mem : m' ∈ mats := by rw [hsplit]; exact List.mem_append_left _ hm'
    refine ⟨hseekAll m' hm'mem, ?_⟩
    have hmm' := hbefore_gt m' hm'
    have hklt : primaryKey c.id < m' ++ [] ++ [255] := by
      rw [hpk]
      exact lex_trans hmm' (by simpa using lt_append_cons m' 255 [])
    obtain ⟨pre, post, hb, hpre⟩ := below_split s hs _ (primaryKey c.id) hk hklt
    rw [hb]
    apply walk_ends_next
    · intro x hx hnb
      have htk : x.take m'.length = m' := by
        unfold badKey at hnb
        simp only [Bool.or_eq_false_iff, bne_eq_false_iff_eq] at hnb
        exact hnb.1.1
      have : x = m' ++ x.drop m'.length := by
        conv => lhs; rw [← List.take_append_drop m'.length x, htk]
      rw [this]
      exact hext m' hm'mem _
    · unfold badKey
      have hl : m'.length = ([0] ++ c.id).length := by rw [hlen m' hm'mem]; simp [hid]
      have : (primaryKey c.id).take m'.length = [0] ++ c.id := by
        rw [hpk, hl]; exact List.take_length
      have hne' : [0] ++ c.id ≠ m' := by intro h; rw [h] at hmm'; exact lex_irrefl _ hmm'
      simp only [this, Bool.or_false, bne_iff_ne, ne_eq]
      exact hne'

/-- **C02 (LMDB, id index, every reachable store)** -/
theorem C02_kv_ids_complete_reachable (tasks : List Task)
    (ids : List Bytes) (h32 : ∀ i ∈ ids, i.length = 32) (hdesc : ids.Pairwise (fun a b => b < a))
    (c : Event) (hst : getEvent (applyTasks init tasks) c.id = some c) (hmem : c.id ∈ ids) :
    ∃ out, scanIndex (applyTasks init tasks) (ids.map fun i => [0] ++ i) none none none = some out ∧ c.id ∈ out :=
  C02_kv_ids_complete _ (wk_reachable tasks) ids h32 hdesc c hst hmem

/-- **C02 (LMDB, a filter that names ids, every reachable store)** — whatever else the filter says
    (authors, kinds, tags, since, until — no empty lists, as the validator guarantees): after any
    history of writer tasks, every stored event that matches the filter under the strict NIP-01
    reading is delivered, as long as the limit does not truncate. -/
theorem C02_kv_ids_filter_complete (tasks : List Task) (f : Filter) (dl : Option Nat) (ml : Nat)
    (ids : List Bytes) (hi : f.ids = some ids) (hne : ids ≠ []) (h32 : ∀ i ∈ ids, i.length = 32)
    (hdesc : ids.Pairwise (fun a b => b < a))
    (hk : f.kinds ≠ some []) (ha : f.authors ≠ some []) (htags : f.tags.any (fun t => t.2.isEmpty) = false)
    (p : Plan) (hp : planFilter f dl ml = some p)
    (e : Event) (hst : getEvent (applyTasks init tasks) e.id = some e) (hm : matchesSpec true f e = true)
    (hlim : ∀ n cands, p.limit = some n → planCandidates (applyTasks init tasks) p = some cands →
      (planHits (applyTasks init tasks) p.filter cands).length ≤ n) :
    e.id ∈ executePlan (applyTasks init tasks) p := by
  have hshape : planShape f = some (.ids, ids.map (fun i => [0] ++ i), [], false) := by
    unfold planShape
    have h1 : (f.ids == some []) = false := by
      rw [hi]; cases ids with
      | nil => exact absurd rfl hne
      | cons a as => rfl
    have h2 : (f.kinds == some []) = false := by
      cases hkk : f.kinds with
      | none => rfl
      | some l => cases l with
        | nil => exact absurd hkk hk
        | cons _ _ => rfl
    have h3 : (f.authors == some []) = false := by
      cases haa : f.authors with
      | none => rfl
      | some l => cases l with
        | nil => exact absurd haa ha
        | cons _ _ => rfl
    simp only [h1, h2, h3, Bool.or_self, Bool.false_eq_true, if_false, htags]
    simp [hi]
  have hpl : p.filter = f ∧ p.index = .ids ∧ p.mats = ids.map (fun i => [0] ++ i) ∧ p.raises = false := by
    unfold planFilter at hp
    rw [hshape] at hp
    simp only [Option.map_some, Option.some.injEq] at hp
    subst hp
    exact ⟨rfl, rfl, rfl, rfl⟩
  obtain ⟨hpf, hpi, hpm, hpr⟩ := hpl
  have hm0 := hm
  unfold matchesSpec at hm
  simp only [Bool.and_eq_true] at hm
  obtain ⟨⟨⟨⟨⟨h1, _⟩, _⟩, _⟩, _⟩, _⟩ := hm
  have hin : e.id ∈ ids := by simpa [hi] using h1
  obtain ⟨out, hout, hino⟩ := C02_kv_ids_complete_reachable tasks ids h32 hdesc e hst hin
  have hcands : planCandidates (applyTasks init tasks) p = some out := by
    unfold planCandidates
    simp only [hpr, Bool.false_eq_true, if_false, hpi, hpm]
    exact hout
  exact C02_kv_executePlan_complete _ p out hcands e.id e hino hst (by rw [hpf]; exact residual_complete f e hm0)
    (fun n hn => hlim n out hn hcands)

-- non-vacuity: two of three stored events asked for by id, one id unknown, with a kinds condition
example :
    let e1 : Event := { id := List.replicate 31 0 ++ [1], pubkey := List.replicate 32 170, createdAt := 1700000000, kind := 1, tags := [] }
    let e2 : Event := { id := List.replicate 31 0 ++ [2], pubkey := List.replicate 32 170, createdAt := 1700000100, kind := 7, tags := [] }
    let e3 : Event := { id := List.replicate 31 0 ++ [3], pubkey := List.replicate 32 187, createdAt := 1700000050, kind := 1, tags := [] }
    let s := applyTasks init [.add e1, .add e2, .add e3]
    (planFilter { ids := some [List.replicate 31 0 ++ [9], e3.id, e2.id, e1.id], kinds := some [1] } none 20).map (fun p => executePlan s p)
      = some [e3.id, e1.id] := by decide +kernel

end NostrRelay.KV
