/-
C10 — Every LMDB index entry has its record and every record all its index entries.

`Coh s` is the coherence invariant of the keyspace; it is established for `init` and preserved by
every writer task (add with its replaceable / kind-5 post-save branches, del, aborted tasks), hence
holds after any history (`C10_coherent_reachable`).
-/
import NostrRelay.Model.KV

namespace NostrRelay.KV
open NostrRelay

/-! ## the store as a finite map: `get` after `put` / `del` (no sortedness needed) -/

theorem get_put (s : Store) (k k' : Bytes) (v : Option Event) :
    get (put s k v) k' = if k' = k then some v else get s k' := by
  induction s with
  | nil => simp [put, get]
  | cons hd tl ih =>
    obtain ⟨k0, v0⟩ := hd
    simp only [put]
    split
    · simp only [get]
    · split
      · simp only [get]; grind
      · simp only [get, ih]; grind

theorem get_del (s : Store) (k k' : Bytes) :
    get (del s k) k' = if k' = k then none else get s k' := by
  induction s with
  | nil => simp [del, get]
  | cons hd tl ih =>
    obtain ⟨k0, v0⟩ := hd
    unfold del at ih ⊢
    simp only [List.filter_cons]
    split
    · simp only [get, ih]; grind
    · simp only [ih, get]; grind

/-! ## key shapes -/

theorem lastN_append (a b : Bytes) (n : Nat) (h : b.length = n) : lastN n (a ++ b) = b := by
  unfold lastN
  have : (a ++ b).length - n = a.length := by simp [h]
  rw [this]; simp

theorem lastN_fullKey (c ts id : Bytes) (h : id.length = 32) : lastN 32 (fullKey c ts id) = id := by
  unfold fullKey
  rw [show c ++ [0] ++ ts ++ [0] ++ id = (c ++ [0] ++ ts ++ [0]) ++ id by simp]
  exact lastN_append _ _ _ h

/-- a secondary key of an event never starts with byte 0 and is never the tombstone -/
def secHead (k : Bytes) : Prop := ∃ b rest, k = b :: rest ∧ b ≠ 0 ∧ (rest ≠ [] ∨ b ≠ 238)

theorem convKeys_head (e : Event) (cs : List Bytes) (h : convKeys e = some cs) :
    ∀ c ∈ cs, ∃ b rest, c = b :: rest ∧ (b = 1 ∨ b = 2 ∨ b = 3 ∨ b = 4 ∨ b = 9) := by
  unfold convKeys at h
  cases hts : be32 e.createdAt with
  | none => simp [hts] at h
  | some ts =>
    cases hkd : be32 e.kind with
    | none => simp [hts, hkd] at h
    | some kd =>
      simp only [hts, hkd, Option.bind_eq_bind, Option.bind_some, Option.pure_def, Option.some.injEq] at h
      subst h
      intro c hc
      simp only [List.mem_append, List.mem_cons, List.mem_map, List.mem_filter] at hc
      rcases hc with (rfl | rfl | rfl | rfl | hc) | ⟨t, _, rfl⟩
      · exact ⟨1, ts, rfl, by simp⟩
      · exact ⟨2, kd, rfl, by simp⟩
      · exact ⟨3, e.pubkey, rfl, by simp⟩
      · exact ⟨4, e.pubkey ++ [0] ++ kd, by simp, by simp⟩
      · simp at hc
      · exact ⟨9, t.getD 0 [] ++ [0] ++ t.getD 1 [], by simp [tagKey], by simp⟩

/-- facts about each secondary key of an event with a 32-byte id -/
theorem secondaryKeys_spec (e : Event) (sk : List Bytes) (h : secondaryKeys e = some sk)
    (hid : e.id.length = 32) :
    ∀ k ∈ sk, lastN 32 k = e.id ∧ (∃ b rest, k = b :: rest ∧ b ≠ 0 ∧ rest ≠ []) := by
  unfold secondaryKeys at h
  cases hts : be32 e.createdAt with
  | none => simp [hts] at h
  | some ts =>
    cases hcs : convKeys e with
    | none => simp [hts, hcs] at h
    | some cs =>
      simp only [hts, hcs, Option.bind_eq_bind, Option.bind_some, Option.pure_def, Option.some.injEq] at h
      subst h
      intro k hk
      simp only [List.mem_map] at hk
      obtain ⟨c, hc, rfl⟩ := hk
      refine ⟨lastN_fullKey c ts e.id hid, ?_⟩
      obtain ⟨b, rest, rfl, hb⟩ := convKeys_head e cs hcs c hc
      refine ⟨b, rest ++ [0] ++ ts ++ [0] ++ e.id, by simp [fullKey], ?_, by simp⟩
      rcases hb with rfl | rfl | rfl | rfl | rfl <;> decide

/-! ## the invariant -/

/-- secondary keys of an event (empty when it cannot be encoded) -/
def skOf (e : Event) : List Bytes := (secondaryKeys e).getD []

structure Coh (s : Store) : Prop where
  /-- every primary record is filed under its own 32-byte id, can be encoded, and has all its
      index entries -/
  rec_ok : ∀ id e, get s (primaryKey id) = some (some e) →
    e.id = id ∧ id.length = 32 ∧ (secondaryKeys e).isSome ∧ ∀ k ∈ skOf e, get s k = some none
  /-- every key is the tombstone, a primary record, or an index entry of a stored record under
      one of that record's own attribute values -/
  key_ok : ∀ k v, get s k = some v →
    (k = tombstone ∧ v = none) ∨ (∃ id e, k = primaryKey id ∧ v = some e) ∨
    (v = none ∧ ∃ e, get s (primaryKey e.id) = some (some e) ∧ k ∈ skOf e)

theorem primaryKey_ne_tombstone (id : Bytes) : primaryKey id ≠ tombstone := by
  simp [primaryKey, tombstone]

theorem coh_init : Coh init := by
  constructor
  · intro id e h
    simp [init, get, primaryKey, tombstone] at h
  · intro k v h
    left
    simp only [init, get] at h
    by_cases hk : k = tombstone
    · simp [hk] at h; exact ⟨hk, h.symm⟩
    · simp [hk] at h

/-- a stored record's secondary keys are not primary keys and not the tombstone -/
theorem sk_not_primary (e : Event) (hid : e.id.length = 32) (k : Bytes) (hk : k ∈ skOf e) :
    (∀ id, k ≠ primaryKey id) ∧ k ≠ tombstone := by
  unfold skOf at hk
  cases h : secondaryKeys e with
  | none => simp [h] at hk
  | some sk =>
    simp only [h, Option.getD_some] at hk
    obtain ⟨_, b, rest, rfl, hb, hr⟩ := secondaryKeys_spec e sk h hid k hk
    refine ⟨fun id => by simp [primaryKey]; intro h0; exact absurd h0 hb, ?_⟩
    simp [tombstone]; intro _; exact hr

theorem sk_lastN (e : Event) (hid : e.id.length = 32) (k : Bytes) (hk : k ∈ skOf e) : lastN 32 k = e.id := by
  unfold skOf at hk
  cases h : secondaryKeys e with
  | none => simp [h] at hk
  | some sk =>
    simp only [h, Option.getD_some] at hk
    exact (secondaryKeys_spec e sk h hid k hk).1

/-! ## `delAll` / `putAll` in the map view -/

theorem get_delAll (s s' : Store) (ks : List Bytes) (h : delAll s ks = some s') (k' : Bytes) :
    get s' k' = if k' ∈ ks then none else get s k' := by
  induction ks generalizing s with
  | nil => simp [delAll] at h; subst h; simp
  | cons k rest ih =>
    simp only [delAll, delChecked] at h
    split at h
    · simp at h
    · simp only [Option.bind_some] at h
      rw [ih (del s k) h, get_del]
      grind

theorem get_putAll (s s' : Store) (kvs : List (Bytes × Option Event)) (h : putAll s kvs = some s')
    (k' : Bytes) :
    get s' k' = match (kvs.reverse.find? (fun p => p.1 = k')) with
      | some p => some p.2
      | none => get s k' := by
  induction kvs generalizing s with
  | nil => simp [putAll] at h; subst h; simp
  | cons kv rest ih =>
    obtain ⟨k, v⟩ := kv
    simp only [putAll, putChecked] at h
    split at h
    · simp at h
    · simp only [Option.bind_some] at h
      rw [ih (put s k v) h]
      simp only [List.reverse_cons, List.find?_append]
      cases hf : rest.reverse.find? (fun p => p.1 = k') with
      | some p => simp
      | none =>
        simp only [Option.none_or, List.find?_cons, List.find?_nil]
        rw [get_put]
        by_cases h1 : k = k'
        · simp [h1]
        · have : ¬ k' = k := fun h => h1 h.symm
          simp [h1, this]

/-! ## deleting a stored event -/

theorem coh_deleteEvent (s s' : Store) (e : Event) (hc : Coh s)
    (hst : get s (primaryKey e.id) = some (some e)) (h : deleteEvent s e = some s') :
    Coh s' ∧ (∀ k, get s' k = if k = primaryKey e.id ∨ k ∈ skOf e then none else get s k) := by
  obtain ⟨_, hid, hsome, hall⟩ := hc.rec_ok e.id e hst
  unfold deleteEvent at h
  cases hsk : secondaryKeys e with
  | none => simp [hsk] at hsome
  | some sk =>
    simp only [hsk, Option.bind_eq_bind, Option.bind_some] at h
    have hget : ∀ k, get s' k = if k = primaryKey e.id ∨ k ∈ skOf e then none else get s k := by
      intro k
      rw [get_delAll s s' _ h k]
      simp only [List.mem_append, List.mem_reverse, List.mem_singleton, skOf, hsk, Option.getD_some]
      by_cases h1 : k ∈ sk <;> by_cases h2 : k = primaryKey e.id <;> simp [h1, h2]
    refine ⟨⟨?_, ?_⟩, hget⟩
    · intro id e' hg
      rw [hget] at hg
      by_cases hk : primaryKey id = primaryKey e.id ∨ primaryKey id ∈ skOf e
      · simp [hk] at hg
      · simp only [hk, if_false] at hg
        obtain ⟨h1, h2, h3, h4⟩ := hc.rec_ok id e' hg
        refine ⟨h1, h2, h3, ?_⟩
        intro k hk'
        rw [hget]
        have hne : ¬ (k = primaryKey e.id ∨ k ∈ skOf e) := by
          intro hor
          rcases hor with hp | hs
          · exact (sk_not_primary e' (by rw [h1]; exact h2) k hk').1 e.id hp
          · have a := sk_lastN e' (by rw [h1]; exact h2) k hk'
            have b := sk_lastN e hid k hs
            have : primaryKey id = primaryKey e.id := by rw [← h1, ← a, b]
            exact hk (Or.inl this)
        simp only [hne, if_false]
        exact h4 k hk'
    · intro k v hg
      rw [hget] at hg
      by_cases hk : k = primaryKey e.id ∨ k ∈ skOf e
      · simp [hk] at hg
      · simp only [hk, if_false] at hg
        rcases hc.key_ok k v hg with h1 | h2 | ⟨hv, e', he', hke'⟩
        · exact Or.inl h1
        · exact Or.inr (Or.inl h2)
        · refine Or.inr (Or.inr ⟨hv, e', ?_, hke'⟩)
          rw [hget]
          obtain ⟨_, hid', _, _⟩ := hc.rec_ok e'.id e' he'
          have hne : ¬ (primaryKey e'.id = primaryKey e.id ∨ primaryKey e'.id ∈ skOf e) := by
            intro hor
            rcases hor with hp | hs
            · -- same id ⇒ same record ⇒ k is one of e's keys
              have : e'.id = e.id := by simpa [primaryKey] using hp
              rw [this] at he'
              rw [hst] at he'
              have : e = e' := by simpa using he'
              subst this
              exact hk (Or.inr hke')
            · exact (sk_not_primary e hid _ hs).1 e'.id rfl
          simp only [hne, if_false]
          exact he'

/-! ## writing a fresh event -/

theorem coh_writeEvent (s s' : Store) (e : Event) (hc : Coh s) (hid : e.id.length = 32)
    (hfresh : get s (primaryKey e.id) = none) (h : writeEvent s e = some s') :
    Coh s' ∧ get s' (primaryKey e.id) = some (some e) ∧
      (∀ k, get s' k = if k = primaryKey e.id then some (some e) else if k ∈ skOf e then some none else get s k) := by
  unfold writeEvent at h
  cases hsk : secondaryKeys e with
  | none => simp [hsk] at h
  | some sk =>
    simp only [hsk, Option.bind_eq_bind, Option.bind_some] at h
    have hskOf : skOf e = sk := by simp [skOf, hsk]
    have hnp : ∀ k ∈ sk, k ≠ primaryKey e.id := fun k hk hp =>
      (sk_not_primary e hid k (by rw [hskOf]; exact hk)).1 e.id hp
    have hget : ∀ k, get s' k =
        if k = primaryKey e.id then some (some e) else if k ∈ skOf e then some none else get s k := by
      intro k
      rw [get_putAll s s' _ h k, hskOf]
      simp only [List.reverse_cons, List.find?_append, List.find?_cons, List.find?_nil]
      by_cases h1 : k ∈ sk
      · have hne : k ≠ primaryKey e.id := hnp k h1
        have : ∃ p, (sk.map (fun k => (k, (none : Option Event)))).reverse.find? (fun p => p.1 = k) = some p ∧ p.2 = none := by
          have hmem : (k, (none : Option Event)) ∈ (sk.map (fun k => (k, (none : Option Event)))).reverse := by
            simp; exact h1
          cases hf : (sk.map (fun k => (k, (none : Option Event)))).reverse.find? (fun p => p.1 = k) with
          | none =>
            rw [List.find?_eq_none] at hf
            exact absurd (by simp) (hf _ hmem)
          | some p =>
            have hp := List.mem_of_find?_eq_some hf
            simp only [List.mem_reverse, List.mem_map] at hp
            obtain ⟨k2, _, rfl⟩ := hp
            exact ⟨_, rfl, rfl⟩
        obtain ⟨p, hp, hp2⟩ := this
        rw [hp]
        simp [hne, h1, hp2]
      · have : (sk.map (fun k => (k, (none : Option Event)))).reverse.find? (fun p => p.1 = k) = none := by
          rw [List.find?_eq_none]
          intro p hp
          simp only [List.mem_reverse, List.mem_map] at hp
          obtain ⟨k2, hk2, rfl⟩ := hp
          simp; intro h; exact h1 (h ▸ hk2)
        rw [this]
        by_cases h2 : k = primaryKey e.id
        · simp [h2]
        · have : ¬ primaryKey e.id = k := fun h => h2 h.symm
          simp [h2, h1, this]
    have hprim : get s' (primaryKey e.id) = some (some e) := by rw [hget]; simp
    refine ⟨⟨?_, ?_⟩, hprim, hget⟩
    · intro id e' hg
      rw [hget] at hg
      by_cases hk : primaryKey id = primaryKey e.id
      · simp only [hk, if_true, Option.some.injEq] at hg
        subst hg
        have : id = e.id := by simpa [primaryKey] using hk
        subst this
        refine ⟨rfl, hid, by simp [hsk], ?_⟩
        intro k hk'
        rw [hget]
        have : k ≠ primaryKey e.id := hnp k (by rw [← hskOf]; exact hk')
        simp [this, hk']
      · simp only [hk, if_false] at hg
        have hns : primaryKey id ∉ skOf e := fun hs => (sk_not_primary e hid _ hs).1 id rfl
        simp only [hns, if_false] at hg
        obtain ⟨h1, h2, h3, h4⟩ := hc.rec_ok id e' hg
        refine ⟨h1, h2, h3, ?_⟩
        intro k hk'
        rw [hget]
        have hne : k ≠ primaryKey e.id := (sk_not_primary e' (by rw [h1]; exact h2) k hk').1 e.id
        simp only [hne, if_false]
        by_cases hks : k ∈ skOf e
        · simp [hks]
        · simp only [hks, if_false]; exact h4 k hk'
    · intro k v hg
      rw [hget] at hg
      by_cases hk : k = primaryKey e.id
      · simp only [hk, if_true, Option.some.injEq] at hg
        exact Or.inr (Or.inl ⟨e.id, e, hk, hg.symm⟩)
      · simp only [hk, if_false] at hg
        by_cases hks : k ∈ skOf e
        · simp only [hks, if_true, Option.some.injEq] at hg
          exact Or.inr (Or.inr ⟨hg.symm, e, hprim, hks⟩)
        · simp only [hks, if_false] at hg
          rcases hc.key_ok k v hg with h1 | h2 | ⟨hv, e', he', hke'⟩
          · exact Or.inl h1
          · exact Or.inr (Or.inl h2)
          · refine Or.inr (Or.inr ⟨hv, e', ?_, hke'⟩)
            rw [hget]
            have hne : primaryKey e'.id ≠ primaryKey e.id := by
              intro hp
              have : e'.id = e.id := by simpa [primaryKey] using hp
              rw [this, hfresh] at he'
              simp at he'
            have hns : primaryKey e'.id ∉ skOf e := fun hs => (sk_not_primary e hid _ hs).1 e'.id rfl
            simp only [hne, if_false, hns]
            exact he'

/-! ## record-level view -/

theorem getEvent_iff (s : Store) (id : Bytes) (e : Event) :
    getEvent s id = some e ↔ get s (primaryKey id) = some (some e) := by
  unfold getEvent primaryKey
  cases h : get s (0 :: id) with
  | none => simp
  | some v => cases v <;> simp

theorem getEvent_none_iff (s : Store) (hc : Coh s) (id : Bytes) :
    getEvent s id = none ↔ get s (primaryKey id) = none := by
  unfold getEvent
  have hk := hc.key_ok (primaryKey id)
  unfold primaryKey at hk ⊢
  cases h : get s (0 :: id) with
  | none => simp
  | some v =>
    cases v with
    | some e => simp
    | none =>
      exfalso
      rcases hk none h with ⟨h1, _⟩ | ⟨_, e, _, h2⟩ | ⟨_, e, he, hke⟩
      · simp [tombstone] at h1
      · simp at h2
      · obtain ⟨_, hid, _, _⟩ := hc.rec_ok e.id e he
        exact (sk_not_primary e hid _ hke).1 id rfl

/-- deleting a stored event removes exactly that record -/
theorem getEvent_deleteEvent (s s' : Store) (c : Event) (hc : Coh s)
    (hst : getEvent s c.id = some c) (h : deleteEvent s c = some s') (id : Bytes) :
    getEvent s' id = if id = c.id then none else getEvent s id := by
  have hst' := (getEvent_iff s c.id c).mp hst
  obtain ⟨_, hget⟩ := coh_deleteEvent s s' c hc hst' h
  obtain ⟨_, hid, _, _⟩ := hc.rec_ok c.id c hst'
  have hk := hget (primaryKey id)
  have hns : primaryKey id ∉ skOf c := fun hs => (sk_not_primary c hid _ hs).1 id rfl
  unfold getEvent
  unfold primaryKey at hk hns
  rw [hk]
  by_cases h1 : id = c.id
  · simp [h1]
  · have : ¬ (0 :: id = 0 :: c.id) := by simpa using h1
    simp [h1, this, hns]

/-- what a deletion loop may do: it keeps coherence, adds nothing, and whatever it removes is
    described by `P` -/
structure Removes (s s' : Store) (P : Bytes → Event → Prop) : Prop where
  coh : Coh s'
  nothing_new : ∀ id c, getEvent s' id = some c → getEvent s id = some c
  only_P : ∀ id c, getEvent s id = some c → getEvent s' id = none → P id c

theorem removes_refl (s : Store) (hc : Coh s) (P : Bytes → Event → Prop) : Removes s s P :=
  ⟨hc, fun _ _ h => h, fun _ _ h1 h2 => by rw [h1] at h2; simp at h2⟩

theorem removes_step (s s1 s' : Store) (c : Event) (P : Bytes → Event → Prop) (hc : Coh s)
    (hst : getEvent s c.id = some c) (hdel : deleteEvent s c = some s1) (hP : P c.id c)
    (hrest : Removes s1 s' P) : Removes s s' P := by
  have hg := getEvent_deleteEvent s s1 c hc hst hdel
  refine ⟨hrest.coh, ?_, ?_⟩
  · intro id e h
    have := hrest.nothing_new id e h
    rw [hg] at this
    by_cases h1 : id = c.id
    · simp [h1] at this
    · simpa [h1] using this
  · intro id e h1 h2
    by_cases h3 : id = c.id
    · subst h3
      rw [hst] at h1
      have : c = e := by simpa using h1
      subst this
      exact hP
    · have h4 : getEvent s1 id = some e := by rw [hg]; simp [h3, h1]
      exact hrest.only_P id e h4 h2

/-- the candidate fetched under a coherent store is filed under its own id -/
theorem getEvent_id (s : Store) (hc : Coh s) (id : Bytes) (c : Event) (h : getEvent s id = some c) :
    c.id = id :=
  (hc.rec_ok id c ((getEvent_iff s id c).mp h)).1

theorem replaceLoop_removes (e : Event) (dTag : Option Bytes) (ids : List Bytes) (s s' : Store)
    (hc : Coh s) (h : replaceLoop e dTag s ids = some s') :
    Removes s s' (fun id c => id ∈ ids ∧ id ≠ e.id ∧
      (dTag = none ∨ ∃ d, dTag = some d ∧ dValue c.tags = some d)) := by
  induction ids generalizing s with
  | nil => simp [replaceLoop] at h; subst h; exact removes_refl s hc _
  | cons id rest ih =>
    have weaken : ∀ s0, Removes s0 s' (fun id c => id ∈ rest ∧ id ≠ e.id ∧
        (dTag = none ∨ ∃ d, dTag = some d ∧ dValue c.tags = some d)) →
        Removes s0 s' (fun id' c => id' ∈ id :: rest ∧ id' ≠ e.id ∧
        (dTag = none ∨ ∃ d, dTag = some d ∧ dValue c.tags = some d)) := by
      intro s0 r
      exact ⟨r.coh, r.nothing_new, fun i c h1 h2 =>
        let ⟨a, b, c'⟩ := r.only_P i c h1 h2; ⟨List.mem_cons_of_mem _ a, b, c'⟩⟩
    unfold replaceLoop at h
    by_cases h1 : id = e.id
    · simp only [h1, if_true] at h
      exact weaken s (ih s hc h)
    · simp only [h1, if_false] at h
      cases hg : getEvent s id with
      | none => simp [hg] at h
      | some cand =>
        simp only [hg] at h
        have hcid := getEvent_id s hc id cand hg
        have hst : getEvent s cand.id = some cand := by rw [hcid]; exact hg
        cases dTag with
        | none =>
          simp only at h
          cases hd : deleteEvent s cand with
          | none => simp [hd] at h
          | some s1 =>
            simp only [hd, Option.bind_some] at h
            have hc1 := (coh_deleteEvent s s1 cand hc ((getEvent_iff _ _ _).mp hst) hd).1
            exact removes_step s s1 s' cand _ hc hst hd
              ⟨by rw [hcid]; exact List.mem_cons_self, by rw [hcid]; exact h1, Or.inl rfl⟩
              (weaken s1 (ih s1 hc1 h))
        | some d =>
          simp only at h
          cases ht : dValue cand.tags with
          | none => simp [ht] at h
          | some cd =>
            simp only [ht] at h
            by_cases hcd : cd = d
            · simp only [hcd, if_true] at h
              cases hd : deleteEvent s cand with
              | none => simp [hd] at h
              | some s1 =>
                simp only [hd, Option.bind_some] at h
                have hc1 := (coh_deleteEvent s s1 cand hc ((getEvent_iff _ _ _).mp hst) hd).1
                exact removes_step s s1 s' cand _ hc hst hd
                  ⟨by rw [hcid]; exact List.mem_cons_self, by rw [hcid]; exact h1,
                    Or.inr ⟨d, rfl, by rw [ht, hcd]⟩⟩
                  (weaken s1 (ih s1 hc1 h))
            · simp only [hcd, if_false] at h
              exact weaken s (ih s hc h)

theorem deleteLoop_removes (refs cands : List Bytes) (s s' : Store)
    (hc : Coh s) (h : deleteLoop refs s cands = some s') :
    Removes s s' (fun id _ => id ∈ cands ∧ id ∈ refs) := by
  induction cands generalizing s with
  | nil => simp [deleteLoop] at h; subst h; exact removes_refl s hc _
  | cons id rest ih =>
    have weaken : ∀ s0, Removes s0 s' (fun id _ => id ∈ rest ∧ id ∈ refs) →
        Removes s0 s' (fun id' (_ : Event) => id' ∈ id :: rest ∧ id' ∈ refs) := by
      intro s0 r
      exact ⟨r.coh, r.nothing_new, fun i c h1 h2 =>
        let ⟨a, b⟩ := r.only_P i c h1 h2; ⟨List.mem_cons_of_mem _ a, b⟩⟩
    unfold deleteLoop at h
    by_cases h1 : refs.contains id = true
    · simp only [h1, if_true] at h
      cases hg : getEvent s id with
      | none =>
        simp only [hg] at h
        exact weaken s (ih s hc h)
      | some cand =>
        simp only [hg] at h
        have hcid := getEvent_id s hc id cand hg
        cases hd : deleteEvent s cand with
        | none => simp [hd] at h
        | some s1 =>
          simp only [hd, Option.bind_some] at h
          have hst : getEvent s cand.id = some cand := by rw [hcid]; exact hg
          have hc1 := (coh_deleteEvent s s1 cand hc ((getEvent_iff _ _ _).mp hst) hd).1
          exact removes_step s s1 s' cand _ hc hst hd
            ⟨by rw [hcid]; exact List.mem_cons_self, by rw [hcid]; simpa using h1⟩
            (weaken s1 (ih s1 hc1 h))
    · simp only [h1, Bool.false_eq_true, if_false] at h
      exact weaken s (ih s hc h)

/-! ## tasks -/

/-- what the post-save step of an accepted event may remove -/
theorem postSave_removes (s s' : Store) (e : Event) (hc : Coh s) (h : postSave s e = some s') :
    Removes s s' (fun id _ => id ≠ e.id ∨ ¬ isReplaceableKind e.kind = true) := by
  unfold postSave at h
  by_cases hr : isReplaceableKind e.kind = true
  · simp only [hr, if_true] at h
    unfold postSaveReplaceable at h
    obtain ⟨dTag, _, h⟩ := Option.bind_eq_some_iff.mp h
    obtain ⟨kd, _, h⟩ := Option.bind_eq_some_iff.mp h
    obtain ⟨ids, _, h⟩ := Option.bind_eq_some_iff.mp h
    have r := replaceLoop_removes e dTag ids s s' hc h
    exact ⟨r.coh, r.nothing_new, fun i c h1 h2 => Or.inl (r.only_P i c h1 h2).2.1⟩
  · simp only [hr, Bool.false_eq_true, if_false] at h
    by_cases h5 : (e.kind == 5) = true
    · simp only [h5, if_true] at h
      unfold postSaveDelete at h
      cases hd : deletionRefs e.tags with
      | none => simp [hd] at h
      | some refs =>
        simp only [hd, Option.bind_eq_bind, Option.bind_some] at h
        by_cases he : refs.isEmpty = true
        · simp only [he, if_true, Option.pure_def, Option.some.injEq] at h
          subst h
          exact removes_refl s hc _
        · simp only [he, Bool.false_eq_true, if_false] at h
          obtain ⟨cands, _, h⟩ := Option.bind_eq_some_iff.mp h
          have r := deleteLoop_removes refs cands s s' hc h
          exact ⟨r.coh, r.nothing_new, fun i c h1 h2 => Or.inr hr⟩
    · simp only [h5, Bool.false_eq_true, if_false, Option.some.injEq] at h
      subst h
      exact removes_refl s hc _

/-- every event handed to the writer was admitted, hence has a 32-byte id (after the `fix:`
    of `is_signed`, the id is a SHA-256 digest) -/
def Task.wf : Task → Prop
  | .add e => e.id.length = 32
  | .del _ => True

theorem coh_taskBody (s s' : Store) (t : Task) (hc : Coh s) (hwf : t.wf) (h : taskBody s t = some s') :
    Coh s' := by
  cases t with
  | add e =>
    simp only [taskBody] at h
    cases hg : getEvent s e.id with
    | some x => simp [hg] at h; subst h; exact hc
    | none =>
      simp only [hg] at h
      cases hw : writeEvent s e with
      | none => simp [hw] at h
      | some s1 =>
        simp only [hw, Option.bind_some] at h
        have hfresh := (getEvent_none_iff s hc e.id).mp hg
        obtain ⟨hc1, _, _⟩ := coh_writeEvent s s1 e hc hwf hfresh hw
        exact (postSave_removes s1 s' e hc1 h).coh
  | del id =>
    simp only [taskBody] at h
    cases hg : getEvent s id with
    | none => simp [hg] at h; subst h; exact hc
    | some e =>
      simp only [hg] at h
      have hid := getEvent_id s hc id e hg
      have hst : get s (primaryKey e.id) = some (some e) := by
        rw [hid]; exact (getEvent_iff s id e).mp hg
      exact (coh_deleteEvent s s' e hc hst h).1

/-- **C10 (one task)** — a writer task, committed or aborted, keeps the keyspace coherent -/
theorem C10_coherent_applyTask (s : Store) (t : Task) (hc : Coh s) (hwf : t.wf) :
    Coh (applyTask s t) := by
  unfold applyTask
  cases h : taskBody s t with
  | none => simpa using hc
  | some s' => simpa using coh_taskBody s s' t hc hwf h

/-- **C10 (every history)** — after any list of writer tasks (additions, duplicates,
    replacements, kind-5 deletions, GC deletions, aborted transactions) starting from the freshly
    initialised environment, the keyspace is coherent. -/
theorem C10_coherent_reachable (ts : List Task) (hwf : ∀ t ∈ ts, t.wf) :
    Coh (applyTasks init ts) := by
  unfold applyTasks
  suffices ∀ s, Coh s → Coh (ts.foldl applyTask s) from this init coh_init
  induction ts with
  | nil => intro s hc; simpa using hc
  | cons t rest ih =>
    intro s hc
    simp only [List.foldl_cons]
    exact ih (fun t' ht' => hwf t' (List.mem_cons_of_mem _ ht')) _
      (C10_coherent_applyTask s t hc (hwf t List.mem_cons_self))

/-- **C10 (access paths agree)** — in a reachable store an event is found under an index entry
    iff its primary record exists, and then under each of its attributes:
    (1) a stored record has every one of its index entries;
    (2) every index entry belongs to a stored record and is one of *that record's* entries
        (so the entry's trailing 32 bytes are the record's id — no entry under a value the event
        does not have). -/
theorem C10_found_iff_stored (ts : List Task) (hwf : ∀ t ∈ ts, t.wf) :
    let s := applyTasks init ts
    (∀ id e, getEvent s id = some e → ∀ k ∈ skOf e, get s k = some none) ∧
    (∀ k v, get s k = some v → k ≠ tombstone → (∀ id, k ≠ primaryKey id) →
      ∃ e, getEvent s e.id = some e ∧ k ∈ skOf e ∧ lastN 32 k = e.id) := by
  intro s
  have hc : Coh s := C10_coherent_reachable ts hwf
  refine ⟨?_, ?_⟩
  · intro id e h
    exact (hc.rec_ok id e ((getEvent_iff s id e).mp h)).2.2.2
  · intro k v h hk1 hk2
    rcases hc.key_ok k v h with ⟨h1, _⟩ | ⟨id, e, h2, _⟩ | ⟨_, e, he, hke⟩
    · exact absurd h1 hk1
    · exact absurd h2 (hk2 id)
    · obtain ⟨_, hid, _, _⟩ := hc.rec_ok e.id e he
      exact ⟨e, (getEvent_iff s e.id e).mpr he, hke, sk_lastN e hid k hke⟩

/-! ## non-vacuity: a concrete reachable store with two events, one superseding the other -/

def exA : Event := { id := List.replicate 31 0 ++ [1], pubkey := List.replicate 32 170, createdAt := 1700000000,
                     kind := 10002, tags := [[[116], [97]]] }
def exB : Event := { exA with id := List.replicate 31 0 ++ [2], createdAt := 1700000050 }

example : (applyTasks init [.add exA, .add exB]).length = 7 := by decide +kernel
example : getEvent (applyTasks init [.add exA, .add exB]) exA.id = none := by decide +kernel
example : getEvent (applyTasks init [.add exA, .add exB]) exB.id = some exB := by decide +kernel

end NostrRelay.KV
