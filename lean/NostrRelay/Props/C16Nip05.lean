/-
C16, the NIP-05 admission policy (`verification.is_nip05_verified`, chained before `dynamic_lists.is_pubkey_allowed`):
what it refuses, and what it does to the process-global allow list — in particular that it can neither switch an unenforced
list on nor empty / shrink an enforced one (the window the property forbids), and that the only key it ever adds is the author
of the metadata event at hand.
-/
import NostrRelay.Model.Admission
namespace NostrRelay.Admission

/-- **refuses exactly** metadata (kind 0) that does not mention nip05, and only when verification is `enabled`
    (a malformed pubkey aside, which cannot pass `is_signed`) -/
theorem C16_nip05_rejects_iff (st : Nip05Status) (kind : Int) (content : List Nat) (pk : Option (List Nat))
    (allowed : List (List Nat)) :
    (isNip05Verified st kind content pk allowed).1 = .reject ↔
      st = .enabled ∧ kind = 0 ∧ mentionsNip05 content = false := by
  unfold isNip05Verified
  cases st <;> simp <;> (repeat' split) <;> simp_all

/-- `passive` and switched-off verification refuse nothing (they only collect candidates) -/
theorem C16_nip05_passive_never_rejects (st : Nip05Status) (hst : st ≠ .enabled) (kind : Int) (content : List Nat)
    (pk : Option (List Nat)) (allowed : List (List Nat)) :
    (isNip05Verified st kind content pk allowed).1 ≠ .reject := by
  intro h
  exact hst ((C16_nip05_rejects_iff st kind content pk allowed).1 h).1

/-- an allow list that is not enforced (empty) is never switched on by a candidate -/
theorem C16_nip05_unenforced_stays (st : Nip05Status) (kind : Int) (content : List Nat) (pk : Option (List Nat)) :
    (isNip05Verified st kind content pk []).2 = [] := by
  unfold isNip05Verified
  cases st <;> simp <;> (repeat' split) <;> simp_all

/-- **no window**: an enforced allow list stays enforced and loses no key -/
theorem C16_nip05_never_shrinks (st : Nip05Status) (kind : Int) (content : List Nat) (pk : Option (List Nat))
    (allowed : List (List Nat)) (x : List Nat) (hx : x ∈ allowed) :
    x ∈ (isNip05Verified st kind content pk allowed).2 := by
  unfold isNip05Verified
  cases st <;> simp <;> (repeat' split) <;> simp_all

/-- the only key ever added is the author of this event -/
theorem C16_nip05_adds_only_author (st : Nip05Status) (kind : Int) (content : List Nat) (pk : Option (List Nat))
    (allowed : List (List Nat)) (x : List Nat) (hx : x ∈ (isNip05Verified st kind content pk allowed).2) :
    x ∈ allowed ∨ pk = some x := by
  unfold isNip05Verified at hx
  cases st <;> simp at hx <;> (repeat' (split at hx)) <;> simp_all <;> (try (cases hx <;> simp_all))

/-- and it is added only for metadata that mentions nip05 while an allow list is in force: the documented "temporary" admission
    of a candidate — the author of such an event then passes `is_pubkey_allowed` unless denied -/
theorem C16_nip05_candidate_admitted (st : Nip05Status) (hst : st ≠ .off) (content : List Nat) (pk : List Nat)
    (allowed denied : List (List Nat)) (hm : mentionsNip05 content = true) (hne : allowed ≠ []) (hd : denied.contains pk = false)
    (e : Ev) (hpk : e.pubkey = pk) :
    (isNip05Verified st 0 content (some pk) allowed).1 = .ok ∧
    isPubkeyAllowed (isNip05Verified st 0 content (some pk) allowed).2 denied e = .ok := by
  have hne' : allowed.isEmpty = false := by cases allowed <;> simp_all
  unfold isNip05Verified isPubkeyAllowed
  cases st <;> simp_all <;> (split <;> simp_all)

/-- what is not a candidate changes nothing -/
theorem C16_nip05_other_kinds_untouched (st : Nip05Status) (kind : Int) (hk : kind ≠ 0) (content : List Nat)
    (pk : Option (List Nat)) (allowed : List (List Nat)) :
    isNip05Verified st kind content pk allowed = (.ok, allowed) := by
  unfold isNip05Verified
  cases st <;> simp <;> (repeat' split) <;> simp_all

/-- non-vacuity: the substring test is on the text — `{"name":"nip05 fan"}` counts as mentioning it -/
example : mentionsNip05 [123, 34, 110, 97, 109, 101, 34, 58, 34, 110, 105, 112, 48, 53, 32, 102, 97, 110, 34, 125] = true := by decide
example : (isNip05Verified .enabled 0 [123, 125] (some [1]) [[2]]).1 = .reject := by decide
example : (isNip05Verified .enabled 0 [110, 105, 112, 48, 53] (some [1]) [[2]]).2 = [[1], [2]] := by decide

end NostrRelay.Admission
