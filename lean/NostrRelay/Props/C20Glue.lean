/-
C20 — the storage glue of the cross-worker notifier: an id is announced only when the other workers can
load the event (SQL: always; LMDB: every event that is written at all), every event acknowledged as new
and written is announced exactly once, in the order of the commits, and a refused resubmission
announces nothing — for every interleaving of submissions, writer-thread takes and commits.
(The same invariant carries C06's "a resubmission is a duplicate while the first copy is queued, being
written or stored": `Props/C06Inflight.lean`.)
-/
import NostrRelay.Model.Announce

namespace NostrRelay.Announce

/-- is this announcement / event about something the backend writes? -/
def Ann.written (b : Backend) (a : Ann) : Bool := !(b == .kv && a.ephemeral)
def Ev.written (b : Backend) (e : Ev) : Bool := !(b == .kv && e.ephemeral)

structure Inv (b : Backend) (s : State) : Prop where
  loadable : ∀ a ∈ s.announced, a.written b = true → a.loadable = true
  order : (s.announced.filter (Ann.written b)).map (·.id) = s.committed
  nodup : s.committed.Nodup
  pend_nodup : ((pend s).map (·.id)).Nodup
  pend_fresh : ∀ e ∈ pend s, e.id ∉ s.committed ∧ e.written b = true
  sql_no_pend : b = .sql → pend s = []
  accepted : (s.accepted.filter (Ev.written b)).map (·.id) = s.committed ++ (pend s).map (·.id)

theorem inv_init (b : Backend) : Inv b {} := by
  constructor <;> simp [pend]

/-- committing the head of the pending list -/
theorem inv_commit (b : Backend) (s : State) (e : Ev) (rest : List Ev) (h : Inv b s) (hp : pend s = e :: rest)
    (s' : State) (hpend : pend s' = rest) (hc : s'.committed = s.committed ++ [e.id])
    (ha : s'.announced = s.announced ++ [⟨e.id, e.ephemeral, true⟩]) (hacc : s'.accepted = s.accepted)
    (hb : b = .kv) : Inv b s' := by
  have hfresh := h.pend_fresh e (by rw [hp]; exact List.mem_cons_self)
  have hqn := h.pend_nodup
  rw [hp] at hqn
  simp only [List.map_cons, List.nodup_cons] at hqn
  have hw : Ann.written b ⟨e.id, e.ephemeral, true⟩ = true := by
    have := hfresh.2; simpa [Ev.written, Ann.written] using this
  constructor
  · intro a ha' hwr
    rw [ha] at ha'
    simp only [List.mem_append, List.mem_singleton] at ha'
    rcases ha' with ha' | rfl
    · exact h.loadable a ha' hwr
    · rfl
  · rw [ha, hc, List.filter_append, List.map_append, h.order]
    simp [hw]
  · rw [hc, List.nodup_append]
    refine ⟨h.nodup, by simp, ?_⟩
    intro a ha' b' hb'
    simp only [List.mem_singleton] at hb'
    subst hb'
    intro heq; subst heq; exact hfresh.1 ha'
  · rw [hpend]; exact hqn.2
  · intro x hx
    rw [hpend] at hx
    have hx' : x ∈ pend s := by rw [hp]; exact List.mem_cons_of_mem _ hx
    refine ⟨?_, (h.pend_fresh x hx').2⟩
    intro hmem
    rw [hc] at hmem
    simp only [List.mem_append, List.mem_singleton] at hmem
    rcases hmem with hmem | hmem
    · exact (h.pend_fresh x hx').1 hmem
    · exact hqn.1 (by rw [← hmem]; exact List.mem_map_of_mem hx)
  · intro hb'; rw [hb] at hb'; cases hb'
  · rw [hacc, h.accepted, hp, hc, hpend]
    simp [List.append_assoc]

theorem inv_step (b : Backend) (s : State) (st : Step) (h : Inv b s) : Inv b (step b s st) := by
  cases b with
  | sql =>
    cases st with
    | writerTake => exact h
    | writerCommit => exact h
    | submit e =>
      simp only [step]
      by_cases hd : e.id ∈ s.committed
      · simp only [hd, if_true]; exact h
      · simp only [hd, if_false]
        have hq := h.sql_no_pend rfl
        constructor
        · intro a ha hw
          simp only [announce, List.mem_append, List.mem_singleton] at ha
          rcases ha with ha | rfl
          · exact h.loadable a ha hw
          · simp
        · simp only [announce, List.filter_append, List.map_append]
          rw [h.order]
          simp [Ann.written]
        · simp only [announce]
          rw [List.nodup_append]
          refine ⟨h.nodup, by simp, ?_⟩
          intro a ha b' hb'
          simp only [List.mem_singleton] at hb'
          subst hb'
          intro heq; subst heq; exact hd ha
        · have : pend (announce { s with committed := s.committed ++ [e.id], accepted := s.accepted ++ [e] } e) = pend s := rfl
          rw [this]; exact h.pend_nodup
        · intro x hx
          have : pend (announce { s with committed := s.committed ++ [e.id], accepted := s.accepted ++ [e] } e) = pend s := rfl
          rw [this, hq] at hx; cases hx
        · intro _; exact hq
        · have : pend (announce { s with committed := s.committed ++ [e.id], accepted := s.accepted ++ [e] } e) = pend s := rfl
          rw [this]
          simp only [announce, List.filter_append, List.map_append]
          rw [h.accepted, hq]
          simp [Ev.written]
  | kv =>
    cases st with
    | submit e =>
      simp only [step]
      by_cases he : e.ephemeral = true
      · simp only [he, if_true]
        have hpe : pend (announce { s with accepted := s.accepted ++ [e] } e) = pend s := rfl
        constructor
        · intro a ha hw
          simp only [announce, List.mem_append, List.mem_singleton] at ha
          rcases ha with ha | rfl
          · exact h.loadable a ha hw
          · simp [Ann.written, he] at hw
        · simp only [announce, List.filter_append, List.map_append]
          rw [h.order]
          simp [Ann.written, he]
        · exact h.nodup
        · rw [hpe]; exact h.pend_nodup
        · rw [hpe]; exact h.pend_fresh
        · intro hb; cases hb
        · rw [hpe]
          simp only [announce, List.filter_append, List.map_append]
          rw [h.accepted]
          simp [Ev.written, he]
      · have he' : e.ephemeral = false := by simpa using he
        simp only [he', Bool.false_eq_true, if_false]
        by_cases hd : e.id ∈ s.committed ∨ e.id ∈ (pend s).map (·.id)
        · simp only [hd, if_true]; exact h
        · simp only [hd, if_false]
          have hd1 : e.id ∉ s.committed := fun x => hd (Or.inl x)
          have hd2 : e.id ∉ (pend s).map (·.id) := fun x => hd (Or.inr x)
          have hpe : pend { s with queue := s.queue ++ [e], accepted := s.accepted ++ [e] } = pend s ++ [e] := by
            simp [pend, List.append_assoc]
          constructor
          · exact h.loadable
          · exact h.order
          · exact h.nodup
          · rw [hpe]
            simp only [List.map_append, List.map_cons, List.map_nil]
            rw [List.nodup_append]
            refine ⟨h.pend_nodup, by simp, ?_⟩
            intro a ha b' hb'
            simp only [List.mem_singleton] at hb'
            subst hb'
            intro heq; subst heq; exact hd2 ha
          · intro x hx
            rw [hpe] at hx
            simp only [List.mem_append, List.mem_singleton] at hx
            rcases hx with hx | rfl
            · exact h.pend_fresh x hx
            · exact ⟨hd1, by simp [Ev.written, he']⟩
          · intro hb; cases hb
          · rw [hpe]
            simp only [List.filter_append, List.map_append]
            rw [h.accepted]
            simp [Ev.written, he', List.append_assoc]
    | writerTake =>
      simp only [step]
      split
      · rename_i e rest hi hq
        -- the pending list is unchanged: its head moves from the queue to the writer's hands
        have hpe : pend { s with inflight := some e, queue := rest } = pend s := by
          simp [pend, hi, hq]
        constructor
        · exact h.loadable
        · exact h.order
        · exact h.nodup
        · rw [hpe]; exact h.pend_nodup
        · rw [hpe]; exact h.pend_fresh
        · intro hb; cases hb
        · rw [hpe]; exact h.accepted
      · exact h
    | writerCommit =>
      simp only [step]
      split
      · exact h
      · rename_i e hi
        have hp : pend s = e :: s.queue := by simp [pend, hi]
        have hfresh := h.pend_fresh e (by rw [hp]; exact List.mem_cons_self)
        apply inv_commit .kv s e s.queue h hp
        · simp [pend, announce]
        · rfl
        · simp [announce]
        · rfl
        · rfl

theorem inv_run (b : Backend) (steps : List Step) : Inv b (run b steps) := by
  unfold run
  suffices key : ∀ s, Inv b s → Inv b (steps.foldl (step b) s) from key _ (inv_init b)
  induction steps with
  | nil => intro s h; exact h
  | cons st rest ih => intro s h; exact ih _ (inv_step b s st h)

/-- **C20 (glue, SQL)** — under every schedule, at the instant an id is announced the other workers can
    load the event -/
theorem C20_sql_announced_loadable (steps : List Step) : ∀ a ∈ (run .sql steps).announced, a.loadable = true := by
  intro a ha
  exact (inv_run .sql steps).loadable a ha (by simp [Ann.written])

/-- **C20 (glue, LMDB)** — under every interleaving of submissions, writer takes and commits, at the
    instant the id of an event that is written at all is announced, the other workers can load it -/
theorem C20_kv_announced_loadable (steps : List Step) :
    ∀ a ∈ (run .kv steps).announced, a.ephemeral = false → a.loadable = true := by
  intro a ha he
  exact (inv_run .kv steps).loadable a ha (by simp [Ann.written, he])

/-- **C20 (glue, exactly once, in commit order)** — the ids announced for written events are exactly the
    committed ids, in the order of the commits, none twice -/
theorem C20_glue_announced_once (b : Backend) (steps : List Step) :
    ((run b steps).announced.filter (Ann.written b)).map (·.id) = (run b steps).committed ∧
    (run b steps).committed.Nodup :=
  ⟨(inv_run b steps).order, (inv_run b steps).nodup⟩

/-- **C20 (glue, nothing lost)** — once the writer has nothing queued or in hand, every written event that
    was acknowledged as new has been announced (exactly once, in order of acceptance) -/
theorem C20_glue_accepted_announced (b : Backend) (steps : List Step) (hq : pend (run b steps) = []) :
    ((run b steps).accepted.filter (Ev.written b)).map (·.id)
      = ((run b steps).announced.filter (Ann.written b)).map (·.id) := by
  rw [(inv_run b steps).accepted, (inv_run b steps).order, hq]
  simp

/-- **Finding `kv-ephemeral-not-loadable-by-peers`** — on LMDB an ephemeral event is announced although no
    other worker can load it -/
theorem C20_kv_ephemeral_witness :
    (run .kv [.submit ⟨7, true⟩]).announced = [⟨7, true, false⟩] := by decide

-- non-vacuity: two submissions while the writer is stalled, a resubmission, an ephemeral event, then the writer
example : (run .kv [.submit ⟨1, false⟩, .submit ⟨2, false⟩, .writerTake, .submit ⟨1, false⟩, .submit ⟨9, true⟩,
      .writerCommit, .writerTake, .writerCommit]).announced
    = [⟨9, true, false⟩, ⟨1, false, true⟩, ⟨2, false, true⟩] := by decide
example : (run .sql [.submit ⟨1, false⟩, .submit ⟨9, true⟩, .submit ⟨1, false⟩]).announced
    = [⟨1, false, true⟩, ⟨9, true, true⟩] := by decide

end NostrRelay.Announce
