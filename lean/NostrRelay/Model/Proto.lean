/-
M8 — the websocket protocol machine (web.start_client, send_subscriptions, base.subscribe /
unsubscribe / notify_all_connected, BaseSubscription.notify, the backends' run_query) as a labelled
transition system.  A label is "one task runs from one suspension point to the next"; a schedule is
an arbitrary list of labels, so a statement about `run s sched` for all `sched` is a statement about
every interleaving of the connections' messages and of the relay's internal tasks.

Storage is abstract here (it has its own models): a REQ label carries the stored answer the query
task will deliver, an EVENT label carries storage's verdict, a notify label carries the result of
`check_event` (modelled separately as `liveMatch`).

What a client sees is its connection's `transcript`: the frames in the order `ws_send` was called.
The fields `livePut`, `resolved`, `eosePut`, `targeted`, `sent` are ghost history (what has happened so far); the
transitions never read them.
-/
namespace NostrRelay.Proto

-- connection ids, subscription names (as the client wrote them), Subscription objects and events are
-- all named by natural numbers (plain `Nat`, so that `omega` sees them)

inductive Frame where
  | event (sub : Nat) (ev : Nat)
  | eose (sub : Nat)
  | ok (ev : Nat) (accepted : Bool)
  | notice
  deriving Repr, DecidableEq

/-- an item of a connection's `subscription_queue` -/
structure Item where
  sub : Nat
  ev : Option Nat          -- none = the EOSE sentinel
  inst : Nat                -- which Subscription object put it (ghost)
  live : Bool                  -- put by a notify task (ghost)
  deriving Repr, DecidableEq

/-- one entry of `storage.clients[conn][name]` -/
structure Reg where
  conn : Nat
  name : Nat
  inst : Nat
  deriving Repr, DecidableEq

structure State where
  /-- connections ever accepted -/
  connIds : List Nat := []
  isOpen : Nat → Bool := fun _ => false
  queue : Nat → List Item := fun _ => []
  transcript : Nat → List Frame := fun _ => []
  /-- the registry of open subscriptions, in registration order -/
  registry : List Reg := []
  /-- per Subscription object -/
  owner : Nat → Nat × Nat := fun _ => (0, 0)
  pending : Nat → List Nat := fun _ => []      -- stored events the query task has still to put
  eoseDone : Nat → Bool := fun _ => true           -- the query task has ended
  cancelled : Nat → Bool := fun _ => false         -- `query_task.cancel()` was called
  nextInst : Nat := 0
  /-- notify tasks that have been created and have not run yet -/
  notifyTasks : List (Nat × Nat) := []
  stored : List Nat := []
  subLimit : Nat := 32
  /-- LMDB's run_query puts its sentinel in a `finally` (also when cancelled); SQL's does not -/
  eoseOnCancel : Bool := false
  -- ghost history
  livePut : List (Nat × Nat) := []
  resolved : List (Nat × Nat) := []
  eosePut : List Nat := []
  targeted : List (Nat × Nat) := []
  sent : Nat → List Item := fun _ => []

inductive Label where
  | connect (c : Nat)
  /-- REQ handled in one go (there is no suspension point inside `subscribe` that lets another
      handler run before the registry is updated, except the role check, which touches nothing).
      `usable` = some filter validated and `prepare()` succeeded; `allowed` = the query role check;
      `answer` = the stored events the query task will deliver. -/
  | req (c : Nat) (sub : Nat) (usable allowed : Bool) (answer : List Nat)
  | close (c : Nat) (sub : Nat)
  /-- EVENT handled up to and including the fan-out and the OK frame; `accepted` = storage's verdict -/
  | event (c : Nat) (ev : Nat) (accepted : Bool)
  /-- one notify task runs; `isMatch` = `check_event(filters, event)` (and the output validator) -/
  | notify (ev : Nat) (inst : Nat) (isMatch : Bool)
  /-- the query task of an instance makes one step (next stored event, or the sentinel) -/
  | queryStep (inst : Nat)
  /-- the sender task of a connection takes one item and sends the frame -/
  | send (c : Nat)
  | disconnect (c : Nat)
  deriving Repr

def upd {β : Type} (f : Nat → β) (k : Nat) (v : β) : Nat → β := fun j => if j = k then v else f j

@[simp] theorem upd_same {β : Type} (f : Nat → β) (k : Nat) (v : β) : upd f k v k = v := by simp [upd]
@[simp] theorem upd_other {β : Type} (f : Nat → β) (k j : Nat) (v : β) (h : j ≠ k) : upd f k v j = f j := by simp [upd, h]

def enqueue (s : State) (c : Nat) (it : Item) : State := { s with queue := upd s.queue c (s.queue c ++ [it]) }
def say (s : State) (c : Nat) (f : Frame) : State := { s with transcript := upd s.transcript c (s.transcript c ++ [f]) }

def subsOf (s : State) (c : Nat) : List Reg := s.registry.filter fun r => r.conn == c

/-- the registry entries `unsubscribe(client_id, sub_id)` removes -/
def hit (c : Nat) (sub : Nat) (r : Reg) : Bool := r.conn == c && r.name == sub

/-- `unsubscribe(client_id, sub_id)`: cancel the query task and drop the registry entry -/
def unsubscribeOne (s : State) (c : Nat) (sub : Nat) : State :=
  { s with
    cancelled := fun i => s.cancelled i || s.registry.any fun r => hit c sub r && r.inst == i
    registry := s.registry.filter fun r => !hit c sub r }

def frameOf (it : Item) : Frame :=
  match it.ev with
  | some e => .event it.sub e
  | none => .eose it.sub

/-- the transition relation as a partial function: `none` = the label is not enabled -/
def step (s : State) : Label → Option State
  | .connect c =>
    if s.connIds.contains c then none
    else some { s with connIds := s.connIds ++ [c], isOpen := upd s.isOpen c true }
  | .req c sub usable allowed answer =>
    if !s.isOpen c then none else
    let s1 := unsubscribeOne s c sub                     -- replace a subscription of the same name
    if s.subLimit != 0 && (subsOf s1 c).length == s.subLimit then some (say s1 c .notice)   -- too many subscriptions
    else if !usable then
      -- nothing usable: the sentinel straight away, nothing registered (a ghost instance owns the sentinel)
      let i := s1.nextInst
      some (enqueue { s1 with nextInst := i + 1, owner := upd s1.owner i (c, sub), eoseDone := upd s1.eoseDone i true,
                              pending := upd s1.pending i [], cancelled := upd s1.cancelled i false,
                              eosePut := s1.eosePut ++ [i] } c ⟨sub, none, i, false⟩)
    else if !allowed then some (say s1 c .notice)          -- restricted
    else
      let i := s1.nextInst
      some { s1 with nextInst := i + 1, owner := upd s1.owner i (c, sub), eoseDone := upd s1.eoseDone i false,
                     pending := upd s1.pending i answer, cancelled := upd s1.cancelled i false,
                     registry := s1.registry ++ [⟨c, sub, i⟩] }
  | .close c sub => if !s.isOpen c then none else some (unsubscribeOne s c sub)
  | .event c ev accepted =>
    if !s.isOpen c then none else
    if !accepted then some (say s c (.ok ev false)) else
    if s.stored.contains ev then none else                 -- storage accepts an id once (C06)
    -- `notify_all_connected` first awaits the tasks it finds in `_notify_sub_tasks` and then clears that list; two
    -- handlers that wait at the same time both clear it, the second one forgetting the tasks the first has just
    -- created — so a new round can start while tasks of an earlier one are still pending.  The machine therefore
    -- does not require the pending list to be empty: the new tasks are added to whatever is still pending.
    some (say { s with stored := s.stored ++ [ev], notifyTasks := s.notifyTasks ++ s.registry.map fun r => (ev, r.inst),
                       targeted := s.targeted ++ s.registry.map fun r => (ev, r.inst) } c (.ok ev true))
  | .notify ev i isMatch =>
    if !s.notifyTasks.contains (ev, i) then none else
    let s1 := { s with notifyTasks := s.notifyTasks.erase (ev, i), resolved := s.resolved ++ [(ev, i)] }
    if isMatch then some (enqueue { s1 with livePut := s1.livePut ++ [(ev, i)] } (s.owner i).1 ⟨(s.owner i).2, some ev, i, true⟩)
    else some s1
  | .queryStep i =>
    if i ≥ s.nextInst || s.eoseDone i then none
    else if s.cancelled i then
      -- the cancelled task ends; LMDB's `finally` still puts the sentinel
      let s1 := { s with eoseDone := upd s.eoseDone i true, pending := upd s.pending i [] }
      if s.eoseOnCancel then some (enqueue { s1 with eosePut := s1.eosePut ++ [i] } (s.owner i).1 ⟨(s.owner i).2, none, i, false⟩)
      else some s1
    else match s.pending i with
      | [] => some (enqueue { s with eoseDone := upd s.eoseDone i true, eosePut := s.eosePut ++ [i] } (s.owner i).1 ⟨(s.owner i).2, none, i, false⟩)
      | e :: rest => some (enqueue { s with pending := upd s.pending i rest } (s.owner i).1 ⟨(s.owner i).2, some e, i, false⟩)
  | .send c =>
    if !s.isOpen c then none else
    match s.queue c with
    | [] => none
    | it :: rest => some (say { s with queue := upd s.queue c rest, sent := upd s.sent c (s.sent c ++ [it]) } c (frameOf it))
  | .disconnect c =>
    if !s.isOpen c then none else
    -- `unsubscribe(client_id)`: the registry entry goes; the sender is cancelled, nothing more is sent
    some { s with isOpen := upd s.isOpen c false, registry := s.registry.filter fun r => r.conn != c }

/-- run a schedule; `none` if some label was not enabled -/
def run (s : State) : List Label → Option State
  | [] => some s
  | l :: ls => (step s l).bind fun s' => run s' ls

/-- every state reachable from the initial one -/
def Reachable (s : State) : Prop := ∃ (lim : Nat) (eoc : Bool) (sched : List Label), run { subLimit := lim, eoseOnCancel := eoc } sched = some s

/-! ### the settled schedule used for the correspondence with the implementation

After each client message the harness lets the event loop run until nothing moves.  `settle` is that
schedule: run every pending notify task (in creation order), then every query task to its end, then
every sender until its queue is empty.  Fuel bounds the loops; the driver passes enough.  `held`
names query tasks that the harness keeps suspended before their first step (it wraps `run_query`
from outside), which is how a REQ whose stored query is still running is produced on purpose. -/

def settleNotify (s : State) (isMatch : Nat → Nat → Bool) : Nat → State
  | 0 => s
  | n + 1 => match s.notifyTasks with
    | [] => s
    | (ev, i) :: _ => match step s (.notify ev i (isMatch ev i)) with
      | some s' => settleNotify s' isMatch n
      | none => s

def settleQuery (s : State) (i : Nat) : Nat → State
  | 0 => s
  | n + 1 => match step s (.queryStep i) with
    | some s' => settleQuery s' i n
    | none => s

def settleSend (s : State) (c : Nat) : Nat → State
  | 0 => s
  | n + 1 => match step s (.send c) with
    | some s' => settleSend s' c n
    | none => s

def settle (s : State) (isMatch : Nat → Nat → Bool) (fuel : Nat) (held : List Nat := []) : State :=
  let s1 := settleNotify s isMatch fuel
  -- query tasks the harness is holding at their first suspension point do not move
  let s2 := ((List.range s1.nextInst).filter fun i => !held.contains i).foldl (fun st i => settleQuery st i fuel) s1
  s2.connIds.foldl (fun st c => settleSend st c fuel) s2

end NostrRelay.Proto
