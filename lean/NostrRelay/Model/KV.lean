/-
M3–M5 — model of nostr_relay/storage/kv.py (LMDB backend).

* the LMDB main database is a strictly sorted association list `Store`
  (`0x00 ++ id ↦ some event`, every secondary key ↦ `none`);
* a cursor positioned by `set_range(seek); prev()` and then walked with `prev()` visits exactly
  `below s seek` (the keys smaller than `seek`, largest first);
* one writer task = one write transaction: run on a copy, commit at the end, any exception
  aborts (`none`).

Strings (tag names/values) are carried as their UTF-8 bytes; tag items that are not strings are
outside this model (exercised only by the implementation-side oracle).
-/
import NostrRelay.Model.Bytes

namespace NostrRelay.KV
open NostrRelay

structure Event where
  id : Bytes
  pubkey : Bytes
  createdAt : Int
  kind : Int
  tags : List (List Bytes)
  deriving Repr, DecidableEq, Inhabited

abbrev Store := List (Bytes × Option Event)

/-! ### store primitives -/

def skeys (s : Store) : List Bytes := s.map (·.1)

def get (s : Store) (k : Bytes) : Option (Option Event) :=
  match s with
  | [] => none
  | (k', v) :: rest => if k = k' then some v else get rest k

/-- `txn.put(k, v)` (overwrite) keeping the list sorted -/
def put (s : Store) (k : Bytes) (v : Option Event) : Store :=
  match s with
  | [] => [(k, v)]
  | (k', v') :: rest =>
    if k < k' then (k, v) :: (k', v') :: rest
    else if k = k' then (k, v) :: rest
    else (k', v') :: put rest k v

/-- `txn.delete(k)` -/
def del (s : Store) (k : Bytes) : Store := s.filter (fun e => e.1 ≠ k)

def maxKeySize : Nat := 511

/-- `put` raising MDB_BAD_VALSIZE for empty / over-long keys -/
def putChecked (s : Store) (k : Bytes) (v : Option Event) : Option Store :=
  if k.length = 0 ∨ k.length > maxKeySize then none else some (put s k v)

def delChecked (s : Store) (k : Bytes) : Option Store :=
  if k.length = 0 ∨ k.length > maxKeySize then none else some (del s k)

def tombstone : Bytes := [238]

/-- `LMDBStorage.write_tombstone` -/
def init : Store := [(tombstone, none)]

/-- `get_event_data(txn, id)` + `decode_event` -/
def getEvent (s : Store) (id : Bytes) : Option Event :=
  match get s (0 :: id) with
  | some (some e) => some e
  | _ => none

/-! ### index keys -/

def primaryKey (id : Bytes) : Bytes := 0 :: id

def isIndexableTag (t : List Bytes) : Bool :=
  match t with
  | name :: _ :: _ => isSingleChar name || name == ascii "expiration" || name == ascii "delegation"
  | _ => false

def tagKey (name value : Bytes) : Bytes := [9] ++ name ++ [0] ++ value

/-- the `convert()` keys of every secondary index, in write order
    (created_at, kinds, authors, authorkinds, tags); `none` = OverflowError in `to_bytes` -/
def convKeys (e : Event) : Option (List Bytes) := do
  let ts ← be32 e.createdAt
  let kd ← be32 e.kind
  let tagKeys := (e.tags.filter isIndexableTag).map fun t => tagKey (t.getD 0 []) (t.getD 1 [])
  pure ([[1] ++ ts, [2] ++ kd, [3] ++ e.pubkey, [4] ++ e.pubkey ++ [0] ++ kd] ++ tagKeys)

/-- `2 + len(created_at.to_bytes(4, "big")) + len(id_bytes)`: what `Index.write` appends to a `convert()` key -/
def keySuffix : Nat := 2 + 4 + 32

/-- `check_storable(event)`; `recordOk` = `encode_event(event)` does not raise (Model/MsgPack: `packable` of the event's row) -/
def checkStorable (e : Event) (recordOk : Bool) : Bool :=
  recordOk && (match convKeys e with
    | none => false                                  -- created_at / kind do not fit four bytes: `to_bytes` raises
    | some ks => ks.all fun k => decide (k.length + keySuffix ≤ maxKeySize))

/-- `Index.write`: `key ++ 00 ++ ctime ++ 00 ++ id` -/
def fullKey (conv ts id : Bytes) : Bytes := conv ++ [0] ++ ts ++ [0] ++ id

def secondaryKeys (e : Event) : Option (List Bytes) := do
  let ts ← be32 e.createdAt
  let cs ← convKeys e
  pure (cs.map fun c => fullKey c ts e.id)

/-- all keys written for an event: primary first (IdIndex is first in INDEXES) -/
def allKeys (e : Event) : Option (List Bytes) := do
  let sk ← secondaryKeys e
  pure (primaryKey e.id :: sk)

def putAll (s : Store) : List (Bytes × Option Event) → Option Store
  | [] => some s
  | (k, v) :: rest => (putChecked s k v).bind fun s' => putAll s' rest

def delAll (s : Store) : List Bytes → Option Store
  | [] => some s
  | k :: rest => (delChecked s k).bind fun s' => delAll s' rest

/-- `for index in write_indexes: index.write(event, txn)` -/
def writeEvent (s : Store) (e : Event) : Option Store := do
  let sk ← secondaryKeys e
  putAll s ((primaryKey e.id, some e) :: sk.map (fun k => (k, none)))

/-- `_delete_event`: `for index in reversed(write_indexes): index.clear(event, txn)` -/
def deleteEvent (s : Store) (e : Event) : Option Store := do
  let sk ← secondaryKeys e
  delAll s (sk.reverse ++ [primaryKey e.id])

/-! ### the scanner (kv.py `Index.scanner`) -/

/-- keys visited by `set_range(seek); prev(); prev(); …`: those below `seek`, largest first -/
def below (s : Store) (seek : Bytes) : List Bytes := ((skeys s).filter (fun k => k < seek)).reverse

/-- does `set_range(seek)` find a key? -/
def seekFinds (s : Store) (seek : Bytes) : Bool := (skeys s).any (fun k => !(decide (k < seek)))

inductive WalkEnd where
  | nextMatch
  | endAll
  deriving Repr, DecidableEq

structure ScanCfg where
  since : Option Bytes
  until_ : Option Bytes
  stop : Bytes
  /-- `events` container of MultiIndex chaining; `none` = FakeContainer (everything) -/
  events : Option (List Bytes)

def inEvents (cfg : ScanCfg) (id : Bytes) : Bool :=
  match cfg.events with
  | none => true
  | some l => l.contains id

/-- the first test of the `while match:` loop: the key leaves the current match
    (`key[:matchlen] != match or (since and ts < since) or (until and ts > until)`) -/
def badKey (cfg : ScanCfg) (m k : Bytes) : Bool :=
  (k.take m.length != m)
  || (match cfg.since with | some sn => decide (pySlice k (-37) (-33) < sn) | none => false)
  || (match cfg.until_ with | some u => decide (u < pySlice k (-37) (-33)) | none => false)

/-- the `while match:` loop of `iterator`, for the current match `m`, over the keys the cursor
    will visit -/
def walk (cfg : ScanCfg) (m : Bytes) : List Bytes → List Bytes × WalkEnd
  | [] => ([], .nextMatch)                      -- cursor unpositioned: key = b"" ≠ match
  | k :: rest =>
    if badKey cfg m k then ([], .nextMatch)
    else if k < cfg.stop then ([], .endAll)
    else
      let out := if inEvents cfg (lastN 32 k) then [lastN 32 k] else []
      match rest with
      | [] => (out, .endAll)                    -- `if not prev(): break`
      | _ :: _ =>
        let r := walk cfg m rest
        (out ++ r.1, r.2)

/-- iterate over the compiled mats (`next_match`) -/
def scanMatches (s : Store) (cfg : ScanCfg) (addTime : Bytes) : List Bytes → Bool → List Bytes
  | [], _ => []
  | m :: ms, first =>
    let seek := m ++ addTime ++ [255]
    if seekFinds s seek then
      let r := walk cfg m (below s seek)
      match r.2 with
      | .nextMatch => r.1 ++ scanMatches s cfg addTime ms false
      | .endAll => r.1
    else if first then scanMatches s cfg addTime ms false   -- key() = b"" → next_match()
    else []                                                  -- `if skipped … else: break`

/-- `x.to_bytes(4, "big")` of an optional bound; outer `none` = OverflowError -/
def encOpt : Option Int → Option (Option Bytes)
  | none => some none
  | some x => (be32 x).map some

/-- match path of `Index.scanner` (after the stop-key fix: `stop = compiled_matches[-1]`) -/
def scanIndex (s : Store) (mats : List Bytes) (since until_ : Option Int)
    (events : Option (List Bytes)) : Option (List Bytes) :=
  (encOpt since).bind fun sB =>
  (encOpt until_).bind fun uB =>
  let addTime := match uB with | some u => [0] ++ u ++ [1] | none => []
  let stop0 := mats.getLastD []
  let stop := match sB with | some sn => stop0 ++ [0] ++ sn | none => stop0
  some (scanMatches s ⟨sB, uB, stop, events⟩ addTime mats true)

/-- range path of `Index.scanner` (no mats): used by the created_at index, prefix `pfx` -/
def scanRange (s : Store) (pfx : Bytes) (since until_ : Option Int) : Option (List Bytes) :=
  (encOpt since).bind fun sB =>
  (encOpt until_).bind fun uB =>
  -- (since the `fix:` commit the seek key without `until` lies above every four-byte timestamp; it was `pfx ++ [255]`)
  let start := match uB with | some u => pfx ++ u ++ [0] | none => pfx ++ [255, 255, 255, 255, 1]
  let stop := match sB with | some sn => pfx ++ sn ++ [255] | none => pfx
  match (skeys s).filter (fun k => !(decide (k < start))) with
  | [] => some []
  | k0 :: _ =>
    some (((k0 :: below s k0).takeWhile (fun k => decide (stop < k))).filterMap fun k =>
      if k.take 1 == pfx then some (lastN 32 k) else none)

/-! ### writer thread -/

def isReplaceableKind (k : Int) : Bool :=
  k == 0 || k == 3 || (10000 ≤ k && k < 20000) || (30000 ≤ k && k < 40000)

def isParamReplaceable (k : Int) : Bool := 30000 ≤ k && k < 40000

def dName : Bytes := [100]   -- "d"
def eName : Bytes := [101]   -- "e"

/-- `WriterThread._d_value`: the value of the first "d" tag, "" when it is bare or there is none
    (NIP-33); `none` = IndexError (`tag[0]` on an empty tag met before a d-tag) -/
def dValue : List (List Bytes) → Option Bytes
  | [] => some []
  | [] :: _ => none
  | (n :: vs) :: rest => if n = dName then some (vs.headD []) else dValue rest

/-- the deletion loop of the replaceable branch over the scanned candidate ids;
    `dTag = none` for the non-parameterised kinds -/
def replaceLoop (e : Event) (dTag : Option Bytes) (s : Store) : List Bytes → Option Store
  | [] => some s
  | id :: rest =>
    if id = e.id then replaceLoop e dTag s rest else
    match getEvent s id with
    | none => none                              -- candidate is None → AttributeError
    | some cand =>
      match dTag with
      | some d =>
        (match dValue cand.tags with
         | none => none
         | some cd =>
           if cd = d then (deleteEvent s cand).bind fun s' => replaceLoop e dTag s' rest
           else replaceLoop e dTag s rest)
      | none => (deleteEvent s cand).bind fun s' => replaceLoop e dTag s' rest

/-- `_post_save` replaceable branch -/
def postSaveReplaceable (s : Store) (e : Event) : Option Store :=
  (if isParamReplaceable e.kind then (dValue e.tags).map some else some none).bind fun dTag =>
  (be32 e.kind).bind fun kd =>
  (scanIndex s [[4] ++ e.pubkey ++ [0] ++ kd] none (some e.createdAt) none).bind fun ids =>
  replaceLoop e dTag s ids

/-- `bytes_from_hex(tag[1])` of a tag -/
def refOf (t : List Bytes) : Option Bytes := kvBytesFromHex (t.getD 1 [])

/-- ids referenced by a kind-5 event: every `e` tag with a value that decodes as hex; malformed
    references are ignored (after the `fix:`).  `none` = IndexError (`tag[0]` on an empty tag). -/
def deletionRefs (tags : List (List Bytes)) : Option (List Bytes) :=
  if tags.any (·.isEmpty) then none
  else some ((tags.filter fun t => t.head? == some eName && t.length > 1).filterMap refOf)

/-- the deletion loop of the kind-5 branch -/
def deleteLoop (ids : List Bytes) (s : Store) : List Bytes → Option Store
  | [] => some s
  | id :: rest =>
    if ids.contains id then
      match getEvent s id with
      | none => deleteLoop ids s rest
      | some cand => (deleteEvent s cand).bind fun s' => deleteLoop ids s' rest
    else deleteLoop ids s rest

/-- `_post_save` kind-5 branch -/
def postSaveDelete (s : Store) (e : Event) : Option Store := do
  let ids ← deletionRefs e.tags
  if ids.isEmpty then pure s else
  let cands ← scanIndex s [[3] ++ e.pubkey] none (some (e.createdAt - 1)) none
  deleteLoop ids s cands

def postSave (s : Store) (e : Event) : Option Store :=
  if isReplaceableKind e.kind then postSaveReplaceable s e
  else if e.kind == 5 then postSaveDelete s e
  else some s

inductive Task where
  | add (e : Event)
  | del (id : Bytes)
  deriving Repr

/-- the transaction body of `WriterThread.run` for one task; `none` = exception -/
def taskBody (s : Store) : Task → Option Store
  | .add e =>
    match getEvent s e.id with
    | some _ => some s                             -- already stored: nothing happens
    | none => (writeEvent s e).bind fun s' => postSave s' e
  | .del id =>
    match getEvent s id with
    | some e => deleteEvent s e
    | none => some s

/-- one task, atomically: an exception aborts the transaction and the loop continues -/
def applyTask (s : Store) (t : Task) : Store := (taskBody s t).getD s

def applyTasks (s : Store) (ts : List Task) : Store := ts.foldl applyTask s

/-! ### garbage collector (`KVGarbageCollector.collect`) -/

/-- ids between `start` and `end_` (forward walk, `if key > end: break`) -/
def rangeIds (s : Store) (start end_ : Bytes) : List Bytes :=
  (((skeys s).filter (fun k => !(decide (k < start)))).takeWhile (fun k => !(decide (end_ < k)))).map (lastN 32)

def gcCollect (s : Store) (now : Nat) : List Bytes :=
  rangeIds s ([2] ++ be32! 20000) ([2] ++ be32! 29999)
  ++ rangeIds s (tagKey (ascii "expiration") (ascii "0")) (tagKey (ascii "expiration") (decDigits now))

/-! ### queries: planner, residual, execute_one_plan -/

structure Filter where
  ids : Option (List Bytes) := none
  authors : Option (List Bytes) := none
  kinds : Option (List Int) := none
  since : Option Int := none
  until_ : Option Int := none
  limit : Option Nat := none
  /-- `(name, values)`, as validated: sorted by name descending; values a set of strings -/
  tags : List (Bytes × List Bytes) := []
  deriving Repr, Inhabited

inductive PlanIndex where
  | ids | created | kinds | authors | authorkinds | tags
  | multi (first second : PlanIndex)
  deriving Repr, DecidableEq

structure Plan where
  filter : Filter
  index : PlanIndex
  /-- compiled mats of the (first) index, and of the second index of a MultiIndex -/
  mats : List Bytes
  mats2 : List Bytes := []
  limit : Option Nat
  /-- `to_key` raises OverflowError (kind outside 0..2^32-1): the plan yields nothing -/
  raises : Bool := false
  deriving Repr

/-- descending sort with duplicates removed (`sorted(set(..), reverse=True)`) is done by the
    validator; the planner receives values in that order. -/
def planShape (f : Filter) : Option (PlanIndex × List Bytes × List Bytes × Bool) :=
  -- empty lists make the planner skip the filter
  if f.ids == some [] || f.kinds == some [] || f.authors == some [] then none else
  if f.tags.any (fun t => t.2.isEmpty) then none else
  let idM := (f.ids.getD []).map fun i => [0] ++ i
  let kindsB := (f.kinds.getD []).map fun k => be32 k
  let akM : List (Option Bytes) := (f.authors.getD []).flatMap fun a => kindsB.map fun kb => kb.map fun k => [4] ++ a ++ [0] ++ k
  let kM : List (Option Bytes) := kindsB.map fun kb => kb.map fun k => [2] ++ k
  let aM : List (Option Bytes) := (f.authors.getD []).map fun a => some ([3] ++ a)
  -- the first (non-tag, non-id) index
  let base : Option (PlanIndex × List (Option Bytes)) :=
    if f.kinds.isSome && f.authors.isSome then some (.authorkinds, akM)
    else if f.kinds.isSome then some (.kinds, kM)
    else if f.authors.isSome then some (.authors, aM)
    else none
  -- `sorted(tags, reverse=True)` over (name, value) pairs
  let pairs := f.tags.flatMap fun t => t.2.map fun v => (t.1, v)
  let tagM := (sortDesc pairs).map fun p => tagKey p.1 p.2
  let unopt (l : List (Option Bytes)) : List Bytes := l.filterMap id
  let overflow (l : List (Option Bytes)) : Bool := l.any (·.isNone)
  if f.ids.isSome then some (.ids, idM, [], false)
  else match base, f.tags with
    | none, [] =>
      -- date range scan; `not (query.since or query.until)` ⇒ no plan
      if (f.since.getD 0 != 0) || (f.until_.getD 0 != 0) then some (.created, [], [], false) else none
    | some (bi, bm), [] => some (bi, unopt bm, [], overflow bm)
    | none, _ :: _ => some (.tags, tagM, [], false)
    | some (bi, bm), _ :: _ =>
      -- MultiIndex: sort by cardinality * len(matches), descending, stable
      let card : PlanIndex → Nat | .authorkinds => 20 | .tags => 100 | _ => 1
      let kb := card bi * bm.length
      let kt := 100 * tagM.length
      if kb ≥ kt then some (.multi bi .tags, unopt bm, tagM, overflow bm)
      else some (.multi .tags bi, tagM, unopt bm, overflow bm)
where
  /-- is pair `a` smaller than pair `b` (tuple order)? -/
  pairLt (a b : Bytes × Bytes) : Bool := decide (a.1 < b.1) || (a.1 == b.1 && decide (a.2 < b.2))
  insertDesc (a : Bytes × Bytes) : List (Bytes × Bytes) → List (Bytes × Bytes)
    | [] => [a]
    | b :: bs => if pairLt b a then a :: b :: bs else b :: insertDesc a bs
  /-- `sorted(set(pairs), reverse=True)` -/
  sortDesc (l : List (Bytes × Bytes)) : List (Bytes × Bytes) := (l.foldr insertDesc []).eraseDups

/-- `maxLimit` = `Config.max_limit`.  The plan limit is `default_limit` when the caller gives a truthy
    one (internal callers), else the client's limit capped at `max_limit`, `null` meaning the maximum. -/
def planFilter (f : Filter) (defaultLimit : Option Nat) (maxLimit : Nat) : Option Plan :=
  (planShape f).map fun sh =>
    { filter := f, index := sh.1, mats := sh.2.1, mats2 := sh.2.2.1,
      limit := (match defaultLimit with
        | some (n+1) => some (n+1)
        | _ => some (match f.limit with | some l => min l maxLimit | none => maxLimit)),
      raises := sh.2.2.2 }

/-- the compiled residual predicate (`compile_match_from_query`) evaluated on a stored record -/
def residual (f : Filter) (e : Event) : Bool :=
  (match f.ids with | some l => l.contains e.id | none => true)
  && (match f.authors with | some l => l.contains e.pubkey | none => true)
  && (match f.kinds with | some l => l.contains e.kind | none => true)
  && (match f.since with | some x => decide (x ≤ e.createdAt) | none => true)
  && (match f.until_ with | some x => decide (e.createdAt ≤ x) | none => true)
  && f.tags.all fun t => e.tags.any fun tg => tg.head? == some t.1 && tg.length > 1 && t.2.contains (tg.getD 1 [])

/-- candidate ids produced by the plan's index scanner.  For a MultiIndex the result comes out
    of a Python `set`: the order is unspecified (here: as scanned by the last index). -/
def planCandidates (s : Store) (p : Plan) : Option (List Bytes) :=
  let f := p.filter
  if p.raises then none   -- OverflowError in to_key
  else match p.index with
  | .created => scanRange s [1] f.since f.until_
  | .multi _ _ => do
    let first ← scanIndex s p.mats f.since f.until_ none
    if first.isEmpty then pure [] else
    let second ← scanIndex s p.mats2 f.since f.until_ (some first.eraseDups)
    pure second.eraseDups
  -- id keys carry no timestamp: `IdIndex.scanner` drops the window (the matcher enforces it)
  | .ids => scanIndex s p.mats none none none
  | _ => scanIndex s p.mats f.since f.until_ none

/-- `execute_one_plan`: matcher + limit.  Returns the ids of the events delivered, in order.
    An exception anywhere yields the events collected so far — here: none, because the scanner
    is set up before the first yield. -/
def planHits (s : Store) (f : Filter) (cands : List Bytes) : List Bytes :=
  -- `matcher` skips ids it has already seen
  cands.eraseDups.filter fun id => match getEvent s id with | some e => residual f e | none => false

def executePlan (s : Store) (p : Plan) : List Bytes :=
  match planCandidates s p with
  | none => []
  | some cands =>
    match p.limit with
    | some n => (planHits s p.filter cands).take n
    | none => planHits s p.filter cands

/-! ### NIP-01 specification of filter matching (what C01/C02/C11/C12 are stated against) -/

def hexDigitB (n : Nat) : Nat := if n < 10 then 48 + n else 87 + n

/-- lowercase hex of a byte string, as ASCII bytes -/
def toHexB (b : Bytes) : Bytes := b.flatMap fun x => [hexDigitB (x / 16), hexDigitB (x % 16)]

/-- NIP-26 delegators named by the event's delegation tags -/
def delegators (e : Event) : List Bytes :=
  e.tags.filterMap fun t => if t.head? == some (ascii "delegation") && t.length > 1 then some (t.getD 1 []) else none

/-- NIP-01 matching.  `strict = true`: the reading every implementation must honour (own pubkey,
    timestamps strictly inside the window).  `strict = false`: the most generous reading the
    property allows (NIP-26 delegator counts as author, bounds inclusive). -/
def matchesSpec (strict : Bool) (f : Filter) (e : Event) : Bool :=
  (match f.ids with | some l => l.contains e.id | none => true)
  && (match f.authors with
      | some l => l.contains e.pubkey || (!strict && (delegators e).any fun d => l.any fun a => toHexB a == d)
      | none => true)
  && (match f.kinds with | some l => l.contains e.kind | none => true)
  && (match f.since with | some x => if strict then decide (x < e.createdAt) else decide (x ≤ e.createdAt) | none => true)
  && (match f.until_ with | some x => if strict then decide (e.createdAt < x) else decide (e.createdAt ≤ x) | none => true)
  && f.tags.all fun t => e.tags.any fun tg => tg.head? == some t.1 && tg.length > 1 && t.2.contains (tg.getD 1 [])

/-- the stored events -/
def storedEvents (s : Store) : List Event := s.filterMap (·.2)

/-- is the delivery order of this plan unspecified (Python set iteration)? -/
def Plan.unordered (p : Plan) : Bool := match p.index with | .multi _ _ => true | _ => false

end NostrRelay.KV
