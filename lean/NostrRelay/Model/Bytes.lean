/-
M1 — Python bytes/str primitives used by the storage models.
Bytes are `List Nat` (each < 256 by construction in the harness); `<` is Lean's lexicographic
order on lists, which is exactly Python's `bytes` ordering (a proper prefix is smaller).
-/
namespace NostrRelay

abbrev Bytes := List Nat

/-- Python slice index normalisation for `b[i:j]` -/
def pyIdx (len : Nat) (i : Int) : Nat :=
  if i < 0 then (if (len : Int) + i < 0 then 0 else ((len : Int) + i).toNat) else min i.toNat len

/-- `b[i:j]` -/
def pySlice (b : Bytes) (i j : Int) : Bytes :=
  let a := pyIdx b.length i
  let z := pyIdx b.length j
  (b.drop a).take (z - a)

/-- `b[-n:]` for `n > 0` -/
def lastN (n : Nat) (b : Bytes) : Bytes := b.drop (b.length - n)

/-- `int.to_bytes(4, "big")`; `none` = OverflowError (negative or ≥ 2^32) -/
def be32 (n : Int) : Option Bytes :=
  if 0 ≤ n ∧ n < 4294967296 then
    let k := n.toNat
    some [k / 16777216 % 256, k / 65536 % 256, k / 256 % 256, k % 256]
  else none

/-- total version for values known to be in range -/
def be32! (n : Nat) : Bytes := [n / 16777216 % 256, n / 65536 % 256, n / 256 % 256, n % 256]

/-- big-endian value of a byte string -/
def beVal (b : Bytes) : Nat := b.foldl (fun acc x => acc * 256 + x) 0

/-- `a.startswith(p)` -/
def isPrefixB (p a : Bytes) : Bool := a.take p.length == p

/-- `needle in haystack` for Python `str`/`bytes` (substring test) -/
def isSubstr (needle : Bytes) : Bytes → Bool
  | [] => needle.isEmpty
  | h :: t => isPrefixB needle (h :: t) || isSubstr needle t

/-- is this UTF-8 byte string exactly one code point?  (`len(s) == 1` for a Python str) -/
def isSingleChar (b : Bytes) : Bool :=
  match b with
  | [a] => a < 128
  | [a, _] => 192 ≤ a && a < 224
  | [a, _, _] => 224 ≤ a && a < 240
  | [a, _, _, _] => 240 ≤ a && a < 248
  | _ => false

/-- decimal digits of a natural number (Python `str(int)` for non-negative ints), as ASCII -/
def decDigits (n : Nat) : Bytes := (toString n).toList.map Char.toNat

/-- ASCII of a literal -/
def ascii (s : String) : Bytes := s.toList.map Char.toNat

/-! ### `bytes.fromhex` and kv.bytes_from_hex -/

def hexVal (c : Nat) : Option Nat :=
  if 48 ≤ c ∧ c ≤ 57 then some (c - 48)
  else if 97 ≤ c ∧ c ≤ 102 then some (c - 87)
  else if 65 ≤ c ∧ c ≤ 70 then some (c - 55)
  else none

/-- ASCII whitespace as skipped by `bytes.fromhex` (space, \t \n \r \v \f) -/
def isHexSpace (c : Nat) : Bool := c == 32 || (9 ≤ c && c ≤ 13)

/-- `bytes.fromhex(s)`: whitespace is skipped between byte pairs only; `none` = ValueError -/
def pyFromHex : Bytes → Option Bytes
  | [] => some []
  | c :: rest =>
    if isHexSpace c then pyFromHex rest
    else match rest with
      | [] => none
      | d :: rest' =>
        match hexVal c, hexVal d with
        | some a, some b => (pyFromHex rest').map (fun t => (a * 16 + b) :: t)
        | _, _ => none

/-- kv.bytes_from_hex: on ValueError, an odd-length string of length ≥ 4 is retried without its
    last character -/
def kvBytesFromHex (s : Bytes) : Option Bytes :=
  match pyFromHex s with
  | some b => some b
  | none => if s.length ≥ 4 ∧ s.length % 2 ≠ 0 then pyFromHex s.dropLast else none

end NostrRelay
