/-
M9 / M10 — decision logic of admission: validators (validators.py, dynamic_lists.py), NIP-42
authentication (auth.py) and role checks.  Cryptographic facts (SHA-256, BIP-340) are inputs
(`Facts`), established by the harness with independent calls.
-/
namespace NostrRelay.Admission

inductive Verdict where
  | ok
  | reject     -- StorageError / AuthenticationError: refused with a reason
  | raises     -- any other exception: also refused (the EVENT handler reports str(e))
  deriving Repr, DecidableEq

/-- one NIP-26 delegation tag as `Event.verify()` sees it -/
inductive Deleg where
  | malformed            -- not exactly 4 items, or undecodable hex: an exception
  | checked (valid : Bool)
  deriving Repr, DecidableEq

structure Facts where
  pubkeyParses : Bool     -- PublicKey(bytes.fromhex(pubkey)) succeeds
  sigDecodes : Bool       -- bytes.fromhex(sig) succeeds and has the right length
  sigValid : Bool         -- BIP-340 verification of sig over the *recomputed* id under pubkey
  idIsHash : Bool         -- event.id == sha256(serialisation).hexdigest()
  canonHex : Bool         -- pubkey and sig are canonical lower-case hex
  delegations : List Deleg
  deriving Repr

/-- `for tag in tags: if tag[0] == "delegation": … if not verified: return False` -/
def checkDelegations : List Deleg → Option Bool
  | [] => some true
  | .malformed :: _ => none
  | .checked false :: _ => some false
  | .checked true :: rest => checkDelegations rest

/-- aionostr `Event.verify()`: `none` = exception -/
def verify (f : Facts) : Option Bool :=
  if !f.pubkeyParses then some false
  else if !f.sigDecodes then none
  else match checkDelegations f.delegations with
    | none => none
    | some false => some false
    | some true => some f.sigValid

/-- validators.is_signed (after the two `fix:` commits) -/
def isSigned (f : Facts) : Verdict :=
  match verify f with
  | none => .raises
  | some false => .reject
  | some true => if !f.idIsHash then .reject else if !f.canonHex then .reject else .ok

/-! ### the other validators: each at its documented bound -/

structure Cfg where
  maxEventSize : Int := 4096
  oldestEvent : Int := 31536000
  validKinds : List Int := []
  /-- `none` = the option is not set (`None`): the membership test raises TypeError, which refuses -/
  whitelist : Option (List (List Nat)) := none
  blacklist : Option (List (List Nat)) := none
  requirePow : Int := 0
  hellthreadLimit : Int := 0
  servicePubkey : List Nat := []
  deriving Repr

structure Ev where
  pubkey : List Nat
  kind : Int
  createdAt : Int
  contentLen : Int          -- len(event.content) in code points
  idBitLength : Int         -- int.from_bytes(id).bit_length()
  pTags : Int               -- number of tags whose first item is "p"
  deriving Repr

def isNotTooLarge (c : Cfg) (e : Ev) : Verdict := if e.contentLen > c.maxEventSize then .reject else .ok

/-- `now` is `time()`; the model takes it as an integer number of seconds -/
def isRecent (c : Cfg) (now : Int) (e : Ev) : Verdict :=
  if now - e.createdAt > c.oldestEvent then .reject
  else if now - e.createdAt < -3600 then .reject
  else .ok

def isCertainKind (c : Cfg) (e : Ev) : Verdict := if c.validKinds.contains e.kind then .ok else .reject
def isAuthorWhitelisted (c : Cfg) (e : Ev) : Verdict :=
  match c.whitelist with
  | none => .raises
  | some l => if l.contains e.pubkey then .ok else .reject
def isAuthorBlacklisted (c : Cfg) (e : Ev) : Verdict :=
  match c.blacklist with
  | none => .raises
  | some l => if l.contains e.pubkey then .reject else .ok
def isPow (c : Cfg) (e : Ev) : Verdict := if 256 - e.idBitLength < c.requirePow then .reject else .ok

def isNotHellthread (c : Cfg) (e : Ev) : Verdict :=
  if c.hellthreadLimit != 0 && (e.kind == 1 || e.kind == 7) then
    (if e.pTags > c.hellthreadLimit then .reject else .ok)
  else .ok

def isServiceEvent (c : Cfg) (e : Ev) : Verdict :=
  if e.kind == 31494 && e.pubkey != c.servicePubkey then .reject else .ok

/-- dynamic_lists.is_pubkey_allowed over the two process-global sets -/
def isPubkeyAllowed (allowed denied : List (List Nat)) (e : Ev) : Verdict :=
  if !allowed.isEmpty && !allowed.contains e.pubkey then .reject
  else if !denied.isEmpty && denied.contains e.pubkey then .reject
  else .ok

/-! ### `verification.is_nip05_verified` (the NIP-05 admission policy; `docs/dynamic_lists.md`: it must come *before*
    `is_pubkey_allowed`, "because this will temporarily add the pubkey to the allow list") -/

inductive Nip05Status where
  | enabled
  | passive
  | off          -- "disabled", unset, or any other text: the validator lets everything through
  deriving Repr, DecidableEq

/-- `"nip05" in event.content` — a substring test on the text of the metadata, not a JSON lookup -/
def mentionsNip05 (content : List Nat) : Bool :=
  let needle : List Nat := [110, 105, 112, 48, 53]
  let rec go : List Nat → Bool
    | [] => false
    | c :: rest => ((c :: rest).take 5 == needle) || go rest
  go content

/-- verdict and the process-global allow set afterwards.  `pubkeyHex = none`: `bytes.fromhex(event.pubkey)` raises -/
def isNip05Verified (st : Nip05Status) (kind : Int) (content : List Nat) (pubkeyHex : Option (List Nat))
    (allowed : List (List Nat)) : Verdict × List (List Nat) :=
  match st with
  | .off => (.ok, allowed)
  | _ =>
    if kind == 10002 then (.ok, allowed)            -- NIP-65 relay lists are always let through
    else if kind == 0 then
      if !mentionsNip05 content then ((if st == .enabled then .reject else .ok), allowed)
      else if allowed.isEmpty then (.ok, allowed)   -- `if ALLOWED_PUBKEYS:` — an unenforced list stays unenforced
      else match pubkeyHex with
        | none => (.raises, allowed)
        | some pk => (.ok, if allowed.contains pk then allowed else pk :: allowed)
    else (.ok, allowed)                              -- other kinds: the allow list decides (is_pubkey_allowed, next in line)

/-- `get_validator`: run the configured functions in order; the first failure decides -/
def pipeline : List Verdict → Verdict
  | [] => .ok
  | .ok :: rest => pipeline rest
  | v :: _ => v

/-! ### `get_validator(function_names)`: the chain is resolved from configuration text before it exists -/

/-- what a configured entry turns out to be: `object_from_path` raises (misspelt module, import error, missing attribute, not a
    dotted path), it names something that cannot be called, or it names a function -/
inductive Entry (α : Type) where
  | unresolved
  | notCallable
  | fn (f : α → Verdict)

def Entry.isUnresolved {α : Type} : Entry α → Bool
  | .unresolved => true
  | _ => false

/-- `none`: `get_validator` raises, the storage cannot be constructed, the relay does not start.  Otherwise the chain runs every entry
    in order; calling a non-callable raises TypeError, which refuses the event. -/
def Entry.run {α : Type} (e : α) : Entry α → Verdict
  | .fn f => f e
  | _ => .raises

def getValidator {α : Type} (es : List (Entry α)) : Option (α → Verdict) :=
  if es.any Entry.isUnresolved then none
  else some fun e => pipeline (es.map (Entry.run e))


/-! ### dynamic list refresh as a sequence of atomic set operations -/

inductive SetOp where
  | clear
  | update (s : List (List Nat))
  | intersectionUpdate (s : List (List Nat))
  deriving Repr

def applyOp (cur : List (List Nat)) : SetOp → List (List Nat)
  | .clear => []
  | .update s => (cur ++ s).eraseDups
  | .intersectionUpdate s => cur.filter s.contains

/-- the states a concurrent reader can observe while `ops` run -/
def observable (cur : List (List Nat)) : List SetOp → List (List (List Nat))
  | [] => [cur]
  | op :: rest => cur :: observable (applyOp cur op) rest

/-- the refresh as it was: `global_set.clear(); global_set.update(local_set)` -/
def refreshOld (new : List (List Nat)) : List SetOp := [.clear, .update new]

/-- the refresh after the fix: add first, then drop what is not in the new set -/
def refreshNew (new : List (List Nat)) : List SetOp := [.update new, .intersectionUpdate new]

/-! ### NIP-42 -/

inductive AuthTag where
  | relay (ok : Bool)
  | challenge (ok : Bool)
  | short                      -- `tag[1]` on a one-element relay/challenge tag
  | other
  deriving Repr, DecidableEq

structure AuthFacts where
  isDict : Bool
  verifies : Option Bool       -- Event.verify(): none = exception
  kind : Int
  createdAt : Int
  /-- the tags in order: relay(url ok?) / challenge(matches this connection's?) / other;
      a relay or challenge tag without value raises IndexError -/
  tags : List AuthTag
  deriving Repr

def scanAuthTags : List AuthTag → Bool → Bool → Option (Option (Bool × Bool))
  -- outer none = IndexError; inner none = AuthenticationError
  | [], r, c => some (some (r, c))
  | .relay true :: rest, _, c => scanAuthTags rest true c
  | .relay false :: _, _, _ => some none
  | .challenge true :: rest, r, _ => scanAuthTags rest r true
  | .challenge false :: _, _, _ => some none
  | .short :: _, _, _ => none
  | .other :: rest, r, c => scanAuthTags rest r c

/-- `Authenticator.authenticate` up to the token: `.ok` = a token for the event's pubkey -/
def authenticate (now : Int) (f : AuthFacts) : Verdict :=
  if !f.isDict then .reject
  else match f.verifies with
    | none => .raises
    | some false => .reject
    | some true =>
      if f.kind != 22242 then .reject
      else if now - f.createdAt ≥ 600 then .reject
      else if now - f.createdAt ≤ -600 then .reject
      else match scanAuthTags f.tags false false with
        | none => .raises
        | some none => .reject
        | some (some (r, c)) => if r && c then .ok else .reject

/-! ### roles -/

/-- `can_do`: when enabled and the action is configured, the role sets must intersect -/
def canDo (enabled : Bool) (actionRoles : Option (List Char)) (tokenRoles : List Char) : Bool :=
  if enabled then
    match actionRoles with
    | some rs => rs.any tokenRoles.contains
    | none => true
  else true

end NostrRelay.Admission
