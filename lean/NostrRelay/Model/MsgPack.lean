/-
The record codec of the LMDB backend: `kv.encode_event` / `kv.get_event_data` / `kv.decode_event`
over msgpack (`packb(row, use_bin_type=True)`, `unpackb(data, use_list=False)`).

`V` is the set of Python values an event row can hold (JSON scalars, strings as UTF-8, byte strings,
arrays, objects).  `pack` mirrors `msgpack.Packer._pack` (format choice by value range / length),
`unpack` mirrors `Unpacker._read_header` + `_unpack`.  A map is kept as its flattened
key, value, key, value … list (insertion order, as a Python dict keeps it).

Not modelled: ext types and timestamps (an event row never holds one), float32 (`use_single_float`
is off), the nesting limit of 511 levels, the strict UTF-8 decoding of `str` payloads when reading
(the store only ever holds what `pack` wrote), lengths of 2^32 and more (refused, `packable`).
-/
import NostrRelay.Model.Bytes
namespace NostrRelay
namespace MP

inductive V where
  | nil
  | bool (b : Bool)
  | int (i : Int)
  | float (raw : Bytes)        -- the 8 bytes of the IEEE double, big endian
  | str (utf8 : Bytes)
  | bin (b : Bytes)
  | arr (xs : List V)          -- list when written, tuple when read back
  | map (kvs : List V)         -- k₁ v₁ k₂ v₂ …
  deriving Repr, BEq, Inhabited

/-- `n.to_bytes(w, "big")` for `n < 256^w` (struct.pack ">H" / ">I" / ">Q") -/
def beBytes : Nat → Nat → Bytes
  | 0, _ => []
  | w + 1, n => beBytes w (n / 256) ++ [n % 256]

def hdrRaw (n : Nat) : Bytes :=
  if n ≤ 31 then [160 + n]
  else if n ≤ 255 then [217, n]
  else if n ≤ 65535 then 218 :: beBytes 2 n
  else 219 :: beBytes 4 n

def hdrBin (n : Nat) : Bytes :=
  if n ≤ 255 then [196, n]
  else if n ≤ 65535 then 197 :: beBytes 2 n
  else 198 :: beBytes 4 n

def hdrArr (n : Nat) : Bytes :=
  if n ≤ 15 then [144 + n]
  else if n ≤ 65535 then 220 :: beBytes 2 n
  else 221 :: beBytes 4 n

def hdrMap (n : Nat) : Bytes :=
  if n ≤ 15 then [128 + n]
  else if n ≤ 65535 then 222 :: beBytes 2 n
  else 223 :: beBytes 4 n

/-- the integer branch of `_pack`, in the order of its tests; out of range: see `intOk` -/
def packInt (i : Int) : Bytes :=
  if 0 ≤ i ∧ i < 128 then [i.toNat]
  else if -32 ≤ i ∧ i < 0 then [(256 + i).toNat]
  else if 128 ≤ i ∧ i ≤ 255 then [204, i.toNat]
  else if -128 ≤ i ∧ i < 0 then [208, (256 + i).toNat]
  else if 255 < i ∧ i ≤ 65535 then 205 :: beBytes 2 i.toNat
  else if -32768 ≤ i ∧ i < -128 then 209 :: beBytes 2 (65536 + i).toNat
  else if 65535 < i ∧ i ≤ 4294967295 then 206 :: beBytes 4 i.toNat
  else if -2147483648 ≤ i ∧ i < -32768 then 210 :: beBytes 4 (4294967296 + i).toNat
  else if 4294967295 < i ∧ i ≤ 18446744073709551615 then 207 :: beBytes 8 i.toNat
  else if -9223372036854775808 ≤ i ∧ i < -2147483648 then 211 :: beBytes 8 (18446744073709551616 + i).toNat
  else [193]      -- never written: `packb` raises (see `intOk`); 0xc1 is the byte msgpack never uses

/-- `OverflowError("Integer value out of range")` otherwise -/
def intOk (i : Int) : Bool := decide (-9223372036854775808 ≤ i ∧ i ≤ 18446744073709551615)

mutual
def pack : V → Bytes
  | .nil => [192]
  | .bool false => [194]
  | .bool true => [195]
  | .int i => packInt i
  | .float raw => 203 :: raw
  | .str s => hdrRaw s.length ++ s
  | .bin b => hdrBin b.length ++ b
  | .arr xs => hdrArr xs.length ++ packs xs
  | .map kvs => hdrMap (kvs.length / 2) ++ packs kvs
def packs : List V → Bytes
  | [] => []
  | x :: xs => pack x ++ packs xs
end

def isKey : V → Bool
  | .str _ => true
  | .bin _ => true
  | _ => false

/-- every second element, starting with the first, is a legal map key (`strict_map_key`) -/
def keysOk : List V → Bool
  | [] => true
  | [_] => false
  | k :: _ :: rest => isKey k && keysOk rest

mutual
/-- what `packb` accepts (everything else raises) and `unpackb` gives back unchanged -/
def packable : V → Bool
  | .nil => true
  | .bool _ => true
  | .int i => intOk i
  | .float raw => raw.length == 8
  | .str s => decide (s.length < 4294967296)
  | .bin b => decide (b.length < 4294967296)
  | .arr xs => decide (xs.length < 4294967296) && packables xs
  | .map kvs => decide (kvs.length / 2 < 4294967296) && keysOk kvs && packables kvs
def packables : List V → Bool
  | [] => true
  | x :: xs => packable x && packables xs
end

mutual
def size : V → Nat
  | .arr xs => 1 + sizes xs
  | .map kvs => 1 + sizes kvs
  | _ => 1
def sizes : List V → Nat
  | [] => 0
  | x :: xs => size x + sizes xs + 1
end

/-- `self._read(n)`: `none` = OutOfData -/
def takeN : Nat → Bytes → Option (Bytes × Bytes)
  | 0, b => some ([], b)
  | _ + 1, [] => none
  | n + 1, x :: b => (takeN n b).map fun p => (x :: p.1, p.2)

/-- an unsigned big-endian field of `w` bytes -/
def readU (w : Nat) (b : Bytes) : Option (Nat × Bytes) :=
  (takeN w b).map fun p => (beVal p.1, p.2)

/-- a signed (two's complement) big-endian field of `w` bytes -/
def readS (w : Nat) (b : Bytes) : Option (Int × Bytes) :=
  (takeN w b).map fun p =>
    let u := beVal p.1
    ((if u < 256 ^ w / 2 then (u : Int) else (u : Int) - (256 ^ w : Nat)), p.2)

mutual
/-- `Unpacker._unpack`; the first argument is recursion fuel -/
def unpack : Nat → Bytes → Option (V × Bytes)
  | 0, _ => none
  | _ + 1, [] => none
  | f + 1, t :: r =>
    if t < 128 then some (.int t, r)
    else if 224 ≤ t then some (.int ((t : Int) - 256), r)
    else if 160 ≤ t ∧ t < 192 then (takeN (t - 160) r).map fun p => (.str p.1, p.2)
    else if 144 ≤ t ∧ t < 160 then (unpackMany f (t - 144) r).map fun p => (.arr p.1, p.2)
    else if 128 ≤ t ∧ t < 144 then
      (unpackMany f (2 * (t - 128)) r).bind fun p => if keysOk p.1 then some (.map p.1, p.2) else none
    else if t = 192 then some (.nil, r)
    else if t = 194 then some (.bool false, r)
    else if t = 195 then some (.bool true, r)
    else if t = 196 then (readU 1 r).bind fun q => (takeN q.1 q.2).map fun p => (.bin p.1, p.2)
    else if t = 197 then (readU 2 r).bind fun q => (takeN q.1 q.2).map fun p => (.bin p.1, p.2)
    else if t = 198 then (readU 4 r).bind fun q => (takeN q.1 q.2).map fun p => (.bin p.1, p.2)
    else if t = 203 then (takeN 8 r).map fun p => (.float p.1, p.2)
    else if t = 204 then (readU 1 r).map fun q => (.int q.1, q.2)
    else if t = 205 then (readU 2 r).map fun q => (.int q.1, q.2)
    else if t = 206 then (readU 4 r).map fun q => (.int q.1, q.2)
    else if t = 207 then (readU 8 r).map fun q => (.int q.1, q.2)
    else if t = 208 then (readS 1 r).map fun q => (.int q.1, q.2)
    else if t = 209 then (readS 2 r).map fun q => (.int q.1, q.2)
    else if t = 210 then (readS 4 r).map fun q => (.int q.1, q.2)
    else if t = 211 then (readS 8 r).map fun q => (.int q.1, q.2)
    else if t = 217 then (readU 1 r).bind fun q => (takeN q.1 q.2).map fun p => (.str p.1, p.2)
    else if t = 218 then (readU 2 r).bind fun q => (takeN q.1 q.2).map fun p => (.str p.1, p.2)
    else if t = 219 then (readU 4 r).bind fun q => (takeN q.1 q.2).map fun p => (.str p.1, p.2)
    else if t = 220 then (readU 2 r).bind fun q => (unpackMany f q.1 q.2).map fun p => (.arr p.1, p.2)
    else if t = 221 then (readU 4 r).bind fun q => (unpackMany f q.1 q.2).map fun p => (.arr p.1, p.2)
    else if t = 222 then (readU 2 r).bind fun q => (unpackMany f (2 * q.1) q.2).bind fun p =>
      if keysOk p.1 then some (.map p.1, p.2) else none
    else if t = 223 then (readU 4 r).bind fun q => (unpackMany f (2 * q.1) q.2).bind fun p =>
      if keysOk p.1 then some (.map p.1, p.2) else none
    else none      -- 193 (never used), float32, ext: not in an event row
def unpackMany : Nat → Nat → Bytes → Option (List V × Bytes)
  | _, 0, b => some ([], b)
  | 0, _ + 1, _ => none
  | f + 1, n + 1, b =>
    (unpack f b).bind fun p => (unpackMany f n p.2).map fun q => (p.1 :: q.1, q.2)
end

/-- `unpackb(data)`: one value and nothing after it (`ExtraData` otherwise) -/
def unpackb (data : Bytes) : Option V :=
  match unpack (2 * data.length) data with
  | some (v, []) => some v
  | _ => none

/-! ### the event row -/

/-- the fields of an event as `encode_event` sees them: `id_bytes`, `bytes.fromhex(pubkey)`,
    `bytes.fromhex(sig)`, the content as UTF-8, the tags as a value -/
structure Row where
  id : Bytes
  created : Int
  kind : Int
  pubkey : Bytes
  content : Bytes
  tags : V
  sig : Bytes
  deriving Repr, BEq

def version : Int := 1

def encodeRow (r : Row) : V :=
  .arr [.int version, .bin r.id, .int r.created, .int r.kind, .bin r.pubkey, .str r.content, r.tags, .bin r.sig]

/-- `decode_event`: the positional read of the tuple (`none` = the assertion / an attribute error) -/
def decodeRow : V → Option Row
  | .arr [.int v, .bin id, .int created, .int kind, .bin pk, .str content, tags, .bin sig] =>
    if v = 1 then some ⟨id, created, kind, pk, content, tags, sig⟩ else none
  | _ => none

/-- `encode_event(event)` as bytes; `none` = `packb` raises (what `check_storable` turns into a refusal) -/
def encodeEvent (r : Row) : Option Bytes :=
  if packable (encodeRow r) then some (pack (encodeRow r)) else none

/-- `decode_event(get_event_data(...))` on a stored value -/
def decodeEvent (data : Bytes) : Option Row := (unpackb data).bind decodeRow

end MP
end NostrRelay
