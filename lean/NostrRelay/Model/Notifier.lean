/-
M12 — model of nostr_relay/notifier.py: stream framing of 32-byte event ids between workers.

A byte stream arrives as an arbitrary list of chunks (how the transport split or coalesced it).
`asyncio.StreamReader.readexactly(n)` accumulates chunks in a buffer until `n` bytes are there;
at EOF with fewer bytes it raises IncompleteReadError (the loops `break`).
-/
namespace NostrRelay.Notifier

abbrev Bytes := List Nat

/-- The read loop shared by `NotifyClient.connect` and `NotifyServer.handle_notify`
    (after the fix): `while True: data = await reader.readexactly(32) …`.
    `buf` is the StreamReader buffer, `chunks` what the transport will still deliver.
    Returns the units handed on, in order. -/
def readLoop (n : Nat) (hn : 0 < n) (buf : Bytes) (chunks : List Bytes) : List Bytes :=
  if h : n ≤ buf.length then
    buf.take n :: readLoop n hn (buf.drop n) chunks
  else
    match chunks with
    | [] => []                                  -- EOF: IncompleteReadError -> break
    | c :: cs => readLoop n hn (buf ++ c) cs    -- feed_data
termination_by (chunks.length, buf.length)
decreasing_by
  · right; simp only [List.length_drop]; omega
  · left; simp

/-- The loop as it was before the fix: `data = await reader.read(32); if not data: break`.
    `read(32)` returns whatever is buffered, at most 32 bytes, waiting only if nothing is. -/
def readLoopOld (n : Nat) (hn : 0 < n) (buf : Bytes) (chunks : List Bytes) : List Bytes :=
  if h : 0 < buf.length then
    buf.take n :: readLoopOld n hn (buf.drop n) chunks
  else
    match chunks with
    | [] => []
    | c :: cs => readLoopOld n hn (buf ++ c) cs
termination_by (chunks.length, buf.length)
decreasing_by
  · right; simp only [List.length_drop]; omega
  · left; simp

/-- what the client does with the units: `get_event(data.hex())` for each -/
def clientLookups (chunks : List Bytes) : List Bytes := readLoop 32 (by decide) [] chunks

/-- One relayed unit: which connection it came from and its bytes.  The server handler for
    origin `o` does, per unit, `for peer in connections: if peer != writer: peer.write(data)`;
    handlers of different origins interleave only between units (one `write` per unit). -/
structure Relayed where
  origin : Nat
  unit : Bytes
  deriving Repr, DecidableEq

/-- bytes written by the server to peer `p` for a global order `sched` of relayed units -/
def writtenTo (p : Nat) (sched : List Relayed) : List Bytes :=
  (sched.filter (fun r => r.origin ≠ p)).map (·.unit)

/-- units the server handler of origin `o` relays, given how `o`'s stream was chunked -/
def serverUnits (chunks : List Bytes) : List Bytes := readLoop 32 (by decide) [] chunks

end NostrRelay.Notifier
