/-
M11 — model of nostr_relay/rate_limiter.py (RateLimiter), transcribed literally.

Time is an `Int` (the harness injects an integer-valued clock into `perf_counter`).
A deque of admitted timestamps is a `List Int`, newest first (`insert(0, now)`).
-/
namespace NostrRelay.RateLimiter

abbrev Time := Int  -- (kept for readability; the files below write `Int`)
abbrev Deque := List Int

structure Rule where
  interval : Int
  freq : Int
  deriving Repr, DecidableEq, Inhabited

/-- the inner loop of `evaluate_rules` for one rule:
    `for ts in timestamps: if (now - ts) < interval: count += 1; if count == freq: return True` -/
def scanRule (now interval freq : Int) : Deque → Int → Bool
  | [], _ => false
  | ts :: rest, count =>
    let count' := if now - ts < interval then count + 1 else count
    if count' = freq then true else scanRule now interval freq rest count'

/-- `max(rules)[0]` for a non-empty rule list (tuples compare on the interval first) -/
def maxInterval : List Rule → Int
  | [] => 0
  | r :: rs => rs.foldl (fun m x => max m x.interval) r.interval

/-- `evaluate_rules(rules, timestamps)`: returns (limited?, the possibly cleared deque).
    `rules = []` with a non-empty deque raises ValueError in Python (`max([])`): modelled as `none`. -/
def evaluateRules (rules : List Rule) (dq : Deque) (now : Int) : Option (Bool × Deque) :=
  match dq with
  | [] => some (false, [])
  | t0 :: _ =>
    match rules with
    | [] => none
    | _ =>
      if now - t0 > maxInterval rules then some (false, [])
      else some (rules.any (fun r => scanRule now r.interval r.freq dq 0), dq)

/-- one visit of a scope's deque in `is_limited`: evaluate, and insert `now` when not limited -/
def visit (rules : List Rule) (dq : Deque) (now : Int) : Option (Bool × Deque) :=
  match evaluateRules rules dq now with
  | none => none
  | some (true, dq') => some (true, dq')
  | some (false, dq') => some (false, now :: dq')

/-! ### whole limiter state -/

/-- scope keys of `recent_commands`: "global" or a packed ip address (here: the address string) -/
inductive Scope where
  | global
  | ip (addr : String)
  deriving Repr, DecidableEq

structure State where
  /-- `recent_commands[scope][command]`, association list; absent = empty deque -/
  dqs : List ((Scope × String) × Deque) := []
  deriving Repr

structure Config where
  /-- `rules["global"]`, `rules["ip"]`, `rules[<address>]`: command ↦ rule list -/
  globalRules : List (String × List Rule) := []
  ipRules : List (String × List Rule) := []
  specific : List (String × List (String × List Rule)) := []
  deriving Repr

def lookup {α β} [DecidableEq α] (k : α) : List (α × β) → Option β
  | [] => none
  | (k', v) :: rest => if k = k' then some v else lookup k rest

def getDq (s : State) (sc : Scope) (cmd : String) : Deque :=
  (lookup (sc, cmd) s.dqs).getD []

def setDq (s : State) (sc : Scope) (cmd : String) (dq : Deque) : State :=
  { dqs := ((sc, cmd), dq) :: s.dqs.filter (fun e => e.1 ≠ (sc, cmd)) }

/-- `"." in key`: how the pinned code recognised a specific-address rule (kept for the counter-witness) -/
def hasDot (s : String) : Bool := s.toList.contains '.'

/-- the three visits of `is_limited`: `for key in (client_address, "global", "ip")`.
    Returns `none` when Python raises.  The boolean is the return value of `is_limited`. -/
def isLimited (cfg : Config) (s : State) (addr cmd : String) (now : Int) : Option (Bool × State) :=
  -- visit 1: the specific address
  let v1 : Option (Option Bool × State) :=
    match lookup addr cfg.specific with
    | some rs =>
      (match lookup cmd rs with
       | some rules =>
         (match visit rules (getDq s (.ip addr) cmd) now with
          | none => none
          | some (true, dq) => some (some true, setDq s (.ip addr) cmd dq)
          | some (false, dq) =>
            -- `if key not in ("global", "ip"): return False` — the specific rule takes precedence,
            -- whatever the address looks like (IPv4 or IPv6)
            some (some false, setDq s (.ip addr) cmd dq))
       | none => some (none, s))
    | none => some (none, s)
  match v1 with
  | none => none
  | some (some b, s1) => some (b, s1)
  | some (none, s1) =>
    -- visit 2: "global"
    let v2 : Option (Option Bool × State) :=
      match lookup cmd cfg.globalRules with
      | some rules =>
        (match visit rules (getDq s1 .global cmd) now with
         | none => none
         | some (true, dq) => some (some true, setDq s1 .global cmd dq)
         | some (false, dq) => some (none, setDq s1 .global cmd dq))
      | none => some (none, s1)
    match v2 with
    | none => none
    | some (some b, s2) => some (b, s2)
    | some (none, s2) =>
      -- visit 3: "ip"
      match lookup cmd cfg.ipRules with
      | some rules =>
        (match visit rules (getDq s2 (.ip addr) cmd) now with
         | none => none
         | some (true, dq) => some (true, setDq s2 (.ip addr) cmd dq)
         | some (false, dq) => some (false, setDq s2 (.ip addr) cmd dq))
      | none => some (false, s2)

/-- the longest interval of any per-address rule: the generic `ip` rules and the rules of every
    specific-address section (since the `fix:` commit; the pinned code looked at the `ip` rules only) -/
def cleanupThreshold (cfg : Config) : Int :=
  let ip := cfg.ipRules.foldl (fun m e => max m (maxInterval e.2)) 0
  cfg.specific.foldl (fun m sec => sec.2.foldl (fun m' e => max m' (maxInterval e.2)) m) ip

/-- `cleanup()`: for every non-global address, clear command deques idle for longer than the longest
    per-address interval, and drop the address when all its command deques were cleared. -/
def cleanup (cfg : Config) (s : State) (now : Int) : State :=
  if cleanupThreshold cfg = 0 then s else
  let maxI := cleanupThreshold cfg
  let cleared (e : (Scope × String) × Deque) : Bool :=
    match e.2 with
    | [] => true
    | t0 :: _ => decide (now - t0 > maxI)
  let addrs := (s.dqs.filterMap (fun e => match e.1.1 with | .ip a => some a | .global => none)).eraseDups
  let dropAddr (a : String) : Bool :=
    (s.dqs.filter (fun e => e.1.1 = .ip a)).all cleared
  { dqs := s.dqs.filterMap (fun e =>
      match e.1.1 with
      | .global => some e
      | .ip a =>
        if dropAddr a then none
        else if cleared e then some (e.1, []) else some e) }

/-- total size of the per-address state (what C18's last sentence is about) -/
def size (s : State) : Nat := (s.dqs.map (fun e => e.2.length)).sum

/-! ### `parse_option` -/

/-- interval names; anything else raises ValueError (`none`) -/
def parseInterval (s : String) : Option Int :=
  let l := s.toLower
  if l = "s" ∨ l = "second" ∨ l = "sec" then some 1
  else if l = "m" ∨ l = "minute" ∨ l = "min" then some 60
  else if l = "h" ∨ l = "hour" ∨ l = "hr" then some 3600
  else none

end NostrRelay.RateLimiter
