/-
M8c — the connection handler's input gate and exception ladder (web.py: validate_message and the
try/except ladder of start_client), i.e. the part of C19 that is decision logic.

    def validate_message(message):
        if not isinstance(message, list): return False
        if len(message) < 2: return False
        if message[0] not in ("EVENT", "REQ", "CLOSE", "AUTH"): return False
        return True
-/
namespace NostrRelay.Handler

/-- the shape of a decoded JSON text, as far as the gate looks -/
inductive J where
  | null | bool (b : Bool) | num | str (s : String) | arr (xs : List J) | obj
  deriving Repr, Inhabited

inductive Cmd where | event | req | close | auth
  deriving Repr, DecidableEq

def cmdOf : String → Option Cmd
  | "EVENT" => some .event | "REQ" => some .req | "CLOSE" => some .close | "AUTH" => some .auth | _ => none

/-- `validate_message`, returning the command when the message passes -/
def gate : J → Option Cmd
  | .arr (.str s :: _ :: _) => cmdOf s
  | _ => none

/-- what can be raised inside the body of the command loop, by class as the ladder sees it -/
inductive Exc where
  | storageError | authError                      -- the relay's own errors
  | wsDisconnected | connClosedError | connClosedOK
  | jsonDecode | timeout
  | otherException                                -- any other subclass of Exception
  | baseException                                 -- CancelledError / KeyboardInterrupt: not an Exception
  deriving Repr, DecidableEq

inductive Next where
  | continueWithNotice      -- NOTICE frame, loop goes on
  | continueSilently
  | endClean (closeCode : Option Nat)   -- leave the loop; the `finally` block unsubscribes and cancels the sender
  | escapeAfterCleanup      -- propagates out of start_client (still through the `finally` block)
  deriving Repr, DecidableEq

/-- the except-ladder of the command loop -/
def ladder : Exc → Next
  | .storageError => .continueWithNotice
  | .authError => .continueWithNotice
  | .wsDisconnected | .connClosedError | .connClosedOK => .endClean none
  | .jsonDecode => .continueSilently
  | .timeout => .endClean (some 1013)
  | .otherException => .endClean (some 1013)
  | .baseException => .escapeAfterCleanup

/-- the inner ladder of the EVENT branch: whatever Exception add_event raises, one OK frame with
    `false` is sent and the loop goes on.  A BaseException (cancellation) is not caught by the inner
    handlers; the inner `finally` then formats the OK frame from variables that were never bound, the
    resulting UnboundLocalError replaces the cancellation and reaches the outer `except Exception`:
    no OK frame, the connection is closed with 1013.  `none` in the first component = no OK frame. -/
def eventLadder : Option Exc → Option Bool × Next
  | none => (some true, .continueSilently)             -- stored (a duplicate is OK false "duplicate:", not an exception)
  | some .baseException => (none, .endClean (some 1013))
  | some _ => (some false, .continueSilently)

/-- the kinds of answer a client can observe for one frame it sent -/
inductive Resp where
  | silent | ok | notice | served | closed
  deriving Repr, DecidableEq

/-- which answers each kind of frame may get -/
def allowed : Option Cmd → List Resp
  | none => [.silent]                                  -- did not pass the gate / not JSON
  | some .close => [.silent]
  | some .event => [.ok]
  | some .req => [.served, .notice, .closed]
  | some .auth => [.silent, .notice, .closed]

end NostrRelay.Handler
