/-
Model of the storage glue of the cross-worker notifier (C20): which accepted events a worker announces
to the other workers, when, and whether they can load the event at that instant.

SQL (`DBStorage.add_event`): the row is inserted and the transaction committed, then the id is
announced.  Ephemeral kinds are stored like any other (until the next collection pass).
LMDB (`LMDBStorage.add_event` + `WriterThread.run`): a storable event is queued for the writer thread;
the writer commits it and only then reports it for announcement (after the `fix:`); an ephemeral event
is never written and is announced at once.  A resubmission of an event that is stored or queued is
refused and announces nothing.

`Step.submit` is one call of `add_event` that passed validation and authorization; `Step.writerTake` is
the writer thread taking the next task off its queue, `Step.writerCommit` its write transaction
committing (LMDB only; between the two the event is neither queued nor stored — it stays in
`pending_ids` until the commit).  Every interleaving of the three is a schedule.
-/
namespace NostrRelay.Announce

inductive Backend where
  | sql | kv
  deriving Repr, DecidableEq

structure Ev where
  id : Nat
  ephemeral : Bool
  deriving Repr, DecidableEq

inductive Step where
  | submit (e : Ev)
  | writerTake
  | writerCommit
  deriving Repr

/-- one announcement, with what the probe of the other worker sees at that instant -/
structure Ann where
  id : Nat
  ephemeral : Bool
  loadable : Bool
  deriving Repr, DecidableEq

structure State where
  /-- LMDB: accepted, waiting for the writer thread (`pending_ids` + queue) -/
  queue : List Ev := []
  /-- LMDB: taken off the queue by the writer thread, its write transaction not yet committed -/
  inflight : Option Ev := none
  /-- ids whose record is committed: what any other worker can load -/
  committed : List Nat := []
  /-- announcements made so far, oldest first -/
  announced : List Ann := []
  /-- ghost: ids of the submissions acknowledged as new (OK = true), oldest first -/
  accepted : List Ev := []
  deriving Repr

def announce (s : State) (e : Ev) : State :=
  { s with announced := s.announced ++ [⟨e.id, e.ephemeral, decide (e.id ∈ s.committed)⟩] }

/-- accepted and not yet committed: what `pending_ids` holds -/
def pend (s : State) : List Ev := s.inflight.toList ++ s.queue

def step : Backend → State → Step → State
  | .sql, s, .submit e =>
    if e.id ∈ s.committed then s                                  -- duplicate: refused
    else announce { s with committed := s.committed ++ [e.id], accepted := s.accepted ++ [e] } e
  | .sql, s, .writerTake => s
  | .sql, s, .writerCommit => s
  | .kv, s, .submit e =>
    if e.ephemeral then announce { s with accepted := s.accepted ++ [e] } e   -- never written
    else if e.id ∈ s.committed ∨ e.id ∈ (pend s).map (·.id) then s           -- stored, being written or queued
    else { s with queue := s.queue ++ [e], accepted := s.accepted ++ [e] }
  | .kv, s, .writerTake =>
    match s.inflight, s.queue with
    | none, e :: rest => { s with inflight := some e, queue := rest }
    | _, _ => s                                                   -- one writer thread: busy, or nothing queued
  | .kv, s, .writerCommit =>
    match s.inflight with
    | none => s
    | some e => announce { s with inflight := none, committed := s.committed ++ [e.id] } e

def run (b : Backend) (steps : List Step) : State := steps.foldl (step b) {}

end NostrRelay.Announce
