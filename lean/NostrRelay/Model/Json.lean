/-
M7 — model of the hand-written frame serialisation (util.event_as_json, web.send_subscriptions)
and of a JSON reader for what it emits.  Python `str` is a list of code points (`List Nat`).

`encodeBasestring` mirrors `json.encoder.encode_basestring` (ensure_ascii = False):
  `"` → `\"`, `\` → `\\`, \n \r \t \b \f → two-character escapes, other code points below 0x20 →
  `\u00XX` (lower-case hex), everything else verbatim.
-/
namespace NostrRelay.Json

abbrev Str := List Nat

def hexDigit (n : Nat) : Nat := if n < 10 then 48 + n else 87 + n

def unhex (c : Nat) : Option Nat :=
  if 48 ≤ c ∧ c ≤ 57 then some (c - 48)
  else if 97 ≤ c ∧ c ≤ 102 then some (c - 87)
  else if 65 ≤ c ∧ c ≤ 70 then some (c - 55)
  else none

def escChar (c : Nat) : Str :=
  if c = 34 then [92, 34]
  else if c = 92 then [92, 92]
  else if c = 10 then [92, 110]
  else if c = 13 then [92, 114]
  else if c = 9 then [92, 116]
  else if c = 8 then [92, 98]
  else if c = 12 then [92, 102]
  else if c < 32 then [92, 117, 48, 48, hexDigit (c / 16), hexDigit (c % 16)]
  else [c]

def escBody (s : Str) : Str := s.flatMap escChar

def encodeBasestring (s : Str) : Str := [34] ++ escBody s ++ [34]

/-- read the body of a JSON string (after the opening quote) up to the closing quote;
    `fuel` bounds the number of characters consumed -/
def readBody : Nat → Str → Option (Str × Str)
  | 0, _ => none
  | _ + 1, [] => none
  | fuel + 1, c :: rest =>
    if c = 34 then some ([], rest)
    else if c = 92 then
      match rest with
      | 34 :: r => (readBody fuel r).map fun p => (34 :: p.1, p.2)
      | 92 :: r => (readBody fuel r).map fun p => (92 :: p.1, p.2)
      | 47 :: r => (readBody fuel r).map fun p => (47 :: p.1, p.2)
      | 110 :: r => (readBody fuel r).map fun p => (10 :: p.1, p.2)
      | 114 :: r => (readBody fuel r).map fun p => (13 :: p.1, p.2)
      | 116 :: r => (readBody fuel r).map fun p => (9 :: p.1, p.2)
      | 98 :: r => (readBody fuel r).map fun p => (8 :: p.1, p.2)
      | 102 :: r => (readBody fuel r).map fun p => (12 :: p.1, p.2)
      | 117 :: a :: b :: c' :: d :: r =>
        match unhex a, unhex b, unhex c', unhex d with
        | some x, some y, some z, some w =>
          (readBody fuel r).map fun p => ((((x * 16 + y) * 16 + z) * 16 + w) :: p.1, p.2)
        | _, _, _, _ => none
      | _ => none
    else if c < 32 then none          -- raw control characters are not allowed in JSON strings
    else (readBody fuel rest).map fun p => (c :: p.1, p.2)

/-- read a JSON string literal -/
def readString (s : Str) : Option (Str × Str) :=
  match s with
  | 34 :: rest => readBody (rest.length + 1) rest
  | _ => none

/-! ### the frames -/

def lit (s : String) : Str := s.toList.map Char.toNat

/-- `",".join(...)` -/
def joinComma : List Str → Str
  | [] => []
  | [x] => x
  | x :: y :: rest => x ++ [44] ++ joinComma (y :: rest)

/-- one tag (all items strings): `[` items `]` -/
def renderTag (t : List Str) : Str := [91] ++ joinComma (t.map encodeBasestring) ++ [93]

def renderTags (tags : List (List Str)) : Str := [91] ++ joinComma (tags.map renderTag) ++ [93]

structure EventFields where
  id : Str
  pubkey : Str
  sig : Str
  createdAt : Str      -- decimal digits, as `str(int)` prints them
  kind : Str
  content : Str
  tags : List (List Str)
  deriving Repr, DecidableEq

/-- `util.event_as_json` (after the fix: the subscription id is JSON-encoded) -/
def eventAsJson (sid : Str) (e : EventFields) : Str :=
  lit "[\"EVENT\"," ++ encodeBasestring sid ++ lit ",{\"id\":\"" ++ e.id ++ lit "\",\"created_at\":" ++ e.createdAt
    ++ lit ",\"pubkey\":\"" ++ e.pubkey ++ lit "\",\"kind\":" ++ e.kind ++ lit ",\"sig\":\"" ++ e.sig
    ++ lit "\",\"content\":" ++ encodeBasestring e.content ++ lit ",\"tags\":" ++ renderTags e.tags ++ lit "}]"

/-- the EOSE frame (after the fix) -/
def eoseFrame (sid : Str) : Str := lit "[\"EOSE\"," ++ encodeBasestring sid ++ lit "]"

/-- the frames as they were before the fix: the subscription id pasted between quotes -/
def eoseFrameOld (sid : Str) : Str := lit "[\"EOSE\",\"" ++ sid ++ lit "\"]"

/-! ### a reader for these frames -/

/-- expect a literal prefix -/
def expect (p : Str) (s : Str) : Option Str :=
  if s.take p.length = p then some (s.drop p.length) else none

/-- items of a tag after `[`: either `]` or string (`,` string)* `]` -/
def readItems : Nat → Str → Option (List Str × Str)
  | 0, _ => none
  | fuel + 1, s =>
    match readString s with
    | none => none
    | some (x, r) =>
      match r with
      | 93 :: r' => some ([x], r')
      | 44 :: r' => (readItems fuel r').map fun p => (x :: p.1, p.2)
      | _ => none

def readTag (s : Str) : Option (List Str × Str) :=
  match s with
  | 91 :: r => (match r with | 93 :: r' => some ([], r') | _ => readItems (r.length + 1) r)
  | _ => none

def readTagList : Nat → Str → Option (List (List Str) × Str)
  | 0, _ => none
  | fuel + 1, s =>
    match readTag s with
    | none => none
    | some (t, r) =>
      match r with
      | 93 :: r' => some ([t], r')
      | 44 :: r' => (readTagList fuel r').map fun p => (t :: p.1, p.2)
      | _ => none

def readTags (s : Str) : Option (List (List Str) × Str) :=
  match s with
  | 91 :: r => (match r with | 93 :: r' => some ([], r') | _ => readTagList (r.length + 1) r)
  | _ => none

/-- characters up to (not including) the next `"` -/
def readRaw (s : Str) : Str × Str := (s.takeWhile (· ≠ 34), s.dropWhile (· ≠ 34))

/-- a maximal run of decimal digits -/
def readDigits (s : Str) : Str × Str :=
  (s.takeWhile (fun c => 48 ≤ c && c ≤ 57), s.dropWhile (fun c => 48 ≤ c && c ≤ 57))

inductive Frame where
  | event (sid : Str) (e : EventFields)
  | eose (sid : Str)
  deriving Repr, DecidableEq

/-- parse the body of an EVENT frame after `["EVENT",` -/
def parseEventBody (r : Str) : Option Frame :=
  (readString r).bind fun (sid, r) =>
  (expect (lit ",{\"id\":\"") r).bind fun r =>
  let (id, r) := readRaw r
  (expect (lit "\",\"created_at\":") r).bind fun r =>
  let (ca, r) := readDigits r
  (expect (lit ",\"pubkey\":\"") r).bind fun r =>
  let (pk, r) := readRaw r
  (expect (lit "\",\"kind\":") r).bind fun r =>
  let (kd, r) := readDigits r
  (expect (lit ",\"sig\":\"") r).bind fun r =>
  let (sg, r) := readRaw r
  (expect (lit "\",\"content\":") r).bind fun r =>
  (readString r).bind fun (content, r) =>
  (expect (lit ",\"tags\":") r).bind fun r =>
  (readTags r).bind fun (tags, r) =>
  if r = lit "}]" then some (.event sid ⟨id, pk, sg, ca, kd, content, tags⟩) else none

def parseFrame (s : Str) : Option Frame :=
  match expect (lit "[\"EOSE\",") s with
  | some r => (readString r).bind fun (sid, r') => if r' = lit "]" then some (.eose sid) else none
  | none => (expect (lit "[\"EVENT\",") s).bind parseEventBody

end NostrRelay.Json
