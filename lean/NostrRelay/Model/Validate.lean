/-
Filter validation (storage/base.py `NostrQuery`): what reaches the planner for the `ids` / `authors` / `kinds` of a REQ filter.

  ids / authors : `Annotated[list[str], AfterValidator(ids_are_hex)]`, then `@field_validator sort_fields`
     ids_are_hex   lower-cases every string, refuses anything that is not made of hex digits or is shorter than 64
     sort_fields   `sorted(set(values), reverse=True)`
  kinds         : `sort_fields` alone (ints)

Strings are lists of code points (Python compares `str` by code point).  The planner then decodes the hex strings with
`bytes_from_hex` (Model/Bytes.lean).
-/
import NostrRelay.Model.Bytes

namespace NostrRelay.Validate
open NostrRelay

/-- `str.lower()` on one code point, as far as hex strings are concerned: only A–Z change (a non-ASCII character never
    lower-cases into a hex digit, so it is refused either way) -/
def lowerC (c : Nat) : Nat := if 65 ≤ c ∧ c ≤ 90 then c + 32 else c

/-- a member of "abcdef0123456789" -/
def isHexC (c : Nat) : Bool := (48 ≤ c && c ≤ 57) || (97 ≤ c && c ≤ 102)

/-- `ids_are_hex`; `none` = ValueError (the filter is refused) -/
def idsAreHex : List Bytes → Option (List Bytes)
  | [] => some []
  | h :: t =>
    let h' := h.map lowerC
    if h'.all isHexC && decide (64 ≤ h'.length) then (idsAreHex t).map (h' :: ·) else none

def insertDesc (a : Bytes) : List Bytes → List Bytes
  | [] => [a]
  | b :: bs => if b < a then a :: b :: bs else b :: insertDesc a bs

/-- `sorted(set(values), reverse=True)` for strings -/
def sortFields (l : List Bytes) : List Bytes := (l.foldr insertDesc []).eraseDups

def insertDescI (a : Int) : List Int → List Int
  | [] => [a]
  | b :: bs => if b < a then a :: b :: bs else b :: insertDescI a bs

/-- `sorted(set(values), reverse=True)` for ints -/
def sortKinds (l : List Int) : List Int := (l.foldr insertDescI []).eraseDups

/-- the validated `ids` / `authors` of a filter, as hex strings -/
def validateHexList (raw : List Bytes) : Option (List Bytes) := (idsAreHex raw).map sortFields

/-- ... and as the planner decodes them (`bytes_from_hex` per value; a value it cannot decode is skipped) -/
def decodeAll (hs : List Bytes) : List Bytes := hs.filterMap kvBytesFromHex

end NostrRelay.Validate
