/-
M6 — model of nostr_relay/storage/db.py (SQLite/SQLAlchemy backend) at the relational level.

State: the `events` table (primary key `id`) and the `tags` table (unique (id,name,value),
foreign key with ON DELETE CASCADE).  One `add_event` = one transaction: `pre_save`, INSERT OR
IGNORE, `post_save` (`process_tags`, kind-5 deletions, kind 0/3 clean-up); an exception rolls
everything back.

(Before the `fix:` of `pre_save` only one — order dependent — older version was deleted; now every
older version of the address is, so the transaction is deterministic.)
-/
import NostrRelay.Model.KV

namespace NostrRelay.SQL
open NostrRelay NostrRelay.KV

structure TagRow where
  id : Bytes
  name : Bytes
  value : Bytes
  deriving Repr, DecidableEq

structure State where
  events : List Event := []          -- insertion order
  tags : List TagRow := []
  deriving Repr

/-- `DELETE FROM events WHERE id = …` with the cascade to `tags` -/
def deleteId (s : State) (id : Bytes) : State :=
  { events := s.events.filter (fun e => e.id ≠ id), tags := s.tags.filter (fun t => t.id ≠ id) }

def deleteWhere (s : State) (p : Event → Bool) : State :=
  let gone := (s.events.filter p).map (·.id)
  { events := s.events.filter (fun e => !p e), tags := s.tags.filter (fun t => !gone.contains t.id) }

def isReplaceable (k : Int) : Bool := 10000 ≤ k && k < 20000
def isParamReplaceable (k : Int) : Bool := 30000 ≤ k && k < 40000
def isEphemeral (k : Int) : Bool := 20000 ≤ k && k < 30000

/-- the `d_tag` computed for the *new* event in `pre_save` (first d-tag decides, missing/bare ⇒ "") ;
    `none` = IndexError on an empty tag -/
def newDTag : List (List Bytes) → Option Bytes
  | [] => some []
  | [] :: _ => none
  | (n :: vs) :: rest => if n = KV.dName then some (vs.headD []) else newDTag rest

/-- the d value of an older row: its first d-tag's value, "" when absent or bare -/
def rowD (tags : List (List Bytes)) : Bytes :=
  match tags.filter (fun t => t.head? == some KV.dName) with
  | [] => []
  | t :: _ => if t.length > 1 then t.getD 1 [] else []

/-- rows selected by `pre_save`: same pubkey and kind, strictly older -/
def isOlderVersion (e r : Event) : Bool :=
  r.pubkey == e.pubkey && r.kind == e.kind && decide (r.createdAt < e.createdAt)

/-- `pre_save` (after the fix: *every* older version of the address is deleted);
    `none` = IndexError -/
def preSave (s : State) (e : Event) : Option State :=
  if isReplaceable e.kind then some (deleteWhere s (isOlderVersion e))
  else if isParamReplaceable e.kind then
    match newDTag e.tags with
    | none => none
    | some d => some (deleteWhere s fun r => isOlderVersion e r && rowD r.tags == d)
  else some s

/-- `process_tags`: rows for the tags table; `none` = IndexError -/
def tagRows (e : Event) : Option (List TagRow) :=
  e.tags.foldlM (init := []) fun acc t =>
    match t with
    | [] => none
    | n :: vs =>
      if n == ascii "delegation" || n == ascii "expiration" then
        match vs with
        | [] => none
        | v :: _ => some (acc ++ [⟨e.id, n, v⟩])
      else if isSingleChar n then some (acc ++ [⟨e.id, n, vs.headD []⟩])
      else some acc

/-- INSERT OR IGNORE into tags under UNIQUE(id,name,value) -/
def insertTags (ts : List TagRow) (new : List TagRow) : List TagRow :=
  new.foldl (fun acc r => if acc.contains r then acc else acc ++ [r]) ts

/-- kind-5: `DELETE … WHERE pubkey = deleter AND id = fromhex(tag[1])` per e-tag;
    `none` = IndexError / ValueError -/
def applyDeletions (s : State) (e : Event) : Option State :=
  e.tags.foldlM (init := s) fun st t =>
    match t with
    | [] => none
    | n :: vs =>
      if n == KV.eName then
        match vs with
        | [] => none
        | v :: _ =>
          match pyFromHex v with
          | none => none
          | some target => some (deleteWhere st fun r => r.pubkey == e.pubkey && r.id == target)
      else some st

inductive AddResult where
  | ok (s : State) (changed : Bool)
  | raises                      -- exception: transaction rolled back, state unchanged
  deriving Repr

/-- INSERT OR IGNORE + `post_save`, in the state left by `pre_save` -/
def addCore (s1 : State) (e : Event) : AddResult :=
  if s1.events.any (fun r => r.id == e.id) then .ok s1 false
  else
    let s2 : State := { s1 with events := s1.events ++ [e] }
    -- post_save (changed = true)
    let s3 := if e.kind == 0 || e.kind == 3 then
        deleteWhere s2 fun r => r.pubkey == e.pubkey && r.kind == e.kind && decide (r.createdAt < e.createdAt)
      else s2
    if e.tags.isEmpty then .ok s3 true else
    match tagRows e with
    | none => .raises
    | some rows =>
      let s4 : State := { s3 with tags := insertTags s3.tags rows }
      if e.kind == 5 then
        match applyDeletions s4 e with
        | none => .raises
        | some s5 => .ok s5 true
      else .ok s4 true

/-- `add_event` after validation/authorisation: one transaction.  `pre_save` returns False for an
    already stored (resubmitted) replaceable event, which skips the insert altogether. -/
def addEvent (s : State) (e : Event) : AddResult :=
  if (isReplaceable e.kind || isParamReplaceable e.kind) && s.events.any (fun r => r.id == e.id) then .ok s false
  else
    match preSave s e with
    | none => .raises
    | some s1 => addCore s1 e

/-- `QueryGarbageCollector.collect`: ephemeral kinds, or an expiration tag row whose value is
    *string*-smaller than `str(now)` -/
def gcSql (s : State) (now : Nat) : State :=
  let nowS := decDigits now
  deleteWhere s fun r =>
    isEphemeral r.kind || s.tags.any fun t => t.id == r.id && t.name == ascii "expiration" && decide (t.value < nowS)

/-! ### queries -/

/-- does `evaluate_filter` raise ValueError for this filter (it is then replaced by `NostrQuery()`,
    whose limit is the configured maximum, and contributes the literal `false`)?  Empty id /
    author / kind lists, and (after the fix) a tag condition without a non-empty value. -/
def filterRaises (f : Filter) : Bool :=
  f.ids == some [] || f.authors == some [] || f.kinds == some [] || f.tags.any (fun t => t.2.all (·.isEmpty))

/-- does a validated filter produce a WHERE clause (`some pred`) or the literal `false` (`none`)? -/
def whereOf (s : State) (f : Filter) : Option (Event → Bool) :=
  if filterRaises f then none else
  if f.ids.isNone && f.authors.isNone && f.kinds.isNone && f.since.isNone && f.until_.isNone && f.tags.isEmpty
  then none else
  some fun e =>
    (match f.ids with | some l => l.contains e.id | none => true)
    && (match f.authors with
        | some l => l.contains e.pubkey ||
            s.tags.any fun t => t.id == e.id && t.name == ascii "delegation" && l.any fun a => toHexB a == t.value
        | none => true)
    && (match f.kinds with | some l => l.contains e.kind | none => true)
    && (match f.since with | some x => decide (x ≤ e.createdAt) | none => true)
    && (match f.until_ with | some x => decide (e.createdAt < x) | none => true)
    && f.tags.all fun tc =>
        s.tags.any fun t => t.id == e.id && t.name == tc.1 && !t.value.isEmpty && tc.2.contains t.value

/-- `LIMIT`: the last filter with a limit (`is not None`, so 0 counts) wins, capped by `default_limit` -/
def effectiveLimit (fs : List Filter) (defaultLimit maxLimit : Nat) : Nat :=
  fs.foldl (fun acc f =>
    let l := if filterRaises f then some maxLimit else f.limit
    match l with | some n => min n defaultLimit | none => acc) defaultLimit

/-- rows matching the REQ (OR of its filters), before ORDER BY / LIMIT -/
def matchingRows (s : State) (fs : List Filter) : List Event :=
  let preds := fs.filterMap (whereOf s)
  s.events.filter fun e => preds.any fun p => p e

/-- `ORDER BY created_at DESC` (one of the orders SQLite may produce: ties keep insertion order) -/
def insertTs (e : Event) : List Event → List Event
  | [] => [e]
  | x :: xs => if x.createdAt < e.createdAt then e :: x :: xs else x :: insertTs e xs

def sortTsDesc (l : List Event) : List Event := l.foldr insertTs []

/-- the rows sent for a REQ: `… ORDER BY created_at DESC LIMIT n` -/
def answer (s : State) (fs : List Filter) (defaultLimit maxLimit : Nat) : List Event :=
  (sortTsDesc (matchingRows s fs)).take (effectiveLimit fs defaultLimit maxLimit)

end NostrRelay.SQL
