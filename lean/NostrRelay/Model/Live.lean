/-
M8b — live matching: `BaseSubscription.check_event(event, filters)` (storage/base.py), the in-memory
filter evaluation applied to every accepted event for every open subscription.

    for query in filters:
        matched = set()
        if query.ids is not None:      matched.add(event.id in query.ids)
        if query.authors is not None:  matched.add(event.pubkey in query.authors)
                                       if <a delegation tag names one of the authors>: matched.add(True)
        if query.kinds is not None:    matched.add(event.kind in query.kinds)
        if query.since is not None:    matched.add(event.created_at >= query.since)
        if query.until is not None:    matched.add(event.created_at < query.until)
        for tagname, values in query.tags: matched.add(event.has_tag(tagname, values)[1] is not None)
        if matched and all(matched): return True
    return False
-/
import NostrRelay.Model.KV

namespace NostrRelay.KV

/-- `event.has_tag(name, values)[1] is not None` -/
def hasTagMatch (e : Event) (name : Bytes) (values : List Bytes) : Bool :=
  e.tags.any fun tg => tg.head? == some name && tg.length > 1 && values.contains (tg.getD 1 [])

/-- does a delegation tag name one of the authors (the authors are raw bytes, the tag holds hex) -/
def delegationHit (e : Event) (authors : List Bytes) : Bool :=
  (delegators e).any fun d => authors.any fun a => toHexB a == d

/-- the booleans `check_event` collects into `matched` for one filter -/
def liveConds (f : Filter) (e : Event) : List Bool :=
  (match f.ids with | some l => [l.contains e.id] | none => [])
  ++ (match f.authors with
      | some l => [l.contains e.pubkey] ++ (if delegationHit e l then [true] else [])
      | none => [])
  ++ (match f.kinds with | some l => [l.contains e.kind] | none => [])
  ++ (match f.since with | some x => [decide (x ≤ e.createdAt)] | none => [])
  ++ (match f.until_ with | some x => [decide (e.createdAt < x)] | none => [])
  ++ f.tags.map fun t => hasTagMatch e t.1 t.2

/-- `if matched and all(matched)` -/
def liveMatchOne (f : Filter) (e : Event) : Bool := !(liveConds f e).isEmpty && (liveConds f e).all id

def liveMatch (fs : List Filter) (e : Event) : Bool := fs.any fun f => liveMatchOne f e

/-- a filter that states at least one condition (an empty filter is answered by an immediate EOSE on
    both backends and never matches live) -/
def hasCondition (f : Filter) : Bool :=
  f.ids.isSome || f.authors.isSome || f.kinds.isSome || f.since.isSome || f.until_.isSome || !f.tags.isEmpty

end NostrRelay.KV
