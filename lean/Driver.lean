/-
Line-protocol driver: one JSON object per input line, one JSON line of canonical output.
Imports model files only (no Mathlib, no proofs) so that it can be compiled.
-/
import Lean.Data.Json
import NostrRelay.Model.RateLimiter
import NostrRelay.Model.Notifier
import NostrRelay.Model.KV
import NostrRelay.Model.SQL
import NostrRelay.Model.Json
import NostrRelay.Model.Admission
import NostrRelay.Model.Proto
import NostrRelay.Model.Live
import NostrRelay.Model.Handler
import NostrRelay.Model.Announce
import NostrRelay.Model.Validate
import NostrRelay.Model.MsgPack

open Lean

namespace Driver

def getInt (j : Json) (k : String) : Int := (j.getObjValAs? Int k).toOption.getD 0
def getStr (j : Json) (k : String) : String := (j.getObjValAs? String k).toOption.getD ""
def getArr (j : Json) (k : String) : Array Json := (j.getObjValAs? (Array Json) k).toOption.getD #[]

/-! ### rate limiter -/
namespace RL
open NostrRelay.RateLimiter

def parseRules (j : Json) : List Rule :=
  (j.getArr?.toOption.getD #[]).toList.map fun r =>
    match r.getArr? with
    | .ok a => ⟨(a[0]!.getInt?.toOption.getD 0), (a[1]!.getInt?.toOption.getD 0)⟩
    | _ => ⟨0, 0⟩

def parseCmdRules (j : Json) : List (String × List Rule) :=
  match j.getObj? with
  | .ok o => o.toList.map fun (k, v) => (k, parseRules v)
  | _ => []

def parseConfig (j : Json) : Config :=
  let g := (j.getObjVal? "global").toOption.map parseCmdRules |>.getD []
  let i := (j.getObjVal? "ip").toOption.map parseCmdRules |>.getD []
  let sp := match (j.getObjVal? "specific").toOption.bind (·.getObj?.toOption) with
    | some o => o.toList.map fun (k, v) => (k, parseCmdRules v)
    | none => []
  { globalRules := g, ipRules := i, specific := sp }

def scopeStr : Scope → String
  | .global => "global"
  | .ip a => a

def dumpState (s : State) : Json :=
  let entries := s.dqs.filter (fun e => !e.2.isEmpty)
  let strs := entries.map fun e => (scopeStr e.1.1 ++ "|" ++ e.1.2, Json.arr (e.2.map (fun (t : Int) => Json.num (JsonNumber.fromInt t))).toArray)
  let sorted := strs.toArray.qsort (fun a b => a.1 < b.1)
  Json.mkObj sorted.toList

end RL

/-! ### hex helpers -/
def hexDigit (n : Nat) : Char := if n < 10 then Char.ofNat (48 + n) else Char.ofNat (87 + n)
def toHex (b : List Nat) : String := String.ofList (b.flatMap fun x => [hexDigit (x / 16), hexDigit (x % 16)])
def unhexDigit (c : Char) : Nat :=
  if '0' ≤ c ∧ c ≤ '9' then c.toNat - 48 else if 'a' ≤ c ∧ c ≤ 'f' then c.toNat - 87 else if 'A' ≤ c ∧ c ≤ 'F' then c.toNat - 55 else 0
partial def fromHexAux : List Char → List Nat
  | a :: b :: rest => (unhexDigit a * 16 + unhexDigit b) :: fromHexAux rest
  | _ => []
def fromHex (s : String) : List Nat := fromHexAux s.toList
def hexList (j : Json) (k : String) : List (List Nat) :=
  (getArr j k).toList.map fun x => fromHex (x.getStr?.toOption.getD "")
def jHexList (l : List (List Nat)) : Json := Json.arr (l.map (fun b => Json.str (toHex b))).toArray


/-! ### msgpack record codec -/
namespace MPD
open NostrRelay NostrRelay.MP

partial def parseV (j : Json) : V :=
  let t := getStr j "t"
  let v := (j.getObjVal? "v").toOption.getD Json.null
  if t == "nil" then .nil
  else if t == "bool" then .bool (v.getBool?.toOption.getD false)
  else if t == "int" then .int ((v.getStr?.toOption.getD "0").toInt?.getD 0)
  else if t == "float" then .float (fromHex (v.getStr?.toOption.getD ""))
  else if t == "str" then .str (fromHex (v.getStr?.toOption.getD ""))
  else if t == "bin" then .bin (fromHex (v.getStr?.toOption.getD ""))
  else if t == "arr" then .arr ((v.getArr?.toOption.getD #[]).toList.map parseV)
  else .map ((v.getArr?.toOption.getD #[]).toList.map parseV)

partial def dumpV : V → Json
  | .nil => Json.mkObj [("t", "nil")]
  | .bool b => Json.mkObj [("t", "bool"), ("v", Json.bool b)]
  | .int i => Json.mkObj [("t", "int"), ("v", Json.str (toString i))]
  | .float r => Json.mkObj [("t", "float"), ("v", Json.str (toHex r))]
  | .str s => Json.mkObj [("t", "str"), ("v", Json.str (toHex s))]
  | .bin b => Json.mkObj [("t", "bin"), ("v", Json.str (toHex b))]
  | .arr xs => Json.mkObj [("t", "arr"), ("v", Json.arr (xs.map dumpV).toArray)]
  | .map xs => Json.mkObj [("t", "map"), ("v", Json.arr (xs.map dumpV).toArray)]

def parseRow (j : Json) : Row :=
  { id := fromHex (getStr j "id"), created := (getStr j "created").toInt?.getD 0, kind := (getStr j "kind").toInt?.getD 0,
    pubkey := fromHex (getStr j "pubkey"), content := fromHex (getStr j "content"),
    tags := parseV ((j.getObjVal? "tags").toOption.getD Json.null), sig := fromHex (getStr j "sig") }

def dumpRow (r : Row) : Json :=
  Json.mkObj [("id", Json.str (toHex r.id)), ("created", Json.str (toString r.created)), ("kind", Json.str (toString r.kind)),
    ("pubkey", Json.str (toHex r.pubkey)), ("content", Json.str (toHex r.content)), ("tags", dumpV r.tags),
    ("sig", Json.str (toHex r.sig))]

end MPD

/-! ### KV -/
namespace KVD
open NostrRelay NostrRelay.KV

def optField (j : Json) (k : String) : Option Json :=
  match j.getObjVal? k with
  | .ok Json.null => none
  | .ok v => some v
  | .error _ => none

def jInt (j : Json) : Int := j.getInt?.toOption.getD 0
def jHex (j : Json) : Bytes := fromHex (j.getStr?.toOption.getD "")
def jArr (j : Json) : List Json := (j.getArr?.toOption.getD #[]).toList

def parseEvent (j : Json) : Event :=
  { id := fromHex (getStr j "id"), pubkey := fromHex (getStr j "pubkey"),
    createdAt := getInt j "created_at", kind := getInt j "kind",
    tags := (getArr j "tags").toList.map fun t => (jArr t).map jHex }

def parseFilter (j : Json) : Filter :=
  { ids := (optField j "ids").map fun v => (jArr v).map jHex,
    authors := (optField j "authors").map fun v => (jArr v).map jHex,
    kinds := (optField j "kinds").map fun v => (jArr v).map jInt,
    since := (optField j "since").map jInt,
    until_ := (optField j "until").map jInt,
    limit := (optField j "limit").map fun v => (jInt v).toNat,
    tags := ((optField j "tags").map jArr |>.getD []).map fun t =>
      let a := jArr t
      (jHex (a.getD 0 Json.null), (jArr (a.getD 1 Json.null)).map jHex) }

def parseTask (j : Json) : Task :=
  if getStr j "t" == "add" then .add (parseEvent (j.getObjVal? "ev" |>.toOption.getD Json.null))
  else .del (fromHex (getStr j "id"))

partial def idxName : PlanIndex → String
  | .ids => "ids" | .created => "created_at" | .kinds => "kinds" | .authors => "authors"
  | .authorkinds => "authorkinds" | .tags => "tags"
  | .multi a b => "multi(" ++ idxName a ++ "," ++ idxName b ++ ")"

def optNat (o : Option Nat) : Json := match o with | some n => Json.num (JsonNumber.fromNat n) | none => Json.null

def defaultLimit (j : Json) : Option Nat := (optField j "default_limit").map fun v => (jInt v).toNat

end KVD

/-! ### SQL -/
namespace SQLD
open NostrRelay NostrRelay.KV NostrRelay.SQL

def dump (s : State) : Json :=
  let evs := (s.events.map fun e => toHex e.id).toArray.qsort (· < ·)
  let tgs := (s.tags.map fun t => toHex t.id ++ "|" ++ toHex t.name ++ "|" ++ toHex t.value).toArray.qsort (· < ·)
  Json.mkObj [("events", Json.arr (evs.map Json.str)), ("tags", Json.arr (tgs.map Json.str))]

def parseFilters (j : Json) : List Filter := (getArr j "filters").toList.map KVD.parseFilter

end SQLD

/-! ### JSON frames: strings travel as arrays of code points -/
namespace JD
open NostrRelay.Json

def cps (j : Json) : Str := (j.getArr?.toOption.getD #[]).toList.map fun x => (x.getNat?.toOption.getD 0)
def jcps (s : Str) : Json := Json.arr (s.map fun n => Json.num (JsonNumber.fromNat n)).toArray
def field (j : Json) (k : String) : Str := cps (j.getObjVal? k |>.toOption.getD Json.null)

def parseFields (j : Json) : EventFields :=
  { id := field j "id", pubkey := field j "pubkey", sig := field j "sig", createdAt := field j "created_at",
    kind := field j "kind", content := field j "content",
    tags := ((j.getObjVal? "tags").toOption.bind (·.getArr?.toOption) |>.getD #[]).toList.map fun t =>
      (t.getArr?.toOption.getD #[]).toList.map cps }

def fieldsJson (e : EventFields) : Json :=
  Json.mkObj [("id", jcps e.id), ("pubkey", jcps e.pubkey), ("sig", jcps e.sig), ("created_at", jcps e.createdAt),
    ("kind", jcps e.kind), ("content", jcps e.content), ("tags", Json.arr (e.tags.map fun t => Json.arr (t.map jcps).toArray).toArray)]

def frameJson : Option Frame → Json
  | none => Json.null
  | some (.eose sid) => Json.mkObj [("t", Json.str "EOSE"), ("sid", jcps sid)]
  | some (.event sid e) => Json.mkObj [("t", Json.str "EVENT"), ("sid", jcps sid), ("e", fieldsJson e)]

end JD

/-! ### admission decision logic -/
namespace AD
open NostrRelay.Admission

def getBool (j : Json) (k : String) : Bool := (j.getObjValAs? Bool k).toOption.getD false
def verdictStr : Verdict → String | .ok => "ok" | .reject => "reject" | .raises => "raises"
def bytesList (j : Json) : List (List Nat) := (j.getArr?.toOption.getD #[]).toList.map fun x => fromHex (x.getStr?.toOption.getD "")

def parseFacts (j : Json) : Facts :=
  { pubkeyParses := getBool j "pubkeyParses", sigDecodes := getBool j "sigDecodes", sigValid := getBool j "sigValid",
    idIsHash := getBool j "idIsHash", canonHex := getBool j "canonHex",
    delegations := (getArr j "delegations").toList.map fun d =>
      match d with
      | Json.bool b => Deleg.checked b
      | _ => Deleg.malformed }

def parseCfg (j : Json) : Cfg :=
  { maxEventSize := getInt j "max_event_size", oldestEvent := getInt j "oldest_event",
    validKinds := (getArr j "valid_kinds").toList.map fun x => x.getInt?.toOption.getD 0,
    whitelist := match j.getObjVal? "whitelist" with | .ok (Json.arr a) => some (bytesList (Json.arr a)) | _ => none,
    blacklist := match j.getObjVal? "blacklist" with | .ok (Json.arr a) => some (bytesList (Json.arr a)) | _ => none,
    requirePow := getInt j "require_pow", hellthreadLimit := getInt j "hellthread_limit",
    servicePubkey := fromHex (getStr j "service_pubkey") }

def parseEv (j : Json) : Ev :=
  { pubkey := fromHex (getStr j "pubkey"), kind := getInt j "kind", createdAt := getInt j "created_at",
    contentLen := getInt j "content_len", idBitLength := getInt j "id_bit_length", pTags := getInt j "p_tags" }

def runValidator (name : String) (c : Cfg) (now : Int) (e : Ev) (allowed denied : List (List Nat)) : Verdict :=
  match name with
  | "is_not_too_large" => isNotTooLarge c e
  | "is_recent" => isRecent c now e
  | "is_certain_kind" => isCertainKind c e
  | "is_author_whitelisted" => isAuthorWhitelisted c e
  | "is_author_blacklisted" => isAuthorBlacklisted c e
  | "is_pow" => isPow c e
  | "is_not_hellthread" => isNotHellthread c e
  | "is_service_event" => isServiceEvent c e
  | "is_pubkey_allowed" => isPubkeyAllowed allowed denied e
  | _ => .raises

def parseAuthTag (j : Json) : AuthTag :=
  match j.getArr?.toOption.map (·.toList) with
  | some [Json.str "relay", Json.bool b] => .relay b
  | some [Json.str "challenge", Json.bool b] => .challenge b
  | some [Json.str "short"] => .short
  | _ => .other

def parseAuthFacts (j : Json) : AuthFacts :=
  { isDict := getBool j "isDict",
    verifies := match j.getObjVal? "verifies" with | .ok (Json.bool b) => some b | _ => none,
    kind := getInt j "kind", createdAt := getInt j "created_at",
    tags := (getArr j "tags").toList.map parseAuthTag }

def parseOps (j : Json) : List SetOp :=
  (j.getArr?.toOption.getD #[]).toList.map fun o =>
    match getStr o "op" with
    | "clear" => SetOp.clear
    | "update" => SetOp.update (bytesList (o.getObjVal? "s" |>.toOption.getD Json.null))
    | _ => SetOp.intersectionUpdate (bytesList (o.getObjVal? "s" |>.toOption.getD Json.null))

end AD

namespace PD
open NostrRelay.Proto

def natOf (j : Json) (k : String) : Nat := (getInt j k).toNat
def natList (j : Json) (k : String) : List Nat := (getArr j k).toList.map fun x => (x.getInt?.toOption.getD 0).toNat
def n2j (n : Nat) : Json := Json.num (JsonNumber.fromNat n)

def frameJson : Frame → Json
  | .event s e => Json.arr #[Json.str "EVENT", n2j s, n2j e]
  | .eose s => Json.arr #[Json.str "EOSE", n2j s]
  | .ok e b => Json.arr #[Json.str "OK", n2j e, Json.bool b]
  | .notice => Json.arr #[Json.str "NOTICE"]

/-- one client message (or disconnect / release of a held query), then the settled schedule;
    `none` = the label was not enabled.  Returns the new state and the new list of held query tasks. -/
def runMsg (s : State) (held : List Nat) (m : Json) : Option (State × List Nat) :=
  let c := natOf m "c"
  let fuel := 1000000
  let pairs : List (Nat × Nat) := (getArr m "match").toList.map fun p =>
    match p.getArr?.toOption.getD #[] with
    | #[a, b] => ((a.getInt?.toOption.getD 0).toNat, (b.getInt?.toOption.getD 0).toNat)
    | _ => (0, 0)
  let fin (s1 : State) (h : List Nat) : State × List Nat := (settle s1 (fun _ i => pairs.contains (s1.owner i)) fuel h, h)
  match getStr m "t" with
  | "release" =>
    -- the held query of the subscription currently registered under (c, sub) may run now
    let sub := natOf m "sub"
    let ids := (s.registry.filter fun r => r.conn == c && r.name == sub).map (·.inst)
    some (fin s (held.filter fun i => !ids.contains i))
  | t =>
    let lbl : Label := match t with
      | "connect" => .connect c
      | "req" => .req c (natOf m "sub") (AD.getBool m "usable") (AD.getBool m "allowed") (natList m "answer")
      | "close" => .close c (natOf m "sub")
      | "event" => .event c (natOf m "ev") (AD.getBool m "accepted")
      | _ => .disconnect c
    (step s lbl).map fun s1 =>
      -- a REQ marked "hold" whose subscription got registered: its query task is kept suspended
      let h := if t == "req" && AD.getBool m "hold" && s1.registry.any (fun r => r.inst == s.nextInst) then held ++ [s.nextInst] else held
      fin s1 h

def session (j : Json) : Json :=
  let s0 : State := { subLimit := natOf j "limit", eoseOnCancel := AD.getBool j "eoc" }
  let (_, _, out) := (getArr j "msgs").toList.foldl (fun (acc : State × List Nat × List Json) m =>
    let (s, held, out) := acc
    match runMsg s held m with
    | none => (s, held, out ++ [Json.str "disabled"])
    | some (s', held') =>
      let frames := s'.connIds.map fun c => Json.arr #[n2j c, Json.arr (((s'.transcript c).drop (s.transcript c).length).map frameJson).toArray]
      let subs := s'.registry.map fun r => Json.arr #[n2j r.conn, n2j r.name]
      (s', held', out ++ [Json.mkObj [("frames", Json.arr frames.toArray), ("subs", Json.arr subs.toArray)]])) (s0, [], [])
  Json.arr out.toArray

/-- a recorded run of the real relay as a list of labels: run it through `step`; the answer is the
    index of the first label that is not enabled (or null) and the transcripts of all connections -/
def labelOf (m : Json) : Label :=
  let c := natOf m "c"
  match getStr m "t" with
  | "connect" => .connect c
  | "req" => .req c (natOf m "sub") (AD.getBool m "usable") (AD.getBool m "allowed") (natList m "answer")
  | "close" => .close c (natOf m "sub")
  | "event" => .event c (natOf m "ev") (AD.getBool m "accepted")
  | "notify" => .notify (natOf m "ev") (natOf m "inst") (AD.getBool m "match")
  | "query" => .queryStep (natOf m "inst")
  | "send" => .send c
  | _ => .disconnect c

def trace (j : Json) : Json :=
  let s0 : State := { subLimit := natOf j "limit", eoseOnCancel := AD.getBool j "eoc" }
  let labels := (getArr j "labels").toList
  let rec go (s : State) (i : Nat) : List Json → State × Option Nat
    | [] => (s, none)
    | m :: rest => match step s (labelOf m) with
      | none => (s, some i)
      | some s' => go s' (i + 1) rest
  let (s, bad) := go s0 0 labels
  let frames := s.connIds.map fun c => Json.arr #[n2j c, Json.arr ((s.transcript c).map frameJson).toArray]
  Json.mkObj [("disabled_at", match bad with | some i => n2j i | none => Json.null),
              ("transcripts", Json.arr frames.toArray),
              ("registry", Json.arr (s.registry.map fun r => Json.arr #[n2j r.conn, n2j r.name, n2j r.inst]).toArray),
              ("pending_tasks", n2j s.notifyTasks.length)]

end PD


namespace HD
open NostrRelay.Handler

partial def toJ : Json → J
  | .null => .null
  | .bool b => .bool b
  | .num _ => .num
  | .str s => .str s
  | .arr xs => .arr (xs.toList.map toJ)
  | .obj _ => .obj

def cmdStr : Option Cmd → String
  | none => "none" | some .event => "EVENT" | some .req => "REQ" | some .close => "CLOSE" | some .auth => "AUTH"

def excOf : String → Exc
  | "StorageError" => .storageError | "AuthenticationError" => .authError | "WebSocketDisconnected" => .wsDisconnected
  | "ConnectionClosedError" => .connClosedError | "ConnectionClosedOK" => .connClosedOK | "JSONDecodeError" => .jsonDecode
  | "TimeoutError" => .timeout | "BaseException" => .baseException | _ => .otherException

def nextStr : Next → String
  | .continueWithNotice => "continue+notice" | .continueSilently => "continue" | .endClean none => "end"
  | .endClean (some n) => "end:" ++ toString n | .escapeAfterCleanup => "escape"

def respStr : Resp → String
  | .silent => "silent" | .ok => "ok" | .notice => "notice" | .served => "served" | .closed => "closed"

end HD

structure St where
  rlCfg : NostrRelay.RateLimiter.Config := {}
  rl : NostrRelay.RateLimiter.State := {}
  kv : NostrRelay.KV.Store := NostrRelay.KV.init
  sql : NostrRelay.SQL.State := {}

def step (st : St) (j : Json) : St × Json :=
  match getStr j "op" with
  | "rl.reset" => ({ st with rlCfg := RL.parseConfig (j.getObjVal? "cfg" |>.toOption.getD Json.null), rl := {} }, Json.str "ok")
  | "rl.limited" =>
    match NostrRelay.RateLimiter.isLimited st.rlCfg st.rl (getStr j "addr") (getStr j "cmd") (getInt j "now") with
    | none => (st, Json.str "raise")
    | some (b, s') => ({ st with rl := s' }, Json.bool b)
  | "rl.cleanup" => ({ st with rl := NostrRelay.RateLimiter.cleanup st.rlCfg st.rl (getInt j "now") }, Json.str "ok")
  | "rl.dump" => (st, RL.dumpState st.rl)
  | "rl.parseInterval" =>
    (st, match NostrRelay.RateLimiter.parseInterval (getStr j "s") with | some i => Json.num (JsonNumber.fromInt i) | none => Json.str "raise")
  | "kv.reset" => ({ st with kv := NostrRelay.KV.init }, Json.str "ok")
  | "kv.task" =>
    let t := KVD.parseTask (j.getObjVal? "task" |>.toOption.getD Json.null)
    match NostrRelay.KV.taskBody st.kv t with
    | some s' => ({ st with kv := s' }, Json.str "ok")
    | none => (st, Json.str "abort")
  | "kv.dump" => (st, jHexList (NostrRelay.KV.skeys st.kv))
  | "kv.get" => (st, Json.bool (NostrRelay.KV.getEvent st.kv (fromHex (getStr j "id"))).isSome)
  | "kv.plan" =>
    let f := KVD.parseFilter (j.getObjVal? "filter" |>.toOption.getD Json.null)
    match NostrRelay.KV.planFilter f (KVD.defaultLimit j) (getInt j "max_limit").toNat with
    | none => (st, Json.null)
    | some p => (st, Json.mkObj [("index", Json.str (KVD.idxName p.index)), ("mats", jHexList p.mats),
        ("mats2", jHexList p.mats2), ("limit", KVD.optNat p.limit), ("raises", Json.bool p.raises)])
  | "kv.exec" =>
    let f := KVD.parseFilter (j.getObjVal? "filter" |>.toOption.getD Json.null)
    match NostrRelay.KV.planFilter f (KVD.defaultLimit j) (getInt j "max_limit").toNat with
    | none => (st, Json.null)
    | some p =>
      let all := NostrRelay.KV.executePlan st.kv { p with limit := none }
      let out := NostrRelay.KV.executePlan st.kv p
      (st, Json.mkObj [("ids", jHexList out), ("all", jHexList all), ("unordered", Json.bool p.unordered),
        ("limit", KVD.optNat p.limit)])
  | "kv.spec" =>
    let f := KVD.parseFilter (j.getObjVal? "filter" |>.toOption.getD Json.null)
    let evs := NostrRelay.KV.storedEvents st.kv
    (st, Json.mkObj [("strict", jHexList ((evs.filter (NostrRelay.KV.matchesSpec true f)).map (·.id))),
                     ("incl", jHexList ((evs.filter (NostrRelay.KV.matchesSpec false f)).map (·.id))),
                     ("ts", Json.mkObj (evs.map fun e => (toHex e.id, Json.num (JsonNumber.fromInt e.createdAt))))])
  | "kv.gc" => (st, jHexList (NostrRelay.KV.gcCollect st.kv (getInt j "now").toNat))
  | "sql.reset" => ({ st with sql := {} }, Json.str "ok")
  | "sql.add" =>
    let e := KVD.parseEvent (j.getObjVal? "ev" |>.toOption.getD Json.null)
    match NostrRelay.SQL.addEvent st.sql e with
    | .ok s' ch => ({ st with sql := s' }, Json.str (if ch then "ok:true" else "ok:false"))
    | .raises => (st, Json.str "raises")
  | "sql.dump" => (st, SQLD.dump st.sql)
  | "sql.gc" => ({ st with sql := NostrRelay.SQL.gcSql st.sql (getInt j "now").toNat }, Json.str "ok")
  | "sql.query" =>
    let fs := SQLD.parseFilters j
    let rows := NostrRelay.SQL.matchingRows st.sql fs
    let lim := NostrRelay.SQL.effectiveLimit fs (getInt j "default_limit").toNat (getInt j "max_limit").toNat
    let strict := st.sql.events.filter fun e => fs.any fun f => NostrRelay.KV.matchesSpec true f e
    let incl := st.sql.events.filter fun e => fs.any fun f => NostrRelay.KV.matchesSpec false f e
    (st, Json.mkObj [("all", jHexList (rows.map (·.id))), ("limit", Json.num (JsonNumber.fromNat lim)),
      ("strict", jHexList (strict.map (·.id))), ("incl", jHexList (incl.map (·.id))),
      ("ts", Json.mkObj (st.sql.events.map fun e => (toHex e.id, Json.num (JsonNumber.fromInt e.createdAt))))])
  | "json.event" =>
    (st, JD.jcps (NostrRelay.Json.eventAsJson (JD.field j "sid") (JD.parseFields (j.getObjVal? "e" |>.toOption.getD Json.null))))
  | "json.eose" => (st, JD.jcps (NostrRelay.Json.eoseFrame (JD.field j "sid")))
  | "val.hex" =>
    -- ids / authors of a filter: list of strings (code points) → validated strings and what the planner decodes, or null
    let raw := (getArr j "values").toList.map JD.cps
    (st, match NostrRelay.Validate.validateHexList raw with
      | none => Json.null
      | some hs => Json.mkObj [("validated", Json.arr (hs.map JD.jcps).toArray),
          ("decoded", jHexList (NostrRelay.Validate.decodeAll hs))])
  | "val.kinds" =>
    let raw : List Int := (getArr j "values").toList.map fun x => (x.getInt?.toOption.getD 0)
    (st, Json.arr ((NostrRelay.Validate.sortKinds raw).map fun k => Json.num (JsonNumber.fromInt k)).toArray)
  | "kv.storable" =>
    let e := KVD.parseEvent (j.getObjVal? "ev" |>.toOption.getD Json.null)
    let r := MPD.parseRow ((j.getObjVal? "row").toOption.getD Json.null)
    (st, Json.bool (NostrRelay.KV.checkStorable e (NostrRelay.MP.encodeEvent r).isSome))
  | "mp.pack" =>
    let v := MPD.parseV ((j.getObjVal? "v").toOption.getD Json.null)
    (st, if NostrRelay.MP.packable v then Json.str (toHex (NostrRelay.MP.pack v)) else Json.str "raises")
  | "mp.unpack" =>
    (st, match NostrRelay.MP.unpackb (fromHex (getStr j "data")) with
      | some v => MPD.dumpV v
      | none => Json.null)
  | "mp.record" =>
    let r := MPD.parseRow ((j.getObjVal? "row").toOption.getD Json.null)
    (st, match NostrRelay.MP.encodeEvent r with
      | none => Json.mkObj [("data", Json.str "raises")]
      | some d => Json.mkObj [("data", Json.str (toHex d)),
          ("back", match NostrRelay.MP.decodeEvent d with | some r' => MPD.dumpRow r' | none => Json.null)])
  | "json.enc" => (st, JD.jcps (NostrRelay.Json.encodeBasestring (JD.field j "s")))
  | "json.parse" => (st, JD.frameJson (NostrRelay.Json.parseFrame (JD.field j "s")))
  | "adm.isSigned" => (st, Json.str (AD.verdictStr (NostrRelay.Admission.isSigned (AD.parseFacts (j.getObjVal? "facts" |>.toOption.getD Json.null)))))
  | "adm.validator" =>
    let c := AD.parseCfg (j.getObjVal? "cfg" |>.toOption.getD Json.null)
    let e := AD.parseEv (j.getObjVal? "ev" |>.toOption.getD Json.null)
    (st, Json.str (AD.verdictStr (AD.runValidator (getStr j "name") c (getInt j "now") e
      (AD.bytesList (j.getObjVal? "allowed" |>.toOption.getD Json.null)) (AD.bytesList (j.getObjVal? "denied" |>.toOption.getD Json.null)))))
  | "adm.nip05" =>
    let stt := match getStr j "status" with
      | "enabled" => NostrRelay.Admission.Nip05Status.enabled
      | "passive" => NostrRelay.Admission.Nip05Status.passive
      | _ => NostrRelay.Admission.Nip05Status.off
    let pk : Option (List Nat) := match j.getObjVal? "pubkey" with | .ok (Json.str h) => some (fromHex h) | _ => none
    let r := NostrRelay.Admission.isNip05Verified stt (getInt j "kind") (fromHex (getStr j "content")) pk
      (AD.bytesList (j.getObjVal? "allowed" |>.toOption.getD Json.null))
    (st, Json.mkObj [("verdict", Json.str (AD.verdictStr r.1)),
      ("allowed", Json.arr ((r.2.map toHex).toArray.qsort (· < ·) |>.map Json.str))])
  | "adm.getValidator" =>
    -- entries: "unresolved" | "notCallable" | the verdict ("ok" / "reject" / "raises") the named function gives this event
    let es : List (NostrRelay.Admission.Entry Unit) := (getArr j "entries").toList.map fun x =>
      match x.getStr?.toOption.getD "" with
      | "unresolved" => .unresolved
      | "notCallable" => .notCallable
      | "ok" => .fn (fun _ => .ok)
      | "reject" => .fn (fun _ => .reject)
      | _ => .fn (fun _ => .raises)
    (st, match NostrRelay.Admission.getValidator es with
      | none => Json.null
      | some v => Json.str (AD.verdictStr (v ())))
  | "adm.auth" => (st, Json.str (AD.verdictStr (NostrRelay.Admission.authenticate (getInt j "now") (AD.parseAuthFacts (j.getObjVal? "facts" |>.toOption.getD Json.null)))))
  | "adm.canDo" =>
    let ar : Option (List Char) := match j.getObjVal? "action_roles" with | .ok (Json.str r) => some r.toList | _ => none
    (st, Json.bool (NostrRelay.Admission.canDo (AD.getBool j "enabled") ar (getStr j "token_roles").toList))
  | "ann.run" =>
    -- steps: [{"submit": id, "eph": bool} | {"commit": true}]
    let b := if getStr j "backend" == "kv" then NostrRelay.Announce.Backend.kv else NostrRelay.Announce.Backend.sql
    let steps : List NostrRelay.Announce.Step := (getArr j "steps").toList.map fun m =>
      match m.getObjValAs? Nat "submit" with
      | .ok n => .submit ⟨n, AD.getBool m "eph"⟩
      | .error _ => if (m.getObjVal? "writerTake").toOption.isSome then .writerTake else .writerCommit
    let r := NostrRelay.Announce.run b steps
    (st, Json.mkObj [
      ("announced", Json.arr (r.announced.map fun a => Json.arr #[Json.num a.id, Json.bool a.ephemeral, Json.bool a.loadable]).toArray),
      ("accepted", Json.arr (r.accepted.map fun e => Json.num e.id).toArray),
      ("queued", Json.num r.queue.length)])
  | "adm.observable" =>
    let cur := AD.bytesList (j.getObjVal? "cur" |>.toOption.getD Json.null)
    let obs := NostrRelay.Admission.observable cur (AD.parseOps (j.getObjVal? "ops" |>.toOption.getD Json.null))
    (st, Json.arr (obs.map fun st => Json.arr ((st.map toHex).toArray.qsort (· < ·) |>.map Json.str)).toArray)
  | "hd.gate" =>
    let c := NostrRelay.Handler.gate (HD.toJ (j.getObjVal? "msg" |>.toOption.getD Json.null))
    (st, Json.mkObj [("cmd", Json.str (HD.cmdStr c)), ("allowed", Json.arr ((NostrRelay.Handler.allowed c).map fun r => Json.str (HD.respStr r)).toArray)])
  | "hd.ladder" => (st, Json.str (HD.nextStr (NostrRelay.Handler.ladder (HD.excOf (getStr j "exc")))))
  | "hd.eventLadder" =>
    let (ok, n) := NostrRelay.Handler.eventLadder (some (HD.excOf (getStr j "exc")))
    (st, Json.arr #[match ok with | some b => Json.bool b | none => Json.null, Json.str (HD.nextStr n)])
  | "proto.session" => (st, PD.session j)
  | "proto.trace" => (st, PD.trace j)
  | "live.match" =>
    let fs := SQLD.parseFilters j
    let e := KVD.parseEvent (j.getObjVal? "ev" |>.toOption.getD Json.null)
    (st, Json.bool (NostrRelay.KV.liveMatch fs e))
  | "nt.read" => (st, jHexList (NostrRelay.Notifier.readLoop 32 (by decide) [] (hexList j "chunks")))
  | "nt.readOld" => (st, jHexList (NostrRelay.Notifier.readLoopOld 32 (by decide) [] (hexList j "chunks")))
  | op => (st, Json.mkObj [("error", Json.str ("unknown op " ++ op))])

partial def loop (h : IO.FS.Stream) (out : IO.FS.Stream) (st : St) : IO Unit := do
  let line ← h.getLine
  if line.isEmpty then return ()
  match Json.parse line with
  | .error e =>
    out.putStrLn (Json.mkObj [("error", Json.str e)]).compress
    out.flush
    loop h out st
  | .ok j =>
    let (st', r) := step st j
    out.putStrLn r.compress
    out.flush
    loop h out st'

end Driver

def main : IO Unit := do
  let stdin ← IO.getStdin
  let stdout ← IO.getStdout
  Driver.loop stdin stdout {}
