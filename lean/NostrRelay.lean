-- Root of the `NostrRelay` library: models (import-free) and property theorems.
import NostrRelay.Model.Bytes
import NostrRelay.Model.RateLimiter
import NostrRelay.Model.Notifier
import NostrRelay.Model.KV
import NostrRelay.Model.SQL
import NostrRelay.Props.C18
import NostrRelay.Props.C20
import NostrRelay.Props.C10
import NostrRelay.Props.C01
import NostrRelay.Props.C02
import NostrRelay.Props.C12
import NostrRelay.Props.C11
import NostrRelay.Props.KVScan
import NostrRelay.Props.C09
import NostrRelay.Props.C08
import NostrRelay.Props.C17
