-- Root of the `NostrRelay` library: models (import-free) and property theorems.
import NostrRelay.Model.RateLimiter
import NostrRelay.Props.C18
