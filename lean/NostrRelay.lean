-- Root of the `NostrRelay` library: models (import-free) and property theorems.
import NostrRelay.Model.RateLimiter
import NostrRelay.Model.Notifier
import NostrRelay.Props.C18
import NostrRelay.Props.C20
