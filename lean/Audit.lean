/-
Axiom audit: for every theorem declared in a `NostrRelay.Props.*` module print the axioms it
depends on.  Run with `lake env lean Audit.lean`.  Output lines:
  THEOREM <module> <name> AXIOMS <a1,a2,...>
-/
import Lean
import NostrRelay

open Lean Elab Command

#eval show CommandElabM Unit from do
  let env ← getEnv
  let mods := env.header.moduleNames
  let mut out : Array String := #[]
  for (n, ci) in env.constants.map₁.toList do
    match ci with
    | .thmInfo _ =>
      match env.getModuleIdxFor? n with
      | some idx =>
        let m := mods[idx.toNat]!
        if (`NostrRelay.Props).isPrefixOf m && !n.isInternal then
          let axs ← liftCoreM (collectAxioms n)
          let axs := (axs.map toString).qsort (· < ·)
          out := out.push s!"THEOREM {m} {n} AXIOMS {String.intercalate "," axs.toList}"
      | none => pure ()
    | _ => pure ()
  for l in out.qsort (· < ·) do
    IO.println l
