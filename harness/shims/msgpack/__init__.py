"""Stand-in for the msgpack distribution: re-export pip's vendored genuine msgpack (pure-Python fallback)."""
from pip._vendor.msgpack import *  # noqa
from pip._vendor.msgpack import packb, unpackb, Packer, Unpacker, version  # noqa
