"""
Stand-in for the optional `nostr-bot` package, which is not installed in this sandbox: nostr_relay/verification.py does
`from nostr_bot import CommunicatorBot` at import time, and the validator `is_nip05_verified` (C16) lives in that module.
Only the name is needed to import the module; the bot itself (network, aiohttp) is never run by the harness.
"""


class CommunicatorBot:
    LISTEN_KIND = None
    LISTEN_PUBKEY = None
    PRIVATE_KEY = None
    PUBLIC_KEY = None

    def __init__(self, *a, **k):
        import logging
        self.log = logging.getLogger("nostr_bot.standin")
