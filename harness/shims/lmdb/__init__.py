"""
py-lmdb compatible subset used by nostr_relay.storage.kv, for a sandbox without py-lmdb.

Two interchangeable engines:
  E2  ctypes binding to a real liblmdb.so (third_party/liblmdb.so, else the image's copy)
  E1  pure-Python reference engine (sorted key list, snapshot transactions)
Select with VERIF_LMDB_ENGINE=E1|E2 (default: E2 if loadable, else E1).

Test hooks (used by the fault enumeration of C07, never by nostr_relay):
  lmdb.FAULT = {"countdown": k, "exc": Exception}  -> the k-th put/delete from now raises
  lmdb.MUTATION_LOG = []                          -> every put/delete is appended (op, key)
  lmdb.BEGIN_FAULT = {"countdown": k, "exc": E}   -> the k-th begin of a write transaction from now raises
"""
import os
import ctypes
import threading
import bisect

__all__ = ["open", "Environment", "Transaction", "Cursor", "Error", "BadValsizeError"]

version = lambda: (0, 9, 31)


class Error(Exception):
    pass


class BadValsizeError(Error):
    pass


class MapFullError(Error):
    pass


class NotFoundError(Error):
    pass


class InjectedFault(Error):
    pass


FAULT = None
MUTATION_LOG = None
BEGIN_FAULT = None
_hook_lock = threading.Lock()


def _mutation_hook(op, key):
    global FAULT
    if MUTATION_LOG is not None:
        MUTATION_LOG.append((op, bytes(key)))
    f = FAULT
    if f is not None:
        with _hook_lock:
            f["countdown"] -= 1
            fire = f["countdown"] == 0
        if fire:
            if f.get("exit") is not None:
                os._exit(f["exit"])
            raise f.get("exc", InjectedFault)("injected fault at %s %r" % (op, bytes(key)))


# --------------------------------------------------------------------------------------
# E2: ctypes over liblmdb
# --------------------------------------------------------------------------------------

_HERE = os.path.dirname(os.path.abspath(__file__))
_CANDIDATES = [
    os.environ.get("VERIF_LIBLMDB", ""),
    os.path.normpath(os.path.join(_HERE, "..", "..", "..", "third_party", "liblmdb.so")),
    "/root/miniconda/lib/liblmdb.so",
]

_lib = None
if os.environ.get("VERIF_LMDB_ENGINE", "") != "E1":
    for _p in _CANDIDATES:
        if _p and os.path.exists(_p):
            try:
                _lib = ctypes.CDLL(_p)
                break
            except OSError:
                _lib = None

ENGINE = "E2" if _lib is not None else "E1"


class _MDBVal(ctypes.Structure):
    _fields_ = [("mv_size", ctypes.c_size_t), ("mv_data", ctypes.c_void_p)]


class _MDBStat(ctypes.Structure):
    _fields_ = [
        ("ms_psize", ctypes.c_uint),
        ("ms_depth", ctypes.c_uint),
        ("ms_branch_pages", ctypes.c_size_t),
        ("ms_leaf_pages", ctypes.c_size_t),
        ("ms_overflow_pages", ctypes.c_size_t),
        ("ms_entries", ctypes.c_size_t),
    ]


MDB_FIRST, MDB_GET_CURRENT, MDB_LAST, MDB_NEXT, MDB_PREV, MDB_SET_RANGE = 0, 4, 6, 8, 12, 17
MDB_NOSUBDIR, MDB_NOSYNC, MDB_RDONLY, MDB_NOTLS, MDB_CREATE = 0x4000, 0x10000, 0x20000, 0x200000, 0x40000
MDB_NOTFOUND, MDB_BAD_VALSIZE, MDB_MAP_FULL = -30798, -30781, -30792

if _lib is not None:
    P = ctypes.POINTER
    _lib.mdb_strerror.restype = ctypes.c_char_p
    _lib.mdb_env_create.argtypes = [P(ctypes.c_void_p)]
    _lib.mdb_env_open.argtypes = [ctypes.c_void_p, ctypes.c_char_p, ctypes.c_uint, ctypes.c_uint]
    _lib.mdb_env_set_mapsize.argtypes = [ctypes.c_void_p, ctypes.c_size_t]
    _lib.mdb_env_set_maxreaders.argtypes = [ctypes.c_void_p, ctypes.c_uint]
    _lib.mdb_env_close.argtypes = [ctypes.c_void_p]
    _lib.mdb_env_close.restype = None
    _lib.mdb_env_stat.argtypes = [ctypes.c_void_p, P(_MDBStat)]
    _lib.mdb_txn_begin.argtypes = [ctypes.c_void_p, ctypes.c_void_p, ctypes.c_uint, P(ctypes.c_void_p)]
    _lib.mdb_txn_commit.argtypes = [ctypes.c_void_p]
    _lib.mdb_txn_abort.argtypes = [ctypes.c_void_p]
    _lib.mdb_txn_abort.restype = None
    _lib.mdb_dbi_open.argtypes = [ctypes.c_void_p, ctypes.c_char_p, ctypes.c_uint, P(ctypes.c_uint)]
    _lib.mdb_get.argtypes = [ctypes.c_void_p, ctypes.c_uint, P(_MDBVal), P(_MDBVal)]
    _lib.mdb_put.argtypes = [ctypes.c_void_p, ctypes.c_uint, P(_MDBVal), P(_MDBVal), ctypes.c_uint]
    _lib.mdb_del.argtypes = [ctypes.c_void_p, ctypes.c_uint, P(_MDBVal), P(_MDBVal)]
    _lib.mdb_cursor_open.argtypes = [ctypes.c_void_p, ctypes.c_uint, P(ctypes.c_void_p)]
    _lib.mdb_cursor_close.argtypes = [ctypes.c_void_p]
    _lib.mdb_cursor_close.restype = None
    _lib.mdb_cursor_get.argtypes = [ctypes.c_void_p, P(_MDBVal), P(_MDBVal), ctypes.c_uint]


def _raise(rc, what):
    if rc == MDB_BAD_VALSIZE:
        raise BadValsizeError("%s: MDB_BAD_VALSIZE" % what)
    if rc == MDB_MAP_FULL:
        raise MapFullError("%s: MDB_MAP_FULL" % what)
    msg = _lib.mdb_strerror(rc).decode() if _lib is not None else str(rc)
    raise Error("%s: %s" % (what, msg))


def _val(b):
    b = bytes(b)
    buf = ctypes.create_string_buffer(b, len(b))
    v = _MDBVal(len(b), ctypes.cast(buf, ctypes.c_void_p))
    v._keep = buf
    return v


def _bytes(v):
    if v.mv_size == 0:
        return b""
    return ctypes.string_at(v.mv_data, v.mv_size)


class _E2Env:
    def __init__(self, path, map_size, subdir, sync, readonly, max_readers):
        self._env = ctypes.c_void_p()
        rc = _lib.mdb_env_create(ctypes.byref(self._env))
        if rc:
            _raise(rc, "mdb_env_create")
        _lib.mdb_env_set_mapsize(self._env, map_size)
        _lib.mdb_env_set_maxreaders(self._env, max_readers)
        flags = MDB_NOTLS
        if not subdir:
            flags |= MDB_NOSUBDIR
        if not sync:
            flags |= MDB_NOSYNC
        if readonly:
            flags |= MDB_RDONLY
        if subdir and not os.path.isdir(path):
            os.makedirs(path)
        rc = _lib.mdb_env_open(self._env, path.encode(), flags, 0o644)
        if rc:
            _lib.mdb_env_close(self._env)
            _raise(rc, "mdb_env_open %s" % path)
        # open the main dbi once
        txn = ctypes.c_void_p()
        rc = _lib.mdb_txn_begin(self._env, None, MDB_RDONLY if readonly else 0, ctypes.byref(txn))
        if rc:
            _raise(rc, "mdb_txn_begin")
        dbi = ctypes.c_uint()
        rc = _lib.mdb_dbi_open(txn, None, 0, ctypes.byref(dbi))
        if rc:
            _raise(rc, "mdb_dbi_open")
        _lib.mdb_txn_commit(txn)
        self.dbi = dbi.value
        self.write_lock = threading.Lock()

    def begin(self, write):
        return _E2Txn(self, write)

    def stat(self):
        st = _MDBStat()
        _lib.mdb_env_stat(self._env, ctypes.byref(st))
        return {
            "psize": st.ms_psize,
            "depth": st.ms_depth,
            "branch_pages": st.ms_branch_pages,
            "leaf_pages": st.ms_leaf_pages,
            "overflow_pages": st.ms_overflow_pages,
            "entries": st.ms_entries,
        }

    def close(self):
        if self._env:
            _lib.mdb_env_close(self._env)
            self._env = None


class _E2Txn:
    def __init__(self, env, write):
        self.env = env
        self.write = write
        self._txn = ctypes.c_void_p()
        rc = _lib.mdb_txn_begin(env._env, None, 0 if write else MDB_RDONLY, ctypes.byref(self._txn))
        if rc:
            _raise(rc, "mdb_txn_begin")
        self.cursors = []

    def get(self, key):
        k = _val(key)
        v = _MDBVal()
        rc = _lib.mdb_get(self._txn, self.env.dbi, ctypes.byref(k), ctypes.byref(v))
        if rc == MDB_NOTFOUND:
            return None
        if rc:
            _raise(rc, "mdb_get")
        return _bytes(v)

    def put(self, key, value):
        k = _val(key)
        v = _val(value)
        rc = _lib.mdb_put(self._txn, self.env.dbi, ctypes.byref(k), ctypes.byref(v), 0)
        if rc:
            _raise(rc, "mdb_put")
        return True

    def delete(self, key):
        k = _val(key)
        rc = _lib.mdb_del(self._txn, self.env.dbi, ctypes.byref(k), None)
        if rc == MDB_NOTFOUND:
            return False
        if rc:
            _raise(rc, "mdb_del")
        return True

    def cursor(self):
        c = _E2Cursor(self)
        self.cursors.append(c)
        return c

    def _close_cursors(self):
        for c in self.cursors:
            c.close()
        self.cursors = []

    def commit(self):
        self._close_cursors()
        rc = _lib.mdb_txn_commit(self._txn)
        self._txn = None
        if rc:
            _raise(rc, "mdb_txn_commit")

    def abort(self):
        self._close_cursors()
        if self._txn:
            _lib.mdb_txn_abort(self._txn)
            self._txn = None


class _E2Cursor:
    def __init__(self, txn):
        self.txn = txn
        self._cur = ctypes.c_void_p()
        rc = _lib.mdb_cursor_open(txn._txn, txn.env.dbi, ctypes.byref(self._cur))
        if rc:
            _raise(rc, "mdb_cursor_open")

    def op(self, op, key=None):
        """returns (found, key, value)"""
        k = _val(key) if key is not None else _MDBVal()
        v = _MDBVal()
        rc = _lib.mdb_cursor_get(self._cur, ctypes.byref(k), ctypes.byref(v), op)
        if rc == MDB_NOTFOUND or rc == 22:  # EINVAL: GET_CURRENT on an unpositioned cursor
            return False, b"", b""
        if rc:
            _raise(rc, "mdb_cursor_get")
        return True, _bytes(k), _bytes(v)

    def close(self):
        if self._cur:
            _lib.mdb_cursor_close(self._cur)
            self._cur = None


# --------------------------------------------------------------------------------------
# E1: pure-Python engine.  A store is an immutable-by-convention sorted list of keys plus a dict.
# A cursor remembers its position *by key* (LMDB fixes cursors up across deletes).
# --------------------------------------------------------------------------------------


class _E1Env:
    def __init__(self, path, *a, **kw):
        self.keys = []
        self.vals = {}
        self.write_lock = threading.Lock()
        self.path = path

    def begin(self, write):
        return _E1Txn(self, write)

    def stat(self):
        return {"psize": 4096, "depth": 1, "branch_pages": 0, "leaf_pages": 1, "overflow_pages": 0,
                "entries": len(self.keys)}

    def close(self):
        pass


class _E1Txn:
    def __init__(self, env, write):
        self.env = env
        self.write = write
        # snapshot (copy-on-begin; stores in the experiments are small)
        self.keys = list(env.keys)
        self.vals = dict(env.vals)
        self.cursors = []

    def get(self, key):
        return self.vals.get(bytes(key))

    def put(self, key, value):
        key = bytes(key)
        if len(key) == 0 or len(key) > 511:
            raise BadValsizeError("mdb_put: MDB_BAD_VALSIZE")
        if key not in self.vals:
            bisect.insort(self.keys, key)
        self.vals[key] = bytes(value)
        return True

    def delete(self, key):
        key = bytes(key)
        if len(key) == 0 or len(key) > 511:
            raise BadValsizeError("mdb_del: MDB_BAD_VALSIZE")
        if key in self.vals:
            del self.vals[key]
            i = bisect.bisect_left(self.keys, key)
            del self.keys[i]
            for c in self.cursors:
                if c.pos == key:
                    c.deleted = True
            return True
        return False

    def cursor(self):
        c = _E1Cursor(self)
        self.cursors.append(c)
        return c

    def commit(self):
        if self.write:
            self.env.keys = self.keys
            self.env.vals = self.vals

    def abort(self):
        pass


class _E1Cursor:
    """pos: None = unpositioned; b'...' = at that key (or, if deleted, at the gap where it was);
    eof: past the end (after a failed set_range / next)"""

    def __init__(self, txn):
        self.txn = txn
        self.pos = None
        self.deleted = False
        self.eof = False

    def _at(self, i):
        keys = self.txn.keys
        if 0 <= i < len(keys):
            self.pos, self.deleted, self.eof = keys[i], False, False
            return True, keys[i], self.txn.vals[keys[i]]
        return False, b"", b""

    def op(self, op, key=None):
        keys = self.txn.keys
        if op == MDB_SET_RANGE:
            i = bisect.bisect_left(keys, bytes(key))
            if i < len(keys):
                return self._at(i)
            self.pos, self.deleted, self.eof = None, False, True
            return False, b"", b""
        if op == MDB_FIRST:
            r = self._at(0)
            if not r[0]:
                self.pos = None
            return r
        if op == MDB_LAST:
            r = self._at(len(keys) - 1)
            if not r[0]:
                self.pos = None
            return r
        if op == MDB_GET_CURRENT:
            if self.pos is None:
                return False, b"", b""
            if self.deleted:
                # LMDB: cursor sits on the successor of a deleted item
                i = bisect.bisect_left(keys, self.pos)
                if i < len(keys):
                    return True, keys[i], self.txn.vals[keys[i]]
                return False, b"", b""
            return True, self.pos, self.txn.vals[self.pos]
        if op == MDB_PREV:
            if self.pos is None:
                # unpositioned or EOF: MDB_PREV behaves like MDB_LAST
                r = self._at(len(keys) - 1)
                return r
            i = bisect.bisect_left(keys, self.pos)  # index of pos, or of its successor if deleted
            r = self._at(i - 1)
            if not r[0]:
                pass  # LMDB leaves the cursor where it was
            return r
        if op == MDB_NEXT:
            if self.pos is None:
                if self.eof:
                    return False, b"", b""
                return self._at(0)
            i = bisect.bisect_left(keys, self.pos)
            if not self.deleted:
                i += 1
            r = self._at(i)
            if not r[0]:
                self.eof = True
            return r
        raise Error("unsupported cursor op %r" % op)

    def close(self):
        pass


# --------------------------------------------------------------------------------------
# py-lmdb facade
# --------------------------------------------------------------------------------------


class Environment:
    def __init__(self, path, map_size=10485760, subdir=True, readonly=False, metasync=True, sync=True,
                 map_async=False, mode=0o755, create=True, readahead=True, writemap=False,
                 meminit=True, max_readers=126, max_dbs=0, max_spare_txns=1, lock=True):
        if isinstance(path, bytes):
            path = path.decode()
        self._path = path
        if ENGINE == "E2":
            self._e = _E2Env(path, map_size, subdir, sync, readonly, max_readers)
        else:
            self._e = _E1Env(path)
        self._open = True

    def path(self):
        return self._path

    def begin(self, db=None, parent=None, write=False, buffers=False):
        return Transaction(self, write=write, buffers=buffers)

    def stat(self):
        return self._e.stat()

    def max_key_size(self):
        return 511

    def sync(self, force=False):
        pass

    def close(self):
        if self._open:
            self._open = False
            self._e.close()

    def __enter__(self):
        return self

    def __exit__(self, *a):
        self.close()


def open(path=None, **kwargs):
    return Environment(path, **kwargs)


class Transaction:
    def __init__(self, env, db=None, parent=None, write=False, buffers=False):
        self.env = env
        self.write = write
        self._mutations = 0
        if write and BEGIN_FAULT is not None:
            f = BEGIN_FAULT
            with _hook_lock:
                f["countdown"] -= 1
                fire = f["countdown"] == 0
            if fire:
                raise f.get("exc", InjectedFault)("injected fault at the begin of a write transaction")
        if write:
            env._e.write_lock.acquire()
        try:
            self._t = env._e.begin(write)
        except BaseException:
            if write:
                env._e.write_lock.release()
            raise
        self._done = False

    def get(self, key, default=None, db=None):
        r = self._t.get(key)
        return default if r is None else r

    def put(self, key, value, dupdata=True, overwrite=True, append=False, db=None):
        if not self.write:
            raise Error("read-only transaction")
        _mutation_hook("put", key)
        self._mutations += 1
        return self._t.put(key, value)

    def delete(self, key, value=b"", db=None):
        if not self.write:
            raise Error("read-only transaction")
        _mutation_hook("delete", key)
        self._mutations += 1
        return self._t.delete(key)

    def cursor(self, db=None):
        return Cursor(self)

    def stat(self, db=None):
        return self.env.stat()

    def _finish(self):
        self._done = True
        if self.write:
            self.env._e.write_lock.release()

    def commit(self):
        if not self._done:
            try:
                _mutation_hook("commit", b"") if self.write else None
                self._t.commit()
            except BaseException:
                try:
                    self._t.abort()
                finally:
                    self._finish()
                raise
            self._finish()

    def abort(self):
        if not self._done:
            try:
                self._t.abort()
            finally:
                self._finish()

    def __enter__(self):
        return self

    def __exit__(self, exc_type, exc, tb):
        if exc_type is None:
            self.commit()
        else:
            self.abort()


class Cursor:
    def __init__(self, txn):
        self.txn = txn
        self._c = txn._t.cursor()
        self._key = b""
        self._val = b""
        self._last_mutation = txn._mutations

    def _do(self, op, key=None):
        found, k, v = self._c.op(op, key)
        self._key, self._val = (k, v) if found else (b"", b"")
        self._last_mutation = self.txn._mutations
        return found

    def _refresh(self):
        if self._last_mutation != self.txn._mutations:
            self._do(MDB_GET_CURRENT)

    def key(self):
        self._refresh()
        return self._key

    def value(self):
        self._refresh()
        return self._val

    def item(self):
        self._refresh()
        return self._key, self._val

    def first(self):
        return self._do(MDB_FIRST)

    def last(self):
        return self._do(MDB_LAST)

    def next(self):
        return self._do(MDB_NEXT)

    def prev(self):
        return self._do(MDB_PREV)

    def set_range(self, key):
        if not key:
            return self.first()
        return self._do(MDB_SET_RANGE, key)

    def set_key(self, key):
        found = self._do(MDB_SET_RANGE, key)
        if found and self._key != bytes(key):
            self._key = self._val = b""
            return False
        return found

    def _iter(self, op, keys, values):
        # py-lmdb: if unpositioned, position first (iternext -> first, iterprev -> last)
        if not self._key and not self._val:
            if not (self.first() if op == MDB_NEXT else self.last()):
                return
        go = True
        while go:
            self._refresh()
            if keys and values:
                yield self._key, self._val
            elif keys:
                yield self._key
            else:
                yield self._val
            go = self._do(op)

    def iternext(self, keys=True, values=True):
        return self._iter(MDB_NEXT, keys, values)

    def iterprev(self, keys=True, values=True):
        return self._iter(MDB_PREV, keys, values)

    def __iter__(self):
        return self.iternext()

    def close(self):
        self._c.close()

    def __enter__(self):
        return self

    def __exit__(self, *a):
        self.close()
