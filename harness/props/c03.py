"""
C03 — only authentic events are stored, acknowledged or forwarded.
Tie: the real validator pipeline (`storage.validate_event`, default = is_signed) and the real add_event on
both backends vs the Lean decision logic `isSigned`, fed with cryptographic facts computed independently
(hashlib + coincurve called directly, not through aionostr's Event.verify).
Search: every single-field corruption of genuinely signed events, forged / upper-case / short ids,
non-canonical hex, forged / transplanted / malformed NIP-26 delegation tags, resubmission with a bad
signature after the genuine event was seen; accepted (OK true, stored or broadcast) ⇒ authentic.
"""
import copy
import hashlib
import random

from lib import common
from lib.hist import KVStore, SQLStore

THEOREMS_TIED = ["C03_accept_implies_authentic", "C03_pipeline_ok_iff", "C03_pipeline_authentic"]


def facts_of(ev):
    """independent computation of what C03 demands of an event (dict)"""
    from coincurve import PublicKeyXOnly
    from aionostr.event import dumps

    f = {"pubkeyParses": False, "sigDecodes": False, "sigValid": False, "idIsHash": False, "canonHex": False,
         "delegations": []}
    try:
        pk = PublicKeyXOnly(bytes.fromhex(ev["pubkey"]))
        f["pubkeyParses"] = True
    except Exception:
        pk = None
    try:
        ser = dumps([0, ev["pubkey"], ev["created_at"], ev["kind"], ev["tags"], ev["content"]]).encode()
        digest = hashlib.sha256(ser).digest()
    except Exception:
        return None
    f["idIsHash"] = ev.get("id") == digest.hex()
    try:
        sig = bytes.fromhex(ev["sig"])
        f["sigDecodes"] = len(sig) == 64
    except Exception:
        sig = None
    if pk is not None and f["sigDecodes"]:
        try:
            f["sigValid"] = bool(pk.verify(sig, digest))
        except Exception:
            f["sigDecodes"] = False
    try:
        f["canonHex"] = bytes.fromhex(ev["pubkey"]).hex() == ev["pubkey"] and bytes.fromhex(ev["sig"]).hex() == ev["sig"]
    except Exception:
        f["canonHex"] = False
    for t in ev["tags"]:
        if not isinstance(t, (list, tuple)) or len(t) == 0:
            return None  # tag[0] on an empty / non-list tag: outside the model
        if t[0] == "delegation":
            if len(t) != 4 or not all(isinstance(x, str) for x in t):
                f["delegations"].append(None)
                continue
            try:
                dpk = PublicKeyXOnly(bytes.fromhex(t[1]))
                dsig = bytes.fromhex(t[3])
                to_sign = ":".join(["nostr", "delegation", ev["pubkey"], t[2]]).encode("utf8")
                f["delegations"].append(bool(dpk.verify(dsig, hashlib.sha256(to_sign).digest())))
            except Exception:
                f["delegations"].append(None)
    return f


def authentic(f):
    return bool(f and f["pubkeyParses"] and f["sigValid"] and f["idIsHash"] and all(d is True for d in f["delegations"]))


def delegation_tag(delegator_sk, delegatee_pub, conditions="kind=1"):
    to_sign = ":".join(["nostr", "delegation", delegatee_pub, conditions]).encode("utf8")
    sig = delegator_sk.sign_schnorr(hashlib.sha256(to_sign).digest(), None) if hasattr(delegator_sk, "sign_schnorr") else None
    return ["delegation", delegator_sk.public_key.hex() if hasattr(delegator_sk, "public_key") else "", conditions, sig.hex()]


def genuine(rng, keys, with_delegation=None):
    from aionostr.event import Event
    from coincurve import PrivateKey as CPrivateKey

    sk = rng.choice(keys)
    tags = [["t", rng.choice(["a", "b"])]] if rng.random() < 0.5 else []
    if rng.random() < 0.35:
        # tag shapes a client may legally sign: name-only tags, long tags, empty values, repeated names
        tags += rng.choice([[["d"]], [["t"]], [["client"]], [["d", ""]], [["e", "ab" * 32, "", "reply"]], [["t"], ["t", "a"]],
                            [["d"], ["d", "x"]], [["p", "cd" * 32, "wss://r.example"], ["client"]]])
    pub = sk.public_key.hex()
    if with_delegation:
        dk = CPrivateKey(bytes([rng.randrange(1, 200)]) * 32)
        dpub = dk.public_key_xonly.format().hex()
        cond = "kind=1&created_at>1600000000"
        to_sign = ":".join(["nostr", "delegation", pub, cond]).encode("utf8")
        dsig = dk.sign_schnorr(hashlib.sha256(to_sign).digest(), None).hex()
        if with_delegation == "valid":
            tags.append(["delegation", dpub, cond, dsig])
        elif with_delegation == "forged":
            tags.append(["delegation", dpub, cond, "00" * 64])
        elif with_delegation == "transplanted":
            other = rng.choice([k for k in keys if k is not sk]).public_key.hex()
            to2 = ":".join(["nostr", "delegation", other, cond]).encode("utf8")
            tags.append(["delegation", dpub, cond, dk.sign_schnorr(hashlib.sha256(to2).digest(), None).hex()])
        elif with_delegation == "short":
            tags.append(["delegation", dpub, cond])
        elif with_delegation == "long":
            tags.append(["delegation", dpub, cond, dsig, "x"])
        elif with_delegation == "badhex":
            tags.append(["delegation", "zz" * 32, cond, dsig])
        elif with_delegation == "conditions-changed":
            tags.append(["delegation", dpub, "kind=7", dsig])
    ev = Event(pubkey=pub, content=rng.choice(["hello", "", "é\n\"x\"", "\x01ctl"]), kind=rng.choice([1, 1, 7, 30000]),
               created_at=1700000000 + rng.randrange(100000), tags=tags)
    ev.sign(sk.hex())
    return ev.to_json_object()


MUTATIONS = ["none", "none", "id-random", "id-upper", "id-short", "id-of-other", "sig-flip", "sig-upper", "sig-short", "sig-nonhex",
             "sig-of-other", "pubkey-other", "pubkey-upper", "pubkey-space", "pubkey-nonhex", "content", "created_at", "kind", "tags",
             "tag-append", "deleg-valid", "deleg-forged", "deleg-transplanted", "deleg-short", "deleg-long", "deleg-badhex",
             "deleg-conditions-changed", "created_at-str",
             # hex that `bytes.fromhex` accepts although it is not the canonical text (it skips ASCII whitespace)
             "pubkey-spaced-words", "sig-spaced-halves", "sig-trailing-space", "id-spaced",
             # the relay's own identity: an event under the service pubkey is as unauthentic as any other when forged
             "service-forged-sig", "service-foreign-sig", "service-content-changed", "service-genuine", "pubkey-empty"]

SERVICE_KEY = "07" * 32


def mutate(rng, keys, m):
    if m.startswith("deleg-"):
        return genuine(rng, keys, with_delegation=m[6:])
    if m.startswith("service-"):
        from aionostr.key import PrivateKey

        svc = PrivateKey(bytes.fromhex(SERVICE_KEY))
        ev = genuine(rng, [svc])
        if rng.random() < 0.5:
            # the shape of a role assignment (kind 31494, d = auth:<pubkey>), re-signed by the service key
            from aionostr.event import Event

            target = rng.choice(keys).public_key.hex()
            e = Event(pubkey=svc.public_key.hex(), content="s", kind=31494, created_at=ev["created_at"],
                      tags=[["t", "auth"], ["d", "auth:" + target], ["p", target]])
            e.sign(svc.hex())
            ev = e.to_json_object()
        if m == "service-forged-sig":
            ev["sig"] = rng.choice(["00" * 64, rng.randbytes(64).hex()])
        elif m == "service-foreign-sig":
            ev["sig"] = genuine(rng, keys)["sig"]
        elif m == "service-content-changed":
            ev["content"] = ev["content"] + "w"
        return ev
    ev = genuine(rng, keys)
    other = genuine(rng, keys)
    if m == "pubkey-empty":
        ev["pubkey"] = ""
    elif m == "pubkey-spaced-words":
        ev["pubkey"] = " ".join(ev["pubkey"][i:i + 8] for i in range(0, 64, 8))
    elif m == "sig-spaced-halves":
        ev["sig"] = ev["sig"][:64] + " " + ev["sig"][64:]
    elif m == "sig-trailing-space":
        ev["sig"] = ev["sig"] + rng.choice([" ", "\n", "\t"])
    elif m == "id-spaced":
        ev["id"] = ev["id"][:32] + " " + ev["id"][32:]
    elif m == "id-random":
        ev["id"] = rng.randbytes(32).hex()
    elif m == "id-upper":
        ev["id"] = ev["id"].upper()
    elif m == "id-short":
        ev["id"] = ev["id"][:rng.choice([2, 62])]
    elif m == "id-of-other":
        ev["id"] = other["id"]
    elif m == "sig-flip":
        b = bytearray(bytes.fromhex(ev["sig"]))
        b[rng.randrange(64)] ^= 1 << rng.randrange(8)
        ev["sig"] = bytes(b).hex()
    elif m == "sig-upper":
        ev["sig"] = ev["sig"].upper()
    elif m == "sig-short":
        ev["sig"] = ev["sig"][:126]
    elif m == "sig-nonhex":
        ev["sig"] = "zz" + ev["sig"][2:]
    elif m == "sig-of-other":
        ev["sig"] = other["sig"]
    elif m == "pubkey-other":
        ev["pubkey"] = rng.choice(keys).public_key.hex() if rng.random() < 0.5 else other["pubkey"]
    elif m == "pubkey-upper":
        ev["pubkey"] = ev["pubkey"].upper()
    elif m == "pubkey-space":
        ev["pubkey"] = ev["pubkey"][:2] + " " + ev["pubkey"][2:]
    elif m == "pubkey-nonhex":
        ev["pubkey"] = "zz" + ev["pubkey"][2:]
    elif m == "content":
        ev["content"] += "!"
    elif m == "created_at":
        ev["created_at"] += 1
    elif m == "kind":
        ev["kind"] = 7 if ev["kind"] != 7 else 1
    elif m == "tags":
        ev["tags"] = [["t", "zzz"]]
    elif m == "tag-append":
        ev["tags"] = ev["tags"] + [["p", "00" * 32]]
    elif m == "created_at-str":
        ev["created_at"] = str(ev["created_at"])
    return ev


def verdict_of_validate(store, ev):
    from aionostr.event import Event
    from nostr_relay.config import Config
    from nostr_relay.errors import StorageError

    try:
        e = Event(**copy.deepcopy(ev))
    except Exception:
        return "construct-error"
    try:
        store.run(store.storage.validate_event(e, Config))
        return "ok"
    except StorageError:
        return "reject"
    except Exception:
        return "raises"


def run_case(report, drv, stores, rng, keys, m, seen):
    ev = mutate(rng, keys, m)
    facts = facts_of(ev)
    payload = {"mutation": m, "event": ev}
    for st in stores:
        v = verdict_of_validate(st, ev)
        if facts is not None and v != "construct-error":
            mv = drv.call({"op": "adm.isSigned", "facts": {**facts, "delegations": [d if d is not None else "malformed" for d in facts["delegations"]]}})
            if mv != v:
                report.correspondence_break("validators.is_signed (%s)" % st.backend, payload, v, mv)
        before = st.ids()
        res = st.add(copy.deepcopy(ev))
        after = st.ids()
        accepted = res["ok"] or res["broadcast"] > 0 or len(after - before) > 0
        if accepted and not authentic(facts):
            report.property_failure(
                "%s: a non-authentic event (%s) was %s" % (st.backend, m, "acknowledged" if res["ok"] else "stored/broadcast"),
                {"backend": st.backend, **payload}, None)
        if res["ok"]:
            report.count("accepted_" + st.backend)
        # resubmission of a seen id with a corrupted signature (needs the genuine one first)
        if res["ok"] and m == "none" and rng.random() < 0.5:
            bad = copy.deepcopy(ev)
            bad["sig"] = "00" * 64
            b2 = st.ids()
            n0 = len(st.broadcasts)
            r2 = st.add(bad)
            if r2["ok"] or len(st.broadcasts) > n0:
                report.property_failure("%s: resubmission of a seen event with an invalid signature was acknowledged or forwarded"
                                        % st.backend, {"backend": st.backend, "mutation": "resubmit-bad-sig", "event": ev}, None)
            # after removal of the genuine one
            if rng.random() < 0.5:
                st.delete(ev["id"])
                r3 = st.add(bad)
                if r3["ok"] or ev["id"] in st.ids():
                    report.property_failure("%s: a forged copy was accepted after the genuine event had been removed" % st.backend,
                                            {"backend": st.backend, "mutation": "resubmit-after-delete", "event": ev}, None)
    report.case((m, ev.get("id"), str(ev.get("sig"))[:16]), nontrivial=(m != "none"),
                sample={"mutation": m, "facts": facts})
    report.count("mutation_" + m)


def ws_session(report, backend, rng, keys, tag):
    """the same mutations through the real web.start_client on ONE connection, genuine events in between: whatever came
    before on the connection, an OK frame says true only for an authentic event, and names the event it answers"""
    from lib.proto import Relay, Conn

    relay = Relay(backend)
    try:
        c = Conn(relay)
        obs = Conn(relay, remote_addr="9.9.9.9")
        obs.send(["REQ", "watch", {"kinds": [1, 7, 30000, 31494]}])
        seq = []
        for _ in range(rng.randint(5, 9)):
            seq.append(rng.choice(MUTATIONS))
            if rng.random() < 0.6:
                seq.append("none")
        sent = []
        for m in seq:
            ev = mutate(rng, keys, m)
            facts = facts_of(ev)
            n, n_obs = len(c.out), len(obs.out)
            if c.done:
                break
            c.send(["EVENT", ev])
            sent.append((m, ev))
            payload = {"kind": "ws", "backend": backend, "mutation": m, "session": [{"mutation": a, "event": b} for a, b in sent]}
            oks = [f for f in c.frames(n) if isinstance(f, list) and f and f[0] == "OK"]
            pushed = [f for f in obs.frames(n_obs) if isinstance(f, list) and f[0] == "EVENT" and isinstance(f[2], dict)
                      and f[2].get("id") == ev.get("id")]
            stored = isinstance(ev.get("id"), str) and ev["id"] in relay.store.ids()
            for f in oks:
                if len(f) >= 3 and f[2] is True and not authentic(facts):
                    report.property_failure("%s: a non-authentic event (%s, sent after %d other EVENT messages on the connection) was "
                                            "acknowledged with OK true: %r" % (backend, m, len(sent) - 1, f[:4]), payload, None)
                if len(f) >= 3 and f[2] is True and f[1] != ev.get("id"):
                    report.property_failure("%s: OK true names %r, not the submitted event" % (backend, f[1]), payload, None)
            if (pushed or stored) and not authentic(facts):
                report.property_failure("%s: a non-authentic event (%s) was %s" % (backend, m, "pushed to a subscriber" if pushed else "stored"),
                                        payload, None)
            # whatever reaches a subscriber is judged as it arrives there: the frame's own event must be authentic
            for f in obs.frames(n_obs):
                if isinstance(f, list) and f and f[0] == "EVENT" and len(f) > 2 and isinstance(f[2], dict):
                    if not authentic(facts_of(f[2])):
                        report.property_failure(
                            "%s: the event pushed to a subscriber is not authentic as it arrives (id is not the hash of its fields, or the "
                            "signature does not verify): submitted tags %r, pushed tags %r" % (backend, ev.get("tags"), f[2].get("tags")),
                            payload, None)
                    report.count("pushed_frames_verified_" + backend)
            report.count("ws_events_" + backend)
        # and whatever the relay serves afterwards from its store
        if not c.done:
            n = len(c.out)
            c.send(["REQ", "all", {"kinds": [1, 7, 30000, 31494]}])
            for f in c.frames(n):
                if isinstance(f, list) and f and f[0] == "EVENT" and len(f) > 2 and isinstance(f[2], dict):
                    if not authentic(facts_of(f[2])):
                        report.property_failure("%s: a stored event is served in a form that is not authentic (tags %r)" % (backend, f[2].get("tags")),
                                                {"kind": "ws", "backend": backend, "session": [{"mutation": a, "event": b} for a, b in sent]}, None)
                    report.count("served_frames_verified_" + backend)
        report.case(("ws", backend, tag, repr([m for m, _ in sent])), nontrivial=True,
                    sample={"backend": backend, "session": [m for m, _ in sent]})
        report.count("ws_sessions_" + backend)
    finally:
        relay.close()


# ------------------------------------------------------------------------------------------------------------
# Validation that is slow or starved.
# The validator chain does not run on the event loop: get_validator hands it to the loop's default executor, a finite pool that
# the relay shares with everything else that is pushed off the loop.  How long a verdict takes is therefore not in the relay's
# hands.  C03 does not say "a forged event is refused when the verdict arrives in time", it says a forged event is never
# acknowledged, stored or forwarded: so the check also looks at the time in which NO verdict is available.
#
# How long validation is starved, in seconds of the loop's clock (the harness advances the clock; nobody waits), in how many steps
# (after every step the loop runs, so a deadline that is re-armed per message — a connection handles its EVENTs one after the other —
# falls due once per step).  Not tuned to any option of the relay: the total is most of the shipped idle timeout of a connection
# (message_timeout 1800 s; lib.proto starts the handlers with 3600 s), beyond which the relay may rightly drop the connection, and any
# bound on "how long may an EVENT wait for X" that is meant to act while the client is still there is (much) shorter than one step.
STARVED_STEPS = 5
STARVED_STEP_S = 300.0


class _LoopClock:
    """the clock of one relay's event loop plus an offset the harness advances (as props/c19.py does for slow consumers): every
    deadline measured with the loop (call_later / call_at, hence asyncio.wait, wait_for, timeout) that lies in the interval is due
    the next time the loop runs.  Time only moves forward; the loop goes with its Relay."""

    def __init__(self, loop):
        real = loop.time
        self.offset = 0.0
        loop.time = lambda: real() + self.offset

    def advance(self, seconds):
        self.offset += seconds


def _pump(relay, until=None, quiet_rounds=25, idle_s=8.0, cap_s=60.0):
    """run the relay's loop.  Without `until`: until no connection has produced or consumed anything for quiet_rounds rounds (there is
    nothing to wait *for* while validation is starved: whatever happens then happens at once).  With `until`: until it holds; gives up
    (False) only when nothing has moved for idle_s of real time although it does not hold."""
    import time as _time
    from lib.proto import _real_sleep

    def moved():
        return tuple((len(c.out), c.inbox.qsize(), c.done) for c in relay.conns)

    async def go():
        t0 = t_last = _time.monotonic()
        last, still = moved(), 0
        while True:
            await _real_sleep(0.002)
            now, cur = _time.monotonic(), moved()
            if cur != last:
                last, t_last, still = cur, now, 0
            else:
                still += 1
            if until is None:
                if still >= quiet_rounds or now - t0 > cap_s:
                    return True
            elif until():
                return True
            elif now - t_last > idle_s or now - t0 > cap_s:
                return False

    ok = relay.run(go())
    if relay.backend == "kv":
        relay.store.quiesce()       # the LMDB writer (run by the harness, lib.hist) writes what add_event has queued
        if until is None:
            relay.run(go())
    return ok


def starved_plan(rng, keys, tier):
    """which connections send which events while no verdict can be had, and which ones afterwards: plain data (the replay payload)"""
    used = set()

    def fresh(m):
        while True:
            ev = mutate(rng, keys, m)
            if ev.get("id") not in used:        # one id, one event: `stored` and `pushed` are decided by id
                used.add(ev.get("id"))
                return {"mutation": m, "event": ev}

    conns = []
    for i in range(rng.randint(3, 4) if tier == "quick" else rng.randint(3, 8)):
        k = rng.choice([1, 1, 2, 3])
        ms = [rng.choice(MUTATIONS) for _ in range(k)]
        if i == 0:
            ms[0] = rng.choice([m for m in MUTATIONS if m not in ("none", "deleg-valid", "service-genuine")])
        if i == 1:
            ms[0] = "none"
        conns.append([fresh(m) for m in ms])
    last = fresh("none")
    while last["event"]["kind"] not in (1, 7):      # a regular event: nothing a relay may rightly answer but "accepted"
        last = fresh("none")
    after = [fresh(rng.choice([m for m in MUTATIONS if m != "none"])), last]
    return {"during": conns, "after": after, "steps": STARVED_STEPS, "step_s": STARVED_STEP_S}


def starved_validation(report, backend, plan, tag):
    """Validation starved.  Every worker of the executor the validator chain runs in is kept busy (jobs that wait for the harness),
    so the chain of an EVENT that arrives now is queued behind them; meanwhile clients submit forged and genuine events through the
    real start_client, several connections, one to three EVENTs each, and STARVED_STEPS x STARVED_STEP_S seconds of the loop's clock
    pass.  Then the workers are released, the relay comes to rest, and one more forged and one more genuine event are sent.
    What the relay does about an EVENT it cannot get a verdict for — wait, refuse it with a reason, close the connection — is its
    business.  What must hold, whatever happens in between:
      * safety: an event that is not authentic (independent hashlib + coincurve computation) is never answered with OK true, never in
        the store, never pushed to a subscriber, and whatever is pushed or served is authentic as it arrives;
      * an answer: once verdicts can be had again, every EVENT on a connection the relay has not closed has its OK (the k-th OK of a
        connection answers its k-th EVENT: the handler is sequential), an OK false carries a reason, and a genuine event sent to the
        recovered relay is accepted."""
    import asyncio
    import threading
    from concurrent.futures import ThreadPoolExecutor
    from lib.proto import Relay, Conn

    relay = Relay(backend)
    # the loop's default executor, constructed the way asyncio constructs it (default size), but held by the harness so that its
    # threads can be dismissed with the scenario
    pool = ThreadPoolExecutor(thread_name_prefix="verif-c03-default")
    relay.loop.set_default_executor(pool)
    clock = _LoopClock(relay.loop)
    release = threading.Event()
    payload = {"kind": "starved", "backend": backend, "plan": plan}
    kinds = [1, 7, 30000, 31494]

    def fail(what):
        report.property_failure("%s, validation starved: %s" % (backend, what), copy.deepcopy(payload), None)

    def oks(c, n0=0):
        return [f for f in c.frames(n0) if isinstance(f, list) and f and f[0] == "OK"]

    try:
        obs = Conn(relay, remote_addr="9.9.9.9")
        obs.send(["REQ", "watch", {"kinds": kinds}])
        senders = [Conn(relay, remote_addr="10.0.0.%d" % (i + 1)) for i in range(len(plan["during"]))]

        # -- every worker busy: jobs are submitted until some of them are left waiting in the executor's queue
        started, jobs = [], []

        def busy():
            started.append(1)
            release.wait(300)      # real seconds; only reached if the harness itself dies in between

        async def saturate():
            from lib.proto import _real_sleep

            while len(jobs) < 2000:
                jobs.extend(relay.loop.run_in_executor(None, busy) for _ in range(40))
                last, still = -1, 0
                while still < 25:
                    await _real_sleep(0.002)
                    still = still + 1 if len(started) == last else 0
                    last = len(started)
                if len(started) < len(jobs):
                    return True
            return False

        if not relay.run(saturate()):
            report.count("starved_not_saturated_" + backend)
        report.count("starved_workers_kept_busy", len(started))

        # -- the events arrive; time passes
        sent = []          # (connection, position on it, step)
        for c, steps in zip(senders, plan["during"]):
            for k, st in enumerate(steps):
                c.send(["EVENT", st["event"]], settle=False)
                sent.append((c, k, st))
        _pump(relay)
        for _ in range(plan["steps"]):
            clock.advance(plan["step_s"])
            _pump(relay)
        early = sum(len(oks(c)) for c in senders)
        report.count("starved_answers_before_release_" + backend, early)

        # -- verdicts can be had again
        release.set()
        relay.run(asyncio.gather(*jobs, return_exceptions=True))
        answered = _pump(relay, until=lambda: all(c.done or (len(oks(c)) >= len(steps) and c.idle)
                                                  for c, steps in zip(senders, plan["during"])))
        relay.settle()

        # -- the recovered relay
        late = Conn(relay, remote_addr="10.0.1.1")
        for st in plan["after"]:
            late.send(["EVENT", st["event"]], settle=False)
        answered = _pump(relay, until=lambda: late.done or (len(oks(late)) >= len(plan["after"]) and late.idle)) and answered
        relay.settle()

        # -- safety
        store_ids = relay.store.ids()
        pushed_ids = set()
        for f in obs.frames():
            if isinstance(f, list) and f and f[0] == "EVENT" and len(f) > 2 and isinstance(f[2], dict):
                pushed_ids.add(f[2].get("id"))
                if not authentic(facts_of(f[2])):
                    fail("the event pushed to a subscriber is not authentic as it arrives: %r" % (f[2],))
                report.count("pushed_frames_verified_" + backend)
        everything = [(c, k, st) for c, k, st in sent] + [(late, k, st) for k, st in enumerate(plan["after"])]
        for c, k, st in everything:
            ev, m = st["event"], st["mutation"]
            good = authentic(facts_of(ev))
            mine = oks(c)
            when = "sent while validation was starved" if c is not late else "sent after validation was available again"
            if not good:
                ack = [f for i, f in enumerate(mine) if len(f) >= 3 and f[2] is True and (i == k or f[1] == ev.get("id"))]
                if ack:
                    fail("a non-authentic event (%s, %s; EVENT no. %d of its connection) was acknowledged with OK true: %r"
                         % (m, when, k + 1, ack[0][:4]))
                if isinstance(ev.get("id"), str) and ev["id"] in store_ids:
                    fail("a non-authentic event (%s, %s) is in the store" % (m, when))
                if ev.get("id") in pushed_ids:
                    fail("a non-authentic event (%s, %s) was pushed to a subscriber" % (m, when))
            # -- an answer
            if not c.done:
                if k >= len(mine):
                    fail("an EVENT (%s, %s; no. %d of its connection) has no OK although the connection is open and validation is "
                         "available again (%d OK frames for %d EVENTs; at rest: %s)" % (m, when, k + 1, len(mine), k + 1, answered))
                elif len(mine[k]) < 4 or (mine[k][2] is not True and not (isinstance(mine[k][3], str) and mine[k][3])):
                    fail("the OK for an EVENT (%s, %s) is neither true nor a refusal with a reason: %r" % (m, when, mine[k]))
                elif good:
                    report.count("starved_genuine_%s_%s" % ("accepted" if mine[k][2] is True else "refused_with_reason", backend))
            report.count("starved_events_" + backend)
            report.count("starved_events_%s" % ("genuine" if good else "non_authentic"))
        st = plan["after"][-1]
        if not late.done and authentic(facts_of(st["event"])):
            got = oks(late)[len(plan["after"]) - 1:]
            if not (got and got[0][2] is True and st["event"]["id"] in store_ids):
                fail("a genuine event sent after validation was available again was not accepted (in the store: %s): %r"
                     % (st["event"]["id"] in store_ids, got[:1]))
        # and whatever the relay serves afterwards from its store
        reader = Conn(relay, remote_addr="10.0.2.1")
        reader.send(["REQ", "all", {"kinds": kinds}])
        for f in reader.frames():
            if isinstance(f, list) and f and f[0] == "EVENT" and len(f) > 2 and isinstance(f[2], dict):
                if not authentic(facts_of(f[2])):
                    fail("an event that is not authentic is served from the store: %r" % (f[2],))
                report.count("served_frames_verified_" + backend)
        report.case(("starved", backend, tag, repr([[s["mutation"] for s in steps] for steps in plan["during"]])), nontrivial=True,
                    sample={"backend": backend, "validation_starved_for_s": plan["steps"] * plan["step_s"],
                            "connections": [[s["mutation"] for s in steps] for steps in plan["during"]]})
        report.count("starved_sessions_" + backend)
    finally:
        release.set()
        try:
            relay.close()
        finally:
            pool.shutdown(wait=False)


def run(report, tier, seed):
    rng = random.Random(seed)
    drv = common.Driver()
    from aionostr.key import PrivateKey

    keys = [PrivateKey(bytes([i + 1]) * 32) for i in range(3)]
    stores = [KVStore(validators=["nostr_relay.validators.is_signed"], service_key=SERVICE_KEY),
              SQLStore(validators=["nostr_relay.validators.is_signed"], service_key=SERVICE_KEY)]
    report.coverage["rule"] = (
        "genuinely signed events (3 keys, several kinds/contents) under %d mutation classes: forged/upper-case/short/"
        "foreign id, flipped/upper-case/short/non-hex/foreign sig, foreign/upper-case/whitespace/non-hex pubkey, "
        "hex with embedded / trailing ASCII whitespace (which bytes.fromhex skips) in pubkey, sig and id, an empty pubkey, "
        "events under the relay's own service pubkey (genuine, forged / foreign signature, content changed; also in the shape of "
        "a role assignment), content/created_at/kind/tags changed after signing, string created_at, NIP-26 delegation valid/forged/"
        "transplanted/3-item/5-item/bad-hex/conditions-changed, resubmission with a zeroed signature (also after the "
        "genuine event was deleted); both backends; sessions of 5-15 such events, genuine ones in between, on one connection "
        "through the real start_client (every OK frame, push and the store are checked); validation starved: every worker of the "
        "loop's default executor kept busy while 3-8 connections submit 1-3 such events each and %d s of the loop's clock pass "
        "(%d steps), then released, then one more forged and one more genuine event (no OK true / store / push for a non-authentic "
        "event at any time, every EVENT answered in the end); non-trivial = a mutated event"
        % (len(set(MUTATIONS)) - 1, STARVED_STEPS * STARVED_STEP_S, STARVED_STEPS))
    report.assumptions += ["SHA-256 (hashlib) and BIP-340 (coincurve) are trusted; the NIP-01 serialisation is the "
                           "relay's own (rapidjson, ensure_ascii=False)"]
    try:
        n = 12 if tier == "quick" else 200
        seen = {}
        for i in range(n):
            for m in MUTATIONS:
                run_case(report, drv, stores, rng, keys, m, seen)
    finally:
        for st in stores:
            st.close()
        drv.close()
    for i in range(3 if tier == "quick" else 60):
        for backend in ("sql", "kv"):
            ws_session(report, backend, rng, keys, i)
    for i in range(3 if tier == "quick" else 12):
        for backend in ("sql", "kv"):
            starved_validation(report, backend, starved_plan(rng, keys, tier), i)


def replay(report, path):
    import json

    data = json.load(open(path))
    drv = common.Driver()
    stores = [KVStore(validators=["nostr_relay.validators.is_signed"], service_key=SERVICE_KEY),
              SQLStore(validators=["nostr_relay.validators.is_signed"], service_key=SERVICE_KEY)]
    try:
        for it in (data.get("violations") or []) + (data.get("correspondence_breaks") or []):
            r = it.get("replay") or it.get("input")
            if r.get("kind") == "starved":
                starved_validation(report, r["backend"], r["plan"], "replay")
                continue
            if r.get("kind") == "ws":
                from lib.proto import Relay, Conn

                relay = Relay(r["backend"])
                try:
                    c = Conn(relay)
                    for step in r["session"]:
                        n = len(c.out)
                        if c.done:
                            break
                        c.send(["EVENT", step["event"]])
                        for f in c.frames(n):
                            if isinstance(f, list) and f and f[0] == "OK" and len(f) >= 3 and f[2] is True \
                                    and not authentic(facts_of(step["event"])):
                                report.property_failure("%s: non-authentic event (%s) acknowledged with OK true" % (r["backend"], step["mutation"]), r, None)
                    report.case(("replay-ws", len(r["session"])), nontrivial=True)
                finally:
                    relay.close()
                continue
            ev = r["event"]
            facts = facts_of(ev)
            for st in stores:
                res = st.add(copy.deepcopy(ev))
                if r.get("mutation", "").startswith("resubmit"):
                    bad = copy.deepcopy(ev)
                    bad["sig"] = "00" * 64
                    if r["mutation"] == "resubmit-after-delete":
                        st.delete(ev["id"])
                    r2 = st.add(bad)
                    if r2["ok"]:
                        report.property_failure("%s: forged resubmission accepted" % st.backend, r, None)
                elif res["ok"] and not authentic(facts):
                    report.property_failure("%s: non-authentic event accepted" % st.backend, r, None)
            report.case(("replay", ev.get("id")), nontrivial=True)
    finally:
        for st in stores:
            st.close()
        drv.close()
