"""
C04 — every frame the relay sends is well-formed and every served event is verbatim.
Tie: real util.event_as_json and the EOSE branch of web.send_subscriptions vs the Lean serialiser
(`eventAsJson`, `eoseFrame`), compared as code-point arrays.  Search: every emitted frame must parse with
Python's json *and* with the Lean `parseFrame` to the subscription id and the event that was put in;
every accepted (really signed) event must come back field for field from storage (get_event, a query,
HTTP /e/<id>) and as the live push, on both backends, and still verify.  The HTTP route and websocket sessions
go through the ASGI application as web.create_app builds it (make_http); served texts are read with nothing
lost (parse_strict: objects as the sequence of their members) and compared with JSON types and member order.
"""
import asyncio
import copy
import json
import random

from lib import common
from lib.hist import KVStore, SQLStore

THEOREMS_TIED = ["C04_readString_encode", "C04_readTags_render", "C04_parse_eose", "C04_parse_event",
                  "MP.C04_unpackb_packb", "MP.C04_kv_record_roundtrip", "MP.C04_kv_record_refused_iff"]

SPECIAL = ['"', "\\", "\n", "\r", "\t", "\b", "\f", "\x00", "\x01", "\x1f", "\x7f", " ", " ", "é", "\U0001f600",
           "/", "'", "\\u0041", "\\n", "﻿", "￿", " ", "]", "}", ","]
SIDS = ["a", "sub1", 'a"b', "back\\slash", "", "x" * 64, "é", "\n", " ", '","', '"]', "\x00", "\U0001f600", "a b", "1"]


def cp(s):
    return [ord(c) for c in s]


def uncp(a):
    return "".join(chr(x) for x in a)


def rand_text(rng, n=None):
    n = rng.randint(0, 12) if n is None else n
    out = []
    for _ in range(n):
        r = rng.random()
        if r < 0.45:
            out.append(rng.choice(SPECIAL))
        elif r < 0.55:
            out.append(chr(rng.randrange(0, 32)))
        else:
            out.append(rng.choice("abcXYZ019 "))
    return "".join(out)


def ref_text(rng):
    h = rng.randbytes(rng.choice([32, 32, 32, 32, 31, 33, 16, 64, 20])).hex()
    r = rng.random()
    if r < 0.35:
        return h
    if r < 0.55:
        return h.upper()
    if r < 0.7:
        return "".join(c.upper() if rng.random() < 0.5 else c for c in h)
    if r < 0.78:
        return h[:-1]                                   # odd number of digits
    if r < 0.86:
        return rng.choice([" ", "0x", "\n", ""]) + h + rng.choice(["", " ", "\n"])
    if r < 0.93:
        return rng.choice(["wss://relay.example.com", "wss://Relay.Example.COM/", "ws://127.0.0.1:6969", "wss://r.example/%7Euser"])
    return "30023:" + h + ":" + rand_text(rng, 3)       # NIP-33 coordinate


def rand_tags(rng, strings_only):
    tags = []
    for _ in range(rng.choice([0, 1, 2, 3])):
        t = [rng.choice(["e", "p", "t", "d", "x", "client", rand_text(rng, 2)])]
        for _ in range(rng.choice([0, 1, 1, 2, 3])):
            r = rng.random()
            if r < 0.14:
                # what most real tags carry: references to events / pubkeys, relay urls — hex in every spelling a signer may use
                # (the id is the hash of the text as written: any normalisation on the way alters the event)
                t.append(ref_text(rng))
            elif strings_only or r < 0.7:
                t.append(rand_text(rng, rng.randint(0, 6)))
            elif r < 0.78:
                t.append(rng.choice([0, 1, -5, 2 ** 31, 2 ** 53]))
            elif r < 0.84:
                t.append(rng.choice([True, False, None]))
            elif r < 0.9:
                # 1 / 1.0 / true, 0 / 0.0 / -0.0 / false compare equal in Python but are different JSON texts
                t.append(rng.choice([1.5, 0.1, 1e20, 1.0, 0.0, -0.0, 1.0, 0.0, 2.0, 1e2]))
            else:
                # objects keep their key order: the id is the hash of the serialisation the client made
                t.append(rng.choice([["n"], [], ["a", ["b"]], {"k": "v"}, {"url": "u", "m": "image/png"}, {"b": 1, "a": {"z": 1, "y": [2]}},
                                     [{"y": 1, "x": 2}]]))
        tags.append(t)
    return tags


class _Ev:
    def __init__(self, d):
        self.__dict__.update(d)


# ---- (a)/(b) frames ---------------------------------------------------------------------------------

def frame_case(report, drv, rng, loop):
    from nostr_relay import util, web

    strings_only = rng.random() < 0.6
    ev = {"id": rng.randbytes(32).hex(), "pubkey": rng.randbytes(32).hex(), "sig": rng.randbytes(64).hex(),
          "created_at": rng.choice([0, 1, 1700000000, 2 ** 31 - 1, 2 ** 32]), "kind": rng.choice([0, 1, 5, 30000, 65535]),
          "content": rand_text(rng), "tags": rand_tags(rng, strings_only)}
    sid = rng.choice(SIDS) if rng.random() < 0.7 else rand_text(rng, 4)
    frame = util.event_as_json(sid, _Ev(ev))
    payload = {"kind": "frame", "sid": sid, "event": ev}
    # oracle 1: Python's JSON
    try:
        j = json.loads(frame)
        # compared as JSON text: Python's == does not tell true from 1 from 1.0, JSON does
        ok = isinstance(j, list) and len(j) == 3 and j[0] == "EVENT" and j[1] == sid and isinstance(j[2], dict) \
            and {k: norm(v) for k, v in j[2].items()} == {k: norm(v) for k, v in ev.items()}
    except Exception as e:
        ok = False
        j = "not JSON: %s" % e
    if not ok:
        report.property_failure("EVENT frame does not parse back to the subscription id and the event: %r" % (str(j)[:120],),
                                payload, None)
    all_str = all(isinstance(x, str) for t in ev["tags"] for x in t)
    if all_str:
        fields = {"id": cp(ev["id"]), "pubkey": cp(ev["pubkey"]), "sig": cp(ev["sig"]), "created_at": cp(str(ev["created_at"])),
                  "kind": cp(str(ev["kind"])), "content": cp(ev["content"]), "tags": [[cp(x) for x in t] for t in ev["tags"]]}
        m, parsed = drv.batch([{"op": "json.event", "sid": cp(sid), "e": fields}, {"op": "json.parse", "s": cp(frame)}])
        if m != cp(frame):
            report.correspondence_break("util.event_as_json", payload, frame[:200], uncp(m)[:200])
        want = {"t": "EVENT", "sid": cp(sid), "e": fields}
        if parsed != want:
            report.property_failure("the Lean frame reader does not recover the event from the emitted frame", payload, None)
    # EOSE through the real sender loop
    sent = []

    async def run():
        q = asyncio.Queue()
        await q.put((sid, None))

        async def ws_send(m):
            sent.append(m)
            raise asyncio.CancelledError()
        try:
            await web.send_subscriptions(q.get, ws_send, common.__dict__.get("_log") or __import__("logging").getLogger("x"))
        except asyncio.CancelledError:
            pass
    loop.run_until_complete(run())
    eose = sent[0] if sent else None
    m, parsed = drv.batch([{"op": "json.eose", "sid": cp(sid)}, {"op": "json.parse", "s": cp(eose or "")}])
    if eose is None or m != cp(eose):
        report.correspondence_break("web.send_subscriptions (EOSE)", {"kind": "eose", "sid": sid}, eose, uncp(m))
    try:
        ok = json.loads(eose) == ["EOSE", sid]
    except Exception:
        ok = False
    if not ok or parsed != {"t": "EOSE", "sid": cp(sid)}:
        report.property_failure("EOSE frame %r does not parse back to subscription id %r" % (eose, sid), {"kind": "eose", "sid": sid}, None)
    report.case(("frame", frame, sid), nontrivial=any(c in frame for c in "\\") or not all_str,
                sample={"sid": sid, "content": ev["content"][:20], "tags": ev["tags"][:2]})
    report.count("frames")
    report.count("frames_in_model" if all_str else "frames_with_non_string_tag_items")



# ---- (b2) the LMDB record codec: kv.encode_event / get_event_data / decode_event vs Model/MsgPack -----------------

INT_EDGES = [0, 1, 127, 128, 255, 256, 65535, 65536, 2 ** 31 - 1, 2 ** 31, 2 ** 32 - 1, 2 ** 32, 2 ** 53, 2 ** 63 - 1, 2 ** 63,
             2 ** 64 - 1, 2 ** 64, 2 ** 70, -1, -31, -32, -33, -127, -128, -129, -32768, -32769, -2 ** 31, -2 ** 31 - 1,
             -2 ** 63, -2 ** 63 - 1, -2 ** 70]
LEN_EDGES = [0, 1, 15, 16, 31, 32, 33, 255, 256, 257, 65535, 65536, 65537]


def tv(x):
    """a Python value of an event row as the typed JSON the driver reads (strings and byte strings in hex)"""
    import struct
    if x is None:
        return {"t": "nil"}
    if isinstance(x, bool):
        return {"t": "bool", "v": x}
    if isinstance(x, int):
        return {"t": "int", "v": str(x)}
    if isinstance(x, float):
        return {"t": "float", "v": struct.pack(">d", x).hex()}
    if isinstance(x, str):
        return {"t": "str", "v": x.encode("utf-8").hex()}
    if isinstance(x, (bytes, bytearray)):
        return {"t": "bin", "v": bytes(x).hex()}
    if isinstance(x, (list, tuple)):
        return {"t": "arr", "v": [tv(y) for y in x]}
    if isinstance(x, dict):
        flat = []
        for k, v in x.items():
            flat += [tv(k), tv(v)]
        return {"t": "map", "v": flat}
    raise TypeError(type(x))


def rand_value(rng, depth=0):
    r = rng.random()
    if r < 0.3:
        return rng.choice(INT_EDGES) if rng.random() < 0.7 else rng.randint(-2 ** 66, 2 ** 66)
    if r < 0.36:
        return ref_text(rng)
    if r < 0.55:
        n = rng.choice(LEN_EDGES[:10]) if rng.random() < 0.5 else rng.randint(0, 40)
        base = rand_text(rng, min(n, 12))
        base = "".join(c for c in base if not 0xD800 <= ord(c) <= 0xDFFF)
        return (base * (n // max(1, len(base)) + 1))[:n] if base else "x" * n
    if r < 0.63:
        return rng.choice([True, False, None])
    if r < 0.72:
        return rng.choice([1.5, 0.1, 1e20, 1.0, 0.0, -0.0, -2.5e-300, float("inf")])
    if depth >= 3:
        return 7
    if r < 0.9:
        n = rng.choice([0, 1, 2, 3, 15, 16, 17]) if rng.random() < 0.8 else rng.randint(0, 40)
        return [rand_value(rng, depth + 1) for _ in range(n)]
    n = rng.choice([0, 1, 2, 15, 16, 17])
    return {("k%d" % i) * rng.choice([1, 1, 20]): rand_value(rng, depth + 1) for i in range(n)}


def typed_eq(a, b):
    """equality that tells 1 from 1.0 from true, and -0.0 from 0.0; tuples and lists are the same thing"""
    return tv(a) == tv(b)


def record_case(report, drv, rng, big=False):
    from nostr_relay.storage import kv
    from aionostr.event import Event
    import msgpack
    tags = [[rand_value(rng, 1) for _ in range(rng.choice([0, 1, 2, 2, 3, 5]))] for _ in range(rng.choice([0, 1, 2, 3, 16, 17]))]
    if big:
        # widths that only long payloads reach: str16 / str32, array16 / array32, map16
        tags.append(["x" * rng.choice([65535, 65536, 70000]), list(range(rng.choice([65535, 65536]))),
                     {"k%d" % i: i for i in range(rng.choice([16, 65536]))}])
    content = rand_value(rng, 9)
    if not isinstance(content, str):
        content = "c" * rng.choice(LEN_EDGES)
    ev = Event(id=rng.randbytes(32).hex(), pubkey=rng.randbytes(32).hex(), sig=rng.randbytes(64).hex(),
               created_at=rng.choice(INT_EDGES) if rng.random() < 0.5 else rng.choice([0, 1700000000, 2 ** 32 - 1]),
               kind=rng.choice(INT_EDGES) if rng.random() < 0.3 else rng.choice([0, 1, 5, 30023, 65535]),
               content=content, tags=tags)
    row = {"id": ev.id, "created": str(ev.created_at), "kind": str(ev.kind), "pubkey": ev.pubkey,
           "content": ev.content.encode("utf-8").hex(), "tags": tv(ev.tags), "sig": ev.sig}
    payload = {"kind": "record", "row": row}
    try:
        data = kv.encode_event(ev)
    except Exception as e:
        data = None
        err = type(e).__name__
    m = drv.call({"op": "mp.record", "row": row})
    report.count("records")
    if data is None:
        report.count("records_refused_by_packb")
        if m.get("data") != "raises":
            report.correspondence_break("kv.encode_event (packb raises %s)" % err, payload, "raises", str(m.get("data"))[:80])
        report.case(("record-raises", row["created"], row["kind"], json.dumps(row["tags"])[:200]), nontrivial=True)
        return
    if m.get("data") != data.hex():
        report.correspondence_break("kv.encode_event", payload, data.hex()[:160], str(m.get("data"))[:160])
    # the implementation's own read path
    back = kv.decode_event(msgpack.unpackb(data, use_list=False))
    same = (back.id == ev.id and back.pubkey == ev.pubkey and back.sig == ev.sig and typed_eq(back.created_at, ev.created_at)
            and typed_eq(back.kind, ev.kind) and typed_eq(back.content, ev.content) and typed_eq(back.tags, ev.tags))
    if not same:
        report.property_failure("kv: the record read back (decode_event) is not the event that was written (encode_event)",
                                payload, None)
    mback = m.get("back")
    if mback != row:
        report.correspondence_break("Model/MsgPack decodeEvent ∘ encodeEvent", payload, "the row", json.dumps(mback)[:160])
    # the reader alone, on the bytes the real packer wrote
    u = drv.call({"op": "mp.unpack", "data": data.hex()})
    if u != tv(msgpack.unpackb(data, use_list=False)):
        report.correspondence_break("msgpack.unpackb", payload, json.dumps(tv(msgpack.unpackb(data, use_list=False)))[:160],
                                    json.dumps(u)[:160])
    report.case(("record", data.hex()[:400]), nontrivial=any(not isinstance(x, str) for t in ev.tags for x in t))

# ---- (c) storage round trips -----------------------------------------------------------------------

def signed_event(rng, keys, mutate=None):
    from aionostr.event import Event

    sk = rng.choice(keys)
    strings_only = rng.random() < 0.55
    ev = Event(pubkey=sk.public_key.hex(), content=rand_text(rng), kind=rng.choice([1, 1, 7, 4, 30000, 10002]),
               created_at=1700000000 + rng.randrange(1000), tags=rand_tags(rng, strings_only))
    if mutate == "upper-pubkey":
        ev.pubkey = ev.pubkey.upper()
        ev.id = Event.compute_id(ev.pubkey, ev.created_at, ev.kind, ev.tags, ev.content)
    elif mutate == "spaced-pubkey":
        # `bytes.fromhex` skips ASCII whitespace: the same key, written in words; id and signature made over this text
        ev.pubkey = rng.choice([" ", "\t", "\n"]).join(ev.pubkey[i:i + 8] for i in range(0, 64, 8))
        ev.id = Event.compute_id(ev.pubkey, ev.created_at, ev.kind, ev.tags, ev.content)
    ev.sign(sk.hex())
    out = ev.to_json_object()
    if mutate == "spaced-sig":
        out["sig"] = out["sig"][:64] + rng.choice([" ", "  ", "\n"]) + out["sig"][64:]
    elif mutate == "ws-sig":
        out["sig"] = out["sig"] + rng.choice([" ", "\n", "\r\n", "\t"])
    return out


def norm(x):
    """JSON-normalised (tuples = lists) and compared as text, so that the key order of objects inside tags counts"""
    return json.dumps(json.loads(json.dumps(x)))


class _Obj(list):
    """a JSON object as it stands in a served text: its (key, value) members in the order of the text, repeated keys kept"""


def parse_strict(text):
    """the JSON value a served text denotes, nothing forgiven and nothing lost: an object is the SEQUENCE of its members (json.loads
    into a dict keeps the order but silently drops a repeated key), NaN / Infinity (which Python reads and JSON does not have) are
    refused"""
    def constant(c):
        raise ValueError("%s is not JSON" % c)
    return json.loads(text, object_pairs_hook=_Obj, parse_constant=constant)


def tree(x):
    """a JSON value — as parse_strict read it, or as the Python data the client serialised — as a term in which 1 / 1.0 / true and
    0.0 / -0.0 are different things, tuples and lists the same thing, and an object is the sequence of its members: the id of an
    event is the hash of the serialisation of its fields in the order the signer wrote them, so {"b":1,"a":2} and {"a":2,"b":1}
    (equal as Python dicts) are different tag items"""
    if isinstance(x, _Obj):
        return ["obj", [[k, tree(v)] for k, v in x]]
    if isinstance(x, dict):
        return ["obj", [[k, tree(v)] for k, v in x.items()]]
    if isinstance(x, (list, tuple)):
        return ["arr", [tree(v) for v in x]]
    if x is None:
        return ["null"]
    if isinstance(x, bool):
        return ["bool", x]
    if isinstance(x, int):
        return ["int", str(x)]
    if isinstance(x, float):
        return ["float", repr(x)]
    if isinstance(x, str):
        return ["str", x]
    raise TypeError(type(x))


def plain(x):
    """parse_strict's value as ordinary Python data (dicts in the order of the text)"""
    if isinstance(x, _Obj):
        return {k: plain(v) for k, v in x}
    if isinstance(x, list):
        return [plain(v) for v in x]
    return x


def served_ok(accepted, served):
    """field for field equal (JSON-normalised: tuples = lists)"""
    if served is None:
        return False
    return norm(served.to_json_object()) == norm(accepted)


def classify_store(ev):
    if ev["pubkey"] != ev["pubkey"].lower() or ev["sig"] != ev["sig"].lower():
        return "c04-nonstandard-hex-normalised"
    return None


def store_case(report, rng, store, keys, app_client, tags=None, ws=False):
    if tags is None:
        mutate = rng.choice(["upper-pubkey", "spaced-pubkey", "spaced-sig", "ws-sig"]) if rng.random() < 0.12 else None
        ev = signed_event(rng, keys, mutate)
    else:
        # (e): an event with exactly these tags (one of a family of twins)
        mutate = None
        ev = sign_tags(rng, keys, tags, 1700000000 + rng.randrange(1000))
    accepted = copy.deepcopy(ev)
    payload = {"kind": "store", "backend": store.backend, "event": accepted}
    store.captured = []
    res = store.add(ev)
    if mutate:
        report.count("noncanonical_hex_%s_%s" % (mutate, "accepted" if res["ok"] else "refused"))
    if not res["ok"]:
        report.count("refused_" + store.backend)
        return
    if res["broadcast"]:
        pushed = store.captured[-1] if store.captured else None
        if pushed is not None and norm(pushed) != norm(accepted):
            report.property_failure("%s: the event pushed live differs from the accepted event (%s)"
                                    % (store.backend, diff_fields(accepted, pushed)), payload, classify_store(accepted))
    got = store.get(accepted["id"])
    if got is None:
        # LMDB acknowledges before writing: an unstorable event (e.g. 2**70 in a tag) is C06's business
        report.count("not_retrievable_" + store.backend)
        return
    if not served_ok(accepted, got):
        report.property_failure("%s: get_event serves a different event than was accepted (%s)"
                                % (store.backend, diff_fields(accepted, got.to_json_object())), payload, classify_store(accepted))
    elif not got.verify() or got.id != got.compute_id(got.pubkey, got.created_at, got.kind, got.tags, got.content):
        report.property_failure("%s: the served event no longer verifies" % store.backend, payload, classify_store(accepted))
    q = store.query([{"ids": [accepted["id"]]}])
    if len(q) != 1 or not served_ok(accepted, q[0]):
        report.property_failure("%s: a query serves %d events / a different event for the accepted id" % (store.backend, len(q)),
                                payload, classify_store(accepted))
    app_routes(report, store, accepted, payload, app_client, ws)
    report.case(("store", store.backend, json.dumps(accepted, sort_keys=True)), nontrivial=True,
                sample={"backend": store.backend, "content": accepted["content"][:16], "tags": accepted["tags"][:2]})
    report.count("stored_" + store.backend)


def app_routes(report, store, accepted, payload, app_client, ws):
    """the routes of the application (make_http) for one accepted, retrievable event: the raw body of GET /e/<id> — and, with `ws`,
    the raw frames of a websocket REQ for its id — must be the accepted event: parsed with nothing lost (parse_strict), compared
    field for field with JSON types and the order of object members (served_differs), id and signature recomputed from the text"""
    why = text_differs(accepted, store.run(app_client.get(accepted["id"])))
    if why:
        report.property_failure("%s: HTTP /e/<id> does not serve the accepted event (%s)" % (store.backend, why), payload,
                                classify_store(accepted))
    report.count("http_bodies_" + store.backend)
    if ws:
        frames = store.run(app_client.req("c04", {"ids": [accepted["id"]]}))
        n = event_frames(report, payload, frames, "c04", {accepted["id"]: accepted}, "the stored answer of a websocket session through the application",
                         cls=classify_store(accepted))
        report.count("app_ws_event_frames_" + store.backend, n)


def diff_fields(a, b):
    a, b = json.loads(json.dumps(a)), json.loads(json.dumps(b))
    return ",".join(k for k in a if json.dumps(a.get(k)) != json.dumps(b.get(k)))


class make_http:
    """The HTTP and websocket routes of the ASGI application AS THE RELAY BUILDS IT — web.create_app: the routes, the middleware, the
    media handlers that turn `resp.media` into the bytes of the body and those of websocket payloads — around this store's storage
    object; not a hand-made falcon App holding only the resource (whatever create_app configures between the resource and the
    socket is part of what a client is served).  What comes back is the RAW text: every judgement is made on it.
    The lifespan events are not run (the storage object is set up already and goes on being used afterwards).  create_app loads
    the shipped configuration file into the process-wide Config on its first call; the harness's own settings are put back, so
    that everything else in the run behaves as it did"""

    def __init__(self, store):
        from nostr_relay import web
        from nostr_relay.config import Config

        saved = dict(Config.__dict__)
        try:
            self.app = web.create_app(storage=store.storage)
        finally:
            Config.__dict__.clear()
            Config.__dict__.update(saved)

    async def get(self, event_id):
        """the body of GET /e/<id> (bytes), None unless the status is 200"""
        import falcon.testing
        r = await falcon.testing.ASGIConductor(self.app).simulate_get("/e/%s" % event_id)
        if r.status_code != 200:
            return None
        return r.content

    async def req(self, sid, filt, most=200):
        """one websocket session through NostrAPI.on_websocket: a REQ, the raw text frames up to its EOSE (or a NOTICE, or the
        end of the connection)"""
        import falcon
        import falcon.testing
        out = []
        try:
            async with falcon.testing.ASGIConductor(self.app).simulate_ws("/", remote_addr="1.2.3.6") as ws:
                await ws.send_text(json.dumps(["REQ", sid, filt]))
                while len(out) < most:
                    try:
                        text = await asyncio.wait_for(ws.receive_text(), 20)
                    except asyncio.TimeoutError:
                        break           # (a missing EOSE is C05's business)
                    out.append(text)
                    try:
                        f = json.loads(text)
                    except Exception:
                        continue        # (judged by the caller)
                    if isinstance(f, list) and f and f[0] in ("EOSE", "NOTICE"):
                        break
        except falcon.WebSocketDisconnected:
            pass
        return out


def capture_pushes(store):
    orig = store.storage.notify_all_connected
    store.captured = []

    async def wrapped(event):
        store.captured.append(copy.deepcopy(event.to_json_object()))
        return await orig(event)
    store.storage.notify_all_connected = wrapped


HOSTILE_IDS = ['a"b', "back\\slash", "ctl\x01\n", '","x":"', "\u2028", "é", "", "'", '"]', "\x7f", "a" * 70, 'x"],["NOTICE","pwned'] + \
    [7, 0, None, True, 1.5, ["x"], {"a": 1}]


def ws_frames_case(report, rng, backend, keys, tag):
    """every text frame of real websocket sessions (the raw text, before any parsing on our side), on a relay with and without
    a rate limit that the session exceeds: commands whose ids, subscription ids and payloads carry quotes, backslashes,
    control characters and non-string JSON values.  Each frame must parse as JSON of one of the five shapes and echo the
    client's own strings"""
    from lib.proto import Relay, Conn

    limited = rng.random() < 0.6
    relay = Relay(backend, rate_limits={"ip": {"EVENT": "%d/hour" % rng.choice([1, 2, 4]), "REQ": "6/hour"}} if limited else None)
    try:
        c = Conn(relay)
        sent = []
        published = {}
        for step in range(rng.randint(6, 14)):
            if c.done:
                break
            r = rng.random()
            n = len(c.out)
            expect_id = expect_sub = None
            raw_id = "\0none"
            if r < 0.3:
                ev = signed_event(rng, keys)
                msg = ["EVENT", ev]
                expect_id = ev["id"]
                published[ev["id"]] = copy.deepcopy(ev)
            elif r < 0.6:
                ev = signed_event(rng, keys)
                ev["id"] = rng.choice(HOSTILE_IDS)
                msg = ["EVENT", ev]
                # (an empty id is "no id": the relay computes it, as for an event sent without one)
                expect_id = ev["id"] if isinstance(ev["id"], str) and ev["id"] else None
                raw_id = ev["id"]
            elif r < 0.85:
                sub = rng.choice(HOSTILE_IDS[:12] + ["s1", "s2"])
                msg = ["REQ", sub, {"kinds": [1], "limit": 3}]
                expect_sub = sub
            elif r < 0.93:
                msg = ["CLOSE", rng.choice(HOSTILE_IDS[:12] + ["s1"])]
            else:
                msg = rng.choice([["AUTH", {"id": 'q"'}], ["EVENT"], ["EVENT", rng.choice(HOSTILE_IDS)], ["REQ"], "[", ["FOO", 'x"y']])
            sent.append(msg)
            c.send(msg)
            payload = {"kind": "ws-frames", "backend": backend, "rate_limited_relay": limited, "messages": sent}
            for text in c.out[n:]:
                report.count("ws_frames_" + backend)
                try:
                    strict = parse_strict(text)
                    f = plain(strict)
                except Exception:
                    report.property_failure("%s: the relay sent a frame that is not JSON: %r (in answer to %r)" % (backend, text[:120], msg),
                                            payload, None)
                    continue
                ok_shape = isinstance(f, list) and f and f[0] in ("EVENT", "EOSE", "OK", "NOTICE", "AUTH") and (
                    (f[0] == "EVENT" and len(f) == 3 and isinstance(f[1], str) and isinstance(f[2], dict))
                    or (f[0] == "EOSE" and len(f) == 2 and isinstance(f[1], str))
                    # (the id position holds a string, or — for an EVENT whose id was not a string — that very value echoed)
                    or (f[0] == "OK" and len(f) == 4 and (isinstance(f[1], str) or json.dumps(f[1]) == json.dumps(raw_id))
                        and isinstance(f[2], bool) and isinstance(f[3], str))
                    or (f[0] == "NOTICE" and len(f) == 2 and isinstance(f[1], str))
                    or (f[0] == "AUTH" and len(f) == 2 and isinstance(f[1], str)))
                if not ok_shape:
                    report.property_failure("%s: a frame of no legal shape: %r (in answer to %r)" % (backend, text[:120], msg), payload, None)
                elif f[0] == "OK" and expect_id is not None and f[1] not in (expect_id, ""):
                    report.property_failure("%s: OK frame names %r, the EVENT message named %r" % (backend, f[1], expect_id), payload, None)
                elif f[0] == "EOSE" and expect_sub is not None and f[1] != expect_sub:
                    report.property_failure("%s: EOSE for %r, the REQ said %r" % (backend, f[1], expect_sub), payload, None)
                elif f[0] == "EVENT" and isinstance(f[2].get("id"), str) and f[2]["id"] in published:
                    # an event this session published under its own id and now gets back: verbatim (types, member order), verifiable
                    report.count("ws_event_frames_compared_" + backend)
                    why = served_differs(published[f[2]["id"]], strict[2], True)
                    if why:
                        report.property_failure("%s: an EVENT frame does not carry the accepted event (%s): %r" % (backend, why, text[:160]),
                                                payload, None)
        report.case(("ws-frames", backend, tag, limited), nontrivial=True, sample={"backend": backend, "rate_limited": limited, "messages": len(sent)})
        report.count("ws_frame_sessions_" + backend + ("_rate_limited" if limited else ""))
    finally:
        relay.close()


# ---- (e) twins: values that Python calls equal (or spells alike) and that are different JSON ---------------------------
#
# 1 == 1.0 == True and 0 == 0.0 == -0.0 == False (with equal hashes), str(1) == str("1"): any table keyed by ==/hash or by
# str() somewhere between acceptance and the socket (a memo of encoded tags / items / events, a dict of interned values,
# a set used for de-duplication) serves the FIRST member of such a class it met for every later one.  A single event never
# shows that, nor do two unrelated random events: it takes two events (or two tags of one event) that differ ONLY by such a
# swap, served by the same process, and a comparison that tells the members apart.  A family = one tag skeleton with
# "slots", filled 2..4 times with different members of the slot's class; the events of a family are served in a random
# order (so either member is the first one the process meets), twice (the second pass reads whatever the first remembered),
# partly with strings nobody has served before (nothing remembered from an earlier case) and partly with common ones.

EQUAL_CLASSES = [[1, 1.0, True], [0, 0.0, -0.0, False], [2, 2.0], [7, 7.0], [-5, -5.0], [2 ** 31, float(2 ** 31)],
                 [2 ** 53, float(2 ** 53)], [10 ** 15, 1e15]]
SPELT_ALIKE = [[1, "1"], [0, "0"], [-5, "-5"], [1.0, "1.0"], [1.5, "1.5"], [True, "True", "true"], [False, "False", "false"],
               [None, "None", "null", ""]]


class _Slot:
    def __init__(self, cls, wrap):
        self.cls, self.wrap = cls, wrap

    def fill(self, rng):
        v = rng.choice(self.cls)
        return [v] if self.wrap == "list" else {"k": v} if self.wrap == "dict" else ["a", {"n": v}] if self.wrap == "deep" else v


def twin_family(rng):
    """2..4 tag lists that differ only in which member of an equality class (three families in four) or of a spelt-alike
    class stands in the slots; plus, sometimes, one tag list that holds two of them side by side (twins inside ONE event)"""
    fresh = "%08x" % rng.getrandbits(32)
    classes = EQUAL_CLASSES if rng.random() < 0.75 else SPELT_ALIKE
    skeleton = []
    for _ in range(rng.choice([1, 1, 2, 3])):
        t = [rng.choice(["count", "flags", "x", "p", "e", "t", "n" + fresh])]
        n = rng.choice([1, 1, 2, 3])
        at = rng.randrange(n)
        for j in range(n):
            if j == at or rng.random() < 0.3:
                # mostly a bare scalar; sometimes the scalar sits inside a nested array / object
                t.append(_Slot(rng.choice(classes), rng.choice([None] * 8 + ["list", "dict", "deep"])))
            else:
                t.append(rng.choice(["x", "", fresh, "v" + fresh, rand_text(rng, 3)]))
        skeleton.append(t)
    want = rng.choice([2, 2, 3, 4])
    variants, seen = [], set()
    for _ in range(40):
        tags = [[x.fill(rng) if isinstance(x, _Slot) else x for x in t] for t in skeleton]
        if norm(tags) not in seen:
            seen.add(norm(tags))
            variants.append(tags)
        if len(variants) == want:
            break
    if len(variants) >= 2 and rng.random() < 0.35:
        variants.append(copy.deepcopy(variants[0]) + copy.deepcopy(variants[1]))
    rng.shuffle(variants)
    return variants, ("equal" if classes is EQUAL_CLASSES else "spelt-alike")


def served_differs(accepted, served, verify):
    """None, or how the served object (a dict, or an object as parse_strict read it) is not field for field the accepted event:
    JSON types, the order of the members of objects inside the fields and repeated members included.  The order of the seven
    fields themselves is not part of the event"""
    if isinstance(served, _Obj):
        names = [k for k, _ in served]
        if len(set(names)) != len(names):
            return "a field occurs twice: %s" % names
        fields = {k: tree(v) for k, v in served}
        served = plain(served)
    elif isinstance(served, dict):
        fields = {k: tree(v) for k, v in served.items()}
    else:
        return "not an object: %r" % (served,)
    if set(served) != set(accepted):
        return "fields %s" % sorted(set(served) ^ set(accepted))
    bad = [k for k in accepted if fields[k] != tree(accepted[k])]
    if bad:
        return "%s: accepted %s, served %s" % (",".join(bad), json.dumps(accepted[bad[0]])[:90], json.dumps(served[bad[0]])[:90])
    if verify:
        # recomputed from what was served, in the order it was served
        from aionostr.event import Event
        try:
            e = Event(**served)
            ok = e.verify() and e.id == Event.compute_id(e.pubkey, e.created_at, e.kind, e.tags, e.content)
        except Exception:
            ok = False
        if not ok:
            return "id / signature of the served event no longer verify"
    return None


def text_differs(accepted, text, verify=True):
    """None, or how a served text (an HTTP body) is not the accepted event"""
    if text is None:
        return "no answer"
    try:
        if isinstance(text, bytes):
            text = text.decode("utf-8")
        served = parse_strict(text)
    except Exception as e:
        return "not JSON: %s: %r" % (e, text[:120])
    return served_differs(accepted, served, verify)


def event_frames(report, payload, texts, sid, by_id, path, differ_by="", cls=None):
    """the EVENT frames for subscription `sid` among raw frame texts: each must be JSON, name an accepted event and BE that event
    (served_differs, id and signature recomputed from the frame).  Returns the number of frames judged"""
    backend = payload["backend"]
    n = 0
    for text in texts:
        try:
            s = parse_strict(text)
        except Exception as e:
            report.property_failure("%s: the relay sent a frame that is not JSON (%s): %r" % (backend, e, text[:120]), payload, cls)
            continue
        if not (isinstance(s, list) and not isinstance(s, _Obj) and len(s) == 3 and s[0] == "EVENT" and s[1] == sid and isinstance(s[2], _Obj)):
            continue
        ident = plain(s[2]).get("id")
        acc = by_id.get(ident) if isinstance(ident, str) else None
        if acc is None:
            # (the subscription is open only while this group is published / the REQ names these ids)
            report.property_failure("%s: %s serves an event with an id that was never accepted: %r" % (backend, path, text[:160]),
                                    payload, cls)
            continue
        n += 1
        why = served_differs(acc, s[2], True)
        if why:
            report.property_failure("%s: %s of %s is not the accepted event (%s)" % (backend, path, differ_by or "an accepted event", why),
                                    payload, cls)
    return n


def twins_frames_check(report, payload):
    """util.event_as_json over the events of the payload, in that order, two passes"""
    from nostr_relay import util
    sid = payload["sid"]
    for rnd in (1, 2):
        for ev in payload["events"]:
            frame = util.event_as_json(sid, _Ev(ev))
            try:
                j = parse_strict(frame)
                why = None if isinstance(j, list) and not isinstance(j, _Obj) and len(j) == 3 and j[0] == "EVENT" and j[1] == sid \
                    else "not an EVENT frame for %r" % sid
                why = why or served_differs(ev, j[2], False)
            except Exception as e:
                why = "not JSON: %s" % e
            if why:
                report.property_failure("EVENT frame of %s (pass %d): %s" % (payload.get("differ_by") or TWINS, rnd, why), payload, None)
                return False
    return True


def twins_frame_case(report, rng, family="twin"):
    variants, cls = twin_family(rng) if family == "twin" else order_family(rng)
    evs = [{"id": rng.randbytes(32).hex(), "pubkey": rng.randbytes(32).hex(), "sig": rng.randbytes(64).hex(),
            "created_at": 1700000000 + rng.randrange(1000), "kind": 1, "content": rand_text(rng, 4), "tags": tags} for tags in variants]
    payload = {"kind": "twins-frame", "sid": rng.choice(["a", "sub1", 'a"b']), "events": evs}
    if family != "twin":
        payload["differ_by"] = REORDERED
    twins_frames_check(report, payload)
    report.case(("twins-frame", norm([e["tags"] for e in evs])), nontrivial=True, sample={family + "s": [e["tags"] for e in evs][:3]})
    report.count("%s_families_frames_%s" % (family, cls))
    report.count("%s_events_frames" % family, len(evs))


def sign_tags(rng, keys, tags, created_at):
    from aionostr.event import Event
    sk = rng.choice(keys)
    ev = Event(pubkey=sk.public_key.hex(), content=rand_text(rng, 4), kind=1, created_at=created_at, tags=tags)
    ev.sign(sk.hex())
    return ev.to_json_object()


TWINS = "an event whose tags differ from another accepted event's only by an equal-comparing / alike-spelt value"


def twins_ws_check(report, relay, payload, first=0):
    """One relay process, real websocket sessions: the events of each group are published (while a live subscription is open
    or not), then asked for by id, then fetched over HTTP (through the application as the relay builds it).  Every EVENT frame
    (its raw text) and every HTTP body (its raw text) must be the accepted event — JSON types and the order of object members
    included — and must still verify.  Returns the number of (event, path) observations"""
    from lib.proto import Conn
    backend = payload["backend"]
    differ_by = payload.get("differ_by") or TWINS
    pub, sub = Conn(relay, remote_addr="1.2.3.4"), Conn(relay, remote_addr="1.2.3.5")
    http = make_http(relay.store)
    seen = 0

    for gi, group in enumerate(payload["groups"]):
        events, live = group["events"], group["live"]
        by_id = {e["id"]: e for e in events}
        accepted = {}
        if live:
            sub.send(["REQ", "live", {"kinds": [1], "since": 1}])
        n0 = len(sub.out)
        for e in events:
            if pub.send_event(copy.deepcopy(e)):
                accepted[e["id"]] = e
        if live:
            seen += event_frames(report, payload, sub.out[n0:], "live", by_id, "the live push", differ_by)
            sub.send(["CLOSE", "live"])
        n0 = len(sub.out)
        sid = "stored%d" % (first + gi)
        sub.send(["REQ", sid, {"ids": list(by_id)}])
        seen += event_frames(report, payload, sub.out[n0:], sid, by_id, "the stored answer", differ_by)
        sub.send(["CLOSE", sid])
        for i, e in accepted.items():
            body = relay.run(http.get(i))
            if body is None:
                continue        # (not retrievable: C06's business, as in store_case)
            seen += 1
            why = text_differs(e, body)
            if why:
                report.property_failure("%s: HTTP /e/<id> of %s is not the accepted event (%s)" % (backend, differ_by, why), payload, None)
        report.count("%s_events_accepted_%s" % (payload.get("family") or "twin", backend), len(accepted))
    pub.close()
    sub.close()
    return seen


def twins_ws_case(report, rng, backend, keys, families, family="twin"):
    from lib.proto import Relay
    gen, differ_by = (twin_family, None) if family == "twin" else (order_family, REORDERED)
    groups = []
    for _ in range(families):
        variants, cls = gen(rng)
        # the stored answer comes newest first: random distinct timestamps make its order independent of the order of submission
        stamps = rng.sample(range(1700000000, 1700001000), len(variants))
        groups.append({"live": rng.random() < 0.5, "class": cls, "events": [sign_tags(rng, keys, t, ts) for t, ts in zip(variants, stamps)]})
        report.count("%s_families_ws_%s_%s" % (family, backend, cls))
    payload = {"kind": "twins-ws", "backend": backend, "groups": groups}
    if differ_by:
        payload.update({"family": family, "differ_by": differ_by})
    relay = Relay(backend)
    try:
        seen = twins_ws_check(report, relay, payload)
    finally:
        relay.close()
    report.count("%s_observations_%s" % (family, backend), seen)
    report.case(("twins-ws", backend, norm([[e["tags"] for e in g["events"]] for g in groups])), nontrivial=True,
                sample={"backend": backend, family + "s": [e["tags"] for e in groups[0]["events"]][:3], "live": groups[0]["live"]})


# ---- (f) siblings: objects inside tags whose members stand in an order that no canonical form produces -----------------------
#
# {"b":1,"a":2} == {"a":2,"b":1} in Python (and they hash alike once frozen), json.dumps(sort_keys=True) / a JSONB column / a
# "canonical JSON" pass / a cache keyed by the parsed value make them the same text — but the id of an event is the hash of the
# serialisation the SIGNER made, members in the signer's order.  Any layer between acceptance and the socket that rebuilds the
# objects (a codec that sorts, an encoder configured per route, a store that normalises, a memo keyed by ==) serves an event that
# no longer hashes to its id, and nothing notices unless (1) some object inside a tag has two or more members that are NOT in
# the order the layer would produce, (2) the route in question is exercised THROUGH that layer (the application as the relay
# builds it, not a resource wired by hand) and (3) the served text is read without losing the order.  A family = one tag
# skeleton holding objects (bare, inside arrays, inside objects; 2..6 members, sometimes 16/17: msgpack's fixmap / map16
# boundary), written 2..4 times with the members of every object in different orders — among them, as a rule, the code-point
# sorted one and its reverse — so that whichever order a layer prefers, some sibling is not in it, and a table keyed by == has
# both of a pair to confuse.  Keys: plain words, one-letter names, upper / lower case (sorted differently by case-folding
# collations), digit strings ("10" < "9" as text, not as numbers), the empty key, non-ASCII and non-BMP (UTF-8 / UTF-16 / code
# point orders differ), keys that need escapes.

REORDERED = "an event with objects inside its tags whose members are not in sorted order (siblings differ only by that order)"
OBJ_KEYS = ["zebra", "apple", "mango", "url", "m", "dim", "alt", "x", "size", "b", "a", "B", "A", "aa", "ab", "Z", "z", "_", "10", "9", "2",
            "", "é", "e", "\uffff", "\U0001f600", "key with space", 'q"uote', "back\\slash", "new\nline", "k", "id", "tags"]


def rand_object(rng, depth=0):
    n = rng.choice([2, 2, 2, 3, 3, 4, 6]) if rng.random() < 0.93 or depth else rng.choice([15, 16, 17])
    names = rng.sample(OBJ_KEYS, min(n, len(OBJ_KEYS)))
    names += ["k%d" % i for i in range(n - len(names))]
    obj = {}
    for k in names:
        r = rng.random()
        if r < 0.35:
            obj[k] = rand_text(rng, rng.randint(0, 4))
        elif r < 0.6:
            obj[k] = rng.choice([0, 1, -5, 2 ** 31, 2 ** 53, 1.5, 0.1, -0.5, 1e20, True, False, None])
        elif depth >= 2:
            obj[k] = rng.choice([[], ["n"], "leaf"])
        elif r < 0.8:
            obj[k] = rand_object(rng, depth + 1)
        else:
            obj[k] = [rand_object(rng, depth + 1) if rng.random() < 0.6 else rng.choice(["n", 1, None]) for _ in range(rng.choice([1, 2]))]
    return obj


def reordered(rng, x, how):
    """the same JSON value with the members of every object (at every depth) in another order"""
    if isinstance(x, dict):
        ks = list(x)
        if how == "sorted":
            ks.sort()
        elif how == "reversed":
            ks.sort(reverse=True)
        else:
            rng.shuffle(ks)
        return {k: reordered(rng, x[k], how) for k in ks}
    if isinstance(x, list):
        return [reordered(rng, v, how) for v in x]
    return x


def has_unsorted_object(x):
    if isinstance(x, dict):
        return list(x) != sorted(x) or any(has_unsorted_object(v) for v in x.values())
    return isinstance(x, list) and any(has_unsorted_object(v) for v in x)


def order_family(rng):
    """2..4 tag lists that differ only in the order of the members of the objects they hold"""
    skeleton = []
    for _ in range(rng.choice([1, 1, 2, 3])):
        t = [rng.choice(["payload", "imeta", "x", "t", "e", "p", "client", "d"])]
        if len(t[0]) == 1 and rng.random() < 0.85:
            # the value of a one-letter tag is indexed: the SQL backend refuses an event that has an array / object there
            # (OK=false, nothing to serve), so the objects mostly come after a string value
            t.append(rng.choice(["v", "", rand_text(rng, 3), ref_text(rng)]))
        n = rng.choice([1, 1, 2, 3])
        at = rng.randrange(n)
        for j in range(n):
            if j == at or rng.random() < 0.25:
                o = rand_object(rng)
                t.append(rng.choice([o, o, o, [o], ["a", o, "b"]]))
            else:
                t.append(rng.choice(["x", "", rand_text(rng, 3), ref_text(rng)]))
        skeleton.append(t)
    want = rng.choice([2, 2, 3, 4])
    variants, seen = [], set()
    for how in ["shuffled", "sorted", "reversed"] + ["shuffled"] * 12:
        tags = reordered(rng, skeleton, how)
        if norm(tags) not in seen:
            seen.add(norm(tags))
            variants.append(tags)
        if len(variants) == want:
            break
    rng.shuffle(variants)
    return variants, "key-order"


def run(report, tier, seed):
    rng = random.Random(seed)
    drv = common.Driver()
    loop = asyncio.new_event_loop()
    asyncio.set_event_loop(loop)
    report.coverage["rule"] = (
        "frames: random events whose content, tag items and subscription ids are drawn from every JSON escape class "
        "(quote, backslash, \\n \\r \\t \\b \\f, other C0 controls, DEL, U+2028/9, BOM, U+FFFF, non-BMP, literal '\\u0041') "
        "and non-string tag items (ints, floats, booleans, null, nested arrays/objects); stores: really signed events "
        "with the same content/tag classes through add_event, get_event, query by id, live push and HTTP /e/<id> on "
        "both backends, about one in eight of them with non-canonical hex (upper-case pubkey, pubkey written in words separated "
        "by blanks / tabs / newlines, blanks inside or after the sig — all of which bytes.fromhex decodes); "
        "twins: families of 2-4 events whose tags differ only in which member of a class of equal-comparing (1 / 1.0 / true, "
        "0 / 0.0 / -0.0 / false, n / n.0) or alike-spelt (1 / \"1\", true / \"true\", null / \"null\" / \"\") values stands in a slot "
        "(bare or nested), also side by side in one event, served by one process in random order: util.event_as_json twice over, "
        "the store round trips, and real websocket sessions (live push, stored answer by id, HTTP /e/<id>; raw frame text, "
        "type-strict comparison, id and signature re-verified) on both backends; "
        "siblings: families of 2-4 events whose tags hold objects (bare, inside arrays, inside objects; 2-6 members, sometimes 15-17) "
        "and differ only in the ORDER of the members of those objects (a random order, the code-point sorted one, its reverse, more "
        "random ones; keys: words, single letters in both cases, digit strings, the empty key, non-ASCII / non-BMP, keys needing "
        "escapes), through the same three stations; "
        "the HTTP route and every third stored answer go through the ASGI application as web.create_app builds it (routes, middleware, "
        "media handlers), and every served text (HTTP body, websocket frame) is read with nothing lost — objects as the sequence of "
        "their members, repeated keys kept, NaN / Infinity refused — compared field for field with JSON types and member order, id and "
        "signature recomputed from the text; "
        "non-trivial = the frame needs an escape or carries a non-string item")
    report.assumptions += ["the codecs rapidjson and the SQLite JSON column are exercised, not modelled; the LMDB record codec (msgpack "
                           "packb / unpackb as kv.encode_event / decode_event use them) is modelled (Model/MsgPack) and compared byte for "
                           "byte: integers at every width boundary and beyond 64 bits, strings / arrays / objects at every header "
                           "boundary (15/16, 31/32, 255/256, 65535/65536), floats, booleans, null, nesting",
                           "OK / NOTICE / AUTH frames: the raw text of every frame of websocket sessions with hostile ids, on relays "
                           "with and without an exceeded rate limit, must parse and have a legal shape"]
    from aionostr.key import PrivateKey
    keys = [PrivateKey(bytes([i + 1]) * 32) for i in range(3)]
    stores = [KVStore(validators=["nostr_relay.validators.is_signed"]), SQLStore(validators=["nostr_relay.validators.is_signed"])]
    try:
        for st in stores:
            capture_pushes(st)
        https = {st.backend: make_http(st) for st in stores}
        for e in report.known:
            r = common.load_finding_replay(e)
            if r.get("kind") == "store":
                for st in stores:
                    if st.backend == r["backend"]:
                        replay_store(report, st, r["event"], https[st.backend])
        for i in range(300 if tier == "quick" else 6000):
            frame_case(report, drv, rng, loop)
        for i in range(300 if tier == "quick" else 5000):
            record_case(report, drv, rng, big=(i % 100 == 50))
        for i in range(250 if tier == "quick" else 3000):
            for st in stores:
                # (every third one is also asked for over a websocket session through the application: those cost ~10 ms each)
                store_case(report, rng, st, keys, https[st.backend], ws=(i % 3 == 0))
        for i in range(10 if tier == "quick" else 150):
            for backend in ("sql", "kv"):
                ws_frames_case(report, rng, backend, keys, i)
        # (e) twins.  Sizes: nothing here depends on a volume — two members of one class served by one process are enough —
        # so the numbers only buy variety of skeletons, classes, orders and paths (a memo that only remembers values it has
        # met several times is covered by the second pass / by the three paths each event goes through)
        for i in range(200 if tier == "quick" else 4000):
            twins_frame_case(report, rng)
        for i in range(40 if tier == "quick" else 600):
            variants, cls = twin_family(rng)
            for st in stores:
                for tags in variants:
                    store_case(report, rng, st, keys, https[st.backend], tags=copy.deepcopy(tags), ws=True)
                report.count("twin_families_store_%s_%s" % (st.backend, cls))
        for i in range(4 if tier == "quick" else 60):
            for backend in ("sql", "kv"):
                twins_ws_case(report, rng, backend, keys, families=4)
        # (f) siblings (objects whose members are not in sorted order), through the same three stations as the twins.  Sizes: one
        # object with two members out of order, served once over the route in question, is enough — nothing depends on a volume;
        # the numbers buy variety of keys, depths, positions, orders and routes
        for i in range(150 if tier == "quick" else 3000):
            twins_frame_case(report, rng, family="sibling")
        for i in range(50 if tier == "quick" else 800):
            variants, cls = order_family(rng)
            for st in stores:
                for tags in variants:
                    store_case(report, rng, st, keys, https[st.backend], tags=copy.deepcopy(tags), ws=True)
                    report.count("sibling_events_store_%s_%s" % (st.backend, "unsorted" if has_unsorted_object(tags) else "sorted"))
                report.count("sibling_families_store_%s" % st.backend)
        for i in range(3 if tier == "quick" else 50):
            for backend in ("sql", "kv"):
                twins_ws_case(report, rng, backend, keys, families=4, family="sibling")
    finally:
        for st in stores:
            st.close()
        drv.close()


def replay_store(report, store, ev, app_client=None):
    accepted = copy.deepcopy(ev)
    store.captured = []
    res = store.add(ev)
    payload = {"kind": "store", "backend": store.backend, "event": accepted}
    if not res["ok"]:
        return
    got = store.get(accepted["id"])
    if got is not None and not served_ok(accepted, got):
        report.property_failure("%s: get_event serves a different event than was accepted (%s)"
                                % (store.backend, diff_fields(accepted, got.to_json_object())), payload, classify_store(accepted))
    if got is not None:
        app_routes(report, store, accepted, payload, app_client or make_http(store), True)
    report.case(("replay-store", store.backend, accepted["id"]), nontrivial=True)


def replay(report, path):
    data = json.load(open(path))
    drv = common.Driver()
    stores = {"kv": KVStore(validators=["nostr_relay.validators.is_signed"]),
              "sql": SQLStore(validators=["nostr_relay.validators.is_signed"])}
    try:
        for st in stores.values():
            capture_pushes(st)
        for it in (data.get("violations") or []) + (data.get("correspondence_breaks") or []):
            r = it.get("replay") or it.get("input")
            if r.get("kind") == "store":
                replay_store(report, stores[r["backend"]], r["event"])
            elif r.get("kind") == "twins-frame":
                twins_frames_check(report, r)
                report.case(("replay-twins-frame", repr(r)[:100]), nontrivial=True)
            elif r.get("kind") == "twins-ws":
                from lib.proto import Relay
                relay = Relay(r["backend"])
                try:
                    twins_ws_check(report, relay, r)
                finally:
                    relay.close()
                report.case(("replay-twins-ws", repr(r)[:100]), nontrivial=True)
            else:
                from nostr_relay import util
                frame = util.event_as_json(r["sid"], _Ev(r["event"])) if "event" in r else None
                try:
                    ok = frame is None or json.loads(frame)[1] == r["sid"]
                except Exception:
                    ok = False
                if not ok:
                    report.property_failure("frame does not parse", r, None)
                report.case(("replay-frame", repr(r)[:100]), nontrivial=True)
    finally:
        for st in stores.values():
            st.close()
        drv.close()
