"""
C05 — A new event reaches exactly the matching open subscriptions, once each.
Tie: (a) the real BaseSubscription.check_event vs the Lean `liveMatch` on generated (filters, event) pairs;
(b) multi-connection sessions through the real start_client vs the Lean protocol machine (`proto.session`).
Search, on the real transcripts: after every accepted event each open subscription with a matching filter gets
exactly one push under its own id, every other subscription none (reference registry + NIP-01 reference matcher);
live matching vs stored matching on both backends: for a set of filters, the events pushed live equal the events
the same filter returns when queried afterwards (ephemeral kinds and boundary timestamps excepted); connection
identities are made to collide (all connections share an address and the random suffix is pinned) because the
registry is keyed by them; large fan-outs (hundreds of open subscriptions on many connections) during which other
connections' REQ / CLOSE / disconnect messages arrive at swept scheduling points of the EVENT's processing; the same event handed
to several connections at overlapping times (it is accepted once, so every open matching subscription gets it once).
"""
import copy
import json
import random
from collections import Counter

from lib import common, psess, ptrace, spec
from lib.proto import Relay, Conn
from lib.kvimpl import model_event, model_filter

THEOREMS_TIED = ["C05_fanout_exact", "C05_live_at_most_once", "C05_notify_effect", "C05_delivered_under_own_id",
                 "C05_only_open_at_accept", "C05_round_complete", "C05_settled_fanout", "C05_task_enabled", "C05_live_complete", "C05_live_sound",
                 "C05_live_ignores_delegation", "C05_live_empty_filter"]

T0 = 1700000000


def classify(backend, f, ev):
    """known-finding classes: both are defects of the SQL *stored* side (the live side follows NIP-01)"""
    if backend != "sql":
        return None
    if f.get("authors") and ev["pubkey"] not in f["authors"] and any(
            len(t) > 1 and t[0] == "delegation" and t[1] in f["authors"] for t in ev["tags"]):
        return "sql-stored-delegation-not-live"
    for k, vals in f.items():
        if k.startswith("#") and "" in vals and any(len(t) > 1 and t[0] == k[1:] and t[1] == "" for t in ev["tags"]):
            if not any(len(t) > 1 and t[0] == k[1:] and t[1] in vals and t[1] != "" for t in ev["tags"]):
                return "sql-empty-tag-value"
    return None


# ------------------------------------------------------------------------------------------------------------
def live_match_corr(report, drv, rng, keys, n):
    from nostr_relay.storage.base import BaseSubscription, NostrQuery
    from aionostr.event import Event

    pks = [k.public_key.hex() for k in keys]
    sub = BaseSubscription.__new__(BaseSubscription)
    lines, meta = [], []
    for i in range(n):
        ev = Event(pubkey=rng.choice(pks), kind=rng.choice([0, 1, 7, 30000]), content="x", created_at=T0 + rng.choice([0, 10, 20, 30]),
                   tags=[t for t in ([["t", rng.choice(["x", "y", ""])]] if rng.random() < 0.6 else [])
                         + ([["e", "ab" * 32]] if rng.random() < 0.3 else [])
                         + ([["delegation", rng.choice(pks), "kind=1", "00" * 64]] if rng.random() < 0.25 else [])
                         + ([["t"]] if rng.random() < 0.1 else [])])
        if not ev.id:
            ev.id = "%064x" % rng.getrandbits(256)
        fl = []
        for _ in range(rng.choice([1, 1, 2])):
            f = {}
            if rng.random() < 0.4:
                f["kinds"] = rng.sample([0, 1, 7, 30000], rng.randint(1, 2))
            if rng.random() < 0.4:
                f["authors"] = rng.sample(pks, rng.randint(1, 2))
            if rng.random() < 0.3:
                f["#t"] = rng.sample(["x", "y", "", "z"], rng.randint(1, 2))
            if rng.random() < 0.15:
                f["#e"] = ["ab" * 32]
            if rng.random() < 0.3:
                f["since"] = T0 + rng.choice([0, 5, 10, 25]) if rng.random() < 0.9 else 0
            if rng.random() < 0.3:
                f["until"] = T0 + rng.choice([5, 10, 20, 35]) if rng.random() < 0.9 else 0
            if rng.random() < 0.15 and ev.id:
                f["ids"] = [ev.id if rng.random() < 0.6 else "cd" * 32]
            fl.append(f)
        try:
            qs = [NostrQuery.model_validate(copy.deepcopy(f)) for f in fl]
        except Exception:
            continue
        got = bool(sub.check_event(ev, qs))
        evj = ev.to_json_object()
        me = model_event(evj)
        mfs = [model_filter(q) for q in qs]
        if me is None or any(m is None for m in mfs):
            report.count("live_outside_model")
            continue
        lines.append({"op": "live.match", "filters": mfs, "ev": me})
        meta.append((fl, evj, got, qs))
    res = drv.batch(lines)
    for (fl, evj, got, qs), mv in zip(meta, res):
        if got != mv:
            report.correspondence_break("BaseSubscription.check_event", {"filters": fl, "event": evj}, got, mv)
        # the property: strict reading => live => generous reading (filters that state a condition)
        conds = [q for q in qs if spec.is_wellformed_conjunction(q) or q.since is not None or q.until is not None]
        strict = any(spec.matches(q, evj, True) for q in conds)
        gen = any(spec.matches(q, evj, False) for q in qs)
        if strict and not got:
            report.property_failure("check_event misses an event that matches under the strict NIP-01 reading", {"filters": fl, "event": evj}, None)
        if got and not gen:
            report.property_failure("check_event matches an event that no NIP-01 reading of the filters admits", {"filters": fl, "event": evj}, None)
        report.case(("live", json.dumps(fl, sort_keys=True), evj["id"]), nontrivial=got, sample={"filters": fl, "match": got})
    report.count("live_match_pairs", len(meta))


# ------------------------------------------------------------------------------------------------------------
def fanout_session(report, drv, backend, rng, keys, tag, collide):
    import secrets
    from nostr_relay import util

    real_hex = secrets.token_hex
    if collide:
        util.secrets.token_hex = lambda n=2: "0000"       # adversarial random source: every connection id has the same text
    limit = 4
    relay = Relay(backend, subscription_limit=limit)
    try:
        run = psess.Runner(relay, rng, keys, limit)
        run.addr_mod = 1 if collide else 2
        run.install_holds()
        msgs = psess.gen_session(rng, keys, relay, rng.randint(10, 24), limit, holds=True)
        for m in msgs:
            run.step(m)
        run.release_all()
        payload = {"backend": backend, "limit": limit, "colliding_ids": collide, "messages": run.sent_msgs}
        resp = drv.call({"op": "proto.session", "limit": limit, "eoc": backend == "kv", "msgs": run.model_msgs})
        inv_n = {v: k for k, v in run.names.ids.items()}
        pushes = 0
        corr_ok = True
        for i, (mm, real, r) in enumerate(zip(run.model_msgs, run.real_steps, resp)):
            if r == "disabled":
                report.correspondence_break("%s protocol machine: label not enabled" % backend, dict(payload, at=i), "enabled", "disabled")
                break
            model = run.model_frames(r)
            if mm["t"] == "event":
                evid = run.sent_msgs[i]["msg"][1]["id"]
                want = Counter()
                if mm.get("accepted"):
                    for c, n in mm.get("match", []):
                        want[(c, inv_n[n])] += 1
                got = Counter()
                for c, frames in real.items():
                    for x in frames:
                        if x[0] == "EVENT":
                            got[(c, x[1])] += 1
                            if x[2] != evid:
                                report.property_failure("%s: a push carries a different event than the one just accepted" % backend, dict(payload, at=i), None)
                pushes += sum(got.values())
                if got != want:
                    extra = {k: v for k, v in (got - want).items()}
                    missing = {k: v for k, v in (want - got).items()}
                    held_now = sorted(str(k) for k in missing if any(m2.get("hold") and m2["c"] == k[0] and inv_n[m2["sub"]] == k[1]
                                                                     for m2 in run.model_msgs[:i] if m2["t"] == "req"))
                    report.property_failure(
                        "%s: after an accepted event the pushes differ from 'once to every open matching subscription': unexpected %r, missing %r%s"
                        % (backend, sorted(map(str, extra.items())), sorted(map(str, missing.items())),
                           (" (stored query still running for %s)" % held_now) if held_now else ""), dict(payload, at=i), None)
            for c in (real if corr_ok else []):
                got_c, want_c = real[c], model.get(c, [])
                if mm["t"] in ("req", "release"):
                    k = max(1, len(run.sent_msgs[i]["msg"]) - 2) if mm["t"] == "req" else 3
                    cnt = Counter(got_c)
                    got_c = [x for x in cnt for _ in range(1 if (x[0] == "EVENT" and cnt[x] <= k) else cnt[x])]
                if Counter(got_c) != Counter(want_c):
                    report.correspondence_break("%s start_client vs protocol machine (frames of connection %d after message %d: %s)"
                                                % (backend, c, i, mm["t"]),
                                                dict(payload, at=i, stored_at_end=sorted(relay.store.ids()), raw_step=[list(x) for x in real[c]],
                                                     refusal_reasons=psess.REFUSALS[-6:]),
                                                [list(x) for x in got_c], [list(x) for x in want_c])
                    corr_ok = False
                    break
        report.count("held_queries", sum(1 for m in run.model_msgs if m.get("hold")))
        for cn in run.conns.values():
            if not cn.done:
                cn.close()
        report.count("pushes", pushes)
        report.case((backend, tag, collide, json.dumps(run.model_msgs, sort_keys=True)), nontrivial=pushes > 0,
                    sample={"backend": backend, "messages": len(run.model_msgs), "pushes": pushes, "colliding_ids": collide})
        report.count("sessions_" + backend)
    finally:
        util.secrets.token_hex = real_hex
        try:
            run.uninstall_holds()
        except NameError:
            pass
        relay.close()


# ------------------------------------------------------------------------------------------------------------
def delegated_event(relay, delegator, delegatee, created_at, content):
    """a validly signed event of `delegatee` carrying a valid NIP-26 delegation by `delegator`"""
    from aionostr.event import Event
    from hashlib import sha256

    conditions = "kind=1"
    token = "nostr:delegation:%s:%s" % (delegatee.public_key.hex(), conditions)
    sig = delegator.sign_message_hash(sha256(token.encode()).digest())
    ev = Event(pubkey=delegatee.public_key.hex(), kind=1, content=content, created_at=created_at,
               tags=[["delegation", delegator.public_key.hex(), conditions, sig]])
    ev.sign(delegatee.hex())
    return ev.to_json_object()


def live_vs_stored(report, backend, rng, keys, tag):
    relay = Relay(backend, subscription_limit=64)
    try:
        pks = [k.public_key.hex() for k in keys]
        watch, pub = Conn(relay), Conn(relay)
        filters = {}
        for i in range(rng.randint(4, 9)):
            f, kind = psess.gen_filter(rng, keys, [])
            while kind != "valid":
                f, kind = psess.gen_filter(rng, keys, [])
            if rng.random() < 0.2:
                f = {"#t": rng.sample(["x", "", "y"], 2)}
            filters["f%d" % i] = f
        filters["deleg"] = {"authors": [pks[0]]}
        filters["emptytag"] = {"#t": [""]}
        for name, f in filters.items():
            watch.send(["REQ", name, f])
        n0 = len(watch.out)
        events = []
        for j in range(rng.randint(4, 10)):
            sk = rng.choice(keys)
            kind = rng.choice([1, 1, 7, 30000])
            tags = [["t", rng.choice(["x", "y", "w", ""])]] if rng.random() < 0.6 else []
            if kind == 30000:
                tags.append(["d", "k%d" % j])
            events.append(relay.signed_event(sk, kind=kind, content="e%d" % j, tags=tags, created_at=T0 + (j + 1) * 10))
        events.append(relay.signed_event(keys[2], kind=1, content="empty tag value", tags=[["t", ""]], created_at=T0 + 490))
        try:
            events.append(delegated_event(relay, keys[0], keys[1], T0 + 500, "delegated"))
        except Exception as e:  # the helper API differs between aionostr versions
            report.count("delegation_helper_unavailable")
        accepted = []
        for ev in events:
            if pub.send_event(ev):
                accepted.append(ev)
        live = {}
        for f in watch.frames(n0):
            if isinstance(f, list) and f[0] == "EVENT":
                live.setdefault(f[1], []).append(f[2]["id"])
        q = Conn(relay)
        payload = {"backend": backend, "filters": filters, "events": events}
        for name, f in filters.items():
            n = len(q.out)
            q.send(["REQ", name, f])
            stored = [x[2]["id"] for x in q.frames(n) if isinstance(x, list) and x[0] == "EVENT"]
            q.send(["CLOSE", name])
            lv = live.get(name, [])
            if len(lv) != len(set(lv)):
                report.property_failure("%s: an event was pushed live twice to one subscription" % backend, payload, None)
            for ev in accepted:
                i = ev["id"]
                if (i in lv) != (i in stored):
                    is_deleg = any(t and t[0] == "delegation" for t in ev["tags"]) and f.get("authors") and ev["pubkey"] not in f["authors"]
                    desc = ("%s: live and stored matching disagree: filter %s, event %s.. (%s) pushed live=%s, returned by the stored query=%s"
                            % (backend, json.dumps(f), i[:8], "delegated event" if is_deleg else "kind %d tags %s" % (ev["kind"], json.dumps(ev["tags"])),
                               i in lv, i in stored))
                    report.property_failure(desc, dict(payload, filter=f, event=ev), classify(backend, f, ev))
        report.case((backend, tag, json.dumps(filters, sort_keys=True)), nontrivial=bool(live), sample={"backend": backend, "filters": len(filters),
                                                                                                        "accepted": len(accepted)})
        report.count("live_vs_stored_" + backend)
    finally:
        relay.close()


def closed_means_closed(report, backend, rng, keys, tag):
    """subscription ids of every JSON type a client may send (numbers, null, booleans, strings that spell them): REQ and CLOSE
    must agree on what names a subscription — after CLOSE <id> no push arrives under it, the others keep receiving"""
    relay = Relay(backend)
    try:
        a, pub = Conn(relay), Conn(relay, remote_addr="3.3.3.3")
        ids = [7, "7", None, True, 1.5, "ctl", 0, ""]
        rng.shuffle(ids)
        chosen = ids[:rng.choice([3, 4, 5])]
        if "ctl" not in chosen:
            chosen.append("ctl")
        for s in chosen:
            a.send(["REQ", s, {"kinds": [1]}])
        payload = {"backend": backend, "case": "closed-means-closed", "ids": chosen}
        n = len(a.out)
        e1 = relay.signed_event(keys[0], kind=1, content="first %s %s" % (backend, tag), created_at=T0 + 10)
        pub.send_event(e1)
        open_now = sorted({str(s) for s in chosen})
        got1 = sorted(f[1] for f in a.frames(n) if isinstance(f, list) and f[0] == "EVENT" and f[2]["id"] == e1["id"])
        if got1 != open_now:
            report.property_failure("%s: with subscriptions %r open an accepted event was pushed under %r" % (backend, open_now, got1),
                                    payload, None)
        to_close = [s for s in chosen if s != "ctl"]
        closing = rng.sample(to_close, max(1, len(to_close) // 2))
        for s in closing:
            a.send(["CLOSE", s])
        still = sorted({str(s) for s in chosen} - {str(s) for s in closing})
        n = len(a.out)
        e2 = relay.signed_event(keys[1], kind=1, content="second %s %s" % (backend, tag), created_at=T0 + 20)
        pub.send_event(e2)
        got2 = sorted(f[1] for f in a.frames(n) if isinstance(f, list) and f[0] == "EVENT" and f[2]["id"] == e2["id"])
        if got2 != still:
            report.property_failure("%s: after CLOSE of %r (sent as %r) an accepted event was pushed under %r, expected %r"
                                    % (backend, sorted(str(s) for s in closing), closing, got2, still), {**payload, "closed": closing}, None)
        a.close()
        pub.close()
        report.case(("closed", backend, tag, repr(chosen), repr(closing)), nontrivial=True,
                    sample={"case": "closed-means-closed", "backend": backend, "ids": [repr(x) for x in chosen]})
        report.count("closed_means_closed")
    finally:
        relay.close()


# ------------------------------------------------------------------------------------------------------------
# Large fan-outs with registry mutations by other connections arriving *while the event is being processed*.
#
# The small sessions above have a handful of open subscriptions, and their bursts are handed over before the loop runs: a
# handler drains its inbox in one loop turn, so every queued REQ / CLOSE / disconnect is over long before the publisher's
# EVENT (signature check, storage round trip) reaches the fan-out.  Here the arrival time of every other connection's
# message is an input of its own: the message is held back inside the connection's (fake) socket and released at a
# scheduling point of the EVENT's processing that the harness can see without looking into the relay —
#   turns  >= n : n loop turns after the EVENT was handed to the relay,
#   tasks  >= n : the publisher's handler has started n tasks since then (loop task factory; whose tasks they are is known
#                 from the harness's own per-connection context variable, not from the coroutine's name),
#   pushes >= n : n live items of this event have been put on connections' queues (the harness's queue class),
# with n swept geometrically from 1 up to the number of open subscriptions.  The socket polls its condition once per loop
# turn and then returns the message to the handler in that very turn, so a message lands in *every* window in which the
# EVENT's processing is suspended after the n-th scheduling point: whatever the round does between two suspension points
# (one task per subscription, batches of any size, chunks per connection ...), some n falls into it.
def _sweep(upto):
    out, n = [], 1
    while n <= upto:
        out.append(n)
        n = max(n + 1, (n * 3) // 2)
    return out


class _Arrival:
    def __init__(self, clock, kind, n):
        self.clock, self.kind, self.n = clock, kind, n
        self.at = None              # what the clock showed when the message reached the handler

    def due(self):
        return self.clock["forced"] or (self.clock["armed"] and self.clock[self.kind] >= self.n)

    def describe(self):
        return "%s>=%d" % (self.kind, self.n)


def _gated_inbox():
    from lib import proto

    class GatedInbox(proto._real_queue):
        """the client side of a socket whose next message is still on its way: ("AT", arrival, message) is handed to the
        relay's handler in the first loop turn in which arrival.due()"""

        async def get(self):
            item = await super().get()
            if isinstance(item, tuple) and len(item) == 3 and item[0] == "AT":
                arrival, item = item[1], item[2]
                while not arrival.due():
                    await proto._real_sleep(0)
                c = arrival.clock
                arrival.at = {"turns": c["turns"], "tasks": c["tasks"], "pushes": c["pushes"], "forced": c["forced"],
                              "ok_seen": c["ok_seen"]}
            return item

    return GatedInbox()


def large_fanout_burst(report, backend, rng, keys, tag, n_conns, per_conn):
    """many connections with many subscriptions each (up to the per-connection limit), hundreds of open subscriptions in
    total; one EVENT by a publisher; new connections' first REQs, CLOSEs, REQs under new ids, replacements and disconnects of
    the *other* connections arrive at swept points of its processing.  Oracle (reference registry + NIP-01 reference matcher):
    the publisher gets OK true; every subscription that was open when the EVENT was handed over and that no message of the
    burst names gets the event exactly once under its own id if its filters match and not at all otherwise; a subscription
    opened in the burst with filters that do not match gets nothing; the event is then returned by a stored query; and a second
    event, published after everything has settled, reaches exactly the subscriptions of the reference registry as it is after
    the burst.  Subscriptions named by a message of the burst (closed, replaced, their connection gone) are owed nothing for
    the first event either way: their fate depends on which side of the acceptance the message fell."""
    import asyncio
    from lib import proto
    from nostr_relay.storage.base import NostrQuery

    limit = 32                       # the per-connection limit of the default configuration
    relay = Relay(backend, subscription_limit=limit)
    loop = relay.loop
    clock = {"armed": False, "forced": False, "turns": 0, "tasks": 0, "pushes": 0, "ok_seen": False}
    orig_put = proto._RecQueue.put
    pks = [k.public_key.hex() for k in keys]

    def connect(addr):
        c = Conn(relay, remote_addr=addr, start=False)
        c.inbox = _gated_inbox()
        c.task = loop.create_task(c._main())
        return c

    def settle_fully(max_rounds=40):
        for _ in range(max_rounds):
            relay.settle()
            if relay.quiescent():
                return True
        return False

    def validate(fl):
        return [NostrQuery.model_validate(copy.deepcopy(f)) for f in fl]

    def pushes_of(c, start, evid):
        return Counter(f[1] for f in c.frames(start) if isinstance(f, list) and f and f[0] == "EVENT" and isinstance(f[2], dict)
                       and f[2].get("id") == evid)

    try:
        # ---- the standing registry -----------------------------------------------------------------------------------
        ev1 = relay.signed_event(keys[0], kind=1, content="burst %s %s" % (backend, tag), tags=[["t", "x"]], created_at=T0 + 200)
        ev2 = relay.signed_event(keys[1], kind=1, content="after %s %s" % (backend, tag), tags=[["t", "y"]], created_at=T0 + 210)
        pool = [{"kinds": [1]}, {"kinds": [1, 7]}, {"authors": [pks[0]]}, {"authors": [pks[0], pks[1]]}, {"#t": ["x"]}, {"#t": ["x", "y"]},
                {"kinds": [7]}, {"authors": [pks[2]]}, {"#t": ["z"]}, {"kinds": [1], "since": T0 + 205}]
        subscribers = [connect("10.2.%d.%d" % (i // 200, i % 200)) for i in range(n_conns)]
        publisher = connect("10.3.0.1")
        registry = {}                # (conn no, sub id) -> raw filters   (reference registry)
        setup = []
        for c in subscribers:
            for j in range(per_conn[c.no]):
                r = rng.random()
                if r < 0.55:
                    fl = [{"kinds": [1]}]
                elif r < 0.9:
                    fl = [rng.choice(pool)]
                else:
                    fl = [rng.choice(pool), rng.choice(pool)]
                sid = "s%d" % j
                registry[(c.no, sid)] = fl
                setup.append([c.no, sid, fl])
                c.send(["REQ", sid] + fl, settle=False)
        # lurkers: connections with one subscription each, which will leave during the burst
        n_lurkers = rng.randint(3, 6)
        lurkers = [connect("10.4.0.%d" % i) for i in range(n_lurkers)]
        for c in lurkers:
            fl = [rng.choice(pool)]
            registry[(c.no, "lurk")] = fl
            setup.append([c.no, "lurk", fl])
            c.send(["REQ", "lurk"] + fl, settle=False)
        n_open = len(registry)
        thresholds = _sweep(n_open)
        # late-comers: connected, but not yet in the registry (their first REQ is on its way)
        late = [connect("10.5.%d.%d" % (i // 200, i % 200)) for i in range(len(thresholds) + 4)]
        if not settle_fully():
            report.count("burst_setup_not_quiescent")
        # ---- the burst: who sends what, and when it arrives --------------------------------------------------------------
        def arrival(kind=None, n=None):
            kind = kind or rng.choice(["tasks", "tasks", "pushes", "turns"])
            return _Arrival(clock, kind, n if n is not None else rng.choice(thresholds))

        mutations, touched, opened = [], set(), {}
        final = dict(registry)

        def queue(c, what, msg, arr, key=None):
            mutations.append({"c": c.no, "what": what, "msg": None if msg is proto.DISCONNECT else msg, "arrives": arr.describe(), "_arr": arr})
            c.inbox.put_nowait(("AT", arr, msg if msg is proto.DISCONNECT else json.dumps(msg)))

        quiet = {"kinds": [7], "#t": ["never"]}              # matches neither event
        for i, c in enumerate(late):                          # a new connection's first REQ: one per threshold, then a few random
            arr = arrival("tasks", thresholds[i]) if i < len(thresholds) else arrival()
            queue(c, "first REQ of a new connection", ["REQ", "late", quiet], arr)
            opened[(c.no, "late")] = [quiet]
        for c in lurkers:                                     # a connection leaves
            queue(c, "disconnect", proto.DISCONNECT, arrival())
            touched.add((c.no, "lurk"))
            final.pop((c.no, "lurk"))
        leaver = rng.choice(subscribers) if rng.random() < 0.5 and len(subscribers) > 4 else None
        for c in subscribers:
            mine = sorted(k[1] for k in registry if k[0] == c.no)
            if c is leaver:                                   # a connection with many subscriptions leaves
                queue(c, "disconnect", proto.DISCONNECT, arrival())
                for s in mine:
                    touched.add((c.no, s))
                    final.pop((c.no, s))
                continue
            rng.shuffle(mine)
            for k in range(rng.randint(1, 3)):                # a few messages per connection, each with its own arrival time
                r = rng.random()
                if r < 0.4 and mine:
                    s = mine.pop()
                    queue(c, "CLOSE", ["CLOSE", s], arrival())
                    touched.add((c.no, s))
                    final.pop((c.no, s))
                elif r < 0.8 and sum(1 for q in final if q[0] == c.no) < limit:
                    s = "new%d" % k
                    queue(c, "REQ under a new id", ["REQ", s, quiet], arrival())
                    opened[(c.no, s)] = [quiet]
                    final[(c.no, s)] = [quiet]
                elif mine:
                    s = mine.pop()
                    fl = [rng.choice(pool)]
                    queue(c, "REQ replacing an open subscription", ["REQ", s] + fl, arrival())
                    touched.add((c.no, s))
                    final[(c.no, s)] = fl
        for k, fl in opened.items():
            final[k] = fl
        payload = {"backend": backend, "case": "large-fanout-burst", "limit": limit, "open_subscriptions": n_open,
                   "connections": len(subscribers) + len(lurkers), "subscriptions": setup, "event": ev1, "second_event": ev2,
                   "burst": [{k: v for k, v in m.items() if k != "_arr"} for m in mutations]}
        marks = {c.no: len(c.out) for c in relay.conns}

        # ---- run it --------------------------------------------------------------------------------------------------
        async def put(q, item):
            if clock["armed"] and isinstance(item, tuple) and len(item) == 2 and getattr(item[1], "id", None) == ev1["id"]:
                clock["pushes"] += 1
            return await orig_put(q, item)

        def factory(lp, coro, **kw):
            if clock["armed"] and proto._current_conn.get() is publisher:
                clock["tasks"] += 1
            return asyncio.Task(coro, loop=lp, **kw)

        async def drive():
            clock["armed"] = True
            publisher.send(["EVENT", ev1], settle=False)
            deadline, grace = loop.time() + 15.0, 0
            try:
                while loop.time() < deadline and grace < 30:
                    await proto._real_sleep(0)
                    clock["turns"] += 1
                    if len(publisher.out) > marks[publisher.no]:
                        clock["ok_seen"] = True
                        grace += 1
            finally:
                clock["forced"] = True           # whatever has not arrived yet arrives now
            for _ in range(5):
                await proto._real_sleep(0)

        proto._RecQueue.put = put
        loop.set_task_factory(factory)
        try:
            relay.run(drive())
        finally:
            clock["forced"] = True
            loop.set_task_factory(None)
            proto._RecQueue.put = orig_put
        settled = settle_fully()
        clock["armed"] = False
        for m in mutations:
            m["arrived_at"] = m.pop("_arr").at
        payload["burst"] = mutations
        payload["clock_at_end"] = {k: clock[k] for k in ("turns", "tasks", "pushes")}
        in_flight = sum(1 for m in mutations if m["arrived_at"] and not m["arrived_at"]["forced"] and not m["arrived_at"]["ok_seen"])
        report.count("burst_messages", len(mutations))
        report.count("burst_messages_arrived_before_ok", in_flight)
        report.count("burst_open_subscriptions", n_open)
        if not settled:
            report.count("burst_not_quiescent")

        # ---- the first event -----------------------------------------------------------------------------------------
        oks = [f for f in publisher.frames(marks[publisher.no]) if isinstance(f, list) and f and f[0] == "OK"]
        if len(oks) != 1 or oks[0][1:3] != [ev1["id"], True]:
            report.property_failure("%s: a valid new event published while %d subscriptions were open and other connections subscribed, "
                                    "closed and left was answered %s instead of one OK true"
                                    % (backend, n_open, json.dumps(oks)[:300]), payload, None)
        missing, extra, unexpected = [], [], []
        got = {c.no: pushes_of(c, marks[c.no], ev1["id"]) for c in relay.conns}
        for (cn, s), fl in registry.items():
            if (cn, s) in touched:
                continue
            want = 1 if any(spec.matches(q, ev1, False) for q in validate(fl)) else 0
            n = got[cn].get(s, 0)
            if n < want:
                missing.append((cn, s))
            elif n > want:
                (extra if want else unexpected).append((cn, s, n))
        for cn, g in got.items():
            for s, n in g.items():
                if (cn, s) not in registry:          # opened in the burst (filters that do not match) or never opened at all
                    unexpected.append((cn, s, n))
        if missing or extra or unexpected:
            report.property_failure(
                "%s: %d subscriptions open, one event accepted while other connections' messages arrived: %d open matching subscriptions "
                "that no message of the burst names never got it (%s%s), %d got it more than once %s, %d pushes to subscriptions that "
                "do not match or do not exist %s"
                % (backend, n_open, len(missing), ", ".join("%d/%s" % k for k in missing[:6]), ", ..." if len(missing) > 6 else "",
                   len(extra), extra[:4], len(unexpected), unexpected[:4]), payload, None)
        # the event was accepted: a stored query returns it
        checker = connect("10.6.0.1")
        settle_fully()
        n = len(checker.out)
        checker.send(["REQ", "again", {"ids": [ev1["id"]]}], settle=False)
        settle_fully()
        stored = [f for f in checker.frames(n) if isinstance(f, list) and f[0] == "EVENT" and f[2].get("id") == ev1["id"]]
        if len(stored) != 1 and oks and oks[0][2] is True:
            report.property_failure("%s: an event answered OK true is returned %d times by a stored query for its id" % (backend, len(stored)),
                                    payload, None)
        if len(stored) == 1 and oks and oks[0][2] is False:
            report.property_failure("%s: an event answered OK false (%s) is stored and returned by a query: live and stored disagree"
                                    % (backend, str(oks[0][3])[:120]), payload, None)
        checker.send(["CLOSE", "again"], settle=False)
        settle_fully()

        # ---- the second event, after everything has settled: the registry is exactly the reference registry -------------
        marks = {c.no: len(c.out) for c in relay.conns}
        publisher.send(["EVENT", ev2], settle=False)
        settle_fully()
        ok2 = [f[2] for f in publisher.frames(marks[publisher.no]) if isinstance(f, list) and f and f[0] == "OK"]
        ok2 = ok2[0] if len(ok2) == 1 else ok2
        if ok2 is not True:
            report.property_failure("%s: a valid new event published after the burst had settled was answered %r" % (backend, ok2), payload, None)
        wrong = []
        want2 = {c.no: Counter() for c in relay.conns}
        for (cn, s), fl in final.items():
            if any(spec.matches(q, ev2, False) for q in validate(fl)):
                want2[cn][s] = 1
        for c in relay.conns:
            got2 = pushes_of(c, marks[c.no], ev2["id"])
            if got2 != want2[c.no]:
                wrong.append((c.no, sorted((got2 - want2[c.no]).items())[:4], sorted((want2[c.no] - got2).items())[:4]))
        if wrong and ok2 is True:
            report.property_failure("%s: after the burst had settled an accepted event did not reach exactly the open matching subscriptions: "
                                    "(connection, unexpected, missing) = %r" % (backend, wrong[:5]), payload, None)
        for c in relay.conns:
            if not c.done:
                c.inbox.put_nowait(proto.DISCONNECT)
        settle_fully()
        report.count("large_fanout_" + backend)
        report.case(("burst", backend, tag, n_open, json.dumps(payload["burst"], sort_keys=True, default=str)[:4000]), nontrivial=clock["pushes"] > 0,
                    sample={"case": "large-fanout-burst", "backend": backend, "open_subscriptions": n_open, "connections": len(subscribers) + len(lurkers),
                            "burst_messages": len(mutations), "arrived_before_ok": in_flight})
    finally:
        clock["forced"] = True
        proto._RecQueue.put = orig_put
        try:
            relay.loop.set_task_factory(None)
        except Exception:
            pass
        relay.close()


# ------------------------------------------------------------------------------------------------------------
# One event, several copies in flight at once.
#
# Everything above publishes an event on ONE connection (a resubmission arrives after the first copy has been answered, or
# behind it on the same connection, where a handler takes one frame at a time).  But an event has no home connection: a client
# that publishes through two sockets, two clients relaying a popular note, a bridge and its origin all hand the relay the same
# event within the same instant, each to its own handler task — and those handlers run concurrently: "is it new?" is then
# decided several times while none of the decisions has taken effect yet.  "Accepted" is a fact about the event, not about a
# submission: however the copies race, the event is accepted once, so every open matching subscription is owed exactly one
# push.  Here the copies of an event are handed to 2-3 different connections (sometimes twice to one of them) either in the
# same loop turn or with the later copies a swept number of loop turns behind the first (0, 1, 2, 3, 4, 6, 9 ... : every
# suspension point of the first copy's processing that the loop can fall into, the very beginning included), mixed with
# different events submitted at the same moment (control: each of those is accepted and pushed on its own).
def copies_in_flight(report, backend, rng, keys, tag, rounds):
    """watchers with matching and non-matching subscriptions (ids shared between connections; one publisher is subscribed
    itself); per round 1-2 new events, one of them submitted as several copies on different connections at overlapping times.
    Oracle (reference registry + NIP-01 reference matcher), per event of the round: every connection gets one OK per EVENT it
    sent; exactly one of the event's submissions is answered OK true, the others are refused as duplicates; every open
    subscription gets the event exactly once under its own id if its filters match and not at all otherwise; a stored query
    for its id returns it once."""
    from lib import proto
    from nostr_relay.storage.base import NostrQuery

    relay = Relay(backend, subscription_limit=32)
    pks = [k.public_key.hex() for k in keys]

    def settle_fully(max_rounds=40):
        for _ in range(max_rounds):
            relay.settle()
            if relay.quiescent():
                return True
        return False

    def validate(fl):
        return [NostrQuery.model_validate(copy.deepcopy(f)) for f in fl]

    try:
        pool = [{"kinds": [1]}, {"kinds": [1, 7, 30000]}, {"authors": [pks[0]]}, {"authors": [pks[1], pks[2]]}, {"#t": ["x"]}, {"#t": ["x", "y"]},
                {"kinds": [30000]}, {"kinds": [7]}, {"authors": [pks[2]]}, {"#t": ["z"]}, {"kinds": [1], "since": T0 + 2000},
                {"kinds": [40]}]      # every filter states a condition: what a filter without one is owed is left open (C05_live_empty_filter)
        watchers = [Conn(relay, remote_addr="10.7.0.%d" % i, start=False) for i in range(rng.randint(1, 3))]
        publishers = [Conn(relay, remote_addr="10.8.0.%d" % i, start=False) for i in range(3)]
        for c in watchers + publishers:
            c.task = relay.loop.create_task(c._main())
        registry, setup = {}, []               # (conn no, sub id) -> raw filters   (reference registry)
        for c in watchers:
            for j in range(rng.randint(1, 5)):
                fl = [rng.choice(pool) for _ in range(rng.choice([1, 1, 1, 2]))]
                if c is watchers[0] and j == 0:
                    fl = [{"kinds": [0, 1, 7, 30000]}]      # matches every event below: each round has a fan-out to look at
                registry[(c.no, "s%d" % j)] = fl
        if rng.random() < 0.6:                 # a publisher that listens too: its own event comes back to it once
            registry[(publishers[0].no, "s0")] = [rng.choice(pool[:6])]
        by_no = {c.no: c for c in watchers + publishers}
        for (cn, sid), fl in registry.items():
            setup.append([cn, sid, fl])
            by_no[cn].send(["REQ", sid] + fl, settle=False)
        if not settle_fully():
            report.count("copies_setup_not_quiescent")
        offsets = [0] + _sweep(60)
        seq = 0
        for rnd in range(rounds):
            # ---- what is submitted where and when ----------------------------------------------------------------------
            events = []
            for _ in range(rng.choice([1, 1, 2])):
                seq += 1
                kind = rng.choice([1, 1, 1, 7, 30000, 0])        # regular, parameterised replaceable, replaceable; not ephemeral:
                tags = [["t", rng.choice(["x", "y", "w"])]] if rng.random() < 0.6 else []   # an ephemeral event is never "already there"
                if kind == 30000:
                    tags.append(["d", "copies-%s-%d" % (tag, seq)])
                events.append(relay.signed_event(keys[seq % 3] if kind == 0 else rng.choice(keys), kind=kind,
                                                 content="several copies %s %s %d" % (backend, tag, seq), tags=tags,
                                                 created_at=T0 + 1000 + seq * 10))
            staggered = rng.random() < 0.5
            subs = []                                # submissions: {"c": conn no, "event": index, "turn": loop turn of the hand-over}
            n_copies = rng.choice([2, 2, 3])
            for k, p in enumerate(rng.sample(publishers, n_copies)):
                subs.append({"c": p.no, "event": 0, "turn": rng.choice(offsets) if staggered and k else 0})
            if rng.random() < 0.3:                   # ... and once more on a connection that already carries a copy
                subs.append({"c": subs[0]["c"], "event": 0, "turn": subs[0]["turn"]})
            if len(events) > 1:                      # a different event at the same moment, once or as two copies
                for p in rng.sample(publishers, rng.choice([1, 2])):
                    subs.append({"c": p.no, "event": 1, "turn": rng.choice(offsets) if staggered else 0})
            rng.shuffle(subs)
            subs.sort(key=lambda s: s["turn"])
            payload = {"backend": backend, "case": "copies-in-flight", "subscriptions": setup, "round": rnd, "events": events,
                       "submissions": subs}
            marks = {c.no: len(c.out) for c in relay.conns}

            def answered(i):
                return any(isinstance(f, list) and f and f[0] == "OK" and f[1] == events[i]["id"]
                           for p in publishers for f in p.frames(marks[p.no]))

            async def drive():
                for turn in range(subs[-1]["turn"] + 1):
                    for s in subs:
                        if s["turn"] == turn:
                            s["handed_over_before_any_answer"] = not answered(s["event"])
                            by_no[s["c"]].send(["EVENT", events[s["event"]]], settle=False)
                    await proto._real_sleep(0)

            relay.run(drive())
            if not settle_fully():
                report.count("copies_not_quiescent")
            # ---- the oracle -------------------------------------------------------------------------------------------
            oks = {p.no: [f for f in p.frames(marks[p.no]) if isinstance(f, list) and f and f[0] == "OK"] for p in publishers}
            for p in publishers:
                sent_here = sum(1 for s in subs if s["c"] == p.no)
                if len(oks[p.no]) != sent_here:
                    report.property_failure("%s: a connection that sent %d EVENT messages while copies of the same event arrived on other "
                                            "connections got %d OK frames: %s" % (backend, sent_here, len(oks[p.no]), json.dumps(oks[p.no])[:300]),
                                            payload, None)
            overlapped = 0
            for i, ev in enumerate(events):
                mine = [s for s in subs if s["event"] == i]
                overlapped += sum(1 for s in mine if s["handed_over_before_any_answer"]) - 1
                accepted = sum(1 for fs in oks.values() for f in fs if f[1] == ev["id"] and f[2] is True)
                refusals = [f for fs in oks.values() for f in fs if f[2] is not True and f[1] in (ev["id"], "")]
                where = "%d copies on connections %s at loop turns %s" % (len(mine), [s["c"] for s in mine], [s["turn"] for s in mine])
                want_total = 0
                missing, extra, unexpected = [], [], []
                for c in relay.conns:
                    got = Counter(f[1] for f in c.frames(marks[c.no]) if isinstance(f, list) and f and f[0] == "EVENT"
                                  and isinstance(f[2], dict) and f[2].get("id") == ev["id"])
                    for (cn, sid), fl in registry.items():
                        if cn != c.no:
                            continue
                        want = 1 if any(spec.matches(q, ev, False) for q in validate(fl)) else 0
                        want_total += want
                        n = got.pop(sid, 0)
                        if n < want:
                            missing.append((cn, sid))
                        elif n > want:
                            (extra if want else unexpected).append((cn, sid, n))
                    unexpected += [(c.no, sid, n) for sid, n in got.items()]
                if extra or unexpected or (missing and accepted):
                    report.property_failure(
                        "%s: one event, %s, accepted %d time(s): %d open matching subscriptions got it more than once %s, %d never got it %s, "
                        "%d pushes to subscriptions that do not match or do not exist %s (owed: exactly one push per open matching subscription)"
                        % (backend, where, accepted, len(extra), extra[:4], len(missing), missing[:4], len(unexpected), unexpected[:4]),
                        payload, None)
                if accepted != 1:
                    report.property_failure("%s: one valid new event, %s: answered OK true %d times (an event is accepted once; refusals: %s)"
                                            % (backend, where, accepted, json.dumps(refusals)[:300]), payload, None)
                report.count("copies_pushes_owed", want_total)
            # refusals: the copies that lost are duplicates, nothing else
            for fs in oks.values():
                for f in fs:
                    if f[2] is not True and not str(f[3]).startswith("duplicate"):
                        report.count("copies_refused_for_another_reason")
                        report.property_failure("%s: a copy of a valid event that was in flight on another connection was refused with %r, "
                                                "not as a duplicate" % (backend, str(f[3])[:160]), payload, None)
            # accepted = stored: a query for the ids returns each event once
            n = len(publishers[1].out)
            publishers[1].send(["REQ", "again", {"ids": [e["id"] for e in events]}], settle=False)
            settle_fully()
            stored = Counter(f[2].get("id") for f in publishers[1].frames(n) if isinstance(f, list) and f and f[0] == "EVENT" and f[1] == "again")
            publishers[1].send(["CLOSE", "again"], settle=False)
            settle_fully()
            if any(stored.get(e["id"], 0) != 1 for e in events):
                report.property_failure("%s: events submitted as several copies at once are returned %r times by a stored query for their ids"
                                        % (backend, [stored.get(e["id"], 0) for e in events]), payload, None)
            report.count("copies_rounds_" + backend)
            report.count("copies_submissions", len(subs))
            report.count("copies_handed_over_while_another_copy_was_unanswered", overlapped)
            report.case(("copies", backend, tag, rnd, json.dumps(subs, sort_keys=True), json.dumps(setup, sort_keys=True)[:2000]),
                        nontrivial=overlapped > 0,
                        sample={"case": "copies-in-flight", "backend": backend, "open_subscriptions": len(registry),
                                "submissions": [[s["c"], s["event"], s["turn"]] for s in subs], "overlapping_copies": overlapped})
        for c in relay.conns:
            if not c.done:
                c.inbox.put_nowait(proto.DISCONNECT)
        settle_fully()
    finally:
        relay.close()


def run(report, tier, seed):
    rng = random.Random(seed)
    drv = common.Driver()
    from aionostr.key import PrivateKey

    keys = [PrivateKey(bytes([i + 1]) * 32) for i in range(3)]
    report.coverage["rule"] = (
        "check_event vs liveMatch on generated (1-2 filters, event) pairs: kinds/authors/#t (incl. empty value)/#e/ids/since/until "
        "(incl. 0 and boundary values), delegation tags, valueless tags; fan-out sessions of 10-24 messages on 2-4 connections on "
        "both backends with subscription ids shared between connections, half of them with colliding connection ids; live-vs-stored: "
        "5-10 filters open on one connection, 4-11 events (one NIP-26 delegated) published, then every filter queried; "
        "subscription ids of every JSON type (numbers, null, booleans, the strings that spell them) opened, some closed, then an event; "
        "unsettled trace sessions: bursts of 1-6 messages on 2-4 connections are queued before the loop runs, the run is "
        "recorded as labels of the machine (wrappers applied from outside) and must be accepted by `proto.trace` with equal "
        "transcripts; "
        "large fan-outs: 6-16 connections (thorough: up to 40) with 20-32 subscriptions each (32 = the per-connection limit), 150-500 "
        "open subscriptions, one EVENT, and 30-60 messages of the other connections (first REQ of a new connection, CLOSE, REQ under "
        "a new id, replacement, disconnect) whose arrival is swept over the scheduling points of the EVENT's processing (n-th loop "
        "turn / n-th task started by the publisher's handler / n-th live item queued, n = 1, 2, 3, 4, 6, 9 ... up to the number of "
        "open subscriptions); then a second event after everything has settled; "
        "copies in flight: 1-3 watcher connections with 1-5 subscriptions each (matching and not, ids shared between connections, one "
        "publisher subscribed itself), per round 1-2 new events (kinds 1, 7, 0, 30000), one of them handed to 2-3 different connections "
        "(sometimes twice to one) in the same loop turn or 1, 2, 3, 4, 6, 9 ... 42 loop turns apart, before any copy is answered: one OK per "
        "EVENT, one OK true per event and duplicate refusals otherwise, one push per open matching subscription, returned once by a stored query; "
        "non-trivial = something was pushed / matched")
    report.assumptions += ["settled sessions: quiescence after every message; trace sessions: whatever interleaving the event loop produces for a burst; all interleavings are covered by the theorems over `run`",
                           "NIP-26 delegation tokens are produced with aionostr's own signer",
                           "large fan-outs: the other connections' messages arrive at loop turns chosen by the harness (its sockets release them); a subscription named by such a message is owed nothing for the event in flight"]
    try:
        live_match_corr(report, drv, rng, keys, 400 if tier == "quick" else 20000)
        for i in range(8 if tier == "quick" else 200):
            for backend in ("sql", "kv"):
                fanout_session(report, drv, backend, rng, keys, i, collide=(i % 2 == 0))
        for i in range(3 if tier == "quick" else 60):
            for backend in ("sql", "kv"):
                live_vs_stored(report, backend, rng, keys, i)
                closed_means_closed(report, backend, rng, keys, i)
        # unsettled runs: the recorded schedule of the real relay must be a run of the machine
        for i in range(5 if tier == "quick" else 120):
            for backend in ("sql", "kv"):
                ptrace.run_trace_session(report, drv, backend, rng, keys, i)
        # large fan-outs (last, so that the cases above stay what they were for a given seed).  Sizes on general grounds, not
        # tuned to any implementation: the default per-connection limit is 32, so "many subscriptions" means many connections at
        # or near it; a round that works in batches / chunks / time slices of up to a few hundred subscriptions still has several
        # suspension points in a registry of this size, and the arrival sweep reaches every one of them.
        big = tier != "quick"
        for i in range(20 if big else 3):
            n = rng.randint(8, 40 if big else 16)
            large_fanout_burst(report, "kv", rng, keys, i, n, [rng.choice([32, 32, rng.randint(20, 31)]) for _ in range(n)])
        for i in range(8 if big else 2):
            n = rng.randint(6, 16 if big else 9)
            large_fanout_burst(report, "sql", rng, keys, i, n, [rng.choice([32, 32, rng.randint(20, 31)]) for _ in range(n)])
        # one event, several copies in flight on different connections (after the cases above, for the same reason)
        for i in range(30 if big else 3):
            for backend in ("sql", "kv"):
                copies_in_flight(report, backend, rng, keys, i, rounds=12 if big else 8)
    finally:
        drv.close()


def replay(report, path):
    data = json.load(open(path))
    report.coverage["note"] = "replay re-runs the generators with the recorded seed; cases are deterministic per seed"
    run(report, "quick", data.get("seed", 1))
