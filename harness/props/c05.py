"""
C05 — A new event reaches exactly the matching open subscriptions, once each.
Tie: (a) the real BaseSubscription.check_event vs the Lean `liveMatch` on generated (filters, event) pairs;
(b) multi-connection sessions through the real start_client vs the Lean protocol machine (`proto.session`).
Search, on the real transcripts: after every accepted event each open subscription with a matching filter gets
exactly one push under its own id, every other subscription none (reference registry + NIP-01 reference matcher);
live matching vs stored matching on both backends: for a set of filters, the events pushed live equal the events
the same filter returns when queried afterwards (ephemeral kinds and boundary timestamps excepted); connection
identities are made to collide (all connections share an address and the random suffix is pinned) because the
registry is keyed by them.
"""
import copy
import json
import random
from collections import Counter

from lib import common, psess, ptrace, spec
from lib.proto import Relay, Conn
from lib.kvimpl import model_event, model_filter

THEOREMS_TIED = ["C05_fanout_exact", "C05_live_at_most_once", "C05_notify_effect", "C05_delivered_under_own_id",
                 "C05_only_open_at_accept", "C05_round_complete", "C05_settled_fanout", "C05_task_enabled", "C05_live_complete", "C05_live_sound",
                 "C05_live_ignores_delegation", "C05_live_empty_filter"]

T0 = 1700000000


def classify(backend, f, ev):
    """known-finding classes: both are defects of the SQL *stored* side (the live side follows NIP-01)"""
    if backend != "sql":
        return None
    if f.get("authors") and ev["pubkey"] not in f["authors"] and any(
            len(t) > 1 and t[0] == "delegation" and t[1] in f["authors"] for t in ev["tags"]):
        return "sql-stored-delegation-not-live"
    for k, vals in f.items():
        if k.startswith("#") and "" in vals and any(len(t) > 1 and t[0] == k[1:] and t[1] == "" for t in ev["tags"]):
            if not any(len(t) > 1 and t[0] == k[1:] and t[1] in vals and t[1] != "" for t in ev["tags"]):
                return "sql-empty-tag-value"
    return None


# ------------------------------------------------------------------------------------------------------------
def live_match_corr(report, drv, rng, keys, n):
    from nostr_relay.storage.base import BaseSubscription, NostrQuery
    from aionostr.event import Event

    pks = [k.public_key.hex() for k in keys]
    sub = BaseSubscription.__new__(BaseSubscription)
    lines, meta = [], []
    for i in range(n):
        ev = Event(pubkey=rng.choice(pks), kind=rng.choice([0, 1, 7, 30000]), content="x", created_at=T0 + rng.choice([0, 10, 20, 30]),
                   tags=[t for t in ([["t", rng.choice(["x", "y", ""])]] if rng.random() < 0.6 else [])
                         + ([["e", "ab" * 32]] if rng.random() < 0.3 else [])
                         + ([["delegation", rng.choice(pks), "kind=1", "00" * 64]] if rng.random() < 0.25 else [])
                         + ([["t"]] if rng.random() < 0.1 else [])])
        if not ev.id:
            ev.id = "%064x" % rng.getrandbits(256)
        fl = []
        for _ in range(rng.choice([1, 1, 2])):
            f = {}
            if rng.random() < 0.4:
                f["kinds"] = rng.sample([0, 1, 7, 30000], rng.randint(1, 2))
            if rng.random() < 0.4:
                f["authors"] = rng.sample(pks, rng.randint(1, 2))
            if rng.random() < 0.3:
                f["#t"] = rng.sample(["x", "y", "", "z"], rng.randint(1, 2))
            if rng.random() < 0.15:
                f["#e"] = ["ab" * 32]
            if rng.random() < 0.3:
                f["since"] = T0 + rng.choice([0, 5, 10, 25]) if rng.random() < 0.9 else 0
            if rng.random() < 0.3:
                f["until"] = T0 + rng.choice([5, 10, 20, 35]) if rng.random() < 0.9 else 0
            if rng.random() < 0.15 and ev.id:
                f["ids"] = [ev.id if rng.random() < 0.6 else "cd" * 32]
            fl.append(f)
        try:
            qs = [NostrQuery.model_validate(copy.deepcopy(f)) for f in fl]
        except Exception:
            continue
        got = bool(sub.check_event(ev, qs))
        evj = ev.to_json_object()
        me = model_event(evj)
        mfs = [model_filter(q) for q in qs]
        if me is None or any(m is None for m in mfs):
            report.count("live_outside_model")
            continue
        lines.append({"op": "live.match", "filters": mfs, "ev": me})
        meta.append((fl, evj, got, qs))
    res = drv.batch(lines)
    for (fl, evj, got, qs), mv in zip(meta, res):
        if got != mv:
            report.correspondence_break("BaseSubscription.check_event", {"filters": fl, "event": evj}, got, mv)
        # the property: strict reading => live => generous reading (filters that state a condition)
        conds = [q for q in qs if spec.is_wellformed_conjunction(q) or q.since is not None or q.until is not None]
        strict = any(spec.matches(q, evj, True) for q in conds)
        gen = any(spec.matches(q, evj, False) for q in qs)
        if strict and not got:
            report.property_failure("check_event misses an event that matches under the strict NIP-01 reading", {"filters": fl, "event": evj}, None)
        if got and not gen:
            report.property_failure("check_event matches an event that no NIP-01 reading of the filters admits", {"filters": fl, "event": evj}, None)
        report.case(("live", json.dumps(fl, sort_keys=True), evj["id"]), nontrivial=got, sample={"filters": fl, "match": got})
    report.count("live_match_pairs", len(meta))


# ------------------------------------------------------------------------------------------------------------
def fanout_session(report, drv, backend, rng, keys, tag, collide):
    import secrets
    from nostr_relay import util

    real_hex = secrets.token_hex
    if collide:
        util.secrets.token_hex = lambda n=2: "0000"       # adversarial random source: every connection id has the same text
    limit = 4
    relay = Relay(backend, subscription_limit=limit)
    try:
        run = psess.Runner(relay, rng, keys, limit)
        run.addr_mod = 1 if collide else 2
        run.install_holds()
        msgs = psess.gen_session(rng, keys, relay, rng.randint(10, 24), limit, holds=True)
        for m in msgs:
            run.step(m)
        run.release_all()
        payload = {"backend": backend, "limit": limit, "colliding_ids": collide, "messages": run.sent_msgs}
        resp = drv.call({"op": "proto.session", "limit": limit, "eoc": backend == "kv", "msgs": run.model_msgs})
        inv_n = {v: k for k, v in run.names.ids.items()}
        pushes = 0
        corr_ok = True
        for i, (mm, real, r) in enumerate(zip(run.model_msgs, run.real_steps, resp)):
            if r == "disabled":
                report.correspondence_break("%s protocol machine: label not enabled" % backend, dict(payload, at=i), "enabled", "disabled")
                break
            model = run.model_frames(r)
            if mm["t"] == "event":
                evid = run.sent_msgs[i]["msg"][1]["id"]
                want = Counter()
                if mm.get("accepted"):
                    for c, n in mm.get("match", []):
                        want[(c, inv_n[n])] += 1
                got = Counter()
                for c, frames in real.items():
                    for x in frames:
                        if x[0] == "EVENT":
                            got[(c, x[1])] += 1
                            if x[2] != evid:
                                report.property_failure("%s: a push carries a different event than the one just accepted" % backend, dict(payload, at=i), None)
                pushes += sum(got.values())
                if got != want:
                    extra = {k: v for k, v in (got - want).items()}
                    missing = {k: v for k, v in (want - got).items()}
                    held_now = sorted(str(k) for k in missing if any(m2.get("hold") and m2["c"] == k[0] and inv_n[m2["sub"]] == k[1]
                                                                     for m2 in run.model_msgs[:i] if m2["t"] == "req"))
                    report.property_failure(
                        "%s: after an accepted event the pushes differ from 'once to every open matching subscription': unexpected %r, missing %r%s"
                        % (backend, sorted(map(str, extra.items())), sorted(map(str, missing.items())),
                           (" (stored query still running for %s)" % held_now) if held_now else ""), dict(payload, at=i), None)
            for c in (real if corr_ok else []):
                got_c, want_c = real[c], model.get(c, [])
                if mm["t"] in ("req", "release"):
                    k = max(1, len(run.sent_msgs[i]["msg"]) - 2) if mm["t"] == "req" else 3
                    cnt = Counter(got_c)
                    got_c = [x for x in cnt for _ in range(1 if (x[0] == "EVENT" and cnt[x] <= k) else cnt[x])]
                if Counter(got_c) != Counter(want_c):
                    report.correspondence_break("%s start_client vs protocol machine (frames of connection %d after message %d: %s)"
                                                % (backend, c, i, mm["t"]),
                                                dict(payload, at=i, stored_at_end=sorted(relay.store.ids()), raw_step=[list(x) for x in real[c]],
                                                     refusal_reasons=psess.REFUSALS[-6:]),
                                                [list(x) for x in got_c], [list(x) for x in want_c])
                    corr_ok = False
                    break
        report.count("held_queries", sum(1 for m in run.model_msgs if m.get("hold")))
        for cn in run.conns.values():
            if not cn.done:
                cn.close()
        report.count("pushes", pushes)
        report.case((backend, tag, collide, json.dumps(run.model_msgs, sort_keys=True)), nontrivial=pushes > 0,
                    sample={"backend": backend, "messages": len(run.model_msgs), "pushes": pushes, "colliding_ids": collide})
        report.count("sessions_" + backend)
    finally:
        util.secrets.token_hex = real_hex
        try:
            run.uninstall_holds()
        except NameError:
            pass
        relay.close()


# ------------------------------------------------------------------------------------------------------------
def delegated_event(relay, delegator, delegatee, created_at, content):
    """a validly signed event of `delegatee` carrying a valid NIP-26 delegation by `delegator`"""
    from aionostr.event import Event
    from hashlib import sha256

    conditions = "kind=1"
    token = "nostr:delegation:%s:%s" % (delegatee.public_key.hex(), conditions)
    sig = delegator.sign_message_hash(sha256(token.encode()).digest())
    ev = Event(pubkey=delegatee.public_key.hex(), kind=1, content=content, created_at=created_at,
               tags=[["delegation", delegator.public_key.hex(), conditions, sig]])
    ev.sign(delegatee.hex())
    return ev.to_json_object()


def live_vs_stored(report, backend, rng, keys, tag):
    relay = Relay(backend, subscription_limit=64)
    try:
        pks = [k.public_key.hex() for k in keys]
        watch, pub = Conn(relay), Conn(relay)
        filters = {}
        for i in range(rng.randint(4, 9)):
            f, kind = psess.gen_filter(rng, keys, [])
            while kind != "valid":
                f, kind = psess.gen_filter(rng, keys, [])
            if rng.random() < 0.2:
                f = {"#t": rng.sample(["x", "", "y"], 2)}
            filters["f%d" % i] = f
        filters["deleg"] = {"authors": [pks[0]]}
        filters["emptytag"] = {"#t": [""]}
        for name, f in filters.items():
            watch.send(["REQ", name, f])
        n0 = len(watch.out)
        events = []
        for j in range(rng.randint(4, 10)):
            sk = rng.choice(keys)
            kind = rng.choice([1, 1, 7, 30000])
            tags = [["t", rng.choice(["x", "y", "w", ""])]] if rng.random() < 0.6 else []
            if kind == 30000:
                tags.append(["d", "k%d" % j])
            events.append(relay.signed_event(sk, kind=kind, content="e%d" % j, tags=tags, created_at=T0 + (j + 1) * 10))
        events.append(relay.signed_event(keys[2], kind=1, content="empty tag value", tags=[["t", ""]], created_at=T0 + 490))
        try:
            events.append(delegated_event(relay, keys[0], keys[1], T0 + 500, "delegated"))
        except Exception as e:  # the helper API differs between aionostr versions
            report.count("delegation_helper_unavailable")
        accepted = []
        for ev in events:
            if pub.send_event(ev):
                accepted.append(ev)
        live = {}
        for f in watch.frames(n0):
            if isinstance(f, list) and f[0] == "EVENT":
                live.setdefault(f[1], []).append(f[2]["id"])
        q = Conn(relay)
        payload = {"backend": backend, "filters": filters, "events": events}
        for name, f in filters.items():
            n = len(q.out)
            q.send(["REQ", name, f])
            stored = [x[2]["id"] for x in q.frames(n) if isinstance(x, list) and x[0] == "EVENT"]
            q.send(["CLOSE", name])
            lv = live.get(name, [])
            if len(lv) != len(set(lv)):
                report.property_failure("%s: an event was pushed live twice to one subscription" % backend, payload, None)
            for ev in accepted:
                i = ev["id"]
                if (i in lv) != (i in stored):
                    is_deleg = any(t and t[0] == "delegation" for t in ev["tags"]) and f.get("authors") and ev["pubkey"] not in f["authors"]
                    desc = ("%s: live and stored matching disagree: filter %s, event %s.. (%s) pushed live=%s, returned by the stored query=%s"
                            % (backend, json.dumps(f), i[:8], "delegated event" if is_deleg else "kind %d tags %s" % (ev["kind"], json.dumps(ev["tags"])),
                               i in lv, i in stored))
                    report.property_failure(desc, dict(payload, filter=f, event=ev), classify(backend, f, ev))
        report.case((backend, tag, json.dumps(filters, sort_keys=True)), nontrivial=bool(live), sample={"backend": backend, "filters": len(filters),
                                                                                                        "accepted": len(accepted)})
        report.count("live_vs_stored_" + backend)
    finally:
        relay.close()


def closed_means_closed(report, backend, rng, keys, tag):
    """subscription ids of every JSON type a client may send (numbers, null, booleans, strings that spell them): REQ and CLOSE
    must agree on what names a subscription — after CLOSE <id> no push arrives under it, the others keep receiving"""
    relay = Relay(backend)
    try:
        a, pub = Conn(relay), Conn(relay, remote_addr="3.3.3.3")
        ids = [7, "7", None, True, 1.5, "ctl", 0, ""]
        rng.shuffle(ids)
        chosen = ids[:rng.choice([3, 4, 5])]
        if "ctl" not in chosen:
            chosen.append("ctl")
        for s in chosen:
            a.send(["REQ", s, {"kinds": [1]}])
        payload = {"backend": backend, "case": "closed-means-closed", "ids": chosen}
        n = len(a.out)
        e1 = relay.signed_event(keys[0], kind=1, content="first %s %s" % (backend, tag), created_at=T0 + 10)
        pub.send_event(e1)
        open_now = sorted({str(s) for s in chosen})
        got1 = sorted(f[1] for f in a.frames(n) if isinstance(f, list) and f[0] == "EVENT" and f[2]["id"] == e1["id"])
        if got1 != open_now:
            report.property_failure("%s: with subscriptions %r open an accepted event was pushed under %r" % (backend, open_now, got1),
                                    payload, None)
        to_close = [s for s in chosen if s != "ctl"]
        closing = rng.sample(to_close, max(1, len(to_close) // 2))
        for s in closing:
            a.send(["CLOSE", s])
        still = sorted({str(s) for s in chosen} - {str(s) for s in closing})
        n = len(a.out)
        e2 = relay.signed_event(keys[1], kind=1, content="second %s %s" % (backend, tag), created_at=T0 + 20)
        pub.send_event(e2)
        got2 = sorted(f[1] for f in a.frames(n) if isinstance(f, list) and f[0] == "EVENT" and f[2]["id"] == e2["id"])
        if got2 != still:
            report.property_failure("%s: after CLOSE of %r (sent as %r) an accepted event was pushed under %r, expected %r"
                                    % (backend, sorted(str(s) for s in closing), closing, got2, still), {**payload, "closed": closing}, None)
        a.close()
        pub.close()
        report.case(("closed", backend, tag, repr(chosen), repr(closing)), nontrivial=True,
                    sample={"case": "closed-means-closed", "backend": backend, "ids": [repr(x) for x in chosen]})
        report.count("closed_means_closed")
    finally:
        relay.close()


def run(report, tier, seed):
    rng = random.Random(seed)
    drv = common.Driver()
    from aionostr.key import PrivateKey

    keys = [PrivateKey(bytes([i + 1]) * 32) for i in range(3)]
    report.coverage["rule"] = (
        "check_event vs liveMatch on generated (1-2 filters, event) pairs: kinds/authors/#t (incl. empty value)/#e/ids/since/until "
        "(incl. 0 and boundary values), delegation tags, valueless tags; fan-out sessions of 10-24 messages on 2-4 connections on "
        "both backends with subscription ids shared between connections, half of them with colliding connection ids; live-vs-stored: "
        "5-10 filters open on one connection, 4-11 events (one NIP-26 delegated) published, then every filter queried; "
        "subscription ids of every JSON type (numbers, null, booleans, the strings that spell them) opened, some closed, then an event; "
        "unsettled trace sessions: bursts of 1-6 messages on 2-4 connections are queued before the loop runs, the run is "
        "recorded as labels of the machine (wrappers applied from outside) and must be accepted by `proto.trace` with equal "
        "transcripts; "
        "non-trivial = something was pushed / matched")
    report.assumptions += ["settled sessions: quiescence after every message; trace sessions: whatever interleaving the event loop produces for a burst; all interleavings are covered by the theorems over `run`",
                           "NIP-26 delegation tokens are produced with aionostr's own signer"]
    try:
        live_match_corr(report, drv, rng, keys, 400 if tier == "quick" else 20000)
        for i in range(8 if tier == "quick" else 200):
            for backend in ("sql", "kv"):
                fanout_session(report, drv, backend, rng, keys, i, collide=(i % 2 == 0))
        for i in range(3 if tier == "quick" else 60):
            for backend in ("sql", "kv"):
                live_vs_stored(report, backend, rng, keys, i)
                closed_means_closed(report, backend, rng, keys, i)
        # unsettled runs: the recorded schedule of the real relay must be a run of the machine
        for i in range(5 if tier == "quick" else 120):
            for backend in ("sql", "kv"):
                ptrace.run_trace_session(report, drv, backend, rng, keys, i)
    finally:
        drv.close()


def replay(report, path):
    data = json.load(open(path))
    report.coverage["note"] = "replay re-runs the generators with the recorded seed; cases are deterministic per seed"
    run(report, "quick", data.get("seed", 1))
