"""
C10 — LMDB index coherence.  Tie: the real WriterThread (add / del tasks, replaceable and kind-5
branches, GC deletions, aborted tasks) on a real LMDB environment vs the Lean `taskBody`;
α = the whole key list after every task.  Search: the coherence predicate itself, evaluated on the
implementation's keyspace with an independent re-implementation of the documented key layout.
"""
import copy
import random

from lib import common, gen
from lib.kvimpl import KVImpl, model_event

THEOREMS_TIED = ["C10_coherent_applyTask", "C10_coherent_reachable", "C10_found_iff_stored"]


# ---- independent key layout (from the property statement / kv.py header comment) ------------------

def be4(n):
    return int(n).to_bytes(4, "big")


def expected_keys(ev):
    """all keys an event with these attributes must appear under (the *specification* of C10)"""
    i = bytes.fromhex(ev.id)
    ts = be4(ev.created_at)
    pk = bytes.fromhex(ev.pubkey)
    convs = [b"\x01" + ts, b"\x02" + be4(ev.kind), b"\x03" + pk, b"\x04" + pk + b"\x00" + be4(ev.kind)]
    for t in ev.tags:
        # indexable tag: single-letter name (or expiration / delegation) with a scalar value; a nested array or object has
        # no text form that survives storage (an array is a list when written and a tuple when read back, also inside an
        # object), so it is not an attribute
        if len(t) >= 2 and isinstance(t[0], str) and (len(t[0]) == 1 or t[0] in ("expiration", "delegation")) \
                and not isinstance(t[1], (list, tuple, dict)):
            convs.append(b"\x09" + t[0].encode() + b"\x00" + str(t[1]).encode())
    return {b"\x00" + i} | {c + b"\x00" + ts + b"\x00" + i for c in convs}


def coherence_violations(impl):
    keys = [bytes.fromhex(k) for k in impl.dump()]
    stored = impl.stored()
    want = {}
    for idhex, ev in stored.items():
        for k in expected_keys(ev):
            want[k] = idhex
    have = set(keys) - {b"\xee"}
    out = []
    for k in sorted(have - set(want)):
        out.append(("dangling", k.hex()))
    for k in sorted(set(want) - have):
        out.append(("missing", k.hex()))
    return out


# ---- histories -----------------------------------------------------------------------------------

def gen_history(rng, n):
    """list of ops: ("add", evdict) ("del", idhex) ("gc", now)"""
    ops, events = [], []
    for _ in range(n):
        r = rng.random()
        known = [e["id"] for e in events]
        if r < 0.50 or not events:
            e = gen.gen_event(rng, known_ids=known, authors=gen.AUTHORS[:4],
                              kinds=[0, 1, 3, 5, 7, 10002, 30000, 30001, 20000, 29999, 40000],
                              times=gen.TIMES[:9])
            if rng.random() < 0.12:
                # JSON numbers / booleans / null as the value of an indexable tag: indexed under their text form, which
                # must be the same when the record is read back (0.1 and 48.8566 are not exact in 32-bit floats)
                e["tags"] = e["tags"] + [[rng.choice(["v", "g", "x", "expiration"]),
                                          rng.choice([0.1, 48.8566, 1.5, 0.25, 7, 2 ** 40, True, None, 1e21, 1e-7, -0.0, 3.0])]]
            if rng.random() < 0.12:
                # scalars that compare equal in Python but are different JSON values with different text forms (1 / 1.0 / true,
                # 0 / 0.0 / -0.0 / false): under one tag name, in one event or in different events of the same process
                fam = rng.choice([[1, 1.0, True], [0, 0.0, -0.0, False], [7, 7.0]])
                name = rng.choice(["x", "x", "v"])
                e["tags"] = e["tags"] + [[name, v] for v in rng.sample(fam, rng.choice([1, 1, 2]))]
            events.append(e)
            ops.append(("add", e))
        elif r < 0.58:
            ops.append(("add", dict(rng.choice(events))))  # duplicate submission
        elif r < 0.72:
            # another version of a replaceable address
            base = rng.choice(events)
            e = dict(base)
            e["id"] = gen.mkid(rng)
            e["created_at"] = base["created_at"] + rng.choice([-1, 0, 1, 50]) or 1    # never 0: Event() replaces a falsy timestamp by now
            if rng.random() < 0.3:
                e["tags"] = gen.gen_tags(rng, ids=known)
            events.append(e)
            ops.append(("add", e))
        elif r < 0.86:
            # kind-5 deletion: own / foreign / unknown / malformed references
            tgt = rng.choice(events)
            refs = [tgt["id"]]
            if rng.random() < 0.4:
                refs.append(rng.choice(events)["id"])
            if rng.random() < 0.2:
                refs.append(gen.mkid(rng))
            tags = [["e", x] for x in refs]
            rr = rng.random()
            if rr < 0.08:
                tags.append(["e", "zz"])
            elif rr < 0.14:
                tags.append(["e"])
            elif rr < 0.2:
                tags.append(["e", tgt["id"][:-1]])
            e = {"id": gen.mkid(rng), "pubkey": tgt["pubkey"] if rng.random() < 0.7 else rng.choice(gen.AUTHORS[:4]),
                 "created_at": (tgt["created_at"] + rng.choice([-1, 0, 1, 2, 100])) or 1, "kind": 5, "tags": tags,
                 "content": "", "sig": "00" * 64}
            events.append(e)
            ops.append(("add", e))
        elif r < 0.92:
            ops.append(("del", rng.choice(known) if rng.random() < 0.8 else gen.mkid(rng)))
        elif r < 0.96:
            ops.append(("gc", rng.choice([gen.T0, gen.T0 + 1, 1700000001, 999, 17000000000])))
        else:
            # not storable: over-long key, out-of-range integers
            e = gen.gen_event(rng, known_ids=known, authors=gen.AUTHORS[:4])
            k = rng.random()
            if k < 0.4:
                e["tags"] = [["t", "x" * rng.choice([400, 462, 463, 464, 600])]] + e["tags"]
            elif k < 0.7:
                e["kind"] = rng.choice(gen.BIG_KINDS)
            else:
                e["created_at"] = rng.choice([2 ** 32, 2 ** 32 - 1, -5])
            events.append(e)
            ops.append(("add", e))
    return ops


def run_history(report, drv, impl, ops, tag):
    impl.reset()
    Event = impl.kv.Event
    lines, expect = [{"op": "kv.reset"}], ["ok"]
    in_model = True
    prefix = []
    for op in ops:
        prefix.append(op)
        if op[0] == "add":
            try:
                ev = Event(**op[1])
            except Exception:
                continue
            out = impl.task_outcome(("add", ev))
            me = model_event(op[1])
            if me is None:
                in_model = False
            if in_model:
                lines.append({"op": "kv.task", "task": {"t": "add", "ev": me}})
                expect.append(out)
        elif op[0] == "del":
            out = impl.task_outcome(("del", op[1]))
            if in_model:
                lines.append({"op": "kv.task", "task": {"t": "del", "id": op[1]}})
                expect.append(out)
        elif op[0] == "gc":
            ids = impl.gc_collect(op[1])
            if in_model:
                lines.append({"op": "kv.gc", "now": op[1]})
                expect.append(ids)
            for i in ids:
                impl.task_outcome(("del", i))
                if in_model:
                    lines.append({"op": "kv.task", "task": {"t": "del", "id": i}})
                    expect.append("ok")
        if in_model:
            lines.append({"op": "kv.dump"})
            expect.append(impl.dump())
        bad = coherence_violations(impl)
        if bad:
            cls = None
            report.property_failure("keyspace incoherent after %r: %r" % (op[0], bad[:3]),
                                    {"ops": jsonable(prefix)}, cls)
            break
    got = drv.batch(lines)
    for i, (g, e) in enumerate(zip(got, expect)):
        if g != e:
            report.correspondence_break("kv.WriterThread/KVGarbageCollector", {"ops": jsonable(ops), "line": lines[i]},
                                        summarize(e), summarize(g))
            break
    report.case((tag, repr(ops)), nontrivial=any(e == "abort" for e in expect if isinstance(e, str)) or len(ops) > 3,
                sample={"ops": [(o[0], (o[1]["kind"], o[1]["created_at"], len(o[1]["tags"])) if o[0] == "add" else o[1])
                                for o in ops[:6]]})
    report.count("tasks", len(ops))
    report.count("aborted_tasks", sum(1 for e in expect if e == "abort"))
    report.count("histories_outside_model_fragment", 0 if in_model else 1)


def summarize(x):
    if isinstance(x, list) and len(x) > 12:
        return {"n": len(x), "head": x[:6], "tail": x[-3:]}
    return x


def jsonable(ops):
    return [list(o) for o in ops]


NESTED_VALUES = [["n"], [], [["n"]], {"a": [1]}, {"a": 1}, {}, {"a": {"b": [1, [2]]}}, [{"a": [1]}], {"k": "v", "l": [True, None]}]


def nested_history(rng):
    """finding #14 and its sequel: tag values that are JSON arrays / objects (also objects holding arrays), under indexable
    names, next to scalar tags, removed by del, by a kind-5 deletion and by a replacement"""
    kind = rng.choice([1, 1, 10002, 30023])
    e = gen.gen_event(rng, authors=gen.AUTHORS[:1], kinds=[kind], times=[gen.T0])
    e["tags"] = [[rng.choice(["t", "e", "d", "expiration"]), copy.deepcopy(rng.choice(NESTED_VALUES))]
                 for _ in range(rng.choice([1, 1, 2, 3]))] + rng.choice([[], [["t", "plain"]]])
    how = rng.choice(["del", "kind5", "replace"])
    if how == "kind5" or (how == "replace" and kind == 1):
        d = gen.gen_event(rng, authors=gen.AUTHORS[:1], kinds=[5], times=[gen.T0 + 5])
        d["tags"] = [["e", e["id"]]]
        return [("add", e), ("add", d)]
    if how == "replace":
        n = gen.gen_event(rng, authors=gen.AUTHORS[:1], kinds=[kind], times=[gen.T0 + 5])
        n["tags"] = [t for t in copy.deepcopy(e["tags"]) if t[0] == "d"][:1]
        return [("add", e), ("add", n)]
    return [("add", e), ("del", e["id"])]


def run(report, tier, seed):
    rng = random.Random(seed)
    drv = common.Driver()
    impl = KVImpl()
    report.coverage["engine"] = impl.lmdb.ENGINE
    report.coverage["rule"] = (
        "histories of add / duplicate add / replaceable versions / kind-5 deletions (own, foreign, unknown, "
        "malformed refs) / del / GC pass (+ its queued deletions) / unstorable events (key > 511 bytes, out-of-range "
        "integers) over 4 authors, boundary kinds, timestamps and ids, tag values that are JSON numbers (incl. doubles that are "
        "not exact as 32-bit floats), booleans or null; after every task the full LMDB key list is "
        "compared with the Lean model and the coherence predicate is evaluated on the real keyspace; non-trivial = "
        "more than 3 tasks or an aborted transaction")
    report.assumptions += [
        "LMDB engine: %s (E2 = real liblmdb 0.9.31 through ctypes; E1 = pure-Python stand-in)" % impl.lmdb.ENGINE,
        "writer thread body run synchronously in the harness thread (same code, no concurrency)",
        "tag items that are not strings are outside the Lean model; such histories are checked by the oracle only",
    ]
    try:
        for e in report.known:
            r = common.load_finding_replay(e)
            run_history(report, drv, impl, [tuple(o) for o in r["ops"]], "finding:" + e["id"])
        n_hist, n_ops = (120, 14) if tier == "quick" else (2500, 20)
        for i in range(n_hist):
            run_history(report, drv, impl, gen_history(rng, n_ops), i)
        for i in range(3 if tier == "quick" else 30):
            for _ in range(12 if tier == "quick" else 200):
                run_history(report, drv, impl, nested_history(rng), "nested")
    finally:
        impl.close()
        drv.close()


def replay(report, path):
    import json

    data = json.load(open(path))
    drv = common.Driver()
    impl = KVImpl()
    try:
        for it in (data.get("violations") or []) + (data.get("correspondence_breaks") or []):
            r = it.get("replay") or it.get("input")
            run_history(report, drv, impl, [tuple(o) for o in r["ops"]], "replay")
    finally:
        impl.close()
        drv.close()
