"""
C10 — LMDB index coherence.  Tie: the real WriterThread (add / del tasks, replaceable and kind-5
branches, GC deletions, aborted tasks) on a real LMDB environment vs the Lean `taskBody`;
α = the whole key list after every task.  Search: the coherence predicate itself, evaluated on the
implementation's keyspace with an independent re-implementation of the documented key layout.
"""
import copy
import random

from lib import common, gen, hist
from lib.kvimpl import KVImpl, model_event

THEOREMS_TIED = ["C10_coherent_applyTask", "C10_coherent_reachable", "C10_found_iff_stored"]


# ---- independent key layout (from the property statement / kv.py header comment) ------------------

def be4(n):
    return int(n).to_bytes(4, "big")


def expected_keys(ev):
    """all keys an event with these attributes must appear under (the *specification* of C10)"""
    i = bytes.fromhex(ev.id)
    ts = be4(ev.created_at)
    pk = bytes.fromhex(ev.pubkey)
    convs = [b"\x01" + ts, b"\x02" + be4(ev.kind), b"\x03" + pk, b"\x04" + pk + b"\x00" + be4(ev.kind)]
    for t in ev.tags:
        # indexable tag: single-letter name (or expiration / delegation) with a scalar value; a nested array or object has
        # no text form that survives storage (an array is a list when written and a tuple when read back, also inside an
        # object), so it is not an attribute
        if len(t) >= 2 and isinstance(t[0], str) and (len(t[0]) == 1 or t[0] in ("expiration", "delegation")) \
                and not isinstance(t[1], (list, tuple, dict)):
            convs.append(b"\x09" + t[0].encode() + b"\x00" + str(t[1]).encode())
    return {b"\x00" + i} | {c + b"\x00" + ts + b"\x00" + i for c in convs}


def coherence_violations(impl):
    keys = [bytes.fromhex(k) for k in impl.dump()]
    stored = impl.stored()
    want = {}
    for idhex, ev in stored.items():
        for k in expected_keys(ev):
            want[k] = idhex
    have = set(keys) - {b"\xee"}
    out = []
    for k in sorted(have - set(want)):
        out.append(("dangling", k.hex()))
    for k in sorted(set(want) - have):
        out.append(("missing", k.hex()))
    return out


# ---- histories -----------------------------------------------------------------------------------

def gen_history(rng, n):
    """list of ops: ("add", evdict) ("del", idhex) ("gc", now)"""
    ops, events = [], []
    for _ in range(n):
        r = rng.random()
        known = [e["id"] for e in events]
        if r < 0.50 or not events:
            e = gen.gen_event(rng, known_ids=known, authors=gen.AUTHORS[:4],
                              kinds=[0, 1, 3, 5, 7, 10002, 30000, 30001, 20000, 29999, 40000],
                              times=gen.TIMES[:9])
            if rng.random() < 0.12:
                # JSON numbers / booleans / null as the value of an indexable tag: indexed under their text form, which
                # must be the same when the record is read back (0.1 and 48.8566 are not exact in 32-bit floats)
                e["tags"] = e["tags"] + [[rng.choice(["v", "g", "x", "expiration"]),
                                          rng.choice([0.1, 48.8566, 1.5, 0.25, 7, 2 ** 40, True, None, 1e21, 1e-7, -0.0, 3.0])]]
            if rng.random() < 0.12:
                # scalars that compare equal in Python but are different JSON values with different text forms (1 / 1.0 / true,
                # 0 / 0.0 / -0.0 / false): under one tag name, in one event or in different events of the same process
                fam = rng.choice([[1, 1.0, True], [0, 0.0, -0.0, False], [7, 7.0]])
                name = rng.choice(["x", "x", "v"])
                e["tags"] = e["tags"] + [[name, v] for v in rng.sample(fam, rng.choice([1, 1, 2]))]
            events.append(e)
            ops.append(("add", e))
        elif r < 0.58:
            ops.append(("add", dict(rng.choice(events))))  # duplicate submission
        elif r < 0.72:
            # another version of a replaceable address
            base = rng.choice(events)
            e = dict(base)
            e["id"] = gen.mkid(rng)
            e["created_at"] = base["created_at"] + rng.choice([-1, 0, 1, 50]) or 1    # never 0: Event() replaces a falsy timestamp by now
            if rng.random() < 0.3:
                e["tags"] = gen.gen_tags(rng, ids=known)
            events.append(e)
            ops.append(("add", e))
        elif r < 0.86:
            # kind-5 deletion: own / foreign / unknown / malformed references
            tgt = rng.choice(events)
            refs = [tgt["id"]]
            if rng.random() < 0.4:
                refs.append(rng.choice(events)["id"])
            if rng.random() < 0.2:
                refs.append(gen.mkid(rng))
            tags = [["e", x] for x in refs]
            rr = rng.random()
            if rr < 0.08:
                tags.append(["e", "zz"])
            elif rr < 0.14:
                tags.append(["e"])
            elif rr < 0.2:
                tags.append(["e", tgt["id"][:-1]])
            e = {"id": gen.mkid(rng), "pubkey": tgt["pubkey"] if rng.random() < 0.7 else rng.choice(gen.AUTHORS[:4]),
                 "created_at": (tgt["created_at"] + rng.choice([-1, 0, 1, 2, 100])) or 1, "kind": 5, "tags": tags,
                 "content": "", "sig": "00" * 64}
            events.append(e)
            ops.append(("add", e))
        elif r < 0.92:
            ops.append(("del", rng.choice(known) if rng.random() < 0.8 else gen.mkid(rng)))
        elif r < 0.96:
            ops.append(("gc", rng.choice([gen.T0, gen.T0 + 1, 1700000001, 999, 17000000000])))
        else:
            # not storable: over-long key, out-of-range integers
            e = gen.gen_event(rng, known_ids=known, authors=gen.AUTHORS[:4])
            k = rng.random()
            if k < 0.4:
                e["tags"] = [["t", "x" * rng.choice([400, 462, 463, 464, 600])]] + e["tags"]
            elif k < 0.7:
                e["kind"] = rng.choice(gen.BIG_KINDS)
            else:
                e["created_at"] = rng.choice([2 ** 32, 2 ** 32 - 1, -5])
            events.append(e)
            ops.append(("add", e))
    return ops


def run_history(report, drv, impl, ops, tag):
    impl.reset()
    Event = impl.kv.Event
    lines, expect = [{"op": "kv.reset"}], ["ok"]
    in_model = True
    prefix = []
    for op in ops:
        prefix.append(op)
        if op[0] == "add":
            try:
                ev = Event(**op[1])
            except Exception:
                continue
            out = impl.task_outcome(("add", ev))
            me = model_event(op[1])
            if me is None:
                in_model = False
            if in_model:
                lines.append({"op": "kv.task", "task": {"t": "add", "ev": me}})
                expect.append(out)
        elif op[0] == "del":
            out = impl.task_outcome(("del", op[1]))
            if in_model:
                lines.append({"op": "kv.task", "task": {"t": "del", "id": op[1]}})
                expect.append(out)
        elif op[0] == "gc":
            ids = impl.gc_collect(op[1])
            if in_model:
                lines.append({"op": "kv.gc", "now": op[1]})
                expect.append(ids)
            for i in ids:
                impl.task_outcome(("del", i))
                if in_model:
                    lines.append({"op": "kv.task", "task": {"t": "del", "id": i}})
                    expect.append("ok")
        if in_model:
            lines.append({"op": "kv.dump"})
            expect.append(impl.dump())
        bad = coherence_violations(impl)
        if bad:
            cls = None
            report.property_failure("keyspace incoherent after %r: %r" % (op[0], bad[:3]),
                                    {"ops": jsonable(prefix)}, cls)
            break
    got = drv.batch(lines)
    for i, (g, e) in enumerate(zip(got, expect)):
        if g != e:
            report.correspondence_break("kv.WriterThread/KVGarbageCollector", {"ops": jsonable(ops), "line": lines[i]},
                                        summarize(e), summarize(g))
            break
    report.case((tag, repr(ops)), nontrivial=any(e == "abort" for e in expect if isinstance(e, str)) or len(ops) > 3,
                sample={"ops": [(o[0], (o[1]["kind"], o[1]["created_at"], len(o[1]["tags"])) if o[0] == "add" else o[1])
                                for o in ops[:6]]})
    report.count("tasks", len(ops))
    report.count("aborted_tasks", sum(1 for e in expect if e == "abort"))
    report.count("histories_outside_model_fragment", 0 if in_model else 1)


def summarize(x):
    if isinstance(x, list) and len(x) > 12:
        return {"n": len(x), "head": x[:6], "tail": x[-3:]}
    return x


def jsonable(ops):
    return [list(o) for o in ops]


NESTED_VALUES = [["n"], [], [["n"]], {"a": [1]}, {"a": 1}, {}, {"a": {"b": [1, [2]]}}, [{"a": [1]}], {"k": "v", "l": [True, None]}]


def nested_history(rng):
    """finding #14 and its sequel: tag values that are JSON arrays / objects (also objects holding arrays), under indexable
    names, next to scalar tags, removed by del, by a kind-5 deletion and by a replacement"""
    kind = rng.choice([1, 1, 10002, 30023])
    e = gen.gen_event(rng, authors=gen.AUTHORS[:1], kinds=[kind], times=[gen.T0])
    e["tags"] = [[rng.choice(["t", "e", "d", "expiration"]), copy.deepcopy(rng.choice(NESTED_VALUES))]
                 for _ in range(rng.choice([1, 1, 2, 3]))] + rng.choice([[], [["t", "plain"]]])
    how = rng.choice(["del", "kind5", "replace"])
    if how == "kind5" or (how == "replace" and kind == 1):
        d = gen.gen_event(rng, authors=gen.AUTHORS[:1], kinds=[5], times=[gen.T0 + 5])
        d["tags"] = [["e", e["id"]]]
        return [("add", e), ("add", d)]
    if how == "replace":
        n = gen.gen_event(rng, authors=gen.AUTHORS[:1], kinds=[kind], times=[gen.T0 + 5])
        n["tags"] = [t for t in copy.deepcopy(e["tags"]) if t[0] == "d"][:1]
        return [("add", e), ("add", n)]
    return [("add", e), ("del", e["id"])]


# ---- queued bursts with LARGE events ----------------------------------------------------------------
#
# The histories above give the writer one task at a time.  In the relay the writer is a thread behind a queue: while it is busy
# (or waits for LMDB's single write lock, which other worker processes, the collector and bulk loads share) submissions pile up,
# and whatever a task leaves to be done *later* — by the writer itself or by anybody else — happens after the tasks that were
# already waiting.  C10 is about the keyspace the readers see once the writer is idle again, whatever was queued in between and
# whatever failed on the way.  This family therefore queues several operations back to back through the real storage API
# (add_event / delete_event / the collector) WITHOUT running the writer in between, lets the real writer loop run until its
# queue is empty, and evaluates the coherence predicate then.  The events at the centre are LARGE: NIP-01 puts no bound on the
# number of tags, contact lists (kind 3) and follow sets with hundreds or thousands of p tags are ordinary traffic, and
# everything that is per tag (index entries written, entries cleared, the size of the transaction) scales with that number —
# so any batching, chunking or deferral in the write path shows only there.  The sizes are a ladder over three orders of
# magnitude (30 … 3 000 tags in the quick tier, 10 000 in the thorough one), chosen from what clients publish and not from any
# constant in the code.

TAG_LADDER_QUICK = [30, 100, 300, 1000, 3000]
TAG_LADDER_THOROUGH = [30, 100, 300, 1000, 3000, 10000]
REMOVERS = ["replace", "replace-large", "kind5", "del", "gc", "chain", "none", "foreign-kind5", "older-version", "duplicate"]
REPLACEABLE = [0, 3, 3, 10002, 30000]


def large_tags(rng, n, profile):
    """n tags: a contact list (p tags with distinct 64-hex values, some with relay hint and petname), or a mixture of names —
    indexable single letters, multi-letter names that are not indexed, repeated tags, values shared between names"""
    tags = []
    base = rng.randrange(1 << 200)
    for i in range(n):
        if profile == "contacts":
            t = ["p", "%064x" % (base + i)]
            r = rng.random()
            if r < 0.1:
                t += ["wss://relay%d.example" % (i % 7)]
            elif r < 0.15:
                t += ["", "pet%d" % i]
        else:
            name = rng.choice(["p", "p", "e", "t", "a", "r", "g", "é", "relay", "client", "nonce", "emoji"])
            r = rng.random()
            if r < 0.45:
                t = [name, "%064x" % (base + i)]
            elif r < 0.9:
                t = [name, "%s%d" % (rng.choice(["v", "a", "ab", "é", ""]), i // rng.choice([1, 1, 2]))]   # some repeated
            elif r < 0.95:
                t = [name]
            else:
                t = [name, "x%d" % i, "extra"]
        tags.append(t)
    return tags


def _ev(rng, author, kind, ts, tags, content=""):
    return {"id": gen.mkid(rng), "pubkey": author, "created_at": ts, "kind": kind, "tags": tags, "content": content,
            "sig": "00" * 64}


def gen_burst(rng, n_tags, remover):
    """one scenario: {"groups": [{"ops": [...], "drain": "idle" | "once"}, ...]}.  The operations of a group are queued back to
    back; then the writer runs — until it is idle, or ("once") one pass over what was queued, after which the next group
    arrives while the writer may still have work of its own."""
    me, other = rng.sample(gen.AUTHORS[:4], 2)
    profile = rng.choice(["contacts", "contacts", "mixed"])
    t0 = gen.T0 + rng.choice([0, 1, 255, 65535])
    kind = rng.choice(REPLACEABLE) if remover in ("replace", "replace-large", "chain", "older-version") \
        else rng.choice(REPLACEABLE + [1, 1, 30023])
    tags = large_tags(rng, n_tags, profile)
    if kind >= 30000:
        tags.insert(rng.randrange(len(tags) + 1), ["d", rng.choice(["", "a", "list"])])
    if remover == "gc":
        tags.insert(rng.randrange(len(tags) + 1), ["expiration", str(gen.T0 - rng.choice([1, 100]))])
    elif rng.random() < 0.15:
        tags.append(["expiration", str(gen.T0 + 10 ** 6)])
    big = _ev(rng, me, kind, t0, tags, "v1")
    dtag = [t for t in tags if t[0] == "d"][:1]

    def bystander():
        b = gen.gen_event(rng, authors=[me, other], kinds=[1, 7, 1, 30000], times=[t0 - 1, t0, t0 + 1, t0 + 7])
        if rng.random() < 0.5:
            b["tags"] = b["tags"] + [list(rng.choice(tags))]       # files under a value of the large event too
        return b

    setup = []
    if rng.random() < 0.5:
        setup = [["add", bystander()] for _ in range(rng.choice([1, 2, 3]))]
        if kind != 1 and rng.random() < 0.5:
            setup.append(["add", _ev(rng, me, kind, t0 - 5, dtag + tags[:rng.choice([0, 2, 40])], "v0")])
    main, after = [["add", big]], []
    if remover == "replace":
        after = [["add", _ev(rng, me, kind, t0 + rng.choice([0, 1, 50]), dtag + tags[:rng.choice([0, 3])], "v2")]]
    elif remover == "replace-large":
        keep = rng.sample(tags, len(tags) // 2)
        after = [["add", _ev(rng, me, kind, t0 + rng.choice([1, 50]), dtag + [t for t in keep if t[0] != "d"]
                            + large_tags(rng, max(1, n_tags // 3), profile), "v2")]]
    elif remover == "chain":
        v2 = _ev(rng, me, kind, t0 + 1, dtag + large_tags(rng, max(1, n_tags // 2), profile) + tags[:5], "v2")
        v3 = _ev(rng, me, kind, t0 + 2, dtag + tags[:2], "v3")
        after = [["add", v2], ["add", v3]]
        if rng.random() < 0.5:
            after.insert(rng.choice([1, 2]), ["add", _ev(rng, me, 5, t0 + 3, [["e", v2["id"]], ["e", big["id"]]])])
    elif remover == "kind5":
        refs = [["e", big["id"]]] + ([["e", gen.mkid(rng)]] if rng.random() < 0.3 else [])
        after = [["add", _ev(rng, me, 5, t0 + rng.choice([1, 2, 100]), refs)]]
    elif remover == "foreign-kind5":
        after = [["add", _ev(rng, other, 5, t0 + 1, [["e", big["id"]]])]]
    elif remover == "del":
        after = [["del", big["id"]]]
    elif remover == "gc":
        after = [["gc", gen.T0]]
    elif remover == "older-version":
        after = [["add", _ev(rng, me, kind, t0 - 1, dtag + tags[:rng.choice([0, 3, 50])], "older")]]
    elif remover == "duplicate":
        after = [["add", dict(big)]] + ([["del", gen.mkid(rng)]] if rng.random() < 0.5 else [])
    for _ in range(rng.choice([0, 0, 1, 2])):
        after.insert(rng.randrange(len(after) + 1), ["add", bystander()])
    groups = []
    if setup:
        groups.append({"ops": setup, "drain": "idle"})
    shape = rng.random()
    if remover == "gc" or shape < 0.25:
        # the large event gets one pass of the writer (it is on disk when the collector / the next client comes), but the
        # writer is not known to be idle when the rest is queued
        groups.append({"ops": main, "drain": "once"})
        groups.append({"ops": after, "drain": "idle"})
    elif shape < 0.35 and after:
        # the remover arrives first (a deletion before its target, a newer version before the older one)
        groups.append({"ops": after + main, "drain": "idle"})
    else:
        groups.append({"ops": main + after, "drain": "idle"})
    if rng.random() < 0.3:
        groups.append({"ops": [["add", bystander()]] + ([["gc", gen.T0 + 5]] if rng.random() < 0.4 else []), "drain": "idle"})
    groups = [g for g in groups if g["ops"]]
    groups[-1]["drain"] = "idle"
    return {"case": "queued-burst", "remover": remover, "n_tags": n_tags, "groups": groups, "fault": None}


class BurstStore(hist.KVStore):
    """hist.KVStore whose reset() builds a new LMDBStorage / environment / writer on the SAME event loop: every scenario starts
    from a fresh storage object, and a hundred of them do not leave a hundred event loops (each with its self-pipe) behind"""

    def reset(self):
        import asyncio

        loop, orig = self.loop, asyncio.new_event_loop
        self.close()
        asyncio.new_event_loop = lambda: loop
        try:
            hist.KVStore.__init__(self, **self._args)
        finally:
            asyncio.new_event_loop = orig


class _View:
    """dump() / stored() of a hist.KVStore, for the coherence predicate"""

    def __init__(self, store):
        self.store = store

    def dump(self):
        return self.store.dump()

    def stored(self):
        kv, out = self.store.kv, {}
        with self.store.env.begin(buffers=True) as txn:
            for k, v in txn.cursor().iternext():
                k = bytes(k)
                if k[:1] == b"\x00":
                    out[k[1:].hex()] = kv.decode_event(kv.unpackb(bytes(v), use_list=False))
        return out


FAULT_EXC = {"mapfull": "MapFullError", "generic": "Error", "runtime": None}


def _drain(store, mode, stats):
    """run the real writer loop: one pass over what is queued ("once"), or passes until the queue is empty ("idle": what
    wait_for_writer waits for).  Returns whether the writer is idle."""
    for _ in range(64):
        try:
            store.quiesce()
        except hist.WriterDied:
            stats["died"] += 1          # (a writer loop that dies of a fault is C07's subject; the keyspace is still judged)
        if mode == "once" or store.writer.queue.empty():
            break
    return store.writer.queue.empty()


def run_burst(report, drv, store, scen, tag, model_budget=0):
    """One scenario on a fresh storage object; the coherence predicate is evaluated whenever the writer is idle after a group.
    Returns {"marks": [per group: number of engine mutations so far when its drain starts] + [total], "tasks": queued tasks,
    "failed": the property failed} so that the caller can place faults."""
    store.reset()
    lmdb = store.kv.lmdb
    view = _View(store)
    fault = scen.get("fault")
    stats = {"died": 0}
    lines, in_model = [{"op": "kv.reset"}], fault is None
    n_model_tags = 0
    marks, tasks, failed, idle = [], 0, False, True
    lmdb.FAULT, lmdb.BEGIN_FAULT = None, None
    lmdb.MUTATION_LOG = []
    try:
        for gi, group in enumerate(scen["groups"]):
            for op in group["ops"]:
                if op[0] == "add":
                    res = store.submit(op[1])
                    if res["ok"] and not (20000 <= op[1]["kind"] < 30000):
                        tasks += 1
                        me = model_event(op[1])
                        if me is None:
                            in_model = False
                        else:
                            n_model_tags += len(me["tags"])
                            lines.append({"op": "kv.task", "task": {"t": "add", "ev": me}})
                elif op[0] == "del":
                    store.run(store.storage.delete_event(op[1]))
                    tasks += 1
                    lines.append({"op": "kv.task", "task": {"t": "del", "id": op[1]}})
                elif op[0] == "gc":
                    # the real collector looks at what is committed now and queues its deletions behind what is waiting
                    queued, orig_del = [], store.storage.delete_event

                    async def recording(event_id, _orig=orig_del, _q=queued):
                        _q.append(event_id)
                        return await _orig(event_id)

                    kvmod, orig_time = store.kv, store.kv.time
                    kvmod.time = lambda now=op[1]: now
                    store.storage.delete_event = recording
                    try:
                        async def go():
                            with store.env.begin() as conn:
                                return await store.new_collector().collect(conn)
                        store.run(go())
                    finally:
                        kvmod.time = orig_time
                        del store.storage.delete_event
                    tasks += len(queued)
                    report.count("queued_burst_gc_deletions", len(queued))
                    lines += [{"op": "kv.task", "task": {"t": "del", "id": i}} for i in queued]
            marks.append(len(lmdb.MUTATION_LOG))
            if fault and fault["group"] == gi:
                exc = getattr(lmdb, FAULT_EXC[fault["exc"]]) if FAULT_EXC[fault["exc"]] else RuntimeError
                if fault["kind"] == "mutation":
                    lmdb.FAULT = {"countdown": fault["at"], "exc": exc}
                else:
                    lmdb.BEGIN_FAULT = {"countdown": fault["at"], "exc": exc}
            idle = _drain(store, group["drain"], stats)
            if idle and group["drain"] == "idle":
                bad = coherence_violations(view)
                if bad:
                    n_dang = sum(1 for b in bad if b[0] == "dangling")
                    report.property_failure(
                        "keyspace incoherent when the writer is idle again after a burst of %d queued operations around an event "
                        "with %d tags (%s%s): %d dangling index entries, %d entries missing; first: %r"
                        % (sum(len(g["ops"]) for g in scen["groups"][:gi + 1]), scen["n_tags"], scen["remover"],
                           ", fault %r" % (fault,) if fault else "", n_dang, len(bad) - n_dang, bad[:3]), scen, None)
                    failed = True
                    break
        marks.append(len(lmdb.MUTATION_LOG))
    finally:
        lmdb.FAULT, lmdb.BEGIN_FAULT, lmdb.MUTATION_LOG = None, None, None
    if not idle:
        report.count("queued_bursts_writer_not_idle_after_64_passes")
    if in_model and not failed and idle and n_model_tags <= model_budget:
        # the same tasks, one at a time, in the model (its store is a sorted list: a task with n entries costs n^2 — hence the budget)
        final = store.dump()
        got = drv.batch(lines + [{"op": "kv.dump"}])[-1]
        if got != final:
            report.correspondence_break("kv.WriterThread (queued burst)", scen, summarize(final), summarize(got))
        report.count("queued_bursts_tied_to_model")
    report.case(("burst", tag, scen["remover"], scen["n_tags"], repr(fault), repr([[o[0] for o in g["ops"]] for g in scen["groups"]])),
                nontrivial=True,
                sample={"case": "queued-burst", "remover": scen["remover"], "tags_of_large_event": scen["n_tags"], "fault": fault,
                        "groups": [[(o[0], (o[1]["kind"], len(o[1]["tags"])) if o[0] == "add" else o[1]) for o in g["ops"]] + [g["drain"]]
                                   for g in scen["groups"]]})
    report.count("queued_bursts")
    report.count("queued_burst_operations", sum(len(g["ops"]) for g in scen["groups"]))
    report.count("queued_burst_remover_" + scen["remover"])
    report.count("queued_burst_tags_%d" % scen["n_tags"])
    if fault:
        report.count("queued_burst_faults_" + fault["kind"])
    if stats["died"]:
        report.count("queued_burst_writer_loop_died", stats["died"])
    return {"marks": marks, "tasks": tasks, "failed": failed}


def burst_family(report, drv, store, rng, tier):
    ladder = TAG_LADDER_QUICK if tier == "quick" else TAG_LADDER_THOROUGH
    rounds = 1 if tier == "quick" else 6
    budget = 700 if tier == "quick" else 2500
    failures = 0
    for rnd in range(rounds):
        for remover in REMOVERS:
            for n_tags in ladder:
                if failures >= 3:       # (the replay of a large event is large: three failing inputs are enough)
                    return
                scen = gen_burst(rng, n_tags, remover)
                m = run_burst(report, drv, store, scen, (rnd, "plain"), model_budget=budget)
                if m["failed"]:
                    failures += 1
                    continue
                # the same burst with the engine failing once: at a mutation (put / delete) somewhere in the work that follows
                # the queueing of a group, or at the begin of one of the write transactions
                gi = rng.randrange(len(scen["groups"]))
                span = m["marks"][-1] - m["marks"][gi]
                picks = []
                if span > 0:
                    picks.append({"group": gi, "kind": "mutation", "at": rng.choice([1, span, rng.randint(1, span), rng.randint(1, span)]),
                                  "exc": rng.choice(sorted(FAULT_EXC))})
                picks.append({"group": gi, "kind": "begin", "at": rng.randint(1, m["tasks"] + 2), "exc": rng.choice(sorted(FAULT_EXC))})
                if tier == "quick":
                    picks = [rng.choice(picks)]
                for f in picks:
                    fs = dict(scen, fault=f)
                    if run_burst(report, drv, store, fs, (rnd, "fault"))["failed"]:
                        failures += 1


# ---- two threads: the event-loop thread works while the writer thread is in the middle of a task ------------------------
#
# Everything above runs the writer's body in the harness thread.  In the relay there are TWO threads that share module-level
# objects of kv.py (the INDEXES singletons, their key builders, the writer's pending set): the event-loop thread runs add_event
# (validation, check_storable — which computes every index key of the incoming event —, the duplicate look-up, the queueing),
# delete_event and the collector; the writer thread computes the keys again while it puts / deletes them one by one.  The engine
# releases the GIL inside every put / delete, so under load the event-loop thread routinely does a whole add_event between two
# mutations of one writer task.  C10 does not care: once the writer is idle the keyspace must be coherent, whatever the
# event-loop thread did in between.
#
# This family makes those interleavings deterministic and exhaustive in the place of the cut: the REAL writer thread is started,
# and parked (by the mutation hook of the LMDB layer; nothing of nostr_relay is replaced) immediately before its k-th put / delete
# of the task(s) under test; while it is parked the event-loop thread performs real storage-API calls — add_event of OTHER events
# that share tag names / values with the event(s) being written or cleared, of events with exactly the same tags, of the very same
# event, of a newer version / a kind-5 deletion of it, delete_event, a collector pass —; then the writer goes on, finishes, and
# what was queued meanwhile is written too.  For EVERY k of the task (a dry run counts the mutations), for plain writes,
# delete_event, replacement by a newer version, kind-5 deletion and collector deletions.  Events are small here (3-7 tags, a
# task is 8-30 mutations) so that every cut can be tried; size is the subject of the burst family above.

TT_PATHS = ["write", "del", "replace", "kind5", "gc"]
TT_POOL = [["t", "a"], ["t", "ab"], ["t", "b"], ["p", gen.AUTHORS[3]], ["p", gen.AUTHORS[1]], ["e", "00" * 31 + "07"], ["a", "a"],
           ["r", "wss://a"], ["t", "é"], ["g", "a"], ["delegation", "a"]]
TT_UNINDEXED = [["client", "a"], ["nonce", "1", "8"], ["t"], ["relay", "wss://a"]]


def _tt_tags(rng, n):
    tags = [list(t) for t in rng.sample(TT_POOL, n)]
    if rng.random() < 0.4:
        tags.insert(rng.randrange(len(tags) + 1), list(rng.choice(tags)))                  # a repeated tag
    if rng.random() < 0.5:
        tags.insert(rng.randrange(len(tags) + 1), list(rng.choice(TT_UNINDEXED)))
    if rng.random() < 0.3:
        tags.append(list(rng.choice(tags)) + ["wss://hint"])                               # same name / value, more items
    return tags


def gen_two_threads(rng, path):
    """{"setup": ops run to idle, "target": ops whose writer task(s) are cut, "shared": the tags of the events they touch}"""
    me, other = rng.sample(gen.AUTHORS[:4], 2)
    t0 = gen.T0 + rng.choice([0, 1, 255])
    kind = rng.choice([0, 3, 10002, 30000]) if path == "replace" else rng.choice([1, 1, 7, 3, 30000, 30023])
    tags = _tt_tags(rng, rng.randint(3, 6))
    if kind >= 30000:
        tags.insert(rng.randrange(len(tags) + 1), ["d", rng.choice(["", "a"])])
    if path == "gc":
        tags.insert(rng.randrange(len(tags) + 1), ["expiration", str(gen.T0 - rng.choice([1, 100]))])
    a = _ev(rng, me, kind, t0, tags, "A")
    dtag = [t for t in tags if t[0] == "d"][:1]
    setup = []
    if rng.random() < 0.6:
        # a bystander that is filed under some of the same values: its entries must survive whatever happens to A
        setup.append(["add", _ev(rng, other, 1, t0 + rng.choice([-1, 0, 1]), [list(t) for t in rng.sample(tags, 2)], "bystander")])
    shared = [list(t) for t in tags]
    if path == "write":
        target = [["add", a]]
    else:
        setup.append(["add", a])
        if path == "del":
            target = [["del", a["id"]]]
        elif path == "replace":
            keep = [list(t) for t in tags if t[0] != "d" and rng.random() < 0.6]
            new = dtag + keep + [t for t in _tt_tags(rng, rng.randint(1, 3)) if t not in keep]
            target = [["add", _ev(rng, me, kind, t0 + rng.choice([1, 50]), new, "A2")]]
            shared += [list(t) for t in new]
        elif path == "kind5":
            k5 = [["e", a["id"]]] + [list(t) for t in rng.sample(tags, 2) if t[0] != "e"]
            target = [["add", _ev(rng, me, 5, t0 + rng.choice([1, 100]), k5, "")]]
            shared += [list(t) for t in k5]
        else:
            target = [["gc", gen.T0]]
    return {"case": "two-threads", "path": path, "setup": setup, "target": target, "shared": shared, "subject": a,
            "park": None, "meanwhile": []}


def gen_meanwhile(rng, scen):
    """what the event-loop thread does while the writer is parked: 1-3 storage-API calls, most of them submissions of events
    that are filed under names / values of the event(s) the writer is busy with"""
    a, shared = scen["subject"], [t for t in scen["shared"] if len(t) >= 2]
    authors = gen.AUTHORS[:4]
    ops = []
    for _ in range(rng.choice([1, 1, 2, 3])):
        r = rng.random()
        ts = a["created_at"] + rng.choice([-1, 0, 1, 7])
        if r < 0.35:
            tags = [list(t) for t in rng.sample(shared, rng.randint(1, min(3, len(shared))))]
            if rng.random() < 0.3:
                tags += _tt_tags(rng, 1)
            ops.append(["add", _ev(rng, rng.choice(authors), rng.choice([1, 1, 7]), ts, tags, "B")])
        elif r < 0.5:
            ops.append(["add", _ev(rng, rng.choice(authors), 1, ts, [list(t) for t in a["tags"]], "same tags")])
        elif r < 0.65:
            ops.append(["add", dict(a)])                                                  # the very same event again
        elif r < 0.75:
            ops.append(["add", _ev(rng, a["pubkey"], a["kind"], a["created_at"] + 2,
                                   [t for t in a["tags"] if t[0] == "d"][:1] + [list(t) for t in rng.sample(shared, 1)], "newer")])
        elif r < 0.85:
            ops.append(["add", _ev(rng, a["pubkey"], 5, a["created_at"] + 3, [["e", a["id"]]] + [list(rng.choice(shared))])])
        elif r < 0.93:
            ops.append(["del", a["id"] if rng.random() < 0.7 else gen.mkid(rng)])
        else:
            ops.append(["gc", gen.T0])
    return ops


class _Park:
    """mutation hook of the LMDB layer: parks thread `who` immediately before its `at`-th put / delete (None: only counts)"""

    def __init__(self, orig, who, at):
        import threading

        self._current = threading.current_thread
        self.orig, self.who, self.at, self.seen = orig, who, at, 0
        self.reached, self.release = threading.Event(), threading.Event()
        self.where = None

    def __call__(self, op, key):
        if op in ("put", "delete") and self._current() is self.who:
            self.seen += 1
            if self.seen == self.at:
                self.where = (op, bytes(key).hex())
                self.reached.set()
                self.release.wait(120)
        return self.orig(op, key)


def _tt_queue(report, store, op, st):
    """one operation through the real storage API, on the event-loop thread (= the harness thread)"""
    if op[0] == "add":
        res = store.submit(op[1])
        if res["ok"] and not (20000 <= op[1]["kind"] < 30000):
            me = model_event(op[1])
            if me is None:
                st["in_model"] = False
            else:
                st["lines"].append({"op": "kv.task", "task": {"t": "add", "ev": me}})
    elif op[0] == "del":
        store.run(store.storage.delete_event(op[1]))
        st["lines"].append({"op": "kv.task", "task": {"t": "del", "id": op[1]}})
    elif op[0] == "gc":
        # the real collector looks at what is committed now and queues its deletions behind what is waiting
        queued, orig_del = [], store.storage.delete_event

        async def recording(event_id, _orig=orig_del, _q=queued):
            _q.append(event_id)
            return await _orig(event_id)

        kvmod, orig_time = store.kv, store.kv.time
        kvmod.time = lambda now=op[1]: now
        store.storage.delete_event = recording
        try:
            async def go():
                with store.env.begin() as conn:
                    return await store.new_collector().collect(conn)
            store.run(go())
        finally:
            kvmod.time = orig_time
            del store.storage.delete_event
        report.count("two_threads_gc_deletions", len(queued))
        st["lines"] += [{"op": "kv.task", "task": {"t": "del", "id": i}} for i in queued]


def run_two_threads(report, drv, store, scen, tag):
    """One interleaving on a fresh storage object.  Returns {"mutations": put / delete calls of the writer THREAD, "failed"}."""
    import threading

    store.reset()
    lmdb = store.kv.lmdb
    view = _View(store)
    st = {"lines": [{"op": "kv.reset"}], "in_model": True}
    stats = {"died": 0}
    for op in scen["setup"]:
        _tt_queue(report, store, op, st)
    _drain(store, "idle", stats)                      # (setup: the writer's body in this thread, as everywhere above)
    writer = store.writer
    park = _Park(lmdb._mutation_hook, writer, scen["park"])
    lmdb._mutation_hook = park
    try:
        for op in scen["target"]:
            _tt_queue(report, store, op, st)
        writer.queue.put(None)                        # the thread ends when the task(s) under test are done ...
        writer.running = True
        threading.Thread.start(writer)                # ... the REAL writer thread (hist.KVStore leaves it unstarted)
        while not park.reached.wait(0.001) and writer.is_alive():
            pass
        parked = park.reached.is_set()
        if parked:
            # the writer thread sits inside its task, before the k-th mutation; the event loop goes on serving clients
            for op in scen["meanwhile"]:
                _tt_queue(report, store, op, st)
        park.release.set()
        writer.join(120)
        if writer.is_alive():
            raise RuntimeError("two-threads scenario: the writer thread did not finish")
        if not parked:
            for op in scen["meanwhile"]:              # (dry run / cut beyond the end of the task: plainly afterwards)
                _tt_queue(report, store, op, st)
    finally:
        park.release.set()
        lmdb._mutation_hook = park.orig
    idle = _drain(store, "idle", stats)               # ... and what was queued meanwhile is written by the same loop
    failed = False
    bad = coherence_violations(view) if idle else []
    if bad:
        n_dang = sum(1 for b in bad if b[0] == "dangling")
        report.property_failure(
            "keyspace incoherent when the writer is idle again: the event-loop thread performed %r (add_event / delete_event / "
            "collector of the real storage) while the writer THREAD was parked before mutation %r (%r) of the task(s) %r [%s]; "
            "%d dangling index entries, %d entries missing; first: %r"
            % ([o[0] for o in scen["meanwhile"]], scen["park"], park.where, [o[0] for o in scen["target"]], scen["path"],
               n_dang, len(bad) - n_dang, bad[:3]), scen, None)
        failed = True
    if not idle:
        report.count("two_threads_writer_not_idle_after_64_passes")
    if st["in_model"] and idle and not failed:
        # the tasks in the order of the queue, one at a time, in the model
        final = store.dump()
        got = drv.batch(st["lines"] + [{"op": "kv.dump"}])[-1]
        if got != final:
            report.correspondence_break("kv.WriterThread (real thread, event loop active inside a task)", scen,
                                        summarize(final), summarize(got))
        report.count("two_threads_tied_to_model")
    report.case(("two-threads", tag, scen["path"], scen["park"], repr(scen["target"]), repr(scen["meanwhile"])),
                nontrivial=parked,
                sample={"case": "two-threads", "path": scen["path"], "writer_parked_before_mutation": scen["park"],
                        "at": park.where, "tags_of_subject": len(scen["subject"]["tags"]),
                        "meanwhile": [(o[0], (o[1]["kind"], len(o[1]["tags"])) if o[0] == "add" else o[1]) for o in scen["meanwhile"]]})
    report.count("two_threads_interleavings" if parked else "two_threads_sequential_runs")
    report.count("two_threads_path_" + scen["path"], 1 if parked else 0)
    if parked:
        report.count("two_threads_parked_in_" + park.where[0])
        report.count("two_threads_meanwhile_operations", len(scen["meanwhile"]))
    if stats["died"]:
        report.count("two_threads_writer_loop_died", stats["died"])
    return {"mutations": park.seen, "failed": failed}


def two_threads_family(report, drv, store, rng, tier):
    rounds = 4 if tier == "quick" else 40          # (an interleaving costs a few milliseconds: 4 x 5 tasks x every cut is ~300 runs)
    failures = 0
    for rnd in range(rounds):
        for path in TT_PATHS:
            scen = gen_two_threads(rng, path)
            dry = run_two_threads(report, drv, store, dict(scen, meanwhile=gen_meanwhile(rng, scen)), (rnd, "dry"))
            if dry["failed"]:
                failures += 1
                continue
            for k in range(1, dry["mutations"] + 1):
                if failures >= 3:
                    return
                s = dict(scen, park=k, meanwhile=gen_meanwhile(rng, scen))
                if run_two_threads(report, drv, store, s, (rnd, k))["failed"]:
                    failures += 1


def run(report, tier, seed):
    rng = random.Random(seed)
    drv = common.Driver()
    impl = KVImpl()
    report.coverage["engine"] = impl.lmdb.ENGINE
    report.coverage["rule"] = (
        "histories of add / duplicate add / replaceable versions / kind-5 deletions (own, foreign, unknown, "
        "malformed refs) / del / GC pass (+ its queued deletions) / unstorable events (key > 511 bytes, out-of-range "
        "integers) over 4 authors, boundary kinds, timestamps and ids, tag values that are JSON numbers (incl. doubles that are "
        "not exact as 32-bit floats), booleans or null; after every task the full LMDB key list is "
        "compared with the Lean model and the coherence predicate is evaluated on the real keyspace; non-trivial = "
        "more than 3 tasks or an aborted transaction.  Queued bursts (real LMDBStorage, real writer loop): an event with "
        "30 / 100 / 300 / 1000 / 3000 tags (thorough: 10000; contact lists and mixed tag names) is queued together with what removes "
        "it or not — a newer version (small / large), a chain of versions, a kind-5 deletion (own / foreign), delete_event, the "
        "collector, an older version, a duplicate — and bystanders, back to back without the writer running in between (also: the "
        "writer gets one pass between two groups, the remover queued first), each also with one engine fault at a sampled mutation "
        "or at the begin of a write transaction; the writer loop runs until its queue is empty and the coherence predicate is "
        "evaluated then; fault-free bursts of up to 700 tags (thorough 2500) are also compared with the model applying the same tasks "
        "one at a time.  Two threads: the REAL writer thread is parked before its k-th put / delete, for every k, of a write, a "
        "delete_event, a replacement by a newer version, a kind-5 deletion and the collector's deletions of an event with 3-7 tags, "
        "while the event-loop thread runs add_event (other events sharing tag names / values, the same tags, the very same event, "
        "a newer version, a kind-5 deletion) / delete_event / the collector; the coherence predicate is evaluated when the writer "
        "is idle again and the final key list is compared with the model applying the queued tasks one at a time")
    report.assumptions += [
        "LMDB engine: %s (E2 = real liblmdb 0.9.31 through ctypes; E1 = pure-Python stand-in)" % impl.lmdb.ENGINE,
        "writer thread body run synchronously in the harness thread (same code, no concurrency), except in the two-threads family: "
        "there the real WriterThread is started, and the interleaving with the event-loop thread is fixed by parking it inside "
        "the LMDB layer's put / delete (where the engine releases the GIL)",
        "queued bursts: 'the writer does not run between two submissions' is produced by not running the (unstarted) writer's loop "
        "until the group is queued; the order of the queue is what a busy writer / a held write lock gives",
        "tag items that are not strings are outside the Lean model; such histories are checked by the oracle only",
    ]
    try:
        for e in report.known:
            r = common.load_finding_replay(e)
            run_history(report, drv, impl, [tuple(o) for o in r["ops"]], "finding:" + e["id"])
        n_hist, n_ops = (120, 14) if tier == "quick" else (2500, 20)
        for i in range(n_hist):
            run_history(report, drv, impl, gen_history(rng, n_ops), i)
        for i in range(3 if tier == "quick" else 30):
            for _ in range(12 if tier == "quick" else 200):
                run_history(report, drv, impl, nested_history(rng), "nested")
        store = BurstStore()
        try:
            burst_family(report, drv, store, rng, tier)
            two_threads_family(report, drv, store, rng, tier)
        finally:
            store.close()
    finally:
        impl.close()
        drv.close()


def replay(report, path):
    import json

    data = json.load(open(path))
    drv = common.Driver()
    impl = KVImpl()
    try:
        for it in (data.get("violations") or []) + (data.get("correspondence_breaks") or []):
            r = it.get("replay") or it.get("input")
            if r.get("case") in ("queued-burst", "two-threads"):
                store = BurstStore()
                try:
                    if r["case"] == "two-threads":
                        run_two_threads(report, drv, store, r, "replay")
                    else:
                        run_burst(report, drv, store, r, "replay", model_budget=700)
                finally:
                    store.close()
                continue
            run_history(report, drv, impl, [tuple(o) for o in r["ops"]], "replay")
    finally:
        impl.close()
        drv.close()
